#!/bin/bash
# usage: tools/benigntest.sh <patch>  -- apply a harmless change to /repo, run every quick check, undo; prints the alarms raised
patch=$1
cd /repo || exit 2
if ! git diff --quiet; then echo "/repo has local changes"; exit 2; fi
git apply "$patch" || { echo "patch does not apply"; exit 2; }
# the evidence files are rewritten by every check: keep the ones of the unchanged tree
rm -rf /verif/work/evidence.saved; cp -r /verif/evidence /verif/work/evidence.saved
cd /verif
n=0
# BENIGN_PROPS="C01 C06 .." restricts the run to the named checks (after a change that touches only those)
for p in ${BENIGN_PROPS:-$(python3 -c "import json; print(' '.join(c['property_id'] for c in json.load(open('MANIFEST.json'))['checks']))")}; do
  out=$(./check $p 2>&1 | grep -E "VIOLATION" | cut -c1-300)
  if [ -n "$out" ]; then echo "[$p] $out"; n=$((n+1)); fi
done
echo "alarms: $n"
cd /repo && git checkout -- . && git clean -fdq && git status --short | head -3
rm -rf /verif/evidence; mv /verif/work/evidence.saved /verif/evidence
