#!/bin/bash
# regression: every kept seeded change against the checks of its own property (and any others named in meta.json)
cd /verif
for d in seeded/*/; do
  id=$(basename $d)
  prop=$(python3 -c "import json; print(json.load(open('$d/meta.json'))['breaks_property'])")
  out=$(tools/seedtest.sh /verif/$d/patch.diff $prop 2>&1 | grep -E "VIOLATION|no alarm|does not apply|local changes" | cut -c1-400)
  echo "$id -> $out"
done
