"""Per-property case plans (which generators, how many, which sub-spaces exhaustively) and
post-analyses that need more than one case (metamorphic pairs, repeated runs)."""
import itertools
import os
import re
import random
import subprocess

import gen
import runner

QUICK_N = 4000
THOROUGH_N = 80000


def corpus():
    path = os.path.join(runner.ROOT, "tools", "corpus.tsv")
    out = []
    if os.path.exists(path):
        for k, line in enumerate(open(path)):
            line = line.rstrip("\n")
            if not line or line.startswith("#"):
                continue
            parts = line.split("\t")
            while len(parts) < 5:
                parts.append("")
            out.append(tuple(["corpus%d_%s" % (k, parts[0])] + parts[1:5]))
    return out


def repo_corpus():
    """every entrait invocation found in the repository's own tests, examples, doc comments and README
    (extracted with syn by the harness from the working tree on every run), under the plain variant and
    the variant the `unimock` cargo feature selects"""
    import glob
    import subprocess
    files = []
    for pat in ("tests/**/*.rs", "examples/**/*.rs", "src/**/*.rs", "entrait_macros/src/**/*.rs", "README.md"):
        files += sorted(glob.glob(os.path.join(runner.REPO, pat), recursive=True))
    files = [f for f in files if "/target/" not in f]
    os.makedirs(runner.WORK, exist_ok=True)
    out = os.path.join(runner.WORK, "repo_corpus.tsv")
    exe = os.path.join(runner.HARNESS, "target", "debug", "entrait_verif_harness")
    try:
        subprocess.run([exe, "extract", out] + files, check=True, timeout=120, stdout=subprocess.DEVNULL, stderr=subprocess.DEVNULL)
    except Exception:
        return []
    cases = []
    feature = {"plain": "unimock", "export": "export_unimock"}
    for k, line in enumerate(open(out)):
        parts = line.rstrip("\n").split("\t")
        if len(parts) < 4:
            continue
        kind, variant, attr, item = parts[0], parts[1], parts[2], parts[3]
        cases.append(("repo%d_%s" % (k, kind), variant, attr, item, ""))
        if variant in feature:
            cases.append(("repo%df_%s" % (k, kind), feature[variant], attr, item, ""))
    return cases


# ------------------------------------------------------------------------------------------------
# focused generators
# ------------------------------------------------------------------------------------------------
C16_ALPHABET = [
    lambda k: ("a%d" % k, "i32"), lambda k: ("mut b%d" % k, "i32"), lambda k: ("ref c%d" % k, "i32"),
    lambda k: ("r#type", "u8") if k == 0 else ("r#t%d" % k, "u8"), lambda k: ("_", "u8"),
    lambda k: ("(d%d, e%d)" % (k, k), "(i32, i32)"), lambda k: ("N(g%d)" % k, "N"),
    lambda k: ("N(h%d, _)" % k, "N"), lambda k: ("S { k%d }" % k, "S"), lambda k: ("&m%d" % k, "&u8"),
    lambda k: ("foo", "u8"), lambda k: ("arg1", "u8"),
    # raw identifiers where a generated or renamed name could collide with them
    lambda k: ("N(r#arg%d)" % (k + 1), "N"), lambda k: ("N(r#arg%d)" % (k - 1 if k > 0 else 1), "N"),
    lambda k: ("N(r#foo_)", "N"), lambda k: ("r#foo", "u8"),
]


def c16_lists(max_len):
    cases = []
    n = 0
    for ln in range(0, max_len + 1):
        for combo in itertools.product(range(len(C16_ALPHABET)), repeat=ln):
            params = ", ".join("%s: %s" % C16_ALPHABET[c](k) for k, c in enumerate(combo))
            sep = ", " if params else ""
            item = "fn foo<D>(deps: &D%s%s) { }" % (sep, params)
            cases.append(("x%d_fn" % n, "plain", "Foo", item, ""))
            n += 1
    return cases


def c10_lattice():
    items = {
        "fn": "fn foo<D>(deps: &D, a: u8) -> u8 { a }",
        "mod": "mod m { pub fn foo<D>(deps: &D, a: u8) -> u8 { a } pub fn bar(deps: &impl A) {} }",
        "trait": "trait Tr { fn m(&self, a: u8) -> u8; }",
    }
    cases = []
    n = 0
    tri = [None, "true", "false"]
    for kind, item in items.items():
        for v in gen.VARIANTS:
            for u in tri:
                for api in [None, "FooMock"]:
                    for ma in tri:
                        for ex in (tri if kind != "trait" else [None]):
                            opts = []
                            if u is not None:
                                opts.append("unimock = " + u)
                            if api:
                                opts.append("mock_api = " + api)
                            if ma is not None:
                                opts.append("mockall = " + ma)
                            if ex is not None:
                                opts.append("export = " + ex)
                            attr = ", ".join((["Foo"] if kind != "trait" else []) + opts)
                            cases.append(("l%d_%s" % (n, kind), v, attr, item, ""))
                            n += 1
    # plus delegation-target traits: their generated `TraitImpl` must never carry mock derivations
    for v in gen.VARIANTS:
        for u in tri:
            for ma in tri:
                opts = ["FooImpl", "delegate_by = ref"]
                if u is not None:
                    opts.append("unimock = " + u)
                if ma is not None:
                    opts.append("mockall = " + ma)
                cases.append(("l%d_trait" % n, v, ", ".join(opts), items["trait"], ""))
                n += 1
    return cases


def c13_lattice():
    cases = []
    n = 0
    for tv in ["", "pub ", "pub(crate) ", "pub(super) ", "pub(in crate::a) ", "pub(self) ", "pub(in super) ", "pub(in self) ",
               "pub(in super::super) ", "pub(in super::x) ", "pub(in ::a) "]:
        for fv in ["", "pub ", "pub(crate) ", "pub(super) ", "pub(in crate::a::b) "]:
            cases.append(("v%d_fn" % n, "plain", tv + "Foo", fv + "fn foo<D>(d: &D) {}", ""))
            cases.append(("v%d_mod" % (n + 1), "plain", tv + "Foo", fv + "mod m { pub fn foo<D>(d: &D) {} }", ""))
            n += 2
    for tv in ["", "pub ", "pub(crate) ", "pub(super) "]:
        for iv in ["", "pub ", "pub(crate) "]:
            for d in ["delegate_by = D", "delegate_by = ref"]:
                cases.append(("v%d_trait" % n, "plain", iv + "FooImpl, " + d, tv + "trait Tr { fn m(&self); }", ""))
                n += 1
    return cases


BOOL_OPTS = ["no_deps", "export", "unimock", "mockall"]


def c17_pairs(seed, n):
    """metamorphic pairs (id ends in .a / .b): both members must expand to the same tokens"""
    g = gen.Gen(seed * 7 + 17)
    r = g.r
    cases = []
    pairs = []
    k = 0
    while len(pairs) < n:
        kind = r.choice(["fn", "fn", "mod", "trait"])
        if kind == "fn":
            item, no_deps = g.fn_item()
            keys = ["export", "unimock", "mockall", "send", "mock_api"] + (["no_deps"] if no_deps or r.random() < 0.2 else [])
            head = [r.choice(gen.TRAIT_VIS) + r.choice(gen.TRAIT_NAMES)]
            need_no_deps = no_deps
        elif kind == "mod":
            v_, attr_, item = g.case_mod()
            head = [attr_.split(",")[0]]
            need_no_deps = "no_deps" in attr_ and "no_deps = false" not in attr_
            keys = ["export", "unimock", "mockall", "send", "mock_api"]
        else:
            v_, attr_, item = g.case_trait()
            head = []
            need_no_deps = False
            keys = ["unimock", "mockall", "send", "mock_api", "delegate"]
        chosen = [x for x in keys if r.random() < 0.5]
        if need_no_deps and "no_deps" not in chosen:
            chosen.append("no_deps")
        vals = {}
        for key in chosen:
            if key in BOOL_OPTS:
                vals[key] = True if (key == "no_deps" and need_no_deps) else r.choice([True, True, False])
        def render(key, style):
            if key == "send":
                return "?Send"
            if key == "mock_api":
                return "mock_api = FooMock"
            if key == "delegate":
                return "delegate_by = ref"
            if vals[key]:
                return key if style == "bare" else key + " = true"
            return key + " = false"
        variant = r.choice(gen.VARIANTS)
        rel = r.choice(["bare", "omit_false", "perm", "shorthand"])
        a_opts = [render(x, "bare") for x in chosen]
        b_opts = list(a_opts)
        va, vb = variant, variant
        if rel == "bare":
            b_opts = [render(x, "eq") for x in chosen]
        elif rel == "omit_false":
            # `no_deps = false` / `export = false` are the same as leaving them out - before the
            # macro variant's defaults apply, so this relation is checked on the plain variant
            va = vb = "plain" if "export" in chosen else variant
            b_opts = [o for o in a_opts if o not in ("no_deps = false", "export = false")]
        elif rel == "perm":
            b_opts = list(a_opts)
            r.shuffle(b_opts)
        elif rel == "shorthand":
            # macro variant V == plain macro with the options V implies, unless written explicitly
            va = r.choice(["export", "unimock", "export_unimock"])
            vb = "plain"
            adds = []
            if va in ("export", "export_unimock") and "export" not in chosen:
                if kind == "trait":
                    continue        # `export` is not an option of trait targets
                adds.append("export")
            if va in ("unimock", "export_unimock") and "unimock" not in chosen:
                adds.append("unimock")
            b_opts = a_opts + adds
        a = ", ".join(head + a_opts)
        b = ", ".join(head + b_opts)
        pid = "p%d" % k
        k += 1
        cases.append((pid + ".a_" + kind, va, a, item, "pair=" + rel))
        cases.append((pid + ".b_" + kind, vb, b, item, "pair=" + rel))
        pairs.append((pid, kind, rel))
    return cases, pairs


# documented option table (src/lib.rs): option -> targets
DOC_TABLE = {
    "no_deps": {"fn"},
    "export": {"fn", "mod"},
    "mock_api = M": {"fn", "mod", "trait"},
    "unimock": {"fn", "mod", "trait"},
    "mockall": {"fn", "mod", "trait"},
    "delegate_by = ref": {"trait"},
    "?Send": {"fn", "mod", "trait"},
}
def doc_table_from_source():
    """the option table of the crate documentation, parsed from /repo/src/lib.rs on every run:
    option name -> set of targets.  `DOC_TABLE` above (and `C17.documented` in Lean) are its
    transcription; a difference means the documentation changed and the transcription is stale."""
    import re
    try:
        text = open(os.path.join(runner.REPO, "src", "lib.rs")).read()
    except OSError:
        return None
    out = {}
    for line in text.splitlines():
        m = re.match(r"\s*///\s*\|\s*`([^`]+)`\s*\|[^|]*\|([^|]*)\|", line)
        if m and m.group(1) in ("no_deps", "export", "mock_api", "unimock", "mockall", "delegate_by", "?Send"):
            out[m.group(1)] = set(re.findall(r"`(fn|mod|trait|impl)`", m.group(2)))
    return out


def doc_table_transcribed():
    return {k.split(" ")[0]: v for k, v in DOC_TABLE.items()}


TARGET_ITEMS = {
    "fn": ("Foo", "fn foo<D>(d: &D) {}", "fn foo() {}"),
    "mod": ("Foo", "mod m { pub fn foo<D>(d: &D) {} }", "mod m { pub fn foo() {} }"),
    "trait": ("", "trait Tr { fn m(&self); }", "trait Tr { fn m(&self); }"),
    "impl": ("", "impl TrImpl for X { fn m<D>(d: &D) {} }", "impl TrImpl for X { fn m<D>(d: &D) {} }"),
}


def c17_table():
    cases = []
    for opt, targets in DOC_TABLE.items():
        for target, (head, item, item_nodeps) in TARGET_ITEMS.items():
            for form in ([opt] if "=" in opt or opt.startswith("?") else [opt, opt + " = true", opt + " = false"]):
                attr = ", ".join([x for x in [head, form] if x])
                it = item_nodeps if opt == "no_deps" and not form.endswith("false") else item
                exp = "accept" if target in targets else "reject"
                cases.append(("t_%s_%s_%s_%s" % (opt.split(" ")[0].replace("?", "q"), form.count("=") and form.split("= ")[-1] or "bare", exp, target),
                              "plain", attr, it, "expect=" + exp))
    for bogus in ["bogus", "Unimock", "nodeps", "?Sync", "export_mocks = true"]:
        for target, (head, item, _) in TARGET_ITEMS.items():
            attr = ", ".join([x for x in [head, bogus] if x])
            cases.append(("t_bogus%d_reject_%s" % (len(cases), target), "plain", attr, item, "expect=reject"))
    return cases


def c15_matrix():
    """documented misuses, each at several places of its input, so that *where* the diagnostic points is exercised"""
    cases = [(cid.replace("t_", "u_", 1), v, a, it, "") for cid, v, a, it, _ in c17_table()]
    n = 0
    lead = {"fn": ["debug = false", "?Send"], "mod": ["debug = false", "?Send"], "trait": ["debug = false", "?Send"], "impl": ["debug = false"]}
    for opt in DOC_TABLE:
        for target, (head, item, item_nodeps) in TARGET_ITEMS.items():
            forms = [opt] if "=" in opt or opt.startswith("?") else [opt, opt + " = true", opt + " = false"]
            for form in forms:
                for k in (1, 2):
                    pre = lead[target][:k]
                    if target == "impl" and k == 2:
                        continue
                    if any(p.split(" ")[0] == form.split(" ")[0] for p in pre):
                        continue
                    attr = ", ".join([x for x in [head] + pre + [form] if x])
                    it = item_nodeps if opt == "no_deps" and not form.endswith("false") else item
                    cases.append(("um%d_%s" % (n, target), "plain", attr, it, ""))
                    n += 1
    bad = {
        "norecv": "fn bad()", "selfrecv": "fn bad(&self, a: u8)", "selfattr": "fn bad(#[a] self: Box<Self>)",
        "qself": "fn bad(d: &<App as Q>::T)", "leadcolon": "fn bad(d: & &'static mut ::app::App)",
        "concrete": "fn bad(#[x] App(y): &app::App, z: u8)", "concrete2": "fn bad<T>(d: &(u8, T)) -> T",
    }
    good = ["fn g0<D>(d: &D) {}", "fn g1(d: &impl A) -> u8 { 1 }"]
    for name, sig in bad.items():
        cases.append(("us_%s_fn" % name, "plain", "pub(crate) Foo", "#[inline] pub %s {}" % sig, ""))
        for pos in range(3):
            fns = ["pub " + g for g in good]
            fns.insert(min(pos, len(fns)), "#[doc = \"x\"] pub(crate) %s {}" % sig)
            cases.append(("us_%s%d_mod" % (name, pos), "plain", "Foo", "#[a] pub mod m { fn private() {} %s struct S; }" % " ".join(fns), ""))
            ifns = list(good)
            ifns.insert(min(pos, len(ifns)), "#[doc = \"x\"] %s {}" % sig)
            cases.append(("us_%s%d_impl" % (name, pos), "plain", "ref" if pos == 1 else "", "#[a] impl q::TrImpl<u8> for X<'static> { const C: u8 = 1; %s }" % " ".join(ifns), ""))
    for members in ["fn a(&self); const X: u8;", "const X: u8 = 1; fn a(&self);", "type T; fn a(&self); #[x] mac!{} fn b(&self);"]:
        for attr in ["", "debug = false", "TrImpl, delegate_by = ref"]:
            cases.append(("ut%d_trait" % n, "plain", attr, "#[doc = \"t\"] pub unsafe trait Tr<T: A>: B where T: C { %s }" % members, ""))
            n += 1
    for attr in ["delegate_by = Custom", "debug = false, delegate_by = Custom", "delegate_by = ref, ?Send, delegate_by = Custom",
                 "TrImpl", "pub TrImpl", "TrImpl, delegate_by = Self", "TrImpl, debug = false", "TrImpl delegate_by = Custom, export"]:
        cases.append(("ud%d_trait" % n, "plain", attr, "trait Tr { fn a(&self); }", ""))
        n += 1
    cases.append(("uu_mod", "plain", "Foo", "#[a] pub(crate) unsafe mod m { pub fn f<D>(d: &D) {} }", ""))
    return cases


# ------------------------------------------------------------------------------------------------
# plans
# ------------------------------------------------------------------------------------------------
def plan(prop, tier, seed):
    n = QUICK_N if tier == "quick" else THOROUGH_N
    g = gen.Gen(seed)
    cases = corpus() + repo_corpus()
    rule = ("Inputs are Rust text: the hand-written corpus (README examples, regressions) and every entrait invocation "
            "extracted from the repository's own tests, examples, doc comments and README first, then %d cases "
            "from the seeded grammar of fn / mod / trait / impl-block invocations (tools/gen.py) with all "
            "four macro variants and random option sets, plus a malformed stream.") % n
    exhaustive = False
    weights = None
    pl = {}
    if prop == "C16":
        max_len = 3 if tier == "quick" else 4
        lists = c16_lists(max_len)
        cases += lists
        rule += " Exhaustive: every parameter-pattern list up to length %d over the property's 12-letter alphabet extended by 4 raw-identifier collision letters (%d lists)." % (max_len, len(lists))
        exhaustive = True
        weights = {"fn": 6, "mod": 3, "trait": 2, "impl": 2, "malformed": 1}
    elif prop == "C10":
        lat = c10_lattice()
        cases += lat
        rule += " Exhaustive: the full option lattice {4 variants}x{unimock}x{mock_api}x{mockall}x{export} on fn, mod and trait inputs and on delegation-target traits (%d points)." % len(lat)
        exhaustive = True
    elif prop == "C13":
        lat = c13_lattice()
        cases += lat
        rule += " Exhaustive: requested trait visibility x item visibility on fn / mod / trait inputs (%d points)." % len(lat)
        exhaustive = True
    elif prop == "C17":
        pairs_cases, pairs = c17_pairs(seed, 600 if tier == "quick" else 12000)
        table = c17_table()
        cases += pairs_cases + table
        pl["pairs"] = pairs
        rule += " Metamorphic pairs (%d): bare vs `= true`, `= false` vs omitted, permuted option order, macro variant vs explicit option; the documented option table (%d single-option probes on fn, mod, trait, impl)." % (len(pairs), len(table))
    elif prop == "C15":
        weights = {"fn": 2, "mod": 2, "trait": 2, "impl": 2, "malformed": 8}
        mat = c15_matrix()
        cases += mat
        rule += (" The misuse matrix (%d cases): every option in every form on every target (documented or not), each "
                 "preceded by 0-2 accepted options, and every signature-level misuse at function positions 0-2 of a "
                 "module / impl block; each diagnostic is compared by message and by the leaf range it points at.") % len(mat)
    elif prop == "C08":
        weights = {"fn": 0, "mod": 10, "trait": 0, "impl": 0, "malformed": 1}
    elif prop in ("C06", "C09"):
        weights = {"fn": 1, "mod": 1, "trait": 10, "impl": 1, "malformed": 1}
    elif prop == "C07":
        weights = {"fn": 1, "mod": 1, "trait": 6, "impl": 6, "malformed": 1}
    elif prop in ("C01", "C03", "C04", "C05", "C11", "C12"):
        weights = {"fn": 6, "mod": 4, "trait": 1, "impl": 2, "malformed": 1}
    cases += g.mix(n, weights)
    pl.update({"cases": cases, "rule": rule, "exhaustive": exhaustive})
    return pl


# ------------------------------------------------------------------------------------------------
# C20: ambient inputs of the expanding process
# ------------------------------------------------------------------------------------------------
ENV_CALL = re.compile(r'(?:env::var(?:_os)?|option_env!|env!)\s*\(\s*"([^"]+)"')


def ensure_shim():
    src = os.path.join(runner.ROOT, "tools", "shim", "ambient_shim.c")
    so = os.path.join(runner.ROOT, "work", "ambient_shim.so")
    if not os.path.exists(so) or os.path.getmtime(so) < os.path.getmtime(src):
        os.makedirs(os.path.dirname(so), exist_ok=True)
        p = subprocess.run(["cc", "-shared", "-fPIC", "-O1", "-o", so, src, "-ldl"], stdout=subprocess.PIPE, stderr=subprocess.STDOUT, text=True)
        if p.returncode != 0:
            return None
    return so


def env_names_in_source():
    names = set()
    for root in (os.path.join(runner.REPO, "entrait_macros", "src"), os.path.join(runner.REPO, "src")):
        for d, _, fs in os.walk(root):
            for f in fs:
                if f.endswith(".rs"):
                    names.update(ENV_CALL.findall(open(os.path.join(d, f), errors="replace").read()))
    return names


def ambient_audit(lines, base, workdir, tier):
    """Runs the corpus again in processes whose ambient inputs are observed (getenv log) and perturbed
    (every variable the process reads or the source names set / unset; wall clock and monotonic clock
    shifted; process id changed) and compares every expansion with the base run."""
    exe = os.path.join(runner.HARNESS, "target", "debug", "entrait_verif_harness")
    tsv = os.path.join(workdir, "ambient.tsv")
    open(tsv, "w").write("\n".join(lines) + "\n")
    info = {"shim": False, "env_read": [], "env_named_in_source": sorted(env_names_in_source()), "runs": []}
    failing = []
    so = ensure_shim()

    def run(tag, extra, drop=()):
        out = os.path.join(workdir, "ambient_%s.cases" % tag)
        env = dict(os.environ)
        for k in drop:
            env.pop(k, None)
        env.update(extra)
        if so:
            env["LD_PRELOAD"] = so
        subprocess.run([exe, tsv, out, "8"], check=True, env=env, cwd=workdir, stdout=subprocess.DEVNULL)
        other = load_real(out)
        info["runs"].append(tag)
        for cid, rp in base.items():
            if other.get(cid) != rp:
                return cid
        return None

    names = set(info["env_named_in_source"])
    if so:
        info["shim"] = True
        log = os.path.join(workdir, "ambient_env.log")
        if os.path.exists(log):
            os.remove(log)
        bad = run("observe", {"ENTRAIT_VERIF_ENVLOG": log})
        if bad:
            failing.append((bad, "expansion differs when the process is merely observed (LD_PRELOAD shim)"))
        read = sorted(set(open(log).read().split())) if os.path.exists(log) else []
        info["env_read"] = read
        names.update(read)
        bad = run("clock_pid", {"ENTRAIT_VERIF_TIME_SHIFT": "333333333", "ENTRAIT_VERIF_PID_XOR": "21845"})
        if bad:
            failing.append((bad, "expansion depends on the clock or the process id (clock shifted by 333333333 s, pid xor 21845)"))
    for n in sorted(names):
        if n.startswith("ENTRAIT_VERIF_") or n in ("LD_PRELOAD",):
            continue
        bad = run("set_" + n, {n: "1"})
        if bad:
            failing.append((bad, "expansion depends on the environment variable %s (set to 1 vs %s)" % (n, "its value in the base run" if n in os.environ else "unset")))
        if n in os.environ:
            bad = run("unset_" + n, {}, drop=(n,))
            if bad:
                failing.append((bad, "expansion depends on the environment variable %s (unset vs set)" % n))
    return {"info": info, "failing": failing}


# ------------------------------------------------------------------------------------------------
# post analyses
# ------------------------------------------------------------------------------------------------
def real_part(line):
    """the real macro's answer inside a case line (`[ok [T ..] ..` / `[diag ..` / `[panic ..`)"""
    for tag in (" [ok [T", " [diag [L", " [panic s:"):
        k = line.rfind(tag)
        if k >= 0:
            end = line.find(" [rout", k)
            return line[k:end] if end > 0 else line[k:]
    return ""


def load_real(cases_file):
    out = {}
    for line in open(cases_file):
        if line.startswith("[case n:"):
            cid = line[8:line.index(" ", 8)]
            out[cid] = real_part(line)
    return out


def post(prop, tier, seed, plan_, results, cases_file, workdir, stats):
    res = {"failing": [], "kbreak": [], "known": [], "coverage": {}}
    known = runner.load_known()
    open_classes = {k["class"]: k for k in known.get("open", []) if k["property"] == prop}
    if prop == "C15":
        n_bad = 0
        for cid, d in results.items():
            t = d.get("C15", "")
            if len(t) == 3 and t[2] == "0":
                n_bad += 1
                why = "macro panicked" if d.get("real") == "panic" else (
                    "generated tokens do not parse" if d.get("parsed") == "0" else
                    "documented misuse not rejected with its message at its offending tokens (diagnostic points at %s, the model's at %s)" % (d.get("rloc", "?"), d.get("mloc", "?")))
                res["failing"].append((cid, why))
        stats["c15_bad"] = n_bad
        msgs = {}
        for d in results.values():
            if d.get("real") == "diag" and d.get("msg"):
                try:
                    m = bytes.fromhex(d["msg"]).decode()[:60]
                except ValueError:
                    m = "?"
                msgs[m] = msgs.get(m, 0) + 1
        res["coverage"]["diagnostics_hit"] = msgs
        # where the diagnostics point: compared leaf ranges (model's `diagLocus` vs the span of the real error)
        loci = {"compared": 0, "equal": 0, "call": 0, "attr": 0, "item": 0}
        for d in results.values():
            if d.get("model") == "diag" and d.get("real") == "diag" and d.get("mloc", "-") != "-" and d.get("rloc", "-") != "-":
                loci["compared"] += 1
                loci["equal"] += 1 if d["mloc"] == d["rloc"] else 0
                loci[d["mloc"].split(":")[0]] = loci.get(d["mloc"].split(":")[0], 0) + 1
        res["coverage"]["diagnostic_locations"] = loci
    if prop == "C17":
        real = load_real(cases_file)
        checked = 0
        for pid, kind, rel in plan_.get("pairs", []):
            a, b = "%s.a_%s" % (pid, kind), "%s.b_%s" % (pid, kind)
            if a in real and b in real:
                checked += 1
                if real[a] != real[b]:
                    res["failing"].append((b, "metamorphic pair (%s) expands differently from %s" % (rel, a)))
        seen_known = set()
        table_n = 0
        for cid, d in results.items():
            if not cid.startswith("t_"):
                continue
            table_n += 1
            want = "reject" if "_reject_" in cid else "accept"
            got = "accept" if d.get("real") == "ok" else "reject"
            if want != got:
                cls = None
                if cid.startswith("t_no_deps") and cid.endswith("_mod"):
                    cls = "C17.no_deps_on_mod"
                if cls and cls in open_classes:
                    if cls not in seen_known:
                        seen_known.add(cls)
                        res["known"].append("KNOWN-FINDING: property=C17 %s: %s (case %s)" % (cls, open_classes[cls]["what"], cid))
                else:
                    res["failing"].append((cid, "option table: expected %s, macro %ss" % (want, got)))
        res["coverage"]["pairs_checked"] = checked
        res["coverage"]["table_probes"] = table_n
    if prop == "C20":
        # same inputs, other processes: different thread counts, shuffled order
        import json
        lines = [l.rstrip("\n") for l in open(os.path.join(workdir, "main.tsv"))]
        base = load_real(cases_file)
        runs = 0
        for k, threads in enumerate([1, 5, 16] if tier == "quick" else [1, 3, 7, 16, 16]):
            r = random.Random(seed * 31 + k)
            shuffled = list(lines)
            r.shuffle(shuffled)
            tsv = os.path.join(workdir, "rerun%d.tsv" % k)
            open(tsv, "w").write("\n".join(shuffled) + "\n")
            out = os.path.join(workdir, "rerun%d.cases" % k)
            env = dict(os.environ)
            env["RUST_MIN_STACK"] = str(8 << 20 + k)
            env["ENTRAIT_NOISE_%d" % k] = "x" * (k + 1)
            subprocess.run([os.path.join(runner.HARNESS, "target", "debug", "entrait_verif_harness"), tsv, out, str(threads)],
                           check=True, env=env, cwd=workdir if k % 2 else runner.ROOT, stdout=subprocess.DEVNULL)
            other = load_real(out)
            runs += 1
            for cid, rp in base.items():
                if other.get(cid) != rp:
                    res["failing"].append((cid, "expansion differs between processes (run %d, %d threads, shuffled order)" % (k, threads)))
                    break
        res["coverage"]["reruns"] = runs
        # ambient inputs: which environment variables does the expanding process read, and does the
        # expansion change with them, with the wall clock or with the process id?
        amb = ambient_audit(lines, base, workdir, tier)
        res["coverage"]["ambient"] = amb["info"]
        for cid, why in amb["failing"]:
            res["failing"].append((cid, why))
        # rustc side: the same programs expanded by two separate compiler processes
        import probes
        bins = ["p_c03_sigs", "p_c16_patterns"] if tier == "quick" else \
            [b for b in probes.all_bins() if b.startswith("p_")]
        diffs, info = probes.expand_twice(bins, workdir)
        res["coverage"]["rustc_expansions"] = info
        for b, why, src in diffs:
            res["failing"].append(("probe:" + b, why))
        res["coverage"]["histories"] = "each rerun is a fresh process expanding the same corpus in a different order on a different number of threads"
    return res
