#!/usr/bin/env python3
"""Writes /verif/MANIFEST.json from lean/EntraitProofs/THEOREMS.json and the table below.
A property is claimed once its theorem module exists and is registered."""
import json
import os

ROOT = os.path.dirname(os.path.dirname(os.path.abspath(__file__)))
THEOREMS = json.load(open(os.path.join(ROOT, "lean", "EntraitProofs", "THEOREMS.json")))

COMMON_NOTE = (
    "Trusted base: Lean 4.33.0 kernel (axioms of every theorem audited on each run: subset of propext, Classical.choice, "
    "Quot.sound; no native_decide, no sorry); the hand-written Lean model of entrait_macros (lean/EntraitModel) outside the sampled "
    "inputs; the correspondence machinery (harness encoder syn->model AST, validated per case by a print round-trip; the syn "
    "re-parser of the real output; build.rs rewrite of lib.rs so the working tree's macro runs in-process under proc_macro2's "
    "fallback; spans and punct spacing are not compared); syn/quote/proc-macro2 as pinned in Cargo.lock. rustc's own judgement "
    "(type/borrow checking, auto traits, hygiene) and the third-party macros reached from the output are modelled only as far "
    "as the predicate states. ")

# id -> (text, note, technique, design_ref)
TABLE = {
    "C01": ("Lean theorem T_C01: for every fn / mod input the model accepts, every generated method's body is exactly the call "
            "`f([self,] p1, .., pn)[.await]` of the function with the method's own name, with `self` first (unless no_deps), the "
            "method's parameter identifiers in declared order, pairwise distinct and different from f, awaited iff the source fn is "
            "async; one method per source fn, in order. The same predicate is evaluated on the real macro's output and the "
            "method signatures/bodies of real and model output are compared on every generated case.",
            "Not covered: macro hygiene (spans) of forwarded identifiers and the run-time meaning of the call are rustc's; the predicate is about tokens.",
            "Lean 4 theorem over a model of the expander + differential correspondence against the real macro", "3/C01"),
    "C02": ("Lean theorem T_C02: the rendered expansion of an fn input is the printed input followed by generated items; for a "
            "module it is the header, then a brace group holding the split items' tokens followed by generated items, then generated "
            "items; the splitter lemma shows the split items' tokens concatenate to the module body (under the checked oracle "
            "condition); for an impl block the inherent block's body is the input body. On the real side the harness checks the "
            "token prefix property directly.",
            "Inputs on which syn's own printer is not the identity (empty `<>`, `T:` without bounds) are excluded by the decidable, per-case checked hypothesis synStable.",
            "Lean 4 theorem (token-level append-only + splitter concatenation lemma) + real-output prefix check", "3/C02"),
    "C03": ("Lean theorem T_C03 (under the decidable validity hypotheses identsOk and genericsOk): every generated method - trait declaration and delegating definition - has the source function's parameter types after the dependency token for token, the receiver the dependency parameter prescribes, the source's lifetime parameters, qualifiers, variadic, asyncness and return type; every where-predicate that is not a bound on the dependency's own type parameter stays in scope on the method; the trait declares exactly the lifted type/const parameters of the source functions (liftedParams) and the impl names them in order; T_C03_full / T_C03_closed (hypothesis lifetimesOk): the where clause of the generated trait names no lifetime that is not in scope there (a predicate that talks about a lifetime parameter of the function stays on the method only), and the impl adds nothing to it but the predicate with the dependency bounds. The rustc half (the expansion compiles, incl. borrow checking of results borrowed from the dependency or arguments) is sampled by the compile-and-run probe p_c03_sigs.",
            "partial: 'compiles' is rustc's judgement. Known findings C03.dupgeneric and C03.ltbound (each also a kernel-checked witness theorem) tolerated only inside their classes.",
            'Lean 4 theorem on call-type identity and generic scoping + differential correspondence + rustc compile-and-run probe', "3/C03"),
    "C04": ("Lean theorem T_C04: the generated impl's own type parameter carries exactly Sync [+ Send iff some function takes the "
            "dependency by value] + 'static, its `Self:` predicate carries exactly the multiset of bounds declared on the dependency "
            "parameter (inline, where-clause, impl-trait, over all functions), every other predicate is a where-predicate the user wrote, "
            "and the self type is Impl<T> iff the invocation is mockable. T_C04_iff / T_C04_sem: over an abstract trait solver, the impl applies to an "
            "application type iff it meets the fixed requirement and every declared dependency bound (sameMultiset proved to be a permutation).",
            "The trait solver is modelled as the conjunction of the written bounds.",
            "Lean 4 theorem on the impl header + differential correspondence", "3/C04"),
    "C05": ("Lean theorem T_C05: for a concrete dependency the trait carries exactly one nested `::entrait::entrait(unimock = false, "
            "mockall = false)` attribute and the impl is for the concrete type itself; T_C05_full: the leaf trait is final (its async methods "
            "already have the future type and Send-ness C12 prescribes, since the nested invocation does not see `?Send`); T_C05_two_stage: the "
            "generated trait fed back into the model is accepted under every variant, forwards Impl<T> to T: Trait (P_C06) and derives no mock; T_C05_sem: there the bounds on T hold iff T satisfies the leaf trait; "
            "the harness runs the same second stage on the real macro (nested cases).",
            "Second stage emulates the compiler's attribute expansion order (unimock derivation above, cfg_attr resolved).",
            "Lean 4 theorem + two-stage differential correspondence", "3/C05"),
    "C06": ("Lean theorem T_C06: for an entraited trait without delegation-target trait, the Impl<T> impl has the trait's generics, "
            "every method has the source signature (up to parameter names) and its body is the forwarding call of the selected shape "
            "(self.as_ref()[.as_ref()|.borrow()].m(args)[.await]) with the parameter identifiers in order; T's bounds are the provider "
            "plus only Sync/'static. T_C06_iff / T_C06_sem: over an abstract trait solver, given the fixed requirement the bounds on T hold iff T "
            "satisfies the provider bound selected by delegate_by.",
            "The extra `Send` for async traits delegated by reference was a finding (C06.send) and is repaired (0be7903).",
            "Lean 4 theorem + differential correspondence", "3/C06"),
    "C07": ("Lean theorem T_C07: trait side - the delegation-target trait has `EntraitT` prepended to the generics, `: 'static`, "
            "receiver rewritten to / followed by `__impl`, the selector trait is `pub trait D<T> { type Target: I<T>; }`, and every "
            "Impl<T> method body is `<EntraitT::Target as I<EntraitT>>::m(self, args)` resp. the `AsRef<dyn I<EntraitT>>` form; "
            "impl-block side - `impl<EntraitT..> Path<EntraitT, ..> for X where Impl<EntraitT>: deps` with bodies `Self::m(__impl, args)`. "
            "C07Sem.T_C07_sem / T_C07_view: over an abstract world of user impls (which Target an application selects, which block a type has), "
            "where clause, selector trait and bodies agree on D and I, and every method of the Impl<T> impl reaches the block the application selected.",
            "Trait selection (`T::Target`, `dyn` coercion) itself is rustc's.",
            "Lean 4 theorem + differential correspondence", "3/C07"),
    "C08": ('Lean theorems T_C08 / classify_fn / splitBody_print: the generated trait and impl have exactly one method per body entry the splitter classifies as a function, named like it, in source order; an entry is a function iff (after its outer attributes) it has a non-empty visibility, the following tokens look like a fn header, a signature parses there and is not followed by `;`; entries are contiguous slices of the top-level token trees of the body, so nothing inside a delimited group is looked at; the trait is named as requested, has visibility visFromInside(requested) and `vis use m::Trait;` follows the module. The generator additionally knows by construction which entries are visible functions (ground truth); importability from the parent for every visibility form is compiled by rustc in the probe p_c08_mod_visibility.',
            "The splitter's syn::Signature oracle is supplied by the harness and checked per case.",
            'Lean 4 theorem + generator-side ground truth + differential correspondence + rustc probe', "3/C08"),
    "C09": ("Lean theorem T_C09 (partial): name, visibility, generics, supertraits, where clause and every method (attributes and "
            "signature, modulo the documented async rewrite) of an entraited trait are re-emitted unchanged and only mock "
            "derivations are added.",
            "Known findings C09.unsafe / C09.default / C09.assoc (dropped by the macro; kernel-checked witness theorems) are tolerated only inside their class predicates; every attribute of the trait is kept (attrs_kept, since fix 58615e0).",
            "Lean 4 theorem + differential correspondence", "3/C09"),
    "C10": ("Lean theorem T_C10: for every item and every option set and macro variant, the mock derivations on the generated or "
            "re-emitted trait are exactly: unimock iff enabled (and mock_api given for fn/mod), automock iff mockall = true, each "
            "wrapped in cfg_attr(test, ..) iff not exporting; delegation-target traits carry none. T_C10_sem reads this as what a build contains: "
            "a non-exporting invocation has no active mock derivation in a non-test build; in a test build, and for an exporting invocation "
            "in every build, exactly the enabled ones are active. The whole lattice is also enumerated against the real macro.",
            "The facade mapping (cargo feature -> macro variant) in src/lib.rs is read on every run and executed by the feature-on / feature-off probes.",
            "Lean 4 theorem + exhaustive lattice enumeration against the real macro", "3/C10"),
    "C11": ("Lean theorem T_C11: when the unimock derivation is emitted its arguments are exactly prefix=::entrait::__unimock, "
            "api=[Name] / api=Name iff mock_api, and unmock_with=[..] with one entry per method in order: `f`, `_` or `f(params)`. "
            "C11Sem.T_C11_sem: under unimock's documented reading of unmock_with entries, the un-mocked call of a method is the very call the "
            "delegating impl makes (the source function, self first iff it takes the dependency, the parameters in order).",
            "unimock's own contract (entry i pairs with method i) is read from its source, not verified.",
            "Lean 4 theorem + differential correspondence", "3/C11"),
    "C12": ("Lean theorem T_C12: without async_trait, an async source method is declared non-async returning "
            "`impl ::core::future::Future<Output = R> [+ ::core::marker::Send]` (Send iff ?Send absent, R = () if omitted) while the "
            "impl keeps `async fn .. -> R` and awaits; with async_trait the signature is unchanged and the attribute is re-applied "
            "to trait(s) and impl. C12Sem.T_C12_sem / T_C12_view: the declared return type demands Send of the future iff ?Send was not given, so "
            "under ?Send every implementation is accepted whatever its future is, by default exactly those whose future is Send.",
            "Whether a particular future is Send is rustc's auto-trait inference.",
            "Lean 4 theorem + differential correspondence", "3/C12"),
    "C13": ("Lean theorem T_C13: fn input - the trait's visibility tokens are exactly the requested ones (none if none), independent of the fn's own; mod input - visFromInside(requested): pub(super) if none, pub / crate-rooted unchanged, a restriction relative to the attribute's place re-based one level (lemma moduleVis_eq); trait input - re-emitted trait and delegation-target trait carry the source trait's visibility. Exhaustive requested x item visibility lattice against the real macro; privacy itself is checked by rustc in 1 positive and 2 must-not-compile probes.",
            "Privacy checking of the tokens is rustc's (sampled by probes).",
            'Lean 4 theorem + exhaustive visibility lattice against the real macro + rustc privacy probes', "3/C13"),
    "C14": ("Lean theorem T_C14: unless dynamic dispatch was requested (delegate_by = ref/Borrow, #[entrait(ref)], async_trait) every delegating body is exactly one direct call, optionally awaited - f(self, ..), Self::f(__impl, ..), self.as_ref().m(..) or <EntraitT::Target as I<EntraitT>>::m(self, ..) -, the macro's type parameter carries only ::core::marker::Sync / Send / 'static, and the impl is for EntraitT, ::entrait::Impl<EntraitT> or the user's own type; with T_C12 (async declared as `-> impl Future`, never boxed). Allocation counts are measured by a counting global allocator in the probe p_c12_c14_async_alloc (direct call vs call through the trait, sync and async).",
            "partial: allocation behaviour of compiled code is rustc's; sampled by the probe.",
            'Lean 4 theorem (exact call shapes) + differential correspondence + counting-allocator probe', "3/C14"),
    "C15": ("Lean theorem T_C15: the model never reaches a panic site, for all attribute token lists and all items; documented "
            "misuses map to their messages (T_C15_misuse) *and to the tokens to blame* (T_C15_at: message and leaf range of the diagnostic are "
            "one of the listed (misuse, place) pairs; T_C15_where + At.slice: every item-side place is a slice of the item holding exactly "
            "the offending tokens - the function's name, its receiver, the dependency type proper, the unsupported trait member, the `unsafe` "
            "of an unsafe mod; T_C15_attr_where_fn/_trait/_impl: an attribute-side place is one identifier leaf of the argument list, the word the unknown-option message quotes or the keyword of the unsupported option); no listed misuse => the model expands (T_C15_accepts). On the real side every case runs under catch_unwind, "
            "the generated region is re-parsed, a malformed-input stream and the misuse matrix are included; the leaf range each real "
            "diagnostic points at (span-locations) is compared with the model's, and rustc's own primary spans are checked by the probe "
            "n_c15_locations (20 located diagnostics).",
            "Inputs syn itself rejects are outside the model; they are covered by the search only.",
            "Lean 4 theorem (panic-freedom of the model) + fuzzing of the real macro", "3/C15"),
    "C16": ("Lean theorem T_C16: for all parameter pattern lists the generated method declares plain identifiers, pairwise distinct "
            "(given distinct source bindings), never the function's own name; a plain binding keeps its name, a pattern with one "
            "binding takes it. Exhaustive enumeration of pattern lists over the property's alphabet against the real macro.",
            "char::is_lowercase is modelled for ASCII.",
            "Lean 4 theorem by induction over the parameter list + exhaustive enumeration", "3/C16"),
    "C17": ("Lean theorems T_C17_*: bare option = `= true`; `= false` of no_deps/export = omitted; permutation invariance for distinct "
            "keys; variant = plain + implied options; acceptance table. Metamorphic pairs and the documented option table are run "
            "against the real macro.",
            "Known finding C17.no_deps_on_mod.",
            "Lean 4 theorems on the option parser + metamorphic testing of the real macro", "3/C17"),
    "C18": ("Lean theorem T_C18: in fn / mod / impl modes generated traits carry only entrait-owned attributes plus re-applied "
            "async_trait/automock, impls only async_trait, parameters none; the method generated for a function of a module / impl "
            "block carries exactly that function's cfg attributes (a disabled function takes its trait method and delegating method "
            "with it), a single function's method none; in trait mode delegating methods mirror the source method's attributes. "
            "That rustc then drops the method is exercised by the probe p_c18_cfg_fns.",
            "cfg evaluation itself is rustc's (sampled by the probe).",
            "Lean 4 theorem + differential correspondence", "3/C18"),
    "C19": ("Lean theorem T_C19: the bounds on the macro's type parameter are absolute paths or 'static; the self type is EntraitT, ::entrait::Impl<EntraitT> or the user's; what the macro requires of T in trait mode is an absolute path or one of the user's own trait names; every delegating body is one of the recognised call shapes (which name only the callee, the method's parameters, self/Self/__impl/EntraitT and ::core paths); rewritten return types are the absolute impl ::core::future::Future form (from T_C12). C19Sem.T_C19_sem / T_C19_view: over an abstract resolution environment (bare names resolved at the invocation site, `::name` in the crate graph) every bound the macro writes on EntraitT resolves identically under any two scopes, and what is required of T in trait mode depends on the scope only through the names the user chose. Name resolution in a hostile scope (user items called Impl, Send, Sync, Future, AsRef, core, std, entrait, ...) is exercised with rustc by the probe p_c19_capture.",
            "partial: that an absolute path cannot be captured is rustc's name resolution (sampled by the probe). Reserved names: EntraitT, __impl.",
            'Lean 4 theorem (absolute-path predicates) + differential correspondence + rustc name-capture probe', "3/C19"),
    "C20": ("The model's expand is a total Lean function of (variant, attribute, item) - no other input exists on the model side. Lean theorems T_C20_set_irrelevant / T_C20_fixParams_any_order / firstFree_least: the only hash-seeded structure of the implementation, the HashSet of reserved parameter names, is used through membership only (any enumeration of the set gives the same generated parameters) and the fuel-bounded search loops of the model equal the implementation's unbounded loops. That the implementation agrees with this function in fresh processes, with 1-16 threads, shuffled invocation order and perturbed environment is checked on every run (token equality against the model and between re-runs).",
            "Process-level nondeterminism outside the macro (rustc's proc-macro server) is not exercised; the in-process engine and the re-runs are.",
            'Lean 4 theorem (set-representation independence) + token-level correspondence + re-runs across processes/threads/orders', "3/C20"),
}


def write_roots():
    """library root files importing every module (needed by `lake build` of the whole library)"""
    for lib in ("EntraitModel", "EntraitProofs"):
        d = os.path.join(ROOT, "lean", lib)
        mods = sorted(f[:-5] for f in os.listdir(d) if f.endswith(".lean"))
        with open(os.path.join(ROOT, "lean", lib + ".lean"), "w") as f:
            f.write("".join("import %s.%s\n" % (lib, m) for m in mods))


def main():
    write_roots()
    checks = []
    na = []
    for k in range(1, 21):
        pid = "C%02d" % k
        text, note, technique, ref = TABLE[pid]
        if THEOREMS.get(pid):
            checks.append({
                "property_id": pid,
                "quick_cmd": "./check %s --tier quick" % pid,
                "thorough_cmd": "./check %s --tier thorough" % pid,
                "evidence_file": "/verif/evidence/%s.json" % pid,
                "replay_cmd_template": "./check %s --replay {path}" % pid,
                "engine": "E1",
                "level_claimed": {"category": "proof", "text": text, "design_ref": "DESIGN.md section " + ref},
                "level_note": COMMON_NOTE + note,
                "technique": technique,
            })
        else:
            na.append({"property_id": pid, "reason": "not claimed yet: the Lean theorem for this property is not finished; the correspondence machinery already evaluates its predicate (see DESIGN.md)"})
    manifest = {
        "version": 1,
        "setup_cmd": "./setup.sh",
        "hooks": {
            "guard": "audunhalland_entrait_verif",
            "enable": "none needed: engine E1 compiles /repo/entrait_macros/src into the harness by #[path]; no source hooks are installed",
            "baseline_off_cmd": "cd /repo && cargo test --workspace --no-fail-fast --offline",
            "source_commits": [],
            "add_only": True,
        },
        "engines": [
            {"name": "E1", "path": "/verif/harness", "serves_properties": ["C%02d" % k for k in range(1, 21)],
             "kind_free_text": "in-process execution of the working tree's macro (proc_macro2, span-locations; per-case watchdog), syn encoder, output re-parser; Lean model + driver in /verif/lean"},
            {"name": "E2", "path": "/verif/probes", "serves_properties": sorted({"C" + m for f in os.listdir(os.path.join(ROOT, "probes", "src", "bin")) for m in __import__("re").findall(r"c(\d\d)", f)}),
             "kind_free_text": "compile-and-run probes: Rust programs compiled by the real rustc against the checkout (path dependency) and run; negative probes must be rejected with the expected diagnostics at the expected place; nightly -Zunpretty=expanded for C20"},
        ],
        "checks": checks,
        "not_applicable": na,
        "notes": "fix: commits in /repo and open findings are listed in /verif/known_findings.json; seeded breaking changes in /verif/seeded (tools/seedall.sh), harmless changes in /verif/benign (tools/benignall.sh); DESIGN.md sections 8.1, 9, 10.",
    }
    json.dump(manifest, open(os.path.join(ROOT, "MANIFEST.json"), "w"), indent=1)
    print("claimed:", [c["property_id"] for c in checks])


if __name__ == "__main__":
    main()
