#!/bin/bash
# usage: tools/spanscan.sh <cases.tsv> <patch>...  -- for each patch: apply to /repo, rebuild the E1 harness, run it on the
# given cases and count the span notes (`<out>.spans`: forwarded identifiers that do not carry the location of the
# parameter they are spelled like); undo.  A quick false-alarm / detection scan for the span observation alone.
tsv=$1; shift
cd /repo || exit 2
if ! git diff --quiet; then echo "/repo has local changes"; exit 2; fi
for patch in "$@"; do
  git apply "$patch" || { echo "$patch: does not apply"; continue; }
  (cd /verif/harness && CARGO_NET_OFFLINE=true cargo build --offline 2>&1 | grep -E "^error" | head -3)
  /verif/harness/target/debug/entrait_verif_harness $tsv /tmp/spanscan.cases 16 >/dev/null 2>&1
  n=$(wc -l < /tmp/spanscan.cases.spans); u=$(grep -c "unmock:" /tmp/spanscan.cases.spans)
  echo "$(basename $(dirname $patch)): span notes $n (unmock: $u) $(head -1 /tmp/spanscan.cases.spans | cut -c1-120)"
  git checkout -- . && git clean -fdq
done
(cd /verif/harness && CARGO_NET_OFFLINE=true cargo build --offline 2>&1 | grep -E "^error" | head -3)
rm -f /tmp/spanscan.cases /tmp/spanscan.cases.spans
