#!/bin/bash
# regression: every kept harmless change (benign/*/patch.diff) must leave all 20 quick checks quiet
cd /verif
for d in benign/*/; do
  id=$(basename $d)
  out=$(tools/benigntest.sh /verif/$d/patch.diff 2>&1 | grep -E "VIOLATION|alarms|does not apply|local changes" | cut -c1-200)
  echo "$id -> $out"
done
