#!/bin/bash
# usage: tools/seedtest.sh <patch> <prop> [<prop> ...]   -- apply a seeded change to /repo, run checks, undo
patch=$1; shift
cd /repo || exit 2
if ! git diff --quiet; then echo "/repo has local changes"; exit 2; fi
git apply "$patch" || { echo "patch does not apply"; exit 2; }
# the evidence files are rewritten by every check: keep the ones of the unchanged tree
rm -rf /verif/work/evidence.saved; cp -r /verif/evidence /verif/work/evidence.saved
for p in "$@"; do
  out=$(cd /verif && ./check $p 2>&1 | grep -E "VIOLATION|KNOWN-FINDING" | cut -c1-260)
  echo "[$p] ${out:-no alarm}"
done
git checkout -- . && git clean -fdq && git status --short | head -3
rm -rf /verif/evidence; mv /verif/work/evidence.saved /verif/evidence
