"""E2: compile-and-run probes.  Small Rust programs (probes/src/bin) are compiled by the real rustc
against the entrait checkout under test (path dependency) and run.  `p_*` must compile and exit 0;
`n_*` must fail to compile with every `//! EXPECT:` marker in the compiler's output.  These sample
the part of each property whose truth lives in rustc (name resolution, hygiene, privacy, type and
borrow checking, auto traits, allocation) and which the token-level model cannot exhibit; they
support the correspondence, they are not proofs."""
import os
import re
import subprocess

ROOT = os.path.dirname(os.path.dirname(os.path.abspath(__file__)))
PROBES = os.path.join(ROOT, "probes")
REPO = os.environ.get("ENTRAIT_REPO", "/repo")


def _sh(cmd, cwd, timeout=1800):
    e = dict(os.environ)
    e["CARGO_NET_OFFLINE"] = "true"
    e["CARGO_TARGET_DIR"] = os.path.join(PROBES, "target")
    p = subprocess.run(cmd, cwd=cwd, env=e, stdout=subprocess.PIPE, stderr=subprocess.STDOUT, text=True, timeout=timeout)
    return p.returncode, p.stdout


def prepare():
    """Cargo.toml pointing at the checkout under test; lock file from that checkout."""
    tmpl = open(os.path.join(PROBES, "Cargo.toml.in")).read().replace("@ENTRAIT_PATH@", REPO)
    path = os.path.join(PROBES, "Cargo.toml")
    if not os.path.exists(path) or open(path).read() != tmpl:
        open(path, "w").write(tmpl)
    lock = os.path.join(PROBES, "Cargo.lock")
    if not os.path.exists(lock):
        import shutil
        shutil.copy(os.path.join(REPO, "Cargo.lock"), lock)


def all_bins():
    d = os.path.join(PROBES, "src", "bin")
    return sorted(f[:-3] for f in os.listdir(d) if f.endswith(".rs"))


def also_for(bin_name):
    """`//! ALSO: C07 C16` in a probe: properties it serves besides those in its file name"""
    out = []
    for line in open(os.path.join(PROBES, "src", "bin", bin_name + ".rs")):
        m = re.match(r"//!\s*ALSO:\s*(.*\S)\s*$", line)
        if m:
            out += [t.lower() for t in re.findall(r"[Cc]\d\d", m.group(1))]
    return out


def bins_for(prop):
    tag = prop.lower()
    return [b for b in all_bins() if tag in re.findall(r"c\d\d", b) or tag in also_for(b)]


def expectations(bin_name):
    out = []
    for line in open(os.path.join(PROBES, "src", "bin", bin_name + ".rs")):
        m = re.match(r"//!\s*EXPECT:\s*(.*\S)\s*$", line)
        if m:
            out.append(m.group(1))
    return out


def at_expectations(bin_name):
    """`//! AT `source text with ^`: message` lines: the diagnostic whose text contains `message` must have
    its primary span start where `^` stands (the text without `^` must occur exactly once in the program)."""
    path = os.path.join(PROBES, "src", "bin", bin_name + ".rs")
    lines = open(path).read().split("\n")
    body = [(k + 1, l) for k, l in enumerate(lines) if not l.startswith("//!")]
    out = []
    for l in lines:
        m = re.match(r"//!\s*AT\s*`(.*)`:\s*(.*\S)\s*$", l)
        if not m:
            continue
        needle, msg = m.group(1), m.group(2)
        off = needle.find("^")
        plain = needle.replace("^", "")
        hits = [(ln, t.find(plain)) for ln, t in body if plain in t]
        if len(hits) != 1 or off < 0:
            out.append((needle, msg, None))
        else:
            out.append((needle, msg, (hits[0][0], hits[0][1] + off + 1)))
    return out


DIAG = re.compile(r"^error(?:\[E\d+\])?: (.*)\n\s*--> ([^:\n]+):(\d+):(\d+)", re.M)


def _matches(exp, text, alts):
    """`exp` (part of a message of the pinned crate) occurs in `text`, literally or through the relabelling
    `alts` (old message -> texts the macro uses for it now) that the in-process engine observed"""
    if exp in text:
        return True
    for old, news in (alts or {}).items():
        if exp in old or old in exp:
            if any(n and n in text for n in news):
                return True
    return False


def check_locations(bin_name, log, alts=None):
    """returns the list of unmet `AT` expectations"""
    got = [(m.group(1), int(m.group(3)), int(m.group(4))) for m in DIAG.finditer(log) if m.group(2).endswith(bin_name + ".rs")]
    bad = []
    for needle, msg, where in at_expectations(bin_name):
        if where is None:
            bad.append("probe is malformed: `%s` must occur exactly once and contain ^" % needle)
            continue
        hits = [g for g in got if _matches(msg, g[0], alts)]
        if not any((g[1], g[2]) == where for g in hits):
            near = ", ".join("%d:%d" % (g[1], g[2]) for g in hits) or "nowhere"
            bad.append("diagnostic %r is expected at %d:%d (`%s`) but is reported at %s" % (msg[:50], where[0], where[1], needle, near))
    return bad


def build_all():
    """warm build of the dependencies and of every positive probe (setup time)"""
    prepare()
    rc, log = _sh(["cargo", "build", "--offline", "--quiet", "--keep-going"] +
                  sum([["--bin", b] for b in all_bins() if b.startswith("p_")], []), PROBES)
    for b in all_bins():
        if b.startswith("f0_"):
            _sh(["cargo", "build", "--offline", "--quiet", "--no-default-features", "--bin", b], PROBES)
    # warm the nightly target directory used by the expansion comparison of C20
    os.makedirs(os.path.join(ROOT, "work"), exist_ok=True)
    try:
        expand_twice(["p_c03_sigs"], os.path.join(ROOT, "work"))
    except Exception:
        pass
    return rc, log


def run(prop, workdir, alts=None):
    """returns (failures, coverage); a failure is (bin, why, log)"""
    prepare()
    failures = []
    cov = {"probes": [], "cases": 0}
    for b in bins_for(prop):
        src = os.path.join(PROBES, "src", "bin", b + ".rs")
        exe = os.path.join(PROBES, "target", "debug", b)
        if os.path.exists(exe):
            os.remove(exe)          # never run a stale binary
        feat = ["--no-default-features"] if b.startswith(("f0_", "nf0_")) else []
        try:
            rc, log = _sh(["cargo", "build", "--offline", "--quiet", "--bin", b] + feat, PROBES, timeout=1200)
        except subprocess.TimeoutExpired:
            failures.append((b, "compiling the probe against this checkout does not terminate (20 min)", src))
            cov["probes"].append({"bin": b, "kind": "compile", "result": "timeout"})
            continue
        if b.startswith(("n_", "nf0_")):
            exp = expectations(b)
            if rc == 0:
                failures.append((b, "negative probe compiles: the misuse / privacy violation it contains is no longer rejected", src))
            else:
                missing = [e for e in exp if not _matches(e, log, alts)]
                if missing:
                    failures.append((b, "negative probe is rejected, but not with the expected diagnostic %r" % missing[0], src))
                wrong = check_locations(b, log, alts)
                if wrong:
                    failures.append((b, "diagnostic not at the offending tokens: " + wrong[0] + (" (+%d more)" % (len(wrong) - 1) if len(wrong) > 1 else ""), src))
            n_at = len(at_expectations(b))
            cov["probes"].append({"bin": b, "kind": "must-not-compile", "expect": exp, "located_diagnostics": n_at})
            cov["cases"] += 1 + n_at
            continue
        if rc != 0:
            logp = os.path.join(workdir, b + ".build.log")
            open(logp, "w").write(log)
            first = next((l for l in log.splitlines() if l.startswith("error")), "compile error")
            failures.append((b, "probe does not compile against this checkout: " + first[:200], src))
            cov["probes"].append({"bin": b, "kind": "compile+run", "result": "compile error"})
            continue
        try:
            p = subprocess.run([exe], stdout=subprocess.PIPE, stderr=subprocess.STDOUT, text=True, timeout=300)
        except subprocess.TimeoutExpired:
            failures.append((b, "probe does not terminate when run (5 min)", src))
            cov["probes"].append({"bin": b, "kind": "compile+run", "result": "timeout"})
            continue
        m = re.search(r"cases=(\d+) failed=(\d+)", p.stdout)
        n = int(m.group(1)) if m else 0
        cov["cases"] += n
        cov["probes"].append({"bin": b, "kind": "compile+run", "cases": n, "exit": p.returncode})
        if p.returncode != 0:
            logp = os.path.join(workdir, b + ".run.log")
            open(logp, "w").write(p.stdout)
            first = next((l for l in p.stdout.splitlines() if "FAIL" in l), "exit %d" % p.returncode)
            failures.append((b, "probe fails when run: " + first[:240], src))
    return failures, cov


def expand_twice(bins, workdir):
    """C20, rustc side: macro-expand the given probe programs with the real compiler
    (`rustc -Zunpretty=expanded`, nightly) in two separate compiler processes — fresh proc-macro
    server, fresh hash seeds, different job count and environment — and compare the expansions.
    Returns (differences, info)."""
    prepare()
    diffs, info = [], {"programs": [], "toolchain": "nightly (-Zunpretty=expanded)"}
    for b in bins:
        outs = []
        for k, (jobs, noise) in enumerate([("16", "a"), ("1", "bbbbbbbb")]):
            src = os.path.join(PROBES, "src", "bin", b + ".rs")
            os.utime(src, None)      # make cargo re-run rustc
            e = dict(os.environ)
            e.update({"CARGO_NET_OFFLINE": "true", "CARGO_TARGET_DIR": os.path.join(PROBES, "target", "expand"),
                      "ENTRAIT_NOISE": noise * (k + 1), "RUST_MIN_STACK": str((8 + k) << 20)})
            pr = subprocess.run(["cargo", "+nightly", "rustc", "--offline", "--quiet", "-j", jobs, "--bin", b, "--",
                                 "-Zunpretty=expanded"], cwd=PROBES, env=e, stdout=subprocess.PIPE,
                                stderr=subprocess.PIPE, text=True, timeout=1800)
            if pr.returncode != 0 or not pr.stdout.strip():
                info["programs"].append({"bin": b, "skipped": "expansion unavailable: " + pr.stderr[-200:]})
                outs = None
                break
            outs.append(pr.stdout)
        if outs is None:
            continue
        info["programs"].append({"bin": b, "expanded_lines": outs[0].count("\n"), "identical": outs[0] == outs[1]})
        if outs[0] != outs[1]:
            pa = os.path.join(workdir, b + ".expand_a.rs")
            pb = os.path.join(workdir, b + ".expand_b.rs")
            open(pa, "w").write(outs[0])
            open(pb, "w").write(outs[1])
            diffs.append((b, "rustc's expansion of %s differs between two compiler processes (%s vs %s)" % (b, pa, pb),
                          os.path.join(PROBES, "src", "bin", b + ".rs")))
    return diffs, info


if __name__ == "__main__":
    import sys
    if len(sys.argv) > 1 and sys.argv[1] == "build":
        rc, log = build_all()
        print(log[-3000:])
        sys.exit(0)
    for pr in sys.argv[1:]:
        os.makedirs("/verif/work/probes", exist_ok=True)
        f, c = run(pr, "/verif/work/probes")
        print(pr, "cases", c["cases"], "failures", f)
