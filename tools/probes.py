"""E2: compile-and-run probes.  Small Rust programs (probes/src/bin) are compiled by the real rustc
against the entrait checkout under test (path dependency) and run.  `p_*` must compile and exit 0;
`n_*` must fail to compile with every `//! EXPECT:` marker in the compiler's output.  These sample
the part of each property whose truth lives in rustc (name resolution, hygiene, privacy, type and
borrow checking, auto traits, allocation) and which the token-level model cannot exhibit; they
support the correspondence, they are not proofs."""
import os
import re
import subprocess

ROOT = os.path.dirname(os.path.dirname(os.path.abspath(__file__)))
PROBES = os.path.join(ROOT, "probes")
REPO = os.environ.get("ENTRAIT_REPO", "/repo")


def _sh(cmd, cwd, timeout=1800):
    e = dict(os.environ)
    e["CARGO_NET_OFFLINE"] = "true"
    e["CARGO_TARGET_DIR"] = os.path.join(PROBES, "target")
    p = subprocess.run(cmd, cwd=cwd, env=e, stdout=subprocess.PIPE, stderr=subprocess.STDOUT, text=True, timeout=timeout)
    return p.returncode, p.stdout


def prepare():
    """Cargo.toml pointing at the checkout under test; lock file from that checkout."""
    tmpl = open(os.path.join(PROBES, "Cargo.toml.in")).read().replace("@ENTRAIT_PATH@", REPO)
    path = os.path.join(PROBES, "Cargo.toml")
    if not os.path.exists(path) or open(path).read() != tmpl:
        open(path, "w").write(tmpl)
    lock = os.path.join(PROBES, "Cargo.lock")
    if not os.path.exists(lock):
        import shutil
        shutil.copy(os.path.join(REPO, "Cargo.lock"), lock)


def all_bins():
    d = os.path.join(PROBES, "src", "bin")
    return sorted(f[:-3] for f in os.listdir(d) if f.endswith(".rs"))


def bins_for(prop):
    tag = prop.lower()
    return [b for b in all_bins() if tag in re.findall(r"c\d\d", b)]


def expectations(bin_name):
    out = []
    for line in open(os.path.join(PROBES, "src", "bin", bin_name + ".rs")):
        m = re.match(r"//!\s*EXPECT:\s*(.*\S)\s*$", line)
        if m:
            out.append(m.group(1))
    return out


def build_all():
    """warm build of the dependencies and of every positive probe (setup time)"""
    prepare()
    return _sh(["cargo", "build", "--offline", "--quiet", "--bins", "--keep-going"], PROBES)


def run(prop, workdir):
    """returns (failures, coverage); a failure is (bin, why, log)"""
    prepare()
    failures = []
    cov = {"probes": [], "cases": 0}
    for b in bins_for(prop):
        src = os.path.join(PROBES, "src", "bin", b + ".rs")
        exe = os.path.join(PROBES, "target", "debug", b)
        if os.path.exists(exe):
            os.remove(exe)          # never run a stale binary
        rc, log = _sh(["cargo", "build", "--offline", "--quiet", "--bin", b], PROBES)
        if b.startswith("n_"):
            exp = expectations(b)
            if rc == 0:
                failures.append((b, "negative probe compiles: the misuse / privacy violation it contains is no longer rejected", src))
            else:
                missing = [e for e in exp if e not in log]
                if missing:
                    failures.append((b, "negative probe is rejected, but not with the expected diagnostic %r" % missing[0], src))
            cov["probes"].append({"bin": b, "kind": "must-not-compile", "expect": exp})
            cov["cases"] += 1
            continue
        if rc != 0:
            logp = os.path.join(workdir, b + ".build.log")
            open(logp, "w").write(log)
            first = next((l for l in log.splitlines() if l.startswith("error")), "compile error")
            failures.append((b, "probe does not compile against this checkout: " + first[:200], src))
            cov["probes"].append({"bin": b, "kind": "compile+run", "result": "compile error"})
            continue
        p = subprocess.run([exe], stdout=subprocess.PIPE, stderr=subprocess.STDOUT, text=True, timeout=300)
        m = re.search(r"cases=(\d+) failed=(\d+)", p.stdout)
        n = int(m.group(1)) if m else 0
        cov["cases"] += n
        cov["probes"].append({"bin": b, "kind": "compile+run", "cases": n, "exit": p.returncode})
        if p.returncode != 0:
            logp = os.path.join(workdir, b + ".run.log")
            open(logp, "w").write(p.stdout)
            first = next((l for l in p.stdout.splitlines() if "FAIL" in l), "exit %d" % p.returncode)
            failures.append((b, "probe fails when run: " + first[:240], src))
    return failures, cov


if __name__ == "__main__":
    import sys
    if len(sys.argv) > 1 and sys.argv[1] == "build":
        rc, log = build_all()
        print(log[-3000:])
        sys.exit(0)
    for pr in sys.argv[1:]:
        os.makedirs("/verif/work/probes", exist_ok=True)
        f, c = run(pr, "/verif/work/probes")
        print(pr, "cases", c["cases"], "failures", f)
