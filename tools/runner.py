"""Orchestration of a check: build, generate, run real macro + model, decide, write evidence."""
import json
import os
import re
import shutil
import subprocess
import sys
import time

ROOT = os.path.dirname(os.path.dirname(os.path.abspath(__file__)))
HARNESS = os.path.join(ROOT, "harness")
LEAN = os.path.join(ROOT, "lean")
WORK = os.path.join(ROOT, "work")
EVIDENCE = os.path.join(ROOT, "evidence")
REPO = os.environ.get("ENTRAIT_REPO", "/repo")

import gen  # noqa: E402

ALL_PROPS = ["C%02d" % k for k in range(1, 21)]
ALLOWED_AXIOMS = {"propext", "Classical.choice", "Quot.sound"}
FORBIDDEN = re.compile(r"\b(sorry|admit|native_decide|bv_decide|implemented_by|unsafe)\b|^axiom |maxHeartbeats 0")

TRUSTED_BASE = [
    "Lean 4.33.0 kernel; axioms of each theorem as printed by #print axioms (allowed: propext, Classical.choice, Quot.sound)",
    "hand-written Lean model of entrait_macros (lean/EntraitModel) being faithful outside the sampled inputs",
    "correspondence machinery: harness encoder syn->model AST (validated per case by print round-trip), re-parser of the real output (syn), build.rs rewrite of lib.rs for in-process execution, token flattening without spacing and syntax contexts (locations of forwarded identifiers are observed: <cases>.spans)",
    "syn 2.0.119 / quote / proc-macro2 1.0.107 (front end and printing; proc_macro2 fallback implementation instead of rustc's proc_macro server)",
    "rustc semantics and the unimock / mockall / async-trait / implementation crates: modelled only as far as the property predicate states; sampled by compile-and-run probes where the check says so",
]


def sh(cmd, cwd=None, env=None, timeout=None):
    e = dict(os.environ)
    e["CARGO_NET_OFFLINE"] = "true"
    if env:
        e.update(env)
    p = subprocess.run(cmd, cwd=cwd, env=e, stdout=subprocess.PIPE, stderr=subprocess.STDOUT, text=True, timeout=timeout)
    return p.returncode, p.stdout


# ---------------------------------------------------------------------------------------------
# builds
# ---------------------------------------------------------------------------------------------
def build_harness():
    """E1: compiles the macro sources of /repo's working tree into the harness."""
    rc, out = sh(["cargo", "build", "--offline", "--quiet"], cwd=HARNESS, env={"ENTRAIT_REPO": REPO})
    return rc == 0, out


def build_lean(prop):
    """driver + the property's theorem module; returns (ok, log)."""
    targets = ["driver", "EntraitProofs"]
    rc, out = sh(["lake", "build"] + targets, cwd=LEAN)
    return rc == 0, out


def theorems_of(prop):
    path = os.path.join(LEAN, "EntraitProofs", "THEOREMS.json")
    if not os.path.exists(path):
        return []
    return json.load(open(path)).get(prop, [])


def audit_axioms(prop, workdir):
    """#print axioms for every registered theorem of the property."""
    names = theorems_of(prop)
    if not names:
        return {}, "no theorems registered"
    src = "import EntraitProofs\n" + "".join("#print axioms %s\n" % n for n in names)
    path = os.path.join(workdir, "audit_%s.lean" % prop)
    open(path, "w").write(src)
    rc, out = sh(["lake", "env", "lean", path], cwd=LEAN)
    res = {}
    # "'Name' depends on axioms: [a, b]"  /  "'Name' does not depend on any axioms"
    for m in re.finditer(r"'([^']+)' depends on axioms: \[([^\]]*)\]", out):
        res[m.group(1)] = [a.strip() for a in m.group(2).replace("\n", " ").split(",") if a.strip()]
    for m in re.finditer(r"'([^']+)' does not depend on any axioms", out):
        res[m.group(1)] = []
    if rc != 0:
        return res, out
    return res, ""


def grep_forbidden():
    hits = []
    for d in ("EntraitModel", "EntraitProofs"):
        for f in sorted(os.listdir(os.path.join(LEAN, d))):
            if not f.endswith(".lean"):
                continue
            in_comment = 0
            for n, line in enumerate(open(os.path.join(LEAN, d, f)), 1):
                code = line
                if "/-" in code:
                    in_comment += code.count("/-")
                if in_comment == 0 and not code.lstrip().startswith("--"):
                    code = code.split("--")[0]
                    code = re.sub(r'"[^"]*"', '""', code)       # string literals are not code
                    # `unsafe_` is a field name of the model, not the keyword
                    if FORBIDDEN.search(code.replace("unsafe_", "u_").replace(".unsafe", ".u")):
                        hits.append("%s/%s:%d: %s" % (d, f, n, line.strip()))
                if "-/" in line:
                    in_comment = max(0, in_comment - line.count("-/"))
    return hits


def facade_mapping():
    """(feature on?, macro name) -> entry point of entrait_macros, read from /repo/src/lib.rs.
    The model's `Variant` is chosen by this mapping (EntraitProofs/C17: addUnimock / addExport);
    E1 calls the entry points directly, so the mapping itself is checked here (statically) and by
    the feature-on / feature-off probes of E2 (dynamically)."""
    try:
        text = open(os.path.join(REPO, "src", "lib.rs")).read()
    except OSError:
        return None
    out = {}
    for m in re.finditer(r'#\[cfg\((not\()?feature\s*=\s*"unimock"\)?\)\]\s*mod\s+macros\s*\{(.*?)\n\}', text, re.S):
        on = m.group(1) is None
        for u in re.finditer(r"pub\s+use\s+entrait_macros::(\w+)(?:\s+as\s+(\w+))?\s*;", m.group(2)):
            out[(on, u.group(2) or u.group(1))] = u.group(1)
    return out


EXPECTED_FACADE = {(True, "entrait"): "entrait_unimock", (True, "entrait_export"): "entrait_export_unimock",
                   (False, "entrait"): "entrait", (False, "entrait_export"): "entrait_export"}


# ---------------------------------------------------------------------------------------------
# running cases
# ---------------------------------------------------------------------------------------------
def parse_res(line):
    parts = line.split(" ")
    d = {"id": parts[1]}
    for kv in parts[2:]:
        if "=" in kv:
            k, v = kv.split("=", 1)
            d[k] = v
    return d


class EngineDied(Exception):
    """the process running the real macro aborted (stack overflow, abort) or did not terminate on `case`"""
    def __init__(self, case, how, log):
        Exception.__init__(self, how)
        self.case, self.how, self.log = case, how, log


def _write_tsv(cases, tsv):
    with open(tsv, "w") as f:
        for c in cases:
            cid, v, attr, item = c[0], c[1], c[2], c[3]
            meta = c[4] if len(c) > 4 else ""
            f.write("\t".join([cid, v, attr, item, meta]) + "\n")


def _harness(tsv, cases_file, threads, timeout):
    exe = os.path.join(HARNESS, "target", "debug", "entrait_verif_harness")
    try:
        rc, out = sh([exe, tsv, cases_file, str(threads)], timeout=timeout)
    except subprocess.TimeoutExpired:
        return "does not terminate", ""
    return (None if rc == 0 else "aborts the process (exit status %d)" % rc), out


def isolate_death(cases, workdir):
    """one case on which the engine dies, by bisection (each probe run is bounded in time)"""
    lo = list(cases)
    tsv, out = os.path.join(workdir, "isolate.tsv"), os.path.join(workdir, "isolate.cases")
    how, log = "dies", ""
    while len(lo) > 1:
        half = lo[:len(lo) // 2]
        _write_tsv(half, tsv)
        h, l = _harness(tsv, out, 4, 60)
        if h:
            lo, how, log = half, h, l
        else:
            lo = lo[len(lo) // 2:]
    _write_tsv(lo, tsv)
    h, l = _harness(tsv, out, 1, 60)
    if h:
        how, log = h, l
    return (lo[0] if lo else None), how, log


def run_cases(cases, workdir, tag, threads=16, verbose_ids=None, owned_file=None):
    os.makedirs(workdir, exist_ok=True)
    tsv = os.path.join(workdir, tag + ".tsv")
    _write_tsv(cases, tsv)
    cases_file = os.path.join(workdir, tag + ".cases")
    died, out = _harness(tsv, cases_file, threads, 240 + len(cases) // 100)
    if died:
        m = re.search(r"^HANG (.*)$", out, re.M)
        if m:
            # the harness' own watchdog names the case the macro does not return on
            raise EngineDied(m.group(1).split("\t"), "does not terminate (no answer within the per-case time limit)", out[-2000:])
        case, how, log = isolate_death(cases, workdir)
        raise EngineDied(case, how, (log or out)[-3000:])
    results, other = _drive(cases_file, owned_file)
    _span_notes(results, cases_file)
    if owned_file is None:
        # inert attributes of the macro's own on generated items (Obs.stripOwned): an inert built-in attribute found on
        # a generated item of some case whose input does not contain it is the macro's, not a copy of the user's;
        # the correspondence is taken up to exactly those (second pass of the driver)
        seen = {}
        for d in results.values():
            for ent in [x for x in d.get("XA", "").split(",") if x]:
                h, _, u = ent.partition(":")
                seen.setdefault(h, set()).add(u)
        owned = sorted(h for h, us in seen.items() if "0" in us)
        LAST_OWNED[:] = []
        if owned:
            ofile = os.path.join(workdir, tag + ".owned")
            with open(ofile, "w") as f:
                for h in owned:
                    f.write(bytes.fromhex(h).decode() + "\n")
            LAST_OWNED[:] = [bytes.fromhex(h).decode() for h in owned]
            LAST_OWNED_FILE[0] = ofile
            results, other = _drive(cases_file, ofile)
            _span_notes(results, cases_file)
        else:
            LAST_OWNED_FILE[0] = None
    return results, cases_file, other


def _span_notes(results, cases_file):
    """E1's view of hygiene: forwarded identifiers of generated method bodies whose span is not the span of the
    parameter declaration they are spelled like (written by the harness to `<cases>.spans`); field `HYG`"""
    path = cases_file + ".spans"
    if not os.path.exists(path):
        return
    for line in open(path):
        cid, _, note = line.rstrip("\n").partition("\t")
        if cid in results and note:
            results[cid]["HYG"] = note


# which properties a span mismatch of a forwarded identifier belongs to, by input mode: the model forwards *the
# method's own parameter identifiers* (C01 fn / mod, C16 their names; C06 entraited traits; C07 impl blocks)
HYG_PROPS = {"fn": ("C01", "C16"), "mod": ("C01", "C16"), "trait": ("C06",), "impl": ("C07",)}


LAST_OWNED = []          # wire text of the macro-owned inert attributes of the last run_cases
LAST_OWNED_FILE = [None]


def _drive(cases_file, owned_file=None, verbose=False):
    cmd = [os.path.join(LEAN, ".lake", "build", "bin", "driver")]
    if verbose:
        cmd.append("--verbose")
    if owned_file:
        cmd.append("--owned=" + owned_file)
    rc, out = sh(cmd + [cases_file])
    if verbose:
        return out
    if rc != 0:
        raise RuntimeError("driver failed: " + out[-2000:])
    results = {}
    other = []
    for line in out.splitlines():
        if line.startswith("RES "):
            d = parse_res(line)
            results[d["id"]] = d
        elif line:
            other.append(line)
    return results, other


def verbose_dump(cases_file, cid, workdir):
    """model / real token text for one case"""
    one = os.path.join(workdir, "one.cases")
    with open(cases_file) as f, open(one, "w") as g:
        for line in f:
            if line.startswith("[case n:%s " % cid):
                g.write(line)
                break
    return _drive(one, LAST_OWNED_FILE[0], verbose=True)


# ---------------------------------------------------------------------------------------------
# known findings
# ---------------------------------------------------------------------------------------------
def load_known():
    path = os.path.join(ROOT, "known_findings.json")
    if not os.path.exists(path):
        return {"open": [], "fixed": []}
    return json.load(open(path))


# ---------------------------------------------------------------------------------------------
# the check
# ---------------------------------------------------------------------------------------------
def write_replay(workdir, prop, n, case, dump, why):
    path = os.path.join(workdir, "replay_%s_%d.txt" % (prop, n))
    with open(path, "w") as f:
        f.write("# property %s\n# %s\n" % (prop, why))
        f.write("# replay: ./check %s --replay %s\n" % (prop, path))
        f.write("CASE\t" + "\t".join(case) + "\n")
        # a failure that needs a second process with other ambient inputs to show (C20)
        m = re.search(r"environment variable (\w+)", why)
        if m:
            f.write("AMBIENT\tenv\t%s=1\n" % m.group(1))
        if "clock or the process id" in why:
            f.write("AMBIENT\tshim\tENTRAIT_VERIF_TIME_SHIFT=333333333\tENTRAIT_VERIF_PID_XOR=21845\n")
        for o in LAST_OWNED:
            # inert attributes the macro was seen to add by itself in the run that produced this replay
            f.write("OWNED\t" + o + "\n")
        f.write(dump)
    return path


def finish(prop, tier, seed, t0, coverage, violations, level="proof", assumptions=None):
    os.makedirs(EVIDENCE, exist_ok=True)
    ev = {
        "property_id": prop,
        "tier": tier,
        "seed": seed,
        "level": level,
        "coverage": coverage,
        "assumptions": assumptions or TRUSTED_BASE,
        "wall_s": round(time.time() - t0, 2),
        "violations": violations,
    }
    with open(os.path.join(EVIDENCE, prop + ".json"), "w") as f:
        json.dump(ev, f, indent=1)


def run_check(prop, tier, seed):
    t0 = time.time()
    workdir = os.path.join(WORK, prop)
    if os.path.isdir(workdir):
        shutil.rmtree(workdir)
    os.makedirs(workdir)
    known = load_known()
    open_classes = {k["class"]: k for k in known.get("open", []) if k["property"] == prop}
    violations = []          # (why, case or None, replay path)
    no_input_reasons = []    # broken proof / correspondence without failing input

    ok, log = build_harness()
    if not ok:
        path = os.path.join(workdir, "replay_%s_build.txt" % prop)
        open(path, "w").write("E1 harness does not build against %s\n%s" % (REPO, log[-6000:]))
        print("VIOLATION property=%s replay=%s E1 harness unavailable no-failing-input-found" % (prop, path))
        finish(prop, tier, seed, t0, {"obligations": 1, "discharged": 0, "checker_cmd": "cargo build (harness)",
                                      "trusted_base": TRUSTED_BASE, "explanation": "harness build failed"}, 1)
        return 1
    ok, log = build_lean(prop)
    proof_ok = ok
    if not ok:
        no_input_reasons.append("lake build failed for EntraitProofs.%s: %s" % (prop, log[-1500:]))
    axioms, audit_err = audit_axioms(prop, workdir) if ok else ({}, "not built")
    names = theorems_of(prop)
    bad_axioms = {n: a for n, a in axioms.items() if not set(a) <= ALLOWED_AXIOMS}
    missing = [n for n in names if n not in axioms]
    if names and (bad_axioms or missing or audit_err):
        proof_ok = False
        no_input_reasons.append("axiom audit: bad=%s missing=%s %s" % (bad_axioms, missing, audit_err[-500:]))
    recheck = None
    if tier == "thorough" and ok:
        # independent re-check of the compiled proof modules of this property with leanchecker
        mods = {".".join(n.split(".")[1:-1]) for n in names if n.startswith("Entrait.C")}
        # every proof module of the property, also those whose theorems live in a namespace of another file
        # (C01View states its theorems in `Entrait.C01`)
        mods |= {f[:-5] for f in os.listdir(os.path.join(LEAN, "EntraitProofs")) if re.match(r"^%s[A-Za-z]*\.lean$" % prop, f)}
        mods = ["EntraitProofs." + m for m in sorted(mods) if m and os.path.exists(os.path.join(LEAN, "EntraitProofs", m + ".lean"))]
        rc_lc, out_lc = sh(["lake", "env", "leanchecker"] + mods, cwd=LEAN) if mods else (0, "")
        recheck = {"modules": mods, "exit": rc_lc}
        if rc_lc != 0:
            proof_ok = False
            no_input_reasons.append("leanchecker rejects %s: %s" % (mods, out_lc[-400:]))
    forb = grep_forbidden()
    if forb:
        proof_ok = False
        no_input_reasons.append("forbidden constructs in Lean sources: %s" % forb[:5])

    if prop in ("C10", "C17"):
        fm = facade_mapping()
        if fm != EXPECTED_FACADE:
            no_input_reasons.append("src/lib.rs no longer maps (feature, macro name) to the entry points the model's "
                                    "variants stand for: found %s" % (fm,))

    import focus
    if prop == "C17":
        parsed = focus.doc_table_from_source()
        if parsed != focus.doc_table_transcribed():
            no_input_reasons.append("the option table in src/lib.rs (%s) differs from its transcription in tools/focus.py "
                                    "and EntraitProofs/C17.lean (`documented`)" % (parsed,))
    plan = focus.plan(prop, tier, seed)
    cases = plan["cases"]
    by_id = {c[0]: c for c in cases}
    try:
        results, cases_file, other = run_cases(cases, workdir, "main")
        if LAST_OWNED:
            print("NOTE: property=%s inert attributes the macro puts on generated items by itself (correspondence taken up to them): %s"
                  % (prop, "; ".join(o[:60] for o in LAST_OWNED[:6])))
    except EngineDied as e:
        # the macro takes the whole process down (or never returns) on an input: no expansion exists for it
        path = os.path.join(workdir, "replay_%s_0.txt" % prop)
        with open(path, "w") as f:
            f.write("# property %s\n# the real macro %s on this input (C15: expansion either succeeds or reports a diagnostic)\n" % (prop, e.how))
            f.write("# replay: ./check %s --replay %s\n" % (prop, path))
            if e.case:
                f.write("CASE\t" + "\t".join(e.case) + "\n")
            f.write(e.log)
        print("VIOLATION property=%s replay=%s the real macro %s on input %s" % (prop, path, e.how, e.case[0] if e.case else "?"))
        finish(prop, tier, seed, t0, {"obligations": max(1, len(names)), "discharged": 0, "checker_cmd": "E1 harness",
                                      "trusted_base": TRUSTED_BASE, "explanation": "engine died: " + e.how}, 1)
        return 1
    for line in other:
        if not line.startswith("LEXERR"):
            no_input_reasons.append("driver: " + line[:200])

    stats = {"macro_owned_inert_attributes": list(LAST_OWNED),
             "outcomes": {}, "modes": {}, "unobservable": 0, "unmodelled": 0, "normalised_inputs": 0,
             "findings_seen": {}, "k_break": 0, "p_real_false": 0, "agree_break": 0}
    nontrivial = set()
    failing = []
    kbreak = []
    printed_known = set()
    relabel = {}              # real diagnostic text (hex) -> {model message class: first case}
    body_only = []            # predicate false on the real expansion because of the spelling of a body only
    stats["variants"] = {}
    stats["options_used"] = {}
    stats["item_size_tokens"] = {"<=20": 0, "21-60": 0, "61-150": 0, ">150": 0}
    stats["diagnostics"] = {}
    opt_words = ["no_deps", "export", "mock_api", "unimock", "mockall", "delegate_by", "?Send", "debug", "ref", "dyn"]
    for cid, d in results.items():
        c = by_id.get(cid)
        if c is not None:
            stats["variants"][c[1]] = stats["variants"].get(c[1], 0) + 1
            for w in opt_words:
                if w in c[2]:
                    stats["options_used"][w] = stats["options_used"].get(w, 0) + 1
            n_tok = len(c[3].split())
            b = "<=20" if n_tok <= 20 else "21-60" if n_tok <= 60 else "61-150" if n_tok <= 150 else ">150"
            stats["item_size_tokens"][b] += 1
        if d.get("real") == "diag" and d.get("msg"):
            try:
                m_ = bytes.fromhex(d["msg"]).decode()[:48]
            except ValueError:
                m_ = "?"
            stats["diagnostics"][m_] = stats["diagnostics"].get(m_, 0) + 1
        key = "%s/%s" % (d.get("model", "-"), d.get("real", "-"))
        stats["outcomes"][key] = stats["outcomes"].get(key, 0) + 1
        mode = cid.rsplit("_", 1)[-1] if "_" in cid else "?"
        stats["modes"][mode] = stats["modes"].get(mode, 0) + 1
        if d.get("modelled") == "0":
            stats["unmodelled"] += 1
        if d.get("stable") == "0":
            stats["normalised_inputs"] += 1
        if d.get("idok") == "0":
            stats["invalid_identifiers"] = stats.get("invalid_identifiers", 0) + 1
        if d.get("modelled") == "1" and d.get("agree") == "0":
            stats["agree_break"] += 1
            kbreak.append((cid, "outcome of model (%s) and real macro (%s) differ" % (d.get("model"), d.get("real"))))
        if prop in ("C17", "C20") and d.get("modelled") == "1" and d.get("tok") == "0" and d.get("parsed") == "0" \
                and d.get("rt") == "0" and d.get("agree") == "1" and d.get("real") == "ok":
            # an input syn normalises (`fn f<>()`): the harness cannot locate the generated region in the real output, so
            # only the raw token comparison exists for it - which a harmless respelling or reordering breaks too
            stats["unobservable"] += 1
        elif prop in ("C17", "C20") and d.get("modelled") == "1" and d.get("tok") == "0" and d.get("struct") == "0" and d.get("agree") == "1":
            # these properties are about the whole expansion: their projection is the token stream, up to the
            # Rust-equivalent respelling of bounds (`struct` compares the re-parsed items after Obs.canonItem)
            stats["k_break"] += 1
            kbreak.append((cid, "token stream of real and model expansion differ (correspondence K_%s)" % prop))
        if prop in ("C17", "C20") and d.get("modelled") == "1" and d.get("tok") == "0" and d.get("struct") == "1":
            stats["respelled"] = stats.get("respelled", 0) + 1
        if d.get("real") == "diag" and d.get("mmsg") and d.get("msg"):
            # wording of diagnostics: the macro's text is read as a relabelling of the model's message
            cls = d["mmsg"]
            if cls != "syn":
                try:
                    if bytes.fromhex(cls).decode().startswith("Unkonwn entrait option"):
                        cls = "unknown-option"
                except ValueError:
                    pass
            relabel.setdefault(d["msg"], {}).setdefault(cls, cid)
        if prop in ("C17", "C20") and d.get("real") == "ok" and d.get("tok") == "1" and c is not None:
            # non-trivial: the real macro expanded the case and the expansion equals the model's token for token
            nontrivial.add((c[1], c[2], c[3]))
        hyg = d.get("HYG", "")
        # notes prefixed `unmock:` are about identifiers inside the unimock derivation's `unmock_with` list (C11)
        hyg_body = "; ".join(x for x in hyg.split("; ") if x and not x.startswith("unmock:"))
        hyg_unmock = "; ".join(x for x in hyg.split("; ") if x.startswith("unmock:"))
        if hyg_unmock and prop == "C11":
            stats["span_mismatch"] = stats.get("span_mismatch", 0) + 1
            body_only.append((cid, "an identifier of an `unmock_with` argument list does not carry the span of the parameter it is "
                                   "spelled like (%s)" % hyg_unmock[:160]))
        if hyg_body and prop in HYG_PROPS.get(mode, ()):
            d["HYG"] = hyg_body
            # token-invisible: what the other span does to name resolution is rustc's to say - if a compile-and-run
            # probe of the property fails, that probe is the failing input; otherwise the correspondence is broken
            # without one (same rule as for unrecognised body spellings)
            stats["span_mismatch"] = stats.get("span_mismatch", 0) + 1
            body_only.append((cid, "a forwarded identifier of a generated method body does not carry the span of the parameter "
                                   "it is spelled like (%s)" % d["HYG"][:160]))
        trip = d.get(prop)
        if trip:
            k, pm, pr = trip[0], trip[1], trip[2]
            if pr == "-":
                stats["unobservable"] += 1
            if pr == "0" and prop in d.get("BO", "").split(","):
                # only the spelling of a delegating body is not recognised (with the model's bodies in their place
                # the predicate holds): not a failing input by itself - the probes decide (below)
                stats["body_only"] = stats.get("body_only", 0) + 1
                body_only.append((cid, "the delegating bodies of the real expansion are not spelled as the model's and P_%s does not "
                                       "recognise them (it holds with the model's bodies in their place)" % prop))
            elif pr == "0":
                stats["p_real_false"] += 1
                failing.append((cid, "property predicate P_%s is false on the real expansion" % prop))
            if pm == "0" and pr != "0":
                kbreak.append((cid, "P_%s false on the model's expansion: theorem and driver disagree" % prop))
            if k == "0":
                stats["k_break"] += 1
                kbreak.append((cid, "projection of real and model expansion differ (correspondence K_%s)" % prop))
            if pr == "1" and c is not None:
                nontrivial.add((c[1], c[2], c[3]))
        for fcls in [x for x in d.get("F", "").split(",") if x]:
            if not fcls.startswith(prop + "."):
                continue
            stats["findings_seen"][fcls] = stats["findings_seen"].get(fcls, 0) + 1
            if fcls in open_classes:
                if fcls not in printed_known:
                    printed_known.add(fcls)
                    print("KNOWN-FINDING: property=%s %s: %s (e.g. case %s)" % (prop, fcls, open_classes[fcls]["what"], cid))
            else:
                failing.append((cid, "defect class %s manifests and is not a listed finding" % fcls))

    extra = focus.post(prop, tier, seed, plan, results, cases_file, workdir, stats)
    failing += extra.get("failing", [])
    # E2: compile-and-run probes of this property (rustc's side of the property)
    import probes
    # the relabelling of diagnostics must keep the messages apart: one text for two different misuses
    # (or for a misuse and a syn-level error) is not a "specific message" any more
    def _txt(h):
        try:
            return bytes.fromhex(h).decode()
        except ValueError:
            return h
    reworded = {}
    alts = {}                 # model message -> every text the macro uses for it now
    for text, classes in relabel.items():
        own = [c for c in classes if c not in ("syn", "unknown-option")]
        for c in own:
            if c != text:
                reworded[_txt(c)] = _txt(text)
                alts.setdefault(_txt(c), set()).add(_txt(text))
        if "unknown-option" in classes and not _txt(text).startswith("Unkonwn entrait option"):
            alts.setdefault("Unkonwn entrait option", set()).add(_txt(text).split('"')[0])
        if len(classes) > 1 and prop == "C15":
            (c1, id1), (c2, id2) = list(classes.items())[:2]
            failing.append((id2, "the diagnostic text %r answers two different misuses (model messages %r in case %s and %r here): "
                            "messages are not specific" % (_txt(text)[:80], _txt(c1)[:60], id1, _txt(c2)[:60])))
    if reworded:
        stats["diagnostics_reworded"] = reworded
        if prop == "C15":
            for a, b in sorted(reworded.items()):
                print("NOTE: property=C15 diagnostic reworded (read as a relabelling, kept apart from the others): %r -> %r" % (a[:70], b[:70]))
    probe_failures, probe_cov = probes.run(prop, workdir, alts)
    probe_replays = {}
    for b, why, src in probe_failures:
        pid = "probe:" + b
        probe_replays[pid] = (b, why, src)
        failing.append((pid, "compile-and-run probe %s: %s" % (b, why)))
    # unrecognised body spellings: what the bodies *do* is rustc's to say - if a compile-and-run probe of the
    # property fails, that probe is the failing input; otherwise the correspondence is broken without one
    kbreak = body_only + kbreak
    kbreak += extra.get("kbreak", [])
    for line in extra.get("known", []):
        print(line)

    # second-stage cases (`<parent>~n?_trait`) are derived by the harness: replay their parent
    def origin(cid):
        if cid and "~" in cid:
            stem = cid.split("~")[0]
            for k in by_id:
                if k.rsplit("_", 1)[0] == stem:
                    return k
        return cid

    n = 0
    rc = 0
    if failing and failing[0][0] in probe_replays:
        cid, why = failing[0]
        b, _, src = probe_replays[cid]
        path = os.path.join(workdir, "replay_%s_%d.txt" % (prop, n))
        with open(path, "w") as f:
            f.write("# property %s\n# %s\n" % (prop, why))
            f.write("# the failing input is the Rust program %s, compiled by rustc against %s\n" % (src, REPO))
            f.write("# replay: cd %s && CARGO_NET_OFFLINE=true cargo build --offline --bin %s && target/debug/%s\n" % (probes.PROBES, b, b))
            for ext in (".build.log", ".run.log"):
                lp = os.path.join(workdir, b + ext)
                if os.path.exists(lp):
                    f.write("\n## %s\n%s" % (ext, open(lp).read()[-6000:]))
        print("VIOLATION property=%s replay=%s %s" % (prop, path, why))
        rc = 1
    elif failing and failing[0][0].startswith("probe:"):
        cid, why = failing[0]
        path = os.path.join(workdir, "replay_%s_%d.txt" % (prop, n))
        with open(path, "w") as f:
            f.write("# property %s\n# %s\n# replay: ./check %s\n" % (prop, why, prop))
        print("VIOLATION property=%s replay=%s %s" % (prop, path, why))
        rc = 1
    elif failing:
        cid, why = failing[0]
        dump = verbose_dump(cases_file, cid, workdir)
        path = write_replay(workdir, prop, n, list(by_id.get(origin(cid), (cid,))), dump, why + " (%d failing inputs in total)" % len(failing))
        print("VIOLATION property=%s replay=%s %s" % (prop, path, why))
        rc = 1
    elif kbreak or no_input_reasons:
        why = (kbreak[0][1] if kbreak else no_input_reasons[0])
        cid = kbreak[0][0] if kbreak else None
        dump = verbose_dump(cases_file, cid, workdir) if cid in by_id else ""
        thm = (names[0] if names else "EntraitProofs.%s" % prop)
        path = write_replay(workdir, prop, n, list(by_id.get(cid, ("-",))), dump,
                            "theorem %s no longer transfers to the code: %s; %d inputs searched, predicate true on all" %
                            (thm, why.replace("\n", " ")[:400], len(results)))
        print("VIOLATION property=%s replay=%s %s no-failing-input-found" % (prop, path, why.replace("\n", " ")[:200]))
        rc = 1

    samples = [{"id": c[0], "variant": c[1], "attr": c[2], "item": c[3][:400]} for c in cases[:3]]
    coverage = {
        "obligations": max(1, len(names)),
        "discharged": len([n_ for n_ in names if n_ in axioms and set(axioms[n_]) <= ALLOWED_AXIOMS]) if proof_ok else 0,
        "checker_cmd": "cd lean && lake build EntraitProofs.%s && lake env lean <#print axioms of %d theorems>" % (prop, len(names)),
        "theorems": names,
        "axioms": axioms,
        "trusted_base": TRUSTED_BASE,
        "evaluations": len(results),
        "distinct_nontrivial": len(nontrivial),
        "rule": plan["rule"] + " A case is non-trivial when the real macro expanded it, the expansion could be re-parsed, and P_%s evaluated to true on it; distinct = distinct (variant, attribute, item) triples." % prop,
        "samples": samples,
        "distribution": stats,
        "exhaustive": plan.get("exhaustive", False),
        "explanation": extra.get("explanation", ""),
        "full_token_agreement": sum(1 for d in results.values() if d.get("tok") == "1") and
            round(sum(1 for d in results.values() if d.get("tok") == "1") / max(1, sum(1 for d in results.values() if d.get("modelled") == "1")), 4),
    }
    coverage.update(extra.get("coverage", {}))
    coverage["compile_and_run_probes"] = probe_cov
    if recheck is not None:
        coverage["leanchecker"] = recheck
    level = "proof"
    if not names:
        # no theorem registered for this property (yet): what ran is the differential
        # correspondence only
        level = "translation_validation"
        coverage["programs"] = len(results)
        coverage["disagreements_checked"] = len(kbreak) + len(failing)
    finish(prop, tier, seed, t0, coverage, 0 if rc == 0 else 1, level=level)
    # scratch hygiene: the encoded case files of a run are large (thorough: hundreds of MB) and are not needed
    # for a replay (a replay file carries its case and is re-run from it)
    for f in os.listdir(workdir):
        fp = os.path.join(workdir, f)
        if os.path.isfile(fp) and not f.startswith("replay_") and os.path.getsize(fp) > (4 << 20):
            os.remove(fp)
    return rc


def replay(prop, path):
    case = None
    for line in open(path):
        if line.startswith("CASE\t"):
            case = line.rstrip("\n").split("\t")[1:]
    if not case or len(case) < 4:
        m = re.search(r"--bin (\S+) &&", open(path).read())
        if m:
            # a compile-and-run probe: rebuild it against the checkout and run it
            import probes
            fails, _ = probes.run(prop, os.path.dirname(os.path.abspath(path)))
            fails = [f for f in fails if f[0] == m.group(1)]
            for b, why, src in fails:
                print("VIOLATION property=%s replay=%s %s: %s" % (prop, path, b, why))
            return 1 if fails else 0
        print("no replayable case in", path)
        return 2
    ok, log = build_harness()
    if not ok:
        print(log[-3000:])
        return 1
    build_lean(prop)
    workdir = os.path.join(WORK, prop + "_replay")
    os.makedirs(workdir, exist_ok=True)
    try:
        owned = [l.rstrip("\n").split("\t", 1)[1] for l in open(path) if l.startswith("OWNED\t")]
        ofile = None
        if owned:
            ofile = os.path.join(workdir, "replay.owned")
            open(ofile, "w").write("\n".join(owned) + "\n")
        LAST_OWNED_FILE[0] = ofile
        results, cases_file, _ = run_cases([tuple(case)], workdir, "replay", threads=1, owned_file=ofile or "")
    except EngineDied as e:
        print("the real macro %s on this input" % e.how)
        print("VIOLATION property=%s replay=%s" % (prop, path))
        return 1
    print(verbose_dump(cases_file, case[0], workdir))
    ambient = [l.rstrip("\n").split("\t")[1:] for l in open(path) if l.startswith("AMBIENT\t")]
    if ambient:
        # expand the case again in a process with the recorded ambient inputs and compare
        import focus
        base = focus.load_real(cases_file)
        env = dict(os.environ)
        for kind, *assigns in ambient:
            for a in assigns:
                k, _, v = a.partition("=")
                env[k] = v
            if kind == "shim":
                so = focus.ensure_shim()
                if so:
                    env["LD_PRELOAD"] = so
        out2 = os.path.join(workdir, "replay_ambient.cases")
        subprocess.run([os.path.join(HARNESS, "target", "debug", "entrait_verif_harness"),
                        os.path.join(workdir, "replay.tsv"), out2, "1"], check=True, env=env, stdout=subprocess.DEVNULL)
        other = focus.load_real(out2)
        if other != base:
            print("expansion differs under the recorded ambient inputs %s" % ambient)
            print("VIOLATION property=%s replay=%s" % (prop, path))
            return 1
    d = results.get(case[0], {})
    trip = d.get(prop, "")
    bad = (len(trip) == 3 and (trip[2] == "0" or trip[0] == "0")) or d.get("agree") == "0"
    if bad:
        print("VIOLATION property=%s replay=%s" % (prop, path))
        return 1
    return 0
