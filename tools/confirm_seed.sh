#!/bin/bash
# usage: tools/confirm_seed.sh <ID> <property>   -- confirm a seeded change produced by a sub-agent
# (worktree /tmp/seed_<ID> with the change applied, deliverables in /tmp/seed_<ID>_out) and file it
id=$1; prop=${2:-$1}
wt=/tmp/seed_$id; out=/tmp/seed_${id}_out
demo=$out/demo/demo.sh; [ -f $demo ] || demo=$out/demo.sh
cd $wt || exit 2
git diff > /tmp/confirm_$id.diff
cmp -s /tmp/confirm_$id.diff $out/patch.diff || echo "note: worktree diff differs from patch.diff"
echo "== tests with the change"
CARGO_NET_OFFLINE=true cargo test --workspace --no-fail-fast --offline 2>&1 | grep -E "^test result|FAILED|error(\[|:)" | tr '\n' ';'; echo
# a build directory left by the sub-agent may hold an expansion of the other tree (seen with R14C19)
find $out -maxdepth 2 -type d \( -name 'demo_target*' -o -name target -o -name 'demo_work*' \) -exec rm -rf {} + 2>/dev/null
echo "== demo with the change"; bash $demo $wt >/tmp/confirm_${id}_with.log 2>&1; rc_with=$?; echo "exit $rc_with"
echo "== demo on /repo (unchanged)"; bash $demo /repo >/tmp/confirm_${id}_without.log 2>&1; rc_without=$?; echo "exit $rc_without"
if [ $rc_with -ne 0 ] && [ $rc_without -eq 0 ]; then
  d=/verif/seeded/$id; mkdir -p $d
  cp $out/patch.diff $d/patch.diff
  rm -rf $d/demo; mkdir -p $d/demo
  (cd $out && tar cf - --exclude=target --exclude='demo_target*' --exclude='demo_work*' --exclude='*.log' demo demo.sh notes.md 2>/dev/null) | (cd $d && tar xf -)
  echo "confirmed -> $d"
else
  echo "NOT confirmed"
fi
