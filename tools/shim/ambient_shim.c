/* LD_PRELOAD shim used by the C20 check (tools/focus.py): makes the ambient inputs of the process that
   runs the macro observable and controllable.
     - every getenv()/secure_getenv() name is appended to the file named by ENTRAIT_VERIF_ENVLOG;
     - clock_gettime()/gettimeofday()/time() are shifted by ENTRAIT_VERIF_TIME_SHIFT seconds;
     - getpid() is xor-ed with ENTRAIT_VERIF_PID_XOR.
   It changes nothing unless those variables are set. */
#define _GNU_SOURCE
#include <dlfcn.h>
#include <stdio.h>
#include <stdlib.h>
#include <string.h>
#include <time.h>
#include <sys/time.h>
#include <sys/types.h>
#include <unistd.h>

static char *(*real_getenv)(const char *);
static char *raw_getenv(const char *n) {
  if (!real_getenv) real_getenv = (char *(*)(const char *))dlsym(RTLD_NEXT, "getenv");
  return real_getenv ? real_getenv(n) : 0;
}
static void log_name(const char *name) {
  if (!name || strncmp(name, "ENTRAIT_VERIF_", 14) == 0) return;
  const char *log = raw_getenv("ENTRAIT_VERIF_ENVLOG");
  if (!log) return;
  FILE *f = fopen(log, "a");
  if (f) { fprintf(f, "%s\n", name); fclose(f); }
}
char *getenv(const char *name) { log_name(name); return raw_getenv(name); }
char *secure_getenv(const char *name) { log_name(name); return raw_getenv(name); }

static long shift(void) { const char *s = raw_getenv("ENTRAIT_VERIF_TIME_SHIFT"); return s ? atol(s) : 0; }

int clock_gettime(clockid_t c, struct timespec *ts) {
  static int (*real)(clockid_t, struct timespec *);
  if (!real) real = (int (*)(clockid_t, struct timespec *))dlsym(RTLD_NEXT, "clock_gettime");
  int r = real(c, ts);
  if (r == 0 && ts) ts->tv_sec += shift();
  return r;
}
int gettimeofday(struct timeval *tv, void *tz) {
  static int (*real)(struct timeval *, void *);
  if (!real) real = (int (*)(struct timeval *, void *))dlsym(RTLD_NEXT, "gettimeofday");
  int r = real(tv, tz);
  if (r == 0 && tv) tv->tv_sec += shift();
  return r;
}
time_t time(time_t *t) {
  static time_t (*real)(time_t *);
  if (!real) real = (time_t (*)(time_t *))dlsym(RTLD_NEXT, "time");
  time_t r = real(0) + shift();
  if (t) *t = r;
  return r;
}
pid_t getpid(void) {
  static pid_t (*real)(void);
  if (!real) real = (pid_t (*)(void))dlsym(RTLD_NEXT, "getpid");
  const char *x = raw_getenv("ENTRAIT_VERIF_PID_XOR");
  return real() ^ (x ? atoi(x) : 0);
}
