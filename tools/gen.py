"""Input generators.  Everything is Rust *text* (one case per line: id, macro variant, attribute
arguments, item), derived from one random.Random so that a seed replays exactly.

Structured, mostly-valid inputs from entrait's own grammar (fn / mod / trait / impl block),
plus a separate malformed stream.
"""
import itertools
import random
import re

VARIANTS = ["plain", "export", "unimock", "export_unimock"]

# ------------------------------------------------------------------------------------------------
# small vocabularies
# ------------------------------------------------------------------------------------------------
FN_NAMES = ["foo", "bar", "get_user", "arg0", "arg1", "r#match", "f", "x_y"]
TRAIT_NAMES = ["Foo", "Bar", "GetUser", "Sync", "Send", "T1"]
TRAIT_VIS = ["", "", "pub ", "pub(crate) ", "pub(super) ", "pub(in crate::a) ", "pub(self) "]
FN_VIS = ["", "pub ", "pub(crate) ", "pub(super) ", "pub(in crate::a::b) "]
BOUNDS = ["A", "B", "C", "q::Q", "Gen<u8>", "'static", "?Sized", "for<'x> Fn(&'x u8)", "Send", "::core::fmt::Debug"]
TYPES = ["i32", "u8", "String", "&str", "&'a str", "(i32, i32)", "[u8; 4]", "Vec<T>", "Option<&'a T>",
         "&mut u8", "impl Into<u8>", "Box<dyn Fn(u8) -> u8>", "T", "U", "N", "S", "&[u8]", "fn(u8) -> u8"]
RET_TYPES = ["", "", " -> i32", " -> &str", " -> &'a str", " -> Result<u8, ()>", " -> impl Iterator<Item = u8>",
             " -> T", " -> Option<&'a T>", " -> (u8, u8)", " -> !", " -> Box<dyn Send>"]
FN_ATTRS = ["#[inline]", "#[doc = \"x\"]", "/** doc */", "#[cfg(test)]", "#[cfg(any())]", "#[allow(unused)]",
            "#[async_trait::async_trait]", "#[async_trait]", "#[mockall::automock]", "#[tracing::instrument(skip(deps))]",
            "#[some::other(a, b = 1)]", "#[::entrait::entrait(Nested)]", "#[cfg_attr(test, derive(Debug))]",
            "#[automock]", "#[async_trait(?Send)]", "#[my::automock(x)]", "#[cfg(all())]", "#[must_use]"]


def source_dictionary(repo=None):
    """Words the macro's own source compares things with or writes: every string literal in
    entrait_macros/src that is an identifier.  Content-sensitive handling of user tokens (an attribute,
    option or name the macro recognises by its spelling) is keyed on such a literal, so inputs built
    from this dictionary follow the source: a newly special-cased word shows up in the inputs."""
    import os
    repo = repo or os.environ.get("ENTRAIT_REPO", "/repo")
    words = set()
    root = os.path.join(repo, "entrait_macros", "src")
    for d, _, fs in os.walk(root):
        for f in sorted(fs):
            if f.endswith(".rs"):
                text = open(os.path.join(d, f), errors="replace").read()
                words.update(re.findall(r'"([A-Za-z_][A-Za-z0-9_]{1,24})"', text))
    return sorted(words)


RUST_KEYWORDS = {"self", "Self", "super", "crate", "ref", "dyn", "fn", "mod", "impl", "trait", "pub", "in", "as", "mut",
                 "const", "async", "await", "unsafe", "extern", "where", "for", "static", "true", "false", "type", "use"}


def dictionary_attrs(r, words, n):
    """n attributes spelled with dictionary words, in the shapes attribute-sensitive code looks at"""
    out = []
    names = [w for w in words if w not in RUST_KEYWORDS] or ["x"]
    for _ in range(n):
        w, w2 = r.choice(words), r.choice(names)
        shape = r.randrange(9)
        out.append([
            "#[%s]" % w2, "#[%s(a)]" % w2, "#[cfg(feature = \"%s\")]" % w, "#[cfg_attr(%s, %s)]" % (w2, r.choice(names)),
            "#[allow(%s)]" % w2, "#[doc = \"%s\"]" % w, "#[q::%s]" % w2, "#[%s::q]" % w2, "#[cfg(%s)]" % w2,
        ][shape])
    return out


BODIES = ["{ }", "{ 42 }", "{ a + b }", "{ let x = |y: u8| y; x(1); }", "{ unimplemented!() }",
          "{ if a { b } else { c } }", "{ struct Inner; impl Inner { fn f() {} } }", "{ loop { break; } }",
          "{ $ @ # ~ ? }", "{ a => b, 'x: loop {} }", "{ r#\"str\"# ; b'x'; 1.5e3; 0xff_u8 }"]

# the pattern alphabet of C16 (instantiated with the fn name where needed)
def pattern_alphabet(fn_name, gen_name):
    plain = fn_name[2:] if fn_name.startswith("r#") else fn_name
    return [
        ("a", "i32"), ("mut b", "i32"), ("ref c", "i32"), ("r#type", "u8"), ("_", "u8"),
        ("(d, e)", "(i32, i32)"), ("N(g)", "N"), ("N(h, _)", "N"), ("S { k }", "S"), ("&m", "&u8"),
        (fn_name, "u8"), (gen_name, "u8"),
        # beyond the alphabet
        ("n @ (o, q)", "(u8, u8)"), ("N(None)", "N"), ("S { k: N(w), .. }", "S"), ("[s, t]", "[u8; 2]"),
        ("(_, _)", "(u8, u8)"), ("N(N(z))", "N"), (plain + "_", "u8"), ("_" + gen_name, "u8"),
        ("Foo", "u8"), ("mut " + fn_name, "u8"),
        # a single binding with a non-default binding mode / sub-pattern inside a destructuring pattern
        ("N(mut u)", "N"), ("S { ref v, .. }", "S"), ("(ref mut y, _)", "(i32, bool)"), ("N(x2 @ _)", "N"),
        ("&mut N(ref mut j)", "&mut N"),
        # raw identifiers inside destructuring patterns, named like what the macro generates
        ("N(r#%s)" % gen_name, "N"), ("N(r#%s_)" % plain, "N"), ("S { r#%s, .. }" % gen_name, "S"), ("r#%s_" % plain, "u8"),
        # or-patterns: one binding occurring in every alternative - also spelled once raw and once plain (one name)
        ("(Ok(v1) | Err(v1))", "Result<u8, u8>"), ("(Ok(r#v2) | Err(v2))", "Result<u8, u8>"),
        ("(N(r#w1) | N(r#w1))", "N"), ("(Ok((p1, p2)) | Err((p2, p1)))", "Result<(u8, u8), (u8, u8)>"),
    ]


class Gen:
    def __init__(self, seed):
        self.r = random.Random(seed)
        self.words = source_dictionary() or ["x"]

    # ------------------------------------------------------------------ helpers
    def pick(self, xs):
        return self.r.choice(xs)

    def maybe(self, p):
        return self.r.random() < p

    def subset(self, xs, p=0.3):
        return [x for x in xs if self.maybe(p)]

    def bounds(self, lo=0, hi=3):
        n = self.r.randint(lo, hi)
        return self.r.sample(BOUNDS, n)

    def attrs(self, p=0.25, pool=FN_ATTRS):
        out = "".join(a + " " for a in pool if self.maybe(p / 2))
        if self.maybe(p):
            out += "".join(a + " " for a in dictionary_attrs(self.r, self.words, self.r.randint(1, 2)))
        return out

    # ------------------------------------------------------------------ attribute arguments
    def fn_opts(self, allow_invalid=False):
        opts = []
        pool = [
            ("no_deps", ["no_deps", "no_deps = true", "no_deps = false"]),
            ("export", ["export", "export = true", "export = false"]),
            ("mock_api", ["mock_api = FooMock", "mock_api = M"]),
            ("unimock", ["unimock", "unimock = true", "unimock = false"]),
            ("mockall", ["mockall", "mockall = true", "mockall = false"]),
            ("send", ["?Send"]),
            ("debug", ["debug = false"]),
        ]
        for _key, forms in pool:
            if self.maybe(0.22):
                opts.append(self.pick(forms))
        if allow_invalid and self.maybe(0.3):
            opts.append(self.pick(["delegate_by = ref", "delegate_by=Foo", "bogus", "?Sync", "unimock = 1",
                                   "mock_api", "export = maybe", "no_deps no_deps", "", "pub", "= true"]))
        self.r.shuffle(opts)
        return opts

    def fn_attr(self, allow_invalid=False, no_deps=None):
        vis = self.pick(TRAIT_VIS)
        name = self.pick(TRAIT_NAMES)
        opts = self.fn_opts(allow_invalid)
        if no_deps is True and not any(o.startswith("no_deps") for o in opts):
            opts.append("no_deps")
        if no_deps is False:
            opts = [o for o in opts if not o.startswith("no_deps") or o.endswith("false")]
        s = vis + name
        for o in opts:
            s += ", " + o
        if allow_invalid and self.maybe(0.1):
            s += ","
        return s

    # ------------------------------------------------------------------ functions
    def fn_sig(self, name=None, deps_kinds=None, params=None, allow_receiver=False):
        """returns (signature text, uses_no_deps)"""
        r = self.r
        name = name or self.pick(FN_NAMES)
        quals = ""
        if self.maybe(0.1):
            quals += "const "
        is_async = self.maybe(0.3)
        if is_async:
            quals += "async "
        if self.maybe(0.12):
            quals += "unsafe "
        if self.maybe(0.08):
            quals += self.pick(["extern \"C\" ", "extern "])
        deps_kinds = deps_kinds or ["generic", "generic", "generic", "impl", "where", "mixed", "byvalue",
                                    "concrete", "nodeps", "lifetime"]
        kind = self.pick(deps_kinds)
        generics = []
        where = []
        lifetimes = []
        if self.maybe(0.3) or kind == "lifetime":
            lifetimes.append("'a")
        if self.maybe(0.08):
            lifetimes.append("'b: 'a")
        first = None
        no_deps = False
        dep_pat = self.pick(["deps", "deps", "_deps", "_", "d"])
        if kind == "generic":
            bs = self.bounds()
            generics.append("D" + (": " + " + ".join(bs) if bs else ""))
            first = f"{dep_pat}: &D"
        elif kind == "where":
            bs = self.bounds(1, 3)
            generics.append("D")
            where.append("D: " + " + ".join(bs))
            first = f"{dep_pat}: &D"
        elif kind == "mixed":
            bs1, bs2 = self.bounds(1, 2), self.bounds(1, 2)
            generics.append("D: " + " + ".join(bs1))
            where.append("D: " + " + ".join(bs2))
            first = f"{dep_pat}: &D"
        elif kind == "impl":
            bs = self.bounds(1, 3)
            first = f"{dep_pat}: &impl " + " + ".join(bs)
            if len(bs) > 1 or self.maybe(0.15):
                first = f"{dep_pat}: &(impl " + " + ".join(bs) + ")"
        elif kind == "byvalue":
            bs = self.bounds()
            generics.append("D" + (": " + " + ".join(bs) if bs else ""))
            first = f"{dep_pat}: D"
        elif kind == "lifetime":
            generics.append("D")
            first = f"{dep_pat}: &'a D"
        elif kind == "concrete":
            first = f"{dep_pat}: " + self.pick(["&App", "&crate::App", "&Gen<u8>", "&(A, B)", "&'a App", "App",
                                                  "&mut App", "&[u8]", "&::abs::App", "&<X as Y>::Z", "&dyn Tr"])
        elif kind == "nodeps":
            no_deps = True
        if allow_receiver and self.maybe(0.5):
            first = self.pick(["&self", "self", "&mut self", "&'a self", "self: Box<Self>"])
        # further generics
        if self.maybe(0.3):
            generics.append(self.pick(["T", "T: Clone", "T: A + 'static", "T = u8"] + (["T: 'a", "T: Gen<'a>"] if lifetimes else [])))
            if self.maybe(0.4):
                where.append(self.pick(["T: B", "Vec<T>: Clone", "T: Iterator<Item = u8>", "for<'x> &'x T: A"]))
        if self.maybe(0.12):
            generics.append(self.pick(["U", "U: ?Sized"]))
        if self.maybe(0.12):
            generics.append(self.pick(["const N: usize", "const N: usize = 3"]))
        if self.maybe(0.05):
            where.append("'a: 'static")
        if lifetimes and self.maybe(0.3):
            # predicates that talk about a lifetime parameter of the function: they can only live on the method
            where.append(self.pick(["T: 'a", "'b: 'a" if len(lifetimes) > 1 else "'a: 'a", "Vec<&'a u8>: Clone",
                                    "for<'x> &'x T: Tr<'a>", "&'a T: A", "T: Gen<'a>", "for<'x> &'x T: Sized",
                                    "(T, &'a ()): B"]))
        if self.maybe(0.06):
            # bounded types the where-clause walk treats specially: qualified-self and leading-colon paths,
            # multi-segment paths, and (when the dependency is `D`) the dependency's own projections
            where.append(self.pick(["<D as A>::Out: Clone", "::core::primitive::u8: Copy", "D::Out: B", "a::b::C: A",
                                    "<u8 as ::core::ops::Add>::Output: Copy", "[D; 2]: Clone", "&'static D: A"]))
        r.shuffle(generics)
        gens = lifetimes + generics
        gtxt = ""
        if gens:
            gtxt = "<" + ", ".join(gens) + (self.pick(["", "", ","])) + ">"
        elif self.maybe(0.004):
            gtxt = "<>"
        # parameters
        if params is None:
            n = r.choice([0, 0, 1, 1, 2, 2, 3, 4, 6])
            alphabet = pattern_alphabet(name, "arg%d" % r.randint(0, 2))
            params = []
            used = set()
            for k in range(n):
                cand = r.choice(alphabet) if self.maybe(0.6) else ("p%d" % k, r.choice(TYPES))
                # identifiers bound by the pattern; duplicate bindings are not valid Rust,
                # keep them rare but present (the macro must still not panic on them)
                binds = set(re.findall(r"[a-z_][A-Za-z0-9_#]*", cand[0])) - {"mut", "ref", "_", "r"}
                if binds & used and not self.maybe(0.02):
                    cand = ("p%d" % k, r.choice(TYPES))
                    binds = {"p%d" % k}
                used |= binds
                params.append(cand)
        ptxt = []
        for (pat_, ty_) in params:
            a = ""
            if self.maybe(0.06):
                a = self.pick(["#[cfg(test)] ", "#[allow(unused)] "])
            ptxt.append(f"{a}{pat_}: {ty_}")
        allp = ([first] if first else []) + ptxt
        inputs = ", ".join(allp)
        if allp and self.maybe(0.15):
            inputs += ","
        if self.maybe(0.003):
            inputs += (", " if allp and not inputs.endswith(",") else "") + "..."
        ret = self.pick(RET_TYPES)
        wtxt = ""
        if where:
            wtxt = " where " + ", ".join(where) + self.pick(["", "", ","])
        return f"{quals}fn {name}{gtxt}({inputs}){ret}{wtxt}", no_deps

    def fn_item(self, **kw):
        sig, no_deps = self.fn_sig(**kw)
        return f"{self.attrs()}{self.pick(FN_VIS)}{sig} {self.pick(BODIES)}", no_deps

    def case_fn(self, allow_invalid=False):
        item, no_deps = self.fn_item()
        if allow_invalid and self.maybe(0.3):
            no_deps = self.maybe(0.5)
        return self.pick(VARIANTS), self.fn_attr(allow_invalid, no_deps=no_deps), item

    # ------------------------------------------------------------------ modules
    OTHER_ITEMS = [
        "struct S;", "struct S2 { a: u8 }", "pub struct P(u8);", "const C: u8 = 1;", "pub const K: Foo<{ 3 }> = Foo;",
        "static ST: u8 = if true { 1 } else { 2 };", "use super::*;", "pub use a::b::{c, d};",
        "impl S { pub fn inner(&self) {} fn g() {} }", "impl Tr for S { fn m(&self) {} }",
        "macro_rules! mm { () => { pub fn gen() {} }; }", "mod nested { pub fn deep(d: &impl A) {} }",
        "pub mod pm { }", "extern \"C\" { pub fn ext(a: u8); }", "type Fp = fn(u8) -> u8;",
        "pub type Pt = Box<dyn Fn()>;", "enum E { A, B }", "pub trait Inner { fn m(&self); }",
        "mm!();", "mm! { a b c }", "pub fn decl(d: &impl A);", "fn private_decl();",
        "#[derive(Debug)] pub struct WithAttr { pub f: fn() }", ";", "pub(crate) static mut SM: u8 = 0;",
        "union U { a: u8 }", "pub const fn_like: u8 = 0;", "const _: () = { fn hidden() {} };",
        "struct Gen<const N: usize>;", "impl Gen<{ 1 + 2 }> { pub fn g() {} }",
    ]

    def mod_entry(self, deps_kinds):
        """(text, name of the function if the entry is a non-private function with a body)"""
        r = self.r.random()
        if r < 0.5:
            vis = self.pick(["pub ", "pub ", "pub(crate) ", "pub(super) ", "pub(in crate::a) ", "pub(self) "])
            name = self.pick(FN_NAMES)
            sig, _ = self.fn_sig(name=name, deps_kinds=deps_kinds)
            return f"{self.attrs(0.15)}{vis}{sig} {self.pick(BODIES)}", name
        if r < 0.62:
            sig, _ = self.fn_sig(deps_kinds=deps_kinds)
            return f"{self.attrs(0.1)}{sig} {self.pick(BODIES)}", None
        return self.pick(self.OTHER_ITEMS), None

    def case_mod(self, allow_invalid=False):
        no_deps = self.maybe(0.15)
        kinds = ["nodeps"] if no_deps else ["generic", "generic", "impl", "where", "mixed", "byvalue", "lifetime"]
        if allow_invalid and self.maybe(0.2):
            kinds = kinds + ["concrete"]
        n = self.r.choice([0, 1, 2, 2, 3, 4, 5])
        entries = [self.mod_entry(kinds) for _ in range(n)]
        body = " ".join(e[0] for e in entries)
        self.last_meta = "fns=" + ",".join(e[1] for e in entries if e[1])
        attrs = self.attrs(0.1)
        vis = self.pick(FN_VIS)
        pre = "unsafe " if allow_invalid and self.maybe(0.05) else ""
        name = self.pick(["m", "my_mod", "r#mod"])
        item = f"{attrs}{vis}{pre}mod {name} {{ {body} }}"
        return self.pick(VARIANTS), self.fn_attr(allow_invalid, no_deps=no_deps), item

    # ------------------------------------------------------------------ traits
    def trait_method(self):
        name = self.pick(["m", "get", "foo", "arg0", "n2"])
        quals = "async " if self.maybe(0.3) else ""
        if self.maybe(0.05):
            quals += "unsafe "
        recv = self.pick(["&self", "&self", "&self", "&self", "&'a self", "&mut self", "self", "self: Box<Self>", ""])
        n = self.r.choice([0, 1, 1, 2, 3])
        pats = []
        seen = set()
        for k in range(n):
            pt = self.pick(["a", "b", "_", name, "arg0", "p%d" % k, "_x"])
            if pt != "_" and pt in seen and not self.maybe(0.02):
                pt = "p%d" % k
            seen.add(pt)
            pats.append((pt, self.pick(TYPES)))
        inputs = ", ".join(([recv] if recv else []) + [f"{p_}: {t}" for p_, t in pats])
        if inputs and self.maybe(0.1):
            inputs += ","
        gens = []
        if "'a" in inputs or self.maybe(0.1):
            gens.append("'a")
        if self.maybe(0.15):
            gens.append(self.pick(["G", "G: Clone", "const M: usize"]))
        g = "<" + ", ".join(gens) + ">" if gens else ""
        ret = self.pick(RET_TYPES)
        wh = self.pick(["", "", "", " where Self: Sized", " where G: A"]) if gens else self.pick(["", "", " where Self: Sized"])
        attrs = self.attrs(0.2, ["#[cfg(test)]", "#[cfg(any())]", "#[doc = \"m\"]", "/** d */", "#[allow(unused)]", "#[must_use]"])
        tail = ";" if self.maybe(0.85) else " { unimplemented!() }"
        return f"{attrs}{quals}fn {name}{g}({inputs}){ret}{wh}{tail}"

    def trait_attr(self, allow_invalid=False):
        parts = []
        mode = self.r.random()
        if mode < 0.35:
            pass
        elif mode < 0.7:
            parts.append(self.pick(["", "pub ", "pub(crate) "]) + self.pick(["FooImpl", "TheImpl"]))
            parts.append(self.pick(["delegate_by = DelegateFoo", "delegate_by = ref", "delegate_by=ref",
                                    "delegate_by = Borrow", "delegate_by = D2"]))
        else:
            parts.append(self.pick(["delegate_by = ref", "delegate_by = Borrow", "delegate_by = Self", "delegate_by"]))
        for forms in (["mock_api = FooMock"], ["unimock", "unimock = true", "unimock = false"],
                      ["mockall", "mockall = false", "mockall = true"], ["?Send"], ["debug = false"]):
            if self.maybe(0.2):
                parts.append(self.pick(forms))
        if allow_invalid and self.maybe(0.35):
            parts.append(self.pick(["no_deps", "export", "delegate_by = Custom", "FooImpl", "bogus = 1", "?Size",
                                    "delegate_by = fn", "mock_api", "", "delegate_by = ref extra"]))
            self.r.shuffle(parts)
        s = ", ".join(parts)
        if allow_invalid and self.maybe(0.1):
            s = s.replace(", ", " ", 1)
        if self.maybe(0.05) and s:
            s += ","
        return s

    def case_trait(self, allow_invalid=False):
        attrs = self.attrs(0.25, ["#[async_trait::async_trait]", "#[async_trait]", "#[mockall::automock]",
                                  "#[doc = \"t\"]", "/** doc */", "#[allow(unused)]", "#[cfg(test)]", "#[automock]",
                                  "#[async_trait(?Send)]", "#[my::automock(x)]", "#[cfg(all())]"])
        vis = self.pick(["", "pub ", "pub(crate) ", "pub(super) ", "pub(in crate::a) ", "pub(self) "])
        pre = "unsafe " if self.maybe(0.06) else ""
        name = self.pick(TRAIT_NAMES)
        gens = []
        if self.maybe(0.15):
            gens.append("'a")
        if self.maybe(0.25):
            gens.append(self.pick(["T", "T: Clone", "T = u8", "const N: usize", "const N: usize = 4", "T: Clone = u8"]))
        if self.maybe(0.08):
            gens.append(self.pick(["U: ?Sized", "const M: usize = 2", "U = ()"]))
        g = "<" + ", ".join(gens) + self.pick(["", "", ","]) + ">" if gens else ""
        sup = ""
        if self.maybe(0.25):
            sup = ": " + " + ".join(self.bounds(1, 2))
        elif self.maybe(0.03):
            sup = ":"
        wh = ""
        if gens and self.maybe(0.3):
            wh = " where " + self.pick(["T: B", "Self: Sized", "T: A, Self: 'static,"])
        members = [self.trait_method() for _ in range(self.r.choice([0, 1, 1, 2, 3, 4]))]
        if self.maybe(0.1):
            members.insert(self.r.randint(0, len(members)), self.pick(["type Out;", "type Assoc: Clone;"]))
        if allow_invalid and self.maybe(0.1):
            members.insert(self.r.randint(0, len(members)), self.pick(["const K: u8;", "mm!();"]))
        item = f"{attrs}{vis}{pre}trait {name}{g}{sup}{wh} {{ {' '.join(members)} }}"
        return self.pick(VARIANTS), self.trait_attr(allow_invalid), item

    # ------------------------------------------------------------------ impl blocks
    def case_impl(self, allow_invalid=False):
        attrs = self.attrs(0.15, ["#[async_trait::async_trait]", "#[async_trait]", "#[doc = \"i\"]", "#[allow(unused)]",
                                  "#[mockall::automock]", "#[automock]", "#[cfg(all())]", "#[my::automock(x)]", "#[inline]"])
        pre = "unsafe " if self.maybe(0.05) else ""
        path = self.pick(["FooImpl", "crate::FooImpl", "super::a::TheImpl", "::abs::FooImpl"])
        ty = self.pick(["MyType", "crate::MyType", "Gen<u8>", "(A, B)", "&'static MyType", "[u8; 2]"])
        kinds = ["generic", "generic", "impl", "impl", "where", "mixed", "lifetime", "byvalue"]
        if allow_invalid and self.maybe(0.25):
            kinds = kinds + ["concrete", "nodeps"]
        entries = []
        for _ in range(self.r.choice([0, 1, 1, 2, 3])):
            rr = self.r.random()
            if rr < 0.75:
                sig, _ = self.fn_sig(deps_kinds=kinds, allow_receiver=allow_invalid and self.maybe(0.1))
                entries.append(f"{self.attrs(0.1)}{self.pick(['', '', 'pub ', 'pub(crate) '])}{sig} {self.pick(BODIES)}")
            else:
                # non-function items, with the attributes and visibilities an item can carry
                entries.append(self.attrs(0.2) + self.pick(["", "", "pub ", "pub(crate) ", "pub(super) ", "pub(in crate::a) "]) +
                               self.pick(["type Out = u8;", "const K: u8 = 1;", "fn decl(d: &impl A);", "mm!();",
                                          "const C2: u8 = { 1 };", "mm! { a, b }", "type G<T> = Vec<T>;"]))
        attr = self.pick(["", "", "", "ref", "dyn", "ref dyn", "debug = false", "ref debug = false", "debug = false, debug",
                          "ref debug, debug = false", "dyn debug = false"])
        if allow_invalid and self.maybe(0.3):
            attr = self.pick(["no_deps", "Foo", "ref,", "unimock", "dyn ref", "?Send", "ref, debug = false", "bogus"])
        item = f"{attrs}{pre}impl {path} for {ty} {{ {' '.join(entries)} }}"
        return self.pick(VARIANTS), attr, item

    # ------------------------------------------------------------------ malformed stream
    def case_malformed(self):
        r = self.r.random()
        v = self.pick(VARIANTS)
        if r < 0.25:
            item = self.pick(["struct X;", "enum E { A }", "const C: u8 = 1;", "use a::b;", "static S: u8 = 0;",
                              "type T = u8;", "macro_rules! m { () => {} }", "extern \"C\" { fn f(); }", "mod decl;",
                              "union U { a: u8 }", "impl X { fn f() {} }", "impl<T> Tr for X<T> { }", "fn", "fn f",
                              "pub(crate)", "trait", "auto trait Au { }", "unsafe auto trait Au2 { }",
                              "unsafe impl Tr for X { }", "pub impl Tr for X { }", "fn f() -> { }", "mod m { pub fn f( }",
                              "mod m { pub fn }", "mod m { pub }", "mod m { # }", "mod m { pub struct }", "trait T { fn f(; }",
                              "impl Tr for X { fn }", "impl Tr for X { pub }"])
            attr = self.pick(["Foo", "", "pub Foo", "ref"])
            return v, attr, item
        if r < 0.5:
            toks = ["Foo", "pub", ",", "=", "true", "false", "no_deps", "export", "unimock", "mockall", "mock_api",
                    "delegate_by", "ref", "dyn", "?", "Send", "Self", "Borrow", "(", ")", "crate", "in", "::", "1", "\"s\"",
                    "debug", "fn", "r#x", "'a", "#", "[", "]", "{", "}", "!", "-"]
            attr = " ".join(self.pick(toks) for _ in range(self.r.randint(0, 7)))
            # keep delimiters balanced enough to lex
            for o, c in (("(", ")"), ("[", "]"), ("{", "}")):
                if attr.count(o) != attr.count(c):
                    attr = attr.replace(o, "").replace(c, "")
            item = self.pick(["fn foo<D>(d: &D, a: u8) {}", "mod m { pub fn f(d: &impl A) {} }",
                              "trait Tr { fn m(&self, a: u8); }", "impl FooImpl for X { fn m(d: &impl A) {} }"])
            return v, attr, item
        kind = self.pick(["fn", "mod", "trait", "impl"])
        return getattr(self, "case_" + kind)(allow_invalid=True)

    # ------------------------------------------------------------------ mixes
    def mix(self, n, weights=None, prefix="g"):
        weights = weights or {"fn": 4, "mod": 3, "trait": 3, "impl": 2, "malformed": 2}
        kinds = list(weights)
        ws = [weights[k] for k in kinds]
        out = []
        for k in range(n):
            kind = self.r.choices(kinds, ws)[0]
            self.last_meta = ""
            v, attr, item = getattr(self, "case_" + kind)()
            meta = self.last_meta if kind == "mod" else ""
            out.append((f"{prefix}{k}_{kind}", v, attr, item, meta))
        return out


def write_cases(path, cases):
    with open(path, "w") as f:
        for (cid, v, attr, item, *_rest) in cases:
            assert "\t" not in attr and "\t" not in item and "\n" not in attr and "\n" not in item
            f.write(f"{cid}\t{v}\t{attr}\t{item}\n")


if __name__ == "__main__":
    import sys
    seed = int(sys.argv[1]) if len(sys.argv) > 1 else 0
    n = int(sys.argv[2]) if len(sys.argv) > 2 else 20
    g = Gen(seed)
    for c in g.mix(n):
        print("\t".join(c))
