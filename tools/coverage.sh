#!/bin/bash
# Measures how much of /repo/entrait_macros/src the generated inputs of the quick tier execute
# (line coverage of the real macro under engine E1).  Auxiliary: not a registered check.
# Builds an instrumented copy of the harness in a scratch directory (removed afterwards).
set -e
SCR=${1:-/tmp/entrait_cov_$$}
BIN=$(dirname "$(rustup +nightly which rustc)")/../lib/rustlib/x86_64-unknown-linux-gnu/bin
mkdir -p $SCR
cd /verif/harness
RUSTFLAGS="-C instrument-coverage" CARGO_TARGET_DIR=$SCR/target CARGO_NET_OFFLINE=true cargo +nightly build --offline --quiet 2>/dev/null
cat /verif/work/C*/main.tsv > $SCR/all.tsv
LLVM_PROFILE_FILE=$SCR/h.profraw $SCR/target/debug/entrait_verif_harness $SCR/all.tsv $SCR/all.cases 1 > /dev/null 2>&1
$BIN/llvm-profdata merge -sparse $SCR/h.profraw -o $SCR/h.profdata
echo "cases: $(wc -l < $SCR/all.tsv)"
$BIN/llvm-cov report $SCR/target/debug/entrait_verif_harness -instr-profile=$SCR/h.profdata 2>/dev/null \
  | grep -E "entrait_macros" | awk '{printf "%-40s lines %4s missed %3s (%s)\n", $1, $8, $9, $10}' | sed 's#.*/entrait_macros/src/##'
if [ -n "$2" ]; then
  for f in $(cd /repo/entrait_macros/src && find . -name '*.rs' | sed 's#^\./##'); do
    echo "=== $f"; $BIN/llvm-cov show $SCR/target/debug/entrait_verif_harness -instr-profile=$SCR/h.profdata /repo/entrait_macros/src/$f 2>/dev/null | grep -E "^ +[0-9]+\| +0\|" | cut -c1-140
  done
fi
rm -rf $SCR
