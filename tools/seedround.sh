#!/bin/bash
# usage: tools/seedround.sh <ID> <prop> "<what it needs to manifest>"  -- confirm a sub-agent's seeded change, run the
# property's check against it, file meta.json, remove the scratch worktree
id=$1; prop=$2; needs=$3
cd /verif
tools/confirm_seed.sh $id $prop > /tmp/confirm_$id.out 2>&1
tail -6 /tmp/confirm_$id.out
grep -q "^confirmed" /tmp/confirm_$id.out || { echo "NOT CONFIRMED $id"; exit 1; }
tools/seedtest.sh /verif/seeded/$id/patch.diff $prop > /tmp/seedtest_$id.out 2>&1
cat /tmp/seedtest_$id.out
python3 - "$id" "$prop" "$needs" <<'PY'
import sys,json,re
id,prop,needs=sys.argv[1:4]
out=open(f'/tmp/seedtest_{id}.out').read()
vio=[l for l in out.splitlines() if 'VIOLATION' in l]
det=bool(vio)
how=vio[0].split('replay=')[1].split(' ',1)[1] if det and ' ' in vio[0].split('replay=')[1] else ''
m=re.match(r'R(\d+)',id)
json.dump({"id":id,"round":int(m.group(1)) if m else 1,"breaks_property":prop,"needs_to_manifest":needs,
 "confirmed":"tools/confirm_seed.sh: 40/40 existing tests pass with the change in a scratch worktree; demo.sh exits non-zero with the change and 0 on /repo",
 "checks_run":f"tools/seedtest.sh seeded/{id}/patch.diff {prop}","detected":det,"detected_by":[prop] if det else [],
 "how":how[:300]},open(f'/verif/seeded/{id}/meta.json','w'),indent=1)
print("detected" if det else "MISSED", id)
PY
git -C /repo worktree remove --force /tmp/seed_$id 2>/dev/null; rm -rf /tmp/seed_${id}_out /tmp/seed_$id
