#!/bin/bash
# run the quick check of every claimed property (refreshes evidence/*.json)
cd /verif
for p in $(python3 -c "import json; print(' '.join(c['property_id'] for c in json.load(open('MANIFEST.json'))['checks']))"); do
  out=$(./check $p 2>&1); rc=$?
  echo "[$p] rc=$rc $(echo "$out" | grep -E 'VIOLATION' | cut -c1-160)"
done
python3-vt - <<'PY'
import json, jsonschema, glob
sch=json.load(open('/root/.vp/EVIDENCE.schema.json'))
for f in sorted(glob.glob('/verif/evidence/*.json')):
    e=json.load(open(f)); jsonschema.validate(e, sch); c=e['coverage']
    print(e['property_id'], 'obl', c['obligations'], 'dis', c['discharged'], 'eval', c['evaluations'], 'nontriv', c['distinct_nontrivial'], 'wall', e['wall_s'])
PY
