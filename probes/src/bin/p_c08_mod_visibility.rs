//! C08 / C13 probe: in module mode the generated trait is importable from the module's parent under
//! the requested visibility, as if it had been declared next to the module — also for visibilities
//! that are relative to the place where the attribute is written (`pub(super)`, `pub(self)`,
//! `pub(in super::..)`).
#![allow(dead_code)]
mod outer {
    use entrait::*;
    #[entrait(pub(super) ToCrateRoot)]
    pub mod m1 { pub fn f1(_d: &impl std::any::Any) -> u8 { 1 } }
    #[entrait(pub(self) OnlyHere)]
    pub mod m2 { pub fn f2(_d: &impl std::any::Any) -> u8 { 2 } }
    #[entrait(pub(in super) AlsoCrateRoot)]
    pub mod m3 { pub fn f3(_d: &impl std::any::Any) -> u8 { 3 } }
    #[entrait(pub(in self) OnlyHereToo)]
    pub mod m4 { pub fn f4(_d: &impl std::any::Any) -> u8 { 4 } }
    #[entrait(pub(in crate::outer) Absolute)]
    pub mod m5 { pub fn f5(_d: &impl std::any::Any) -> u8 { 5 } }
    #[entrait(pub(crate) CrateWide)]
    pub mod m6 { pub fn f6(_d: &impl std::any::Any) -> u8 { 6 } }
    #[entrait(Default)]
    pub mod m7 { pub fn f7(_d: &impl std::any::Any) -> u8 { 7 } }
    pub mod deeper {
        #[entrait::entrait(pub(in super::super) TwoUp)]
        pub mod m8 { pub fn f8(_d: &impl std::any::Any) -> u8 { 8 } }
    }
    pub fn local(x: &(impl OnlyHere + OnlyHereToo + Absolute + Default)) -> [u8; 4] { [x.f2(), x.f4(), x.f5(), x.f7()] }
}
fn main() {
    use outer::{AlsoCrateRoot, CrateWide, ToCrateRoot};
    use outer::deeper::TwoUp;
    let app = entrait::Impl::new(());
    let got = (app.f1(), outer::local(&app), app.f3(), app.f6(), app.f8());
    if got != (1, [2, 4, 5, 7], 3, 6, 8) { println!("C08-PROBE-FAIL {got:?}"); std::process::exit(1); }
    println!("C08-PROBE cases=8 failed=0");
}
