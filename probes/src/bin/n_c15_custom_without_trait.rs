//! C15 negative probe: custom `delegate_by` without a delegation-target trait.
//! EXPECT: Cannot use a custom delegating trait without a custom trait to delegate to.
use entrait::*;
#[entrait(delegate_by = Custom)]
trait Foo { fn foo(&self); }
fn main() {}
