//! C07 / C12 probe: dependency inversion by `ref` over a trait that mixes plain and async methods
//! (`async_trait`): every method of the trait - the plain one too - reaches the `#[entrait(ref)]` impl block
//! selected by the application, once, with the caller's arguments in order, passing the same `&Impl<T>` on;
//! a decoy block with the same method names is never reached.
use entrait::*;
use std::cell::RefCell;

thread_local! { static LOG: RefCell<Vec<String>> = RefCell::new(vec![]); }
fn rec(s: String) { LOG.with(|l| l.borrow_mut().push(s)); }
fn take() -> Vec<String> { LOG.with(|l| std::mem::take(&mut *l.borrow_mut())) }

#[entrait(RepoImpl, delegate_by = ref)]
#[async_trait::async_trait]
pub trait Repo {
    fn plain(&self, a: u8, b: u8) -> u16;
    async fn fetch(&self, a: u8, b: u8) -> u16;
    fn last(&self, a: u8) -> u16;
}

pub trait Clock { fn now(&self) -> u16; }
impl Clock for Impl<App> { fn now(&self) -> u16 { self.t } }

pub struct Real;
#[entrait(ref)]
#[async_trait::async_trait]
impl RepoImpl for Real {
    pub fn plain(deps: &impl Clock, a: u8, b: u8) -> u16 { rec(format!("Real::plain {a} {b}")); deps.now() + a as u16 * 16 + b as u16 }
    pub async fn fetch(deps: &impl Clock, a: u8, b: u8) -> u16 { rec(format!("Real::fetch {a} {b}")); deps.now() + a as u16 * 16 + b as u16 + 1 }
    pub fn last(deps: &impl Clock, a: u8) -> u16 { rec(format!("Real::last {a}")); deps.now() + a as u16 }
}
pub struct Decoy;
#[entrait(ref)]
#[async_trait::async_trait]
impl RepoImpl for Decoy {
    pub fn plain<D>(_deps: &D, a: u8, b: u8) -> u16 { rec(format!("Decoy::plain {a} {b}")); 0 }
    pub async fn fetch<D>(_deps: &D, a: u8, b: u8) -> u16 { rec(format!("Decoy::fetch {a} {b}")); 0 }
    pub fn last<D>(_deps: &D, a: u8) -> u16 { rec(format!("Decoy::last {a}")); 0 }
}

pub struct App { t: u16, r: Real, #[allow(dead_code)] d: Decoy }
impl AsRef<dyn RepoImpl<Self> + Sync> for App {
    fn as_ref(&self) -> &(dyn RepoImpl<Self> + Sync) { &self.r }
}

fn block_on<F: std::future::Future>(f: F) -> F::Output {
    use std::task::{Context, Poll, RawWaker, RawWakerVTable, Waker};
    fn raw() -> RawWaker { RawWaker::new(std::ptr::null(), &VT) }
    static VT: RawWakerVTable = RawWakerVTable::new(|_| raw(), |_| {}, |_| {}, |_| {});
    let w = unsafe { Waker::from_raw(raw()) };
    let mut cx = Context::from_waker(&w);
    let mut f = std::pin::pin!(f);
    loop { if let Poll::Ready(v) = f.as_mut().poll(&mut cx) { return v; } }
}

fn main() {
    let mut bad = 0;
    macro_rules! expect { ($n:expr, $val:expr, $want:expr, $trace:expr) => {{
        let v = $val; let t = take();
        if v != $want || t != $trace { println!("MIXED-PROBE-FAIL {}: got {:?} {:?}, want {:?} {:?}", $n, v, t, $want, $trace); bad += 1; }
    }}; }
    let app = Impl::new(App { t: 1000, r: Real, d: Decoy });
    expect!("plain", app.plain(1, 2), 1018, vec!["Real::plain 1 2"]);
    expect!("fetch", block_on(app.fetch(2, 1)), 1034, vec!["Real::fetch 2 1"]);
    expect!("last", app.last(7), 1007, vec!["Real::last 7"]);
    println!("MIXED-PROBE cases=3 failed={bad}");
    std::process::exit(if bad == 0 { 0 } else { 1 });
}
