//! C13 negative probe: a trait generated without a visibility is private to the module it is
//! generated in, whatever the function's own visibility.
//! EXPECT: E0603
//! EXPECT: trait `Hidden` is private
mod inner {
    use entrait::*;
    #[entrait(Hidden)]
    pub fn hidden(_d: &impl std::any::Any) {}
}
fn use_it(x: &impl inner::Hidden) { x.hidden() }
fn main() {}
