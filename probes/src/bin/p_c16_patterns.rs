//! C16 probe: every list of irrefutable parameter patterns gives a usable generated method that
//! forwards positionally (compiled and run: results through the trait equal direct calls).
//! Results through the trait are compared with direct calls for every pattern shape, so it is a probe of C01's
//! "the caller's arguments in declared order" as well.
//! ALSO: C01
#![allow(unused_variables, unused_mut, non_snake_case)]
use entrait::*;
pub struct P(pub i64, pub i64);
pub struct Q { pub a: i64, pub b: i64 }

#[entrait(Plain)]
fn plain(_d: &impl std::any::Any, a: i64, b: i64) -> i64 { a * 10 + b }
#[entrait(MutRef)]
fn mut_ref(_d: &impl std::any::Any, mut a: i64, ref b: i64, ref mut c: i64) -> i64 { a += 1; *c += 1; a * 100 + *b * 10 + *c }
#[entrait(Wild)]
fn wild(_d: &impl std::any::Any, _: i64, b: i64, _: i64) -> i64 { b }
#[entrait(Destructure)]
fn destructure(_d: &impl std::any::Any, P(x, y): P, Q { a, b }: Q, (m, n): (i64, i64), [h, ..]: [i64; 3]) -> i64 { x + 2 * y + 3 * a + 4 * b + 5 * m + 6 * n + 7 * h }
#[entrait(OneBinding)]
fn one_binding(_d: &impl std::any::Any, P(only, _): P, Q { a: renamed, .. }: Q) -> i64 { only * 10 + renamed }
#[entrait(OwnName)]
fn own_name(_d: &impl std::any::Any, own_name: i64, own_name_: i64, P(own_name__, _): P) -> i64 { own_name * 100 + own_name_ * 10 + own_name__ }
#[entrait(Raw)]
fn raw(_d: &impl std::any::Any, r#type: i64, r#fn: i64) -> i64 { r#type * 10 + r#fn }
#[entrait(r#Match)]
fn r#match(_d: &impl std::any::Any, r#match: i64, arg1: i64, _: i64) -> i64 { r#match * 10 + arg1 }
#[entrait(At)]
fn at(_d: &impl std::any::Any, whole @ P(_, _): P, n @ _: i64) -> i64 { whole.0 + whole.1 + n }
#[entrait(ArgNames)]
fn arg_names(_d: &impl std::any::Any, arg1: i64, (p, q): (i64, i64), _arg2: i64, _: i64) -> i64 { arg1 * 1000 + p * 100 + q * 10 + _arg2 }
#[entrait(ModesInside)]
fn modes_inside(_d: &impl std::any::Any, P(mut m, _): P, Q { ref a, .. }: Q, (ref mut n, _): (i64, bool)) -> i64 { m += 1; *n += 1; m * 100 + *a * 10 + *n }
#[entrait(NoDepsPat, no_deps)]
fn no_deps_pat(P(x, y): P, _: i64, mut z: i64) -> i64 { z += x; z * 10 + y }
#[entrait(pub InMod)]
mod m {
    pub fn in_mod(_d: &impl std::any::Any, super::P(in_mod, _): super::P, (a, b): (i64, i64)) -> i64 { in_mod * 100 + a * 10 + b }
}
// parameter patterns written in a `macro_rules!` body, trait (and dependency binding) named by the caller: the
// declared parameter and the forwarded argument must be the *same identifier* — name and hygiene — whatever
// pattern it came from (plain, `mut`, lifted single binding, generated `argN`)
macro_rules! stamped {
    ($Tr:ident, $f:ident, $factor:expr) => {
        #[entrait($Tr, no_deps)]
        fn $f(base: i64, mut extra: i64, P(inner, _): P, (x, y): (i64, i64), _: i64) -> i64 { extra += 1; $factor * (base + extra + inner + x + y) }
    };
}
stamped!(Stamped2, stamped2, 2);
stamped!(Stamped3, stamped3, 3);
macro_rules! stamped_deps {
    ($Tr:ident, $f:ident, $d:ident) => {
        #[entrait($Tr)]
        fn $f($d: &impl std::any::Any, base: i64, Q { a: renamed, .. }: Q, _: i64, (m, n): (i64, i64)) -> i64 { base * 1000 + renamed * 100 + m * 10 + n }
    };
}
stamped_deps!(StampedDeps, stamped_deps, _d);
macro_rules! stamped_mod {
    ($Tr:ident, $m:ident, $d:ident) => {
        #[entrait(pub $Tr)]
        mod $m {
            pub fn stamped_in_mod($d: &impl std::any::Any, base: i64, super::P(inner, _): super::P, _: i64) -> i64 { base * 10 + inner }
        }
    };
}
stamped_mod!(StampedMod, sm, _d);

#[entrait]
pub trait TraitPats { fn tp(&self, _: i64, b: i64) -> i64; fn tp2(&self, tp2: i64, _: i64) -> i64; }
impl TraitPats for () { fn tp(&self, _: i64, b: i64) -> i64 { b } fn tp2(&self, tp2: i64, _: i64) -> i64 { tp2 } }

fn main() {
    let app = Impl::new(());
    let mut bad = 0;
    macro_rules! same { ($n:expr, $a:expr, $b:expr) => {{ let (x, y) = ($a, $b); if x != y { println!("C16-PROBE-FAIL {}: direct {:?} through trait {:?}", $n, x, y); bad += 1; } }}; }
    same!("plain", plain(&app, 1, 2), app.plain(1, 2));
    same!("mut_ref", mut_ref(&app, 1, 2, 3), app.mut_ref(1, 2, 3));
    same!("wild", wild(&app, 1, 2, 3), app.wild(1, 2, 3));
    same!("destructure", destructure(&app, P(1, 2), Q { a: 3, b: 4 }, (5, 6), [7, 8, 9]), app.destructure(P(1, 2), Q { a: 3, b: 4 }, (5, 6), [7, 8, 9]));
    same!("one_binding", one_binding(&app, P(1, 2), Q { a: 3, b: 4 }), app.one_binding(P(1, 2), Q { a: 3, b: 4 }));
    same!("own_name", own_name(&app, 1, 2, P(3, 4)), app.own_name(1, 2, P(3, 4)));
    same!("raw", raw(&app, 1, 2), app.raw(1, 2));
    same!("match", r#match(&app, 1, 2, 3), app.r#match(1, 2, 3));
    same!("at", at(&app, P(1, 2), 3), app.at(P(1, 2), 3));
    same!("arg_names", arg_names(&app, 1, (2, 3), 4, 5), app.arg_names(1, (2, 3), 4, 5));
    same!("modes_inside", modes_inside(&app, P(1, 2), Q { a: 3, b: 4 }, (5, true)), app.modes_inside(P(1, 2), Q { a: 3, b: 4 }, (5, true)));
    same!("no_deps_pat", no_deps_pat(P(1, 2), 3, 4), app.no_deps_pat(P(1, 2), 3, 4));
    same!("in_mod", m::in_mod(&app, P(1, 2), (3, 4)), app.in_mod(P(1, 2), (3, 4)));
    same!("trait.tp", ().tp(1, 2), app.tp(1, 2));
    same!("trait.tp2", ().tp2(1, 2), app.tp2(1, 2));
    same!("stamped2", stamped2(1, 2, P(3, 0), (4, 5), 0), app.stamped2(1, 2, P(3, 0), (4, 5), 0));
    same!("stamped3", stamped3(1, 2, P(3, 0), (4, 5), 0), app.stamped3(1, 2, P(3, 0), (4, 5), 0));
    same!("stamped_deps", stamped_deps(&app, 1, Q { a: 2, b: 0 }, 0, (3, 4)), app.stamped_deps(1, Q { a: 2, b: 0 }, 0, (3, 4)));
    same!("stamped_in_mod", sm::stamped_in_mod(&app, 1, P(2, 0), 0), app.stamped_in_mod(1, P(2, 0), 0));
    println!("C16-PROBE cases=19 failed={bad}");
    std::process::exit(if bad == 0 { 0 } else { 1 });
}
