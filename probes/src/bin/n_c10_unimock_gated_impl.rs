//! C10 negative probe: without `export`, `Unimock` does not implement the generated trait in a
//! non-test build.
//! EXPECT: E0277
//! EXPECT: Foo
use entrait::*;
#[entrait(Foo, mock_api = FooMock, unimock = true)]
fn foo(_d: &impl std::any::Any) -> u8 { 1 }
fn needs(_: &impl Foo) {}
fn main() { needs(&unimock::Unimock::new(())); }
