//! C10 / C17 probe (entrait's `unimock` cargo feature ON): `entrait(args)` behaves as
//! `entrait(args, unimock)` — the facade in src/lib.rs selects the unimock variants — unless `args`
//! sets `unimock` explicitly; `entrait_export(args)` as `entrait(args, export)`.
use entrait::*;
use unimock::*;
// no `unimock` option written: the feature default turns it on; exported by the macro variant
#[entrait_export(ByFeature, mock_api = ByFeatureMock)]
fn by_feature(_d: &impl std::any::Any, a: u8) -> u8 { a }
// the same, spelled out
#[entrait(Explicit, mock_api = ExplicitMock, unimock = true, export = true)]
fn explicit(_d: &impl std::any::Any, a: u8) -> u8 { a }
// trait target
#[entrait_export(mock_api = TrMock)]
pub trait Tr { fn tr(&self, a: u8) -> u8; }
fn main() {
    let u = Unimock::new((ByFeatureMock.next_call(matching!(1)).returns(10), ExplicitMock.next_call(matching!(2)).returns(20),
                          TrMock::tr.next_call(matching!(3)).returns(30)));
    let got = (u.by_feature(1), u.explicit(2), u.tr(3));
    if got != (10, 20, 30) { println!("FEATURE-PROBE-FAIL {got:?}"); std::process::exit(1); }
    println!("FEATURE-PROBE cases=3 failed=0");
}
