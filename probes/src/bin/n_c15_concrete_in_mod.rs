//! C15 negative probe: concrete dependency inside a module.
//! EXPECT: Using concrete dependencies in a module is an anti-pattern.
use entrait::*;
pub struct App;
#[entrait(pub Foo)]
mod m { pub fn foo(_app: &super::App) {} }
fn main() {}
