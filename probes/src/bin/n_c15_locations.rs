//! C15 negative probe: every documented misuse is reported *at the offending tokens* by the real rustc
//! (line and column of the primary span; `^` marks the expected column inside the quoted source text).
//! AT `#[entrait(F1, ^frobnicate)]`: Unkonwn entrait option "frobnicate"
//! AT `#[entrait(F2, ?^Frob)]`: Unkonwn entrait option "Frob"
//! AT `#[entrait(F3, ^delegate_by = ref)]`: Unsupported option
//! AT `#[entrait(^export = true)]`: Unsupported option
//! AT `#[entrait(^no_deps)]`: Unsupported option
//! AT `#[entrait(^export)]`: Unsupported option
//! AT `#[entrait(^no_deps = false)]`: Unsupported option
//! AT `#[entrait(^unimock = false)]`: Unsupported option
//! AT `#[entrait(^mockall = true)]`: Unsupported option
//! AT `#[entrait(ref ^export = true)]`: Unsupported option
//! AT `#[entrait(mock_api = ^M10)]`: Unsupported option
//! AT `fn ^nodep11()`: Function must have a dependency 'receiver' as its first parameter
//! AT `pub fn recv12(^&self)`: Function cannot have a self receiver
//! AT `pub fn conc13(_a: &^super::App)`: Using concrete dependencies in a module is an anti-pattern
//! AT `fn conc14(_a: &^App)`: Cannot (yet) use concrete dependency in an impl block
//! AT `#[entrait(^delegate_by = Custom15)]`: Cannot use a custom delegating trait without a custom trait to delegate to
//! AT `^#[entrait(T16Impl)]`: Missing delegate_by
//! AT `^const X17: u8;`: Entrait does not support this kind of trait item
//! AT `fn qself18(_d: &^<App as Q>::T)`: No self allowed
//! AT `fn lead19(_d: &^::std::string::String)`: No leading colon allowed
use entrait::*;
pub struct App;
pub trait Q { type T; }

#[entrait(F1, frobnicate)]
fn f1(_d: &impl std::any::Any) {}

#[entrait(F2, ?Frob)]
fn f2(_d: &impl std::any::Any) {}

#[entrait(F3, delegate_by = ref)]
fn f3(_d: &impl std::any::Any) {}

#[entrait(export = true)]
trait T4 { fn m(&self); }

#[entrait(no_deps)]
trait T5 { fn m(&self); }

#[entrait(export)]
trait T5b { fn m(&self); }

#[entrait(no_deps = false)]
trait T5c { fn m(&self); }

#[entrait(T7Impl, delegate_by = ref)]
trait T7 { fn m(&self); }
pub struct X7;
#[entrait(unimock = false)]
impl T7Impl for X7 { fn m<D>(_d: &D) {} }

pub struct X8;
#[entrait(mockall = true)]
impl T7Impl for X8 { fn m<D>(_d: &D) {} }

pub struct X9;
#[entrait(ref export = true)]
impl T7Impl for X9 { fn m<D>(_d: &D) {} }

pub struct X10;
#[entrait(mock_api = M10)]
impl T7Impl for X10 { fn m<D>(_d: &D) {} }

#[entrait(F11)]
fn nodep11() {}

#[entrait(pub M12)]
mod m12 {
    pub fn ok12(_d: &impl std::any::Any) {}
    pub fn recv12(&self) {}
}

#[entrait(pub M13)]
mod m13 {
    pub fn conc13(_a: &super::App) {}
}

pub struct X14;
#[entrait]
impl T7Impl for X14 {
    fn conc14(_a: &App) {}
}

#[entrait(delegate_by = Custom15)]
trait T15 { fn m(&self); }

#[entrait(T16Impl)]
trait T16 { fn m(&self); }

#[entrait]
trait T17 {
    fn m(&self);
    const X17: u8;
}

#[entrait(F18)]
fn qself18(_d: &<App as Q>::T) {}

#[entrait(F19)]
fn lead19(_d: &::std::string::String) {}

fn main() {}
