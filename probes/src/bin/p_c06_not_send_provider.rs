//! C06 probe: `Impl<T>` implements an entraited async trait delegated by reference exactly when `T`
//! provides it (`T: AsRef<dyn Trait>`), with entrait's fixed `T: Sync + 'static` — `T: Send` is not
//! part of the deal: an application type that is `Sync` but not `Send` still gets the impl.
use entrait::*;
use std::marker::PhantomData;
use std::sync::MutexGuard;

#[entrait(delegate_by = ref)]
#[async_trait::async_trait]
pub trait Bar: Sync + 'static { async fn bar(&self, a: u8) -> u8; }

pub struct Baz;
#[async_trait::async_trait]
impl Bar for Baz { async fn bar(&self, a: u8) -> u8 { a + 1 } }

/// `Sync + 'static`, but not `Send` (a `MutexGuard` is `Sync` and `!Send`)
pub struct App(Baz, PhantomData<MutexGuard<'static, ()>>);
impl AsRef<dyn Bar> for App { fn as_ref(&self) -> &(dyn Bar + 'static) { &self.0 } }

fn assert_sync<T: Sync + 'static>(_: &T) {}

fn block_on<F: std::future::Future>(f: F) -> F::Output {
    use std::task::{Context, Poll, RawWaker, RawWakerVTable, Waker};
    fn raw() -> RawWaker { RawWaker::new(std::ptr::null(), &VT) }
    static VT: RawWakerVTable = RawWakerVTable::new(|_| raw(), |_| {}, |_| {}, |_| {});
    let w = unsafe { Waker::from_raw(raw()) };
    let mut cx = Context::from_waker(&w);
    let mut f = std::pin::pin!(f);
    loop { if let Poll::Ready(v) = f.as_mut().poll(&mut cx) { return v; } }
}

fn main() {
    let app = Impl::new(App(Baz, PhantomData));
    assert_sync(&*app);
    let got = block_on(app.bar(1));
    if got != 2 { println!("C06-PROBE-FAIL {got}"); std::process::exit(1); }
    println!("C06-PROBE cases=1 failed=0");
}
