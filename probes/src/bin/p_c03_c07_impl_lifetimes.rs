//! C03 / C07 probe: functions of an entraited impl block keep their lifetime relations — a result
//! may borrow from the dependency (`&'a impl Dep`) and from arguments.
#![allow(dead_code, clippy::needless_lifetimes)]
use entrait::*;

pub trait HasName { fn name(&self) -> &str; }
pub struct App { name: String }
impl HasName for Impl<App> { fn name(&self) -> &str { &self.name } }

#[entrait(NamesImpl, delegate_by = SelNames)]
pub trait Names {
    fn longest<'a>(&'a self, s: &'a str) -> &'a str;
    fn first<'a, 'b>(&'a self, s: &'b str) -> (&'a str, &'b str);
    fn elided(&self) -> &str;
}
pub struct Block;
#[entrait]
impl NamesImpl for Block {
    fn longest<'a>(deps: &'a impl HasName, s: &'a str) -> &'a str { if deps.name().len() >= s.len() { deps.name() } else { s } }
    fn first<'a, 'b>(deps: &'a impl HasName, s: &'b str) -> (&'a str, &'b str) { (deps.name(), s) }
    fn elided(deps: &impl HasName) -> &str { deps.name() }
}
impl SelNames<App> for App { type Target = Block; }

fn main() {
    let app = Impl::new(App { name: "abc".into() });
    let owned = String::from("zz");
    let got = (app.longest(&owned), app.first(&owned), app.elided());
    if got != ("abc", ("abc", "zz"), "abc") { println!("C03-C07-PROBE-FAIL {got:?}"); std::process::exit(1); }
    println!("C03-C07-PROBE cases=3 failed=0");
}
