//! C15 negative probe: option not supported for the target.
//! EXPECT: Unsupported option
use entrait::*;
#[entrait(Foo, delegate_by = ref)]
fn foo(_d: &impl std::any::Any) {}
fn main() {}
