//! C09 probe: an entraited trait is still the user's trait — generics with defaults, supertraits,
//! where clause, method attributes (`cfg`), and the documented async rewrite — as rustc sees it.
#![allow(dead_code)]
use entrait::*;

#[entrait]
pub trait Base { fn base(&self) -> u8; }

#[entrait]
pub trait Rich<T = u8, const N: usize = 2>: Base + Sync where T: Copy + Default {
    fn get(&self) -> [T; N];
    #[cfg(any())]
    fn never(&self) -> DoesNotExist;
    #[must_use]
    fn tagged(&self, t: T) -> T;
}

pub struct X;
impl Base for X { fn base(&self) -> u8 { 9 } }
// defaults usable: `Rich` alone means `Rich<u8, 2>`
impl Rich for X { fn get(&self) -> [u8; 2] { [1, 2] } fn tagged(&self, t: u8) -> u8 { t } }

fn via_supertrait(r: &impl Rich) -> u8 { r.base() + r.get()[1] }

#[entrait(?Send)]
pub trait Asy { async fn one(&self) -> u8; }
impl Asy for X { async fn one(&self) -> u8 { 1 } }

fn block_on<F: std::future::Future>(f: F) -> F::Output {
    use std::task::{Context, Poll, RawWaker, RawWakerVTable, Waker};
    fn raw() -> RawWaker { RawWaker::new(std::ptr::null(), &VT) }
    static VT: RawWakerVTable = RawWakerVTable::new(|_| raw(), |_| {}, |_| {}, |_| {});
    let w = unsafe { Waker::from_raw(raw()) };
    let mut cx = Context::from_waker(&w);
    let mut f = std::pin::pin!(f);
    loop { if let Poll::Ready(v) = f.as_mut().poll(&mut cx) { return v; } }
}

fn main() {
    let app = Impl::new(X);
    let got = (via_supertrait(&X), Rich::<u8, 2>::get(&app), app.tagged(5), block_on(X.one()), block_on(app.one()));
    if got != (11, [1, 2], 5, 1, 1) { println!("C09-PROBE-FAIL {got:?}"); std::process::exit(1); }
    println!("C09-PROBE cases=5 failed=0");
}
