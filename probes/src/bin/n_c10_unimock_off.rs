//! C10 negative probe: an explicit `unimock = false` wins over the `unimock` feature default /
//! `mock_api`: no mock API even when exporting.
//! EXPECT: FooMock
use entrait::*;
#[entrait_export(Foo, mock_api = FooMock, unimock = false)]
fn foo(_d: &impl std::any::Any) -> u8 { 1 }
fn main() { let _ = FooMock; }
