//! C11 probe: the mock API is reachable under exactly the `mock_api` name; a mocked call receives
//! the caller's arguments in declared order and returns the configured answer; on a partial mock
//! without matching clause a generic-dependency / no_deps function runs the original function with
//! the mock object as its dependency and the same arguments.
use entrait::*;
use unimock::*;

#[entrait(Sub, mock_api = SubMock, unimock = true, export)]
fn sub(_deps: &impl std::any::Any, a: i32, b: i32) -> i32 { a - b }

#[entrait(Pow, mock_api = PowMock, unimock = true, export, no_deps)]
fn pow(base: i32, exp: u32) -> i32 { base.pow(exp) }

// calls `sub` through its dependency
#[entrait(SubTwice, mock_api = SubTwiceMock, unimock = true, export)]
fn sub_twice(deps: &impl Sub, a: i32, b: i32) -> i32 { deps.sub(deps.sub(a, b), b) }

#[entrait(pub ModApi, mock_api = ModMock, unimock = true, export)]
mod m {
    pub fn first(_deps: &impl std::any::Any, a: i32, b: i32) -> i32 { a * 10 + b }
    pub fn second(deps: &impl super::ModApi, a: i32) -> i32 { deps.first(a, a + 1) }
}

// functions stamped out by `macro_rules!`, parameter names partly written in the macro body and partly passed in
// by the caller: the arguments un-mocking forwards are the *same identifiers* as the generated parameters — name
// and hygiene (`combine`'s two parameters are both spelled `factor` and differ by hygiene only)
macro_rules! stamped_no_deps {
    ($Tr:ident, $Mock:ident, $name:ident, $extra:ident) => {
        #[entrait($Tr, mock_api = $Mock, unimock = true, export, no_deps)]
        fn $name(factor: i32, $extra: i32) -> i32 { factor * 10 + $extra }
    };
}
stamped_no_deps!(Combine, CombineMock, combine, factor);
stamped_no_deps!(Combine2, Combine2Mock, combine2, other);
macro_rules! stamped_deps {
    ($Tr:ident, $Mock:ident, $name:ident, $extra:ident) => {
        #[entrait($Tr, mock_api = $Mock, unimock = true, export)]
        fn $name(deps: &impl std::any::Any, factor: i32, $extra: i32) -> i32 { let _ = deps; factor * 100 + $extra }
    };
}
stamped_deps!(CombineD, CombineDMock, combine_d, factor);

#[entrait_export(mock_api = TrMock, unimock = true)]
pub trait Tr { fn tr(&self, a: i32, b: i32) -> i32; }

fn main() {
    let mut bad = 0;
    macro_rules! expect { ($n:expr, $v:expr, $w:expr) => {{ let v = $v; if v != $w { println!("C11-PROBE-FAIL {}: got {:?}, want {:?}", $n, v, $w); bad += 1; } }}; }
    // mocked: arguments in declared order, configured answer
    let u = Unimock::new(SubMock.next_call(matching!(7, 2)).returns(100));
    expect!("mocked.fn", u.sub(7, 2), 100);
    let u = Unimock::new(m::ModMock::first.next_call(matching!(1, 2)).returns(5));
    expect!("mocked.mod", u.first(1, 2), 5);
    let u = Unimock::new(TrMock::tr.next_call(matching!(3, 4)).returns(6));
    expect!("mocked.trait", u.tr(3, 4), 6);
    // un-mocked on a partial mock: the original function runs, with the mock as its dependency
    let u = Unimock::new_partial(());
    expect!("unmocked.fn", u.sub(7, 2), 5);
    expect!("unmocked.no_deps", u.pow(2, 5), 32);
    expect!("unmocked.same_as_impl", u.sub(9, 4), Impl::new(()).sub(9, 4));
    // ... and calls made by the original function on its dependency come back to the same mock object
    let u = Unimock::new_partial(SubMock.each_call(matching!(_, 1)).returns(50));
    expect!("unmocked.deps_is_mock", u.sub_twice(9, 1), 50);
    let u = Unimock::new_partial(m::ModMock::first.each_call(matching!(4, 5)).returns(77));
    expect!("unmocked.mod.deps_is_mock", u.second(4), 77);
    let u = Unimock::new_partial(());
    expect!("unmocked.stamped.same_spelling", u.combine(1, 2), Impl::new(()).combine(1, 2));
    expect!("unmocked.stamped.same_spelling.value", u.combine(1, 2), 12);
    expect!("unmocked.stamped", u.combine2(3, 4), 34);
    expect!("unmocked.stamped.deps", u.combine_d(5, 6), 506);
    let u = Unimock::new(CombineMock.next_call(matching!(1, 2)).returns(9));
    expect!("mocked.stamped", u.combine(1, 2), 9);
    println!("C11-PROBE cases=13 failed={bad}");
    std::process::exit(if bad == 0 { 0 } else { 1 });
}
