//! C13 negative probe: module mode with `pub(self)` requested: the trait is usable in the module's
//! parent (where the attribute is written) and nowhere further out — never wider.
//! EXPECT: E0603
//! EXPECT: `Limited` is private
mod outer {
    use entrait::*;
    #[entrait(pub(self) Limited)]
    pub mod m { pub fn f(_d: &impl std::any::Any) {} }
    pub fn ok(x: &impl Limited) { x.f() }
}
mod elsewhere { pub fn bad(x: &impl crate::outer::Limited) { x.f() } }
fn main() {}
