//! C09 negative probe: an attribute on an entraited trait stays on the trait — a `#[deprecated]`
//! trait is still deprecated after entrait re-emitted it (so using it under `deny(deprecated)` fails).
//! EXPECT: use of deprecated trait `Old`
#![deny(deprecated)]
use entrait::*;
#[entrait]
#[deprecated]
pub trait Old { fn f(&self) -> u8; }
fn use_it(x: &impl Old) -> u8 { x.f() }
fn main() {}
