//! C15 negative probe: `self` receiver.
//! EXPECT: Function cannot have a self receiver
use entrait::*;
struct S;
#[entrait(pub SImpl)]
mod m { pub fn foo(&self) {} }
fn main() {}
