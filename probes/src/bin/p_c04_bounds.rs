//! C04 probe: the generated impl exists for `Impl<T>` exactly when `Impl<T>` satisfies every bound
//! declared on the dependency parameter (inline, where clause, `impl A + B`, over all functions of a
//! module) — checked with rustc's trait solver through autoref specialisation.
#![allow(dead_code)]
use entrait::*;
use std::marker::PhantomData;

pub trait A { fn a(&self) -> u8; }
pub trait B { fn b(&self) -> u8; }
pub trait C<T> { fn c(&self) -> T; }

pub struct Both; pub struct OnlyA; pub struct Neither; pub struct TwoCs; pub struct OneC;
impl A for Impl<Both> { fn a(&self) -> u8 { 1 } }
impl B for Impl<Both> { fn b(&self) -> u8 { 2 } }
impl A for Impl<OnlyA> { fn a(&self) -> u8 { 1 } }
impl C<u8> for Impl<TwoCs> { fn c(&self) -> u8 { 8 } }
impl C<u16> for Impl<TwoCs> { fn c(&self) -> u16 { 16 } }
impl C<u8> for Impl<OneC> { fn c(&self) -> u8 { 8 } }

#[entrait(ImplBoth)]
fn impl_both(deps: &(impl A + B)) -> u8 { deps.a() + deps.b() }
#[entrait(InlineWhere)]
fn inline_where<D: A>(deps: &D) -> u8 where D: B { deps.a() * deps.b() }
#[entrait(NoBound)]
fn no_bound<D>(_deps: &D) -> u8 { 0 }
#[entrait(SameTraitTwice)]
fn same_trait_twice(deps: &(impl C<u8> + C<u16>)) -> u16 { C::<u8>::c(deps) as u16 + C::<u16>::c(deps) }
#[entrait(pub Union)]
mod m {
    pub fn first(deps: &impl super::A) -> u8 { deps.a() }
    pub fn second<D: super::B>(deps: &D) -> u8 { deps.b() }
}

struct W<T>(PhantomData<T>);
macro_rules! implements {
    ($ty:ty : $tr:path) => {{
        trait No { fn yes(&self) -> bool { false } }
        impl<T> No for &W<T> {}
        trait Yes { fn yes(&self) -> bool { true } }
        impl<T: $tr> Yes for W<T> {}
        (&W::<$ty>(PhantomData)).yes()
    }};
}

fn main() {
    let got = [
        implements!(Impl<Both>: ImplBoth), implements!(Impl<OnlyA>: ImplBoth), implements!(Impl<Neither>: ImplBoth),
        implements!(Impl<Both>: InlineWhere), implements!(Impl<OnlyA>: InlineWhere),
        implements!(Impl<Neither>: NoBound),
        implements!(Impl<TwoCs>: SameTraitTwice), implements!(Impl<OneC>: SameTraitTwice),
        implements!(Impl<Both>: Union), implements!(Impl<OnlyA>: Union),
    ];
    let want = [true, false, false, true, false, true, true, false, true, false];
    let vals = (Impl::new(Both).impl_both(), Impl::new(Both).inline_where(), Impl::new(TwoCs).same_trait_twice(), Impl::new(Both).first() + Impl::new(Both).second());
    if got != want || vals != (3, 2, 24, 3) { println!("C04-PROBE-FAIL {got:?} {vals:?}"); std::process::exit(1); }
    println!("C04-PROBE cases=14 failed=0");
}
