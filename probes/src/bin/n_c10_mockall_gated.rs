//! C10 negative probe: without `export` mockall's `MockFoo` does not exist in a non-test build.
//! EXPECT: MockFoo
use entrait::*;
#[entrait(Foo, mockall)]
fn foo(_d: &impl std::any::Any) -> u8 { 1 }
fn main() { let _ = MockFoo::new(); }
