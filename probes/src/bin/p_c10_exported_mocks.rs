//! C10 positive probe: exporting invocations contain the mock implementation unconditionally
//! (this is a non-test build).
use entrait::*;
use unimock::*;
#[entrait(Foo, mock_api = FooMock, unimock = true, export)]
fn foo(_d: &impl std::any::Any, a: u8) -> u8 { a }
#[entrait_export(Bar, mock_api = BarMock, unimock = true)]
fn bar(_d: &impl std::any::Any, a: u8) -> u8 { a }
#[entrait(Baz, mockall, export)]
fn baz(_d: &impl std::any::Any, a: u8) -> u8 { a }
// no mock_api on a fn: nothing is derived even when enabled
#[entrait(NoApi, unimock = true, export)]
fn no_api(_d: &impl std::any::Any) {}
fn main() {
    let u = Unimock::new((FooMock.next_call(matching!(1)).returns(10), BarMock.next_call(matching!(2)).returns(20)));
    let mut m = MockBaz::new();
    m.expect_baz().returning(|a| a + 30);
    let got = (u.foo(1), u.bar(2), m.baz(3));
    if got != (10, 20, 33) { println!("C10-PROBE-FAIL {got:?}"); std::process::exit(1); }
    println!("C10-PROBE cases=3 failed=0");
}
