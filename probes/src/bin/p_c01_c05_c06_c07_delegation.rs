//! C05 / C06 / C07 probe: leaf traits over concrete dependencies, `Impl<T>` forwarding of entraited
//! traits (by Self, by ref, by Borrow) and dependency inversion (static and dynamic) reach exactly
//! the implementation selected by `T`, with the same `&Impl<T>` as dependency and the caller's
//! arguments in order.
use entrait::*;
use std::cell::RefCell;

thread_local!(static LOG: RefCell<Vec<String>> = const { RefCell::new(Vec::new()) });
fn rec(s: String) { LOG.with(|l| l.borrow_mut().push(s)); }
fn take() -> Vec<String> { LOG.with(|l| std::mem::take(&mut *l.borrow_mut())) }

// ---- C05: concrete dependency -> leaf trait, adoptable by another application type
pub struct Db { tag: &'static str }
#[entrait(pub Fetch)]
fn fetch(db: &Db, a: u8, b: u8) -> String { rec(format!("fetch {} {a} {b}", db.tag)); format!("{}:{a}:{b}", db.tag) }

// a concrete dependency whose reference carries an explicit lifetime (late-bound: it cannot be named by turbofish)
#[entrait(pub FetchLt)]
fn fetch_lt<'a>(db: &'a Db, key: &'a str) -> &'a str { rec(format!("fetch_lt {} {key}", db.tag)); &key[1..] }

pub struct OtherApp;
impl Fetch for OtherApp { fn fetch(&self, a: u8, b: u8) -> String { rec(format!("other {a} {b}")); format!("other:{a}:{b}") } }

#[entrait(UsesFetch)]
fn uses_fetch(deps: &impl Fetch, x: u8) -> String { deps.fetch(x, x + 1) }

// ---- C06: entraited traits without delegation target
#[entrait]
pub trait BySelf { fn by_self(&self, a: u8, b: u8) -> u16; }
#[entrait(delegate_by = ref)]
pub trait ByRef { fn by_ref(&self, a: u8, b: u8) -> u16; }
#[entrait(delegate_by = Borrow)]
pub trait ByBorrow { fn by_borrow(&self, a: u8, b: u8) -> u16; }

pub struct App6 { r: Box<dyn ByRef + Sync>, b: Box<dyn ByBorrow + Sync> }
impl BySelf for App6 { fn by_self(&self, a: u8, b: u8) -> u16 { rec(format!("by_self {a} {b}")); a as u16 * 256 + b as u16 } }
struct R; impl ByRef for R { fn by_ref(&self, a: u8, b: u8) -> u16 { rec(format!("by_ref {a} {b}")); a as u16 * 256 + b as u16 } }
struct B; impl ByBorrow for B { fn by_borrow(&self, a: u8, b: u8) -> u16 { rec(format!("by_borrow {a} {b}")); a as u16 * 256 + b as u16 } }
impl AsRef<dyn ByRef> for App6 { fn as_ref(&self) -> &(dyn ByRef + 'static) { &*self.r } }
impl std::borrow::Borrow<dyn ByBorrow> for App6 { fn borrow(&self) -> &(dyn ByBorrow + 'static) { &*self.b } }

// ---- C07: dependency inversion, static and dynamic
#[entrait(StaticImpl, delegate_by = SelectStatic)]
pub trait StaticTr { fn st(&self, a: u8, b: u8) -> u16; }
#[entrait(DynImpl, delegate_by = ref)]
pub trait DynTr { fn dy(&self, a: u8, b: u8) -> u16; }

pub trait Marker { fn mark(&self) -> u16; }
impl Marker for Impl<App7> { fn mark(&self) -> u16 { self.marker } }

pub struct S1; pub struct S2;
#[entrait]
impl StaticImpl for S1 { fn st(deps: &impl Marker, a: u8, b: u8) -> u16 { rec(format!("S1::st {a} {b}")); deps.mark() + a as u16 * 16 + b as u16 } }
#[entrait]
impl StaticImpl for S2 { fn st(_deps: &impl Marker, a: u8, b: u8) -> u16 { rec(format!("S2::st {a} {b}")); 9000 + a as u16 + b as u16 } }
pub struct D1;
#[entrait(ref)]
impl DynImpl for D1 { fn dy(deps: &impl Marker, a: u8, b: u8) -> u16 { rec(format!("D1::dy {a} {b}")); deps.mark() + a as u16 * 16 + b as u16 } }

// an impl block whose self type is not a plain path, next to a free function with the method's name:
// the delegating call has to be `Self::st3(..)`, not `st3(..)`
#[entrait(Static3Impl, delegate_by = SelectStatic3)]
pub trait Static3 { fn st3(&self, a: u8, b: u8) -> u16; }
#[allow(dead_code)]
fn st3<D>(_deps: &D, a: u8, b: u8) -> u16 { rec(format!("free st3 {a} {b}")); 0 }
pub struct S3;
#[entrait]
#[allow(unused_parens)]
impl Static3Impl for (S3) { fn st3(deps: &impl Marker, a: u8, b: u8) -> u16 { rec(format!("S3::st3 {a} {b}")); deps.mark() + a as u16 + b as u16 } }
impl SelectStatic3<App7> for App7 { type Target = S3; }

pub struct App7 { marker: u16, d: Box<dyn DynImpl<App7> + Sync> }
impl SelectStatic<App7> for App7 { type Target = S1; }
impl AsRef<dyn DynImpl<App7>> for App7 { fn as_ref(&self) -> &(dyn DynImpl<App7> + 'static) { &*self.d } }
// a second application selecting the other block
pub struct App7b;
impl Marker for Impl<App7b> { fn mark(&self) -> u16 { 0 } }
impl SelectStatic<App7b> for App7b { type Target = S2; }

fn main() {
    let mut bad = 0;
    macro_rules! expect { ($n:expr, $val:expr, $want:expr, $trace:expr) => {{
        let v = $val; let t = take();
        if v != $want || t != $trace { println!("DELEG-PROBE-FAIL {}: got {:?} {:?}, want {:?} {:?}", $n, v, t, $want, $trace); bad += 1; }
    }}; }
    // C05
    let db = Db { tag: "db" };
    expect!("c05.direct", db.fetch(1, 2), "db:1:2", vec!["fetch db 1 2"]);
    expect!("c05.via_impl", Impl::new(Db { tag: "x" }).uses_fetch(3), "x:3:4", vec!["fetch x 3 4"]);
    expect!("c05.lifetime.direct", db.fetch_lt("abc"), "bc", vec!["fetch_lt db abc"]);
    let app_y = Impl::new(Db { tag: "y" });
    expect!("c05.lifetime.via_impl", app_y.fetch_lt("xyz"), "yz", vec!["fetch_lt y xyz"]);
    expect!("c05.other_app", Impl::new(OtherApp).uses_fetch(3), "other:3:4", vec!["other 3 4"]);
    // C06
    let app6 = Impl::new(App6 { r: Box::new(R), b: Box::new(B) });
    expect!("c06.by_self", app6.by_self(1, 2), 258, vec!["by_self 1 2"]);
    expect!("c06.by_ref", app6.by_ref(3, 4), 772, vec!["by_ref 3 4"]);
    expect!("c06.by_borrow", app6.by_borrow(5, 6), 1286, vec!["by_borrow 5 6"]);
    // C07
    let app7 = Impl::new(App7 { marker: 1000, d: Box::new(D1) });
    expect!("c07.static", app7.st(1, 2), 1018, vec!["S1::st 1 2"]);
    expect!("c07.dynamic", app7.dy(2, 1), 1033, vec!["D1::dy 2 1"]);
    expect!("c07.static.other_app", Impl::new(App7b).st(1, 2), 9003, vec!["S2::st 1 2"]);
    expect!("c07.static.paren_self_ty", app7.st3(4, 5), 1009, vec!["S3::st3 4 5"]);
    println!("DELEG-PROBE cases=12 failed={bad}");
    std::process::exit(if bad == 0 { 0 } else { 1 });
}
