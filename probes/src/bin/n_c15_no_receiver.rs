//! C15 negative probe (real rustc diagnostics channel): missing dependency parameter without `no_deps`.
//! EXPECT: Function must have a dependency 'receiver' as its first parameter. Pass `no_deps` to entrait to disable dependency injection.
use entrait::*;
#[entrait(Foo)]
fn foo() {}
fn main() {}
