//! C10 negative probe: without `export` the unimock derivation is wrapped in `cfg_attr(test, ..)`:
//! a non-test build contains no mock API and `Unimock` does not implement the trait.
//! EXPECT: FooMock
//! EXPECT: E0425
use entrait::*;
#[entrait(Foo, mock_api = FooMock, unimock = true)]
fn foo(_d: &impl std::any::Any) -> u8 { 1 }
fn main() { let _ = FooMock; }
