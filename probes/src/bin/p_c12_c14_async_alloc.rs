//! C12 / C14 probe.
//! C12: without `async_trait` the future returned by a generated method has exactly the function's
//! output, is `Send` by default (checked by requiring `Send` at compile time) and need not be with
//! `?Send` (a future holding an `Rc` across an await compiles).
//! C14: calling a sync or async function through its statically dispatched trait performs exactly
//! as many heap allocations as calling it directly (counting global allocator).
use entrait::*;
use std::alloc::{GlobalAlloc, Layout, System};
use std::sync::atomic::{AtomicUsize, Ordering};

struct Counting;
static ALLOCS: AtomicUsize = AtomicUsize::new(0);
unsafe impl GlobalAlloc for Counting {
    unsafe fn alloc(&self, l: Layout) -> *mut u8 { ALLOCS.fetch_add(1, Ordering::SeqCst); System.alloc(l) }
    unsafe fn dealloc(&self, p: *mut u8, l: Layout) { System.dealloc(p, l) }
    unsafe fn realloc(&self, p: *mut u8, l: Layout, n: usize) -> *mut u8 { ALLOCS.fetch_add(1, Ordering::SeqCst); System.realloc(p, l, n) }
}
#[global_allocator]
static A: Counting = Counting;
fn allocs<R>(f: impl FnOnce() -> R) -> (usize, R) { let a = ALLOCS.load(Ordering::SeqCst); let r = f(); (ALLOCS.load(Ordering::SeqCst) - a, r) }

fn block_on<F: std::future::Future>(f: F) -> F::Output {
    use std::task::{Context, Poll, RawWaker, RawWakerVTable, Waker};
    fn raw() -> RawWaker { RawWaker::new(std::ptr::null(), &VT) }
    static VT: RawWakerVTable = RawWakerVTable::new(|_| raw(), |_| {}, |_| {}, |_| {});
    let w = unsafe { Waker::from_raw(raw()) };
    let mut cx = Context::from_waker(&w);
    let mut f = std::pin::pin!(f);
    loop { if let Poll::Ready(v) = f.as_mut().poll(&mut cx) { return v; } }
}
struct Yield(bool);
impl std::future::Future for Yield {
    type Output = ();
    fn poll(mut self: std::pin::Pin<&mut Self>, _: &mut std::task::Context<'_>) -> std::task::Poll<()> {
        if self.0 { std::task::Poll::Ready(()) } else { self.0 = true; std::task::Poll::Pending }
    }
}

pub struct App;

#[entrait(SyncNoAlloc)]
fn sync_no_alloc(_d: &impl std::any::Any, a: u64, b: u64) -> u64 { a.wrapping_mul(31).wrapping_add(b) }
#[entrait(SyncAlloc)]
fn sync_alloc(_d: &impl std::any::Any, n: usize) -> Vec<u8> { vec![1; n] }
#[entrait(AsyncNoAlloc)]
async fn async_no_alloc(_d: &impl std::any::Any, a: u64) -> u64 { Yield(false).await; a + 1 }
#[entrait(AsyncAlloc)]
async fn async_alloc(_d: &impl std::any::Any, n: usize) -> String { Yield(false).await; "x".repeat(n) }
#[entrait(AsyncLt)]
async fn async_lt<'a>(_d: &'a impl std::any::Any, s: &'a str) -> &'a str { Yield(false).await; &s[1..] }
#[entrait(AsyncTwoLt)]
async fn async_two_lt<'a, 'b>(_d: &impl std::any::Any, s: &'a str, t: &'b str) -> (&'a str, &'b str) { Yield(false).await; (&s[1..], &t[..1]) }
// no dependency, owned arguments only (a future that borrows nothing)
#[entrait(NoDepsAsync, no_deps)]
async fn no_deps_async(a: u64, b: u64) -> u64 { Yield(false).await; a * b }
#[entrait(ByValueAsync)]
async fn by_value_async<D: std::any::Any + Send + Sync + 'static>(_d: D, a: u64) -> u64 { Yield(false).await; a + 7 }
#[entrait(pub ModT)]
mod m {
    pub fn in_mod(_d: &impl std::any::Any, a: u64) -> u64 { a ^ 5 }
    pub async fn in_mod_async(deps: &impl super::AsyncNoAlloc, a: u64) -> u64 { deps.async_no_alloc(a).await * 2 }
}
// static dependency inversion
#[entrait(InvImpl, delegate_by = Sel)]
pub trait Inv { fn inv(&self, a: u64) -> u64; async fn inv_async(&self, a: u64) -> u64; async fn inv_lt<'a>(&self, s: &'a str) -> &'a str; fn inv_lt_sync<'a>(&self, s: &'a str) -> &'a str; }
pub struct Block;
#[entrait]
impl InvImpl for Block {
    fn inv(_d: &impl std::any::Any, a: u64) -> u64 { a + 3 }
    async fn inv_async(_d: &impl std::any::Any, a: u64) -> u64 { Yield(false).await; a + 4 }
    // an explicit lifetime parameter on a method of the block (seed R15C14)
    async fn inv_lt<'a>(_d: &impl std::any::Any, s: &'a str) -> &'a str { Yield(false).await; &s[1..] }
    fn inv_lt_sync<'a>(_d: &impl std::any::Any, s: &'a str) -> &'a str { &s[2..] }
}
impl Sel<App> for App { type Target = Block; }

// C12: Send by default / ?Send
fn require_send<T: Send>(t: T) -> T { t }
#[entrait(NotSend, ?Send)]
async fn not_send(_d: &impl std::any::Any, a: u64) -> u64 { let rc = std::rc::Rc::new(a); Yield(false).await; *rc }
#[entrait(UnitOut)]
async fn unit_out(_d: &impl std::any::Any) { Yield(false).await }

fn main() {
    let app = Impl::new(App);
    let mut bad = 0;
    macro_rules! same_allocs { ($n:expr, $direct:expr, $via:expr) => {{
        // warm up (lazy statics, thread locals), then measure
        let _ = $direct; let _ = $via;
        let (a1, r1) = allocs(|| $direct); let (a2, r2) = allocs(|| $via);
        if a1 != a2 || r1 != r2 { println!("C14-PROBE-FAIL {}: direct {} allocations, through trait {} ({:?} / {:?})", $n, a1, a2, r1, r2); bad += 1; }
    }}; }
    same_allocs!("sync_no_alloc", sync_no_alloc(&app, 2, 3), app.sync_no_alloc(2, 3));
    same_allocs!("sync_alloc", sync_alloc(&app, 8), app.sync_alloc(8));
    same_allocs!("async_no_alloc", block_on(async_no_alloc(&app, 1)), block_on(app.async_no_alloc(1)));
    same_allocs!("async_alloc", block_on(async_alloc(&app, 9)), block_on(app.async_alloc(9)));
    same_allocs!("async_lt", block_on(async_lt(&app, "abc")), block_on(app.async_lt("abc")));
    same_allocs!("async_two_lt", block_on(async_two_lt(&app, "abc", "xyz")), block_on(app.async_two_lt("abc", "xyz")));
    same_allocs!("no_deps_async", block_on(no_deps_async(6, 7)), block_on(app.no_deps_async(6, 7)));
    same_allocs!("by_value_async", block_on(by_value_async(Impl::new(App), 1)), block_on(Impl::new(App).by_value_async(1)));
    same_allocs!("in_mod", m::in_mod(&app, 1), app.in_mod(1));
    same_allocs!("in_mod_async", block_on(m::in_mod_async(&app, 1)), block_on(app.in_mod_async(1)));
    same_allocs!("inv", Block::inv(&app, 1), app.inv(1));
    same_allocs!("inv_async", block_on(Block::inv_async(&app, 1)), block_on(app.inv_async(1)));
    same_allocs!("inv_lt", block_on(Block::inv_lt(&app, "abc")), block_on(app.inv_lt("abc")));
    same_allocs!("inv_lt_sync", Block::inv_lt_sync(&app, "abc"), app.inv_lt_sync("abc"));
    // C12: output type is exactly the function's (type-checked by the annotations), Send by default
    let v: u64 = block_on(require_send(app.async_no_alloc(4)));
    let s: String = block_on(require_send(app.async_alloc(2)));
    let u: () = block_on(require_send(app.unit_out()));
    let w: u64 = block_on(require_send(app.in_mod_async(4)));
    let x: u64 = block_on(require_send(app.inv_async(4)));
    let n: u64 = block_on(app.not_send(6));
    if (v, s.as_str(), u, w, x, n) != (5, "xx", (), 10, 8, 6) { println!("C12-PROBE-FAIL outputs {v} {s} {w} {x} {n}"); bad += 1; }
    println!("C12-C14-PROBE cases=20 failed={bad}");
    std::process::exit(if bad == 0 { 0 } else { 1 });
}
