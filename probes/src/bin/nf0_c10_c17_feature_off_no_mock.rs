//! C10 / C17 negative probe (entrait's `unimock` feature OFF): without the feature and without the
//! `unimock` option, `mock_api` alone derives nothing — even when exporting.
//! EXPECT: PlainMock
//! EXPECT: E0425
use entrait::*;
#[entrait_export(Plain, mock_api = PlainMock)]
fn plain(_d: &impl std::any::Any, a: u8) -> u8 { a + 1 }
fn main() { let _ = PlainMock; }
