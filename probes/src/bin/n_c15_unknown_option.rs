//! C15 negative probe: unknown option.
//! EXPECT: Unkonwn entrait option "frobnicate"
use entrait::*;
#[entrait(Foo, frobnicate)]
fn foo(_d: &impl std::any::Any) {}
fn main() {}
