//! C01 probe (compiled by rustc, run): calling the generated trait method is calling the original
//! function — with inputs whose identifiers differ only in *hygiene* (macro_rules-generated
//! functions), which the token-level model and the in-process engine cannot see.
//! Each case calls the function directly and through `Impl<T>` and compares the recorded
//! (function, arguments) trace and the result.
//! The impl-block and parameter-name cases make it a probe of C07 and C16 as well.
//! The entraited-trait and concrete-dependency cases make it a probe of C05 and C06 too.
//! ALSO: C05 C06 C07 C16
use entrait::*;
use std::cell::RefCell;

thread_local!(static LOG: RefCell<Vec<(String, Vec<i64>)>> = const { RefCell::new(Vec::new()) });
fn rec(f: &str, a: &[i64]) { LOG.with(|l| l.borrow_mut().push((f.to_string(), a.to_vec()))); }
fn take() -> Vec<(String, Vec<i64>)> { LOG.with(|l| std::mem::take(&mut *l.borrow_mut())) }

struct App;

// the macro's own parameter `k` and the caller's `$x` may be spelled the same
macro_rules! two_params {
    ($Tr:ident, $f:ident, $d:ident, $x:ident) => {
        #[entrait($Tr)]
        fn $f($d: &impl std::any::Any, k: i64, $x: i64) -> i64 { rec(stringify!($f), &[k, $x]); k * 10 + $x }
    };
}
macro_rules! two_params_no_deps {
    ($Tr:ident, $f:ident, $x:ident) => {
        #[entrait($Tr, no_deps)]
        fn $f(k: i64, $x: i64) -> i64 { rec(stringify!($f), &[k, $x]); k * 10 + $x }
    };
}
macro_rules! three_params_mod {
    ($Tr:ident, $m:ident, $f:ident, $d:ident, $x:ident, $y:ident) => {
        #[entrait(pub $Tr)]
        mod $m {
            use super::rec;
            pub fn $f($d: &impl std::any::Any, $x: i64, k: i64, $y: i64) -> i64 { rec(stringify!($f), &[$x, k, $y]); $x * 100 + k * 10 + $y }
            pub fn other($d: &impl std::any::Any, k: i64, $x: i64) -> i64 { rec("other", &[k, $x]); k - $x }
        }
    };
}
macro_rules! by_value_dep {
    ($Tr:ident, $f:ident, $d:ident, $x:ident) => {
        #[entrait($Tr)]
        fn $f<D: Send + 'static>($d: D, k: i64, $x: i64) -> i64 { rec(stringify!($f), &[k, $x]); k * 10 + $x }
    };
}
macro_rules! impl_block {
    ($Tr:ident, $TrImpl:ident, $Sel:ident, $f:ident, $d:ident, $x:ident) => {
        #[entrait($TrImpl, delegate_by = $Sel)]
        pub trait $Tr { fn $f(&self, k: i64, $x: i64) -> i64; }
        pub struct Holder;
        #[entrait]
        impl $TrImpl for Holder {
            fn $f($d: &impl std::any::Any, k: i64, $x: i64) -> i64 { rec(stringify!($f), &[k, $x]); k * 10 + $x }
        }
        impl $Sel<App> for App { type Target = Holder; }
    };
}

// the dependency binding written in the macro body while the trait is named by the caller: the forwarded `self`
// must carry the hygiene of the receiver it refers to (E0424 before fix "self span"), for generic, by-value and
// concrete dependencies and inside modules
macro_rules! body_dep {
    ($Tr:ident, $f:ident, $x:ident) => {
        #[entrait($Tr)]
        fn $f(deps: &impl std::any::Any, k: i64, $x: i64) -> i64 { let _ = deps; rec(stringify!($f), &[k, $x]); k * 10 + $x }
    };
}
macro_rules! body_dep_mod {
    ($Tr:ident, $m:ident, $f:ident, $x:ident) => {
        #[entrait(pub $Tr)]
        mod $m {
            use super::rec;
            pub fn $f(deps: &impl std::any::Any, k: i64, $x: i64) -> i64 { let _ = deps; rec(stringify!($f), &[k, $x]); k * 10 + $x }
        }
    };
}
macro_rules! body_dep_by_value {
    ($Tr:ident, $f:ident, $x:ident) => {
        #[entrait($Tr)]
        fn $f<D: Send + 'static>(deps: D, k: i64, $x: i64) -> i64 { let _ = deps; rec(stringify!($f), &[k, $x]); k * 10 + $x }
    };
}
macro_rules! concrete_dep {
    ($Tr:ident, $f:ident, $x:ident) => {
        #[entrait($Tr)]
        fn $f(app: &App, k: i64, $x: i64) -> i64 { let _ = app; rec(stringify!($f), &[k, $x]); k * 10 + $x }
    };
}
// the three kinds of entraited traits
macro_rules! entraited_traits {
    ($TrSelf:ident, $TrRef:ident, $TrBorrow:ident, $f:ident, $g:ident, $h:ident, $x:ident) => {
        #[entrait]
        pub trait $TrSelf { fn $f(&self, k: i64, $x: i64) -> i64; }
        #[entrait(delegate_by = ref)]
        pub trait $TrRef { fn $g(&self, k: i64, $x: i64) -> i64; }
        #[entrait(delegate_by = Borrow)]
        pub trait $TrBorrow { fn $h(&self, k: i64, $x: i64) -> i64; }
        impl $TrSelf for App { fn $f(&self, k: i64, $x: i64) -> i64 { rec(stringify!($f), &[k, $x]); k * 10 + $x } }
        impl $TrRef for App { fn $g(&self, k: i64, $x: i64) -> i64 { rec(stringify!($g), &[k, $x]); k * 10 + $x } }
        impl $TrBorrow for App { fn $h(&self, k: i64, $x: i64) -> i64 { rec(stringify!($h), &[k, $x]); k * 10 + $x } }
        impl AsRef<dyn $TrRef> for App { fn as_ref(&self) -> &(dyn $TrRef + 'static) { self } }
        impl std::borrow::Borrow<dyn $TrBorrow> for App { fn borrow(&self) -> &(dyn $TrBorrow + 'static) { self } }
    };
}
// the receiver token of an entraited trait's methods passed in by the caller while the trait is written in the
// macro body: the forwarded `self` of the `Impl<T>` method has to refer to that receiver (defect repaired by
// 69a9e85: E0424 before)
macro_rules! caller_receiver_traits {
    ($slf:tt, $TrSelf:ident, $TrRef:ident, $TrInv:ident, $TrInvImpl:ident, $Sel:ident, $H:ident, $f:ident, $g:ident, $h:ident) => {
        #[entrait]
        pub trait $TrSelf { fn $f(&$slf, k: i64, x: i64) -> i64; }
        #[entrait(delegate_by = ref)]
        pub trait $TrRef { fn $g(&$slf, k: i64, x: i64) -> i64; }
        #[entrait($TrInvImpl, delegate_by = $Sel)]
        pub trait $TrInv { fn $h(&$slf, k: i64, x: i64) -> i64; }
        impl $TrSelf for App { fn $f(&self, k: i64, x: i64) -> i64 { rec(stringify!($f), &[k, x]); k * 10 + x } }
        impl $TrRef for App { fn $g(&self, k: i64, x: i64) -> i64 { rec(stringify!($g), &[k, x]); k * 10 + x } }
        impl AsRef<dyn $TrRef> for App { fn as_ref(&self) -> &(dyn $TrRef + 'static) { self } }
        pub struct $H;
        #[entrait]
        impl $TrInvImpl for $H {
            fn $h(_d: &impl std::any::Any, k: i64, x: i64) -> i64 { rec(stringify!($h), &[k, x]); k * 10 + x }
        }
        impl $Sel<App> for App { type Target = $H; }
    };
}

two_params!(A1, a1, _d, k);            // collision
two_params!(A2, a2, _d, other_name);   // control
two_params_no_deps!(B1, b1, k);
three_params_mod!(C1, c1m, c1, _d, k, j);
three_params_mod!(C2, c2m, c2, _d, j, k);
by_value_dep!(D1, d1, _d, k);
impl_block!(E1, E1Impl, SelE1, e1, _d, k);
entraited_traits!(G1, G2, G3, g1, g2, g3, k);
body_dep!(H1, h1, k);
body_dep_mod!(H2, h2m, h2, k);
body_dep_by_value!(H3, h3, k);
concrete_dep!(H4, h4, k);
caller_receiver_traits!(self, I1, I2, I3, I3Impl, SelI3, HolderI3, i1, i2, i3);

fn check(name: &str, direct: impl FnOnce() -> i64, via: impl FnOnce() -> i64, bad: &mut u32) {
    let r1 = direct();
    let t1 = take();
    let r2 = via();
    let t2 = take();
    if r1 != r2 || t1 != t2 || t1.len() != 1 {
        println!("C01-PROBE-FAIL {name}: direct {r1} {t1:?} / through trait {r2} {t2:?}");
        *bad += 1;
    }
}

fn main() {
    let app = Impl::new(App);
    let mut bad = 0;
    check("a1", || a1(&app, 3, 4), || app.a1(3, 4), &mut bad);
    check("a2", || a2(&app, 3, 4), || app.a2(3, 4), &mut bad);
    check("b1", || b1(3, 4), || app.b1(3, 4), &mut bad);
    check("c1", || c1m::c1(&app, 1, 2, 3), || app.c1(1, 2, 3), &mut bad);
    check("c1.other", || c1m::other(&app, 7, 2), || C1::other(&app, 7, 2), &mut bad);
    check("c2", || c2m::c2(&app, 1, 2, 3), || app.c2(1, 2, 3), &mut bad);
    check("c2.other", || c2m::other(&app, 7, 2), || C2::other(&app, 7, 2), &mut bad);
    check("d1", || d1(Impl::new(App), 5, 6), || Impl::new(App).d1(5, 6), &mut bad);
    check("e1", || Holder::e1(&app, 8, 9), || app.e1(8, 9), &mut bad);
    check("g1", || App.g1(2, 3), || app.g1(2, 3), &mut bad);
    check("g2", || App.g2(2, 3), || app.g2(2, 3), &mut bad);
    check("g3", || App.g3(2, 3), || app.g3(2, 3), &mut bad);
    check("h1", || h1(&app, 2, 3), || app.h1(2, 3), &mut bad);
    check("h2", || h2m::h2(&app, 2, 3), || app.h2(2, 3), &mut bad);
    check("h3", || h3(Impl::new(App), 2, 3), || Impl::new(App).h3(2, 3), &mut bad);
    check("h4", || h4(&App, 2, 3), || app.h4(2, 3), &mut bad);
    check("i1", || App.i1(2, 3), || app.i1(2, 3), &mut bad);
    check("i2", || App.i2(2, 3), || app.i2(2, 3), &mut bad);
    check("i3", || HolderI3::i3(&app, 2, 3), || app.i3(2, 3), &mut bad);
    println!("C01-PROBE cases=19 failed={bad}");
    std::process::exit(if bad == 0 { 0 } else { 1 });
}
