//! C19 probe: expansions compile, and mean the same, in a scope that defines items whose names
//! coincide with everything the macro refers to — and without importing anything from entrait.
//! Every module below invokes the macro through its absolute path only.
#![allow(dead_code, non_camel_case_types, non_snake_case)]

mod hostile {
    // names the macro refers to, all defined by the user with a different meaning
    pub struct Impl;
    pub struct Send;
    pub struct Sync;
    pub struct Future;
    pub struct AsRef;
    pub struct Borrow;
    pub struct Box;
    pub struct Pin;
    pub struct Output;
    pub struct Target;
    pub struct T;
    pub trait Sized {}
    pub mod core { pub mod marker {} pub mod future {} pub mod convert {} pub mod borrow {} }
    pub mod std {}
    pub mod entrait {}
    pub mod unimock {}

    pub trait Dep { fn dep(&self) -> u32; }
    impl Dep for ::entrait::Impl<u32> { fn dep(&self) -> u32 { **self } }

    #[::entrait::entrait(pub Single)]
    fn single(deps: &impl Dep, a: u32) -> u32 { deps.dep() + a }

    #[::entrait::entrait(pub ByVal)]
    fn by_val<D: Dep + ::core::marker::Send + ::core::marker::Sync + 'static>(deps: D, a: u32) -> u32 { deps.dep() * a }

    #[::entrait::entrait(pub AsyncOne)]
    async fn async_one(deps: &impl Dep, a: u32) -> u32 { deps.dep() - a }

    #[::entrait::entrait(pub InMod)]
    mod inner {
        pub fn in_mod(deps: &impl super::Dep, a: u32) -> u32 { deps.dep() ^ a }
    }

    // the generated trait is itself called like something the macro uses
    #[::entrait::entrait(pub Clone)]
    fn clone_(deps: &impl Dep) -> u32 { deps.dep() }

    #[::entrait::entrait]
    pub trait Leaf { fn leaf(&self, a: u32) -> u32; }
    impl Leaf for u32 { fn leaf(&self, a: u32) -> u32 { *self + 2 * a } }

    #[::entrait::entrait(delegate_by = ref)]
    pub trait ByRef { fn by_ref(&self, a: u32) -> u32; }
    pub struct RefImpl;
    impl ByRef for RefImpl { fn by_ref(&self, a: u32) -> u32 { 100 + a } }
    pub struct RefApp(pub RefImpl);
    impl ::core::convert::AsRef<dyn ByRef> for RefApp { fn as_ref(&self) -> &(dyn ByRef + 'static) { &self.0 } }

    #[::entrait::entrait(InvImpl, delegate_by = Select)]
    pub trait Inv { fn inv(&self, a: u32) -> u32; }
    pub struct Block;
    #[::entrait::entrait]
    impl InvImpl for Block { fn inv(deps: &impl Dep, a: u32) -> u32 { deps.dep() + 3 * a } }
    impl Select<u32> for u32 { type Target = Block; }

    pub fn run() -> ::std::vec::Vec<u32> {
        let app = ::entrait::Impl::new(10u32);
        ::std::vec![
            Single::single(&app, 1),
            ByVal::by_val(::entrait::Impl::new(10u32), 2),
            super::block_on(AsyncOne::async_one(&app, 3)),
            InMod::in_mod(&app, 4),
            Clone::clone_(&app),
            Leaf::leaf(&app, 5),
            Inv::inv(&app, 6),
            ByRef::by_ref(&::entrait::Impl::new(RefApp(RefImpl)), 7),
        ]
    }
}

mod hostile2 {
    // dynamic dependency inversion with async methods: the macro writes `+ Sync` / `+ Send` bounds
    pub struct Sync;
    pub struct Send;
    pub struct AsRef;
    pub struct Borrow;
    // a local `core` (a "domain core" layer): relative `core::..` paths in generated code would land here
    pub mod core { pub mod marker {} pub mod future {} pub mod convert {} pub mod borrow {} }
    pub trait Dep { fn dep(&self) -> u32; }
    impl Dep for ::entrait::Impl<App> { fn dep(&self) -> u32 { 10 } }

    #[::entrait::entrait(BorImpl, delegate_by = Borrow)]
    pub trait BorTr { fn bo(&self, a: u32) -> u32; }
    pub struct BorBlock;
    #[::entrait::entrait(ref)]
    impl BorImpl for BorBlock { fn bo(deps: &impl Dep, a: u32) -> u32 { deps.dep() * a } }
    impl ::core::borrow::Borrow<dyn BorImpl<App>> for App {
        fn borrow(&self) -> &(dyn BorImpl<App> + 'static) { &BorBlock }
    }

    #[::entrait::entrait(DynImpl, delegate_by = ref)]
    #[::async_trait::async_trait]
    pub trait DynTr { async fn dy(&self, a: u32) -> u32; }
    pub struct Block;
    #[::entrait::entrait(ref)]
    #[::async_trait::async_trait]
    impl DynImpl for Block { async fn dy(deps: &impl Dep, a: u32) -> u32 { deps.dep() + a } }
    pub struct App(pub ::std::boxed::Box<dyn DynImpl<App> + ::core::marker::Sync + ::core::marker::Send>);
    impl ::core::convert::AsRef<dyn DynImpl<App> + ::core::marker::Sync> for App {
        fn as_ref(&self) -> &(dyn DynImpl<App> + ::core::marker::Sync + 'static) { &*self.0 }
    }
    pub fn run() -> u32 {
        let app = ::entrait::Impl::new(App(::std::boxed::Box::new(Block)));
        super::block_on(DynTr::dy(&app, 5)) + 1000 * BorTr::bo(&app, 3)
    }
}

fn block_on<F: std::future::Future>(f: F) -> F::Output {
    use std::task::{Context, Poll, RawWaker, RawWakerVTable, Waker};
    fn raw() -> RawWaker { RawWaker::new(std::ptr::null(), &VT) }
    static VT: RawWakerVTable = RawWakerVTable::new(|_| raw(), |_| {}, |_| {}, |_| {});
    let w = unsafe { Waker::from_raw(raw()) };
    let mut cx = Context::from_waker(&w);
    let mut f = std::pin::pin!(f);
    loop { if let Poll::Ready(v) = f.as_mut().poll(&mut cx) { return v; } }
}

fn main() {
    let got = hostile::run();
    let want = vec![11, 20, 7, 14, 10, 20, 28, 107];
    if got != want { println!("C19-PROBE-FAIL got {got:?} want {want:?}"); std::process::exit(1); }
    let got2 = hostile2::run();
    if got2 != 30015 { println!("C19-PROBE-FAIL hostile2 got {got2} want 30015"); std::process::exit(1); }
    println!("C19-PROBE cases=10 failed=0");
}
