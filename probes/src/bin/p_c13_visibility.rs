//! C13 positive probe: requested visibilities make the generated traits usable exactly where asked.
#![allow(dead_code)]
mod a {
    use entrait::*;
    #[entrait(pub Public)]
    fn public(_d: &impl std::any::Any) -> u8 { 1 }
    #[entrait(pub(crate) CrateWide)]
    fn crate_wide(_d: &impl std::any::Any) -> u8 { 2 }
    #[entrait(pub(super) ToParent)]
    fn to_parent(_d: &impl std::any::Any) -> u8 { 3 }
    #[entrait(Private)]
    pub fn private(_d: &impl std::any::Any) -> u8 { 4 }
    pub fn inside(x: &impl Private) -> u8 { x.private() }
    // module mode: `pub(super)` inside the module + re-export next to it
    #[entrait(ModDefault)]
    pub mod m1 { pub fn m1f(_d: &impl std::any::Any) -> u8 { 5 } }
    #[entrait(pub ModPub)]
    mod m2 { pub fn m2f(_d: &impl std::any::Any) -> u8 { 6 } }
    pub fn uses_default(x: &impl ModDefault) -> u8 { x.m1f() }
    // trait mode: delegation-target trait gets the trait's visibility
    #[entrait(pub TargetImpl, delegate_by = Pick)]
    pub trait Target { fn t(&self) -> u8; }
}
pub struct B;
#[entrait::entrait]
impl a::TargetImpl for B { fn t(_d: &impl std::any::Any) -> u8 { 7 } }
impl a::Pick<()> for () { type Target = B; }
fn main() {
    use a::{CrateWide, ModPub, Public, Target, ToParent};
    let app = entrait::Impl::new(());
    let got = [app.public(), app.crate_wide(), app.to_parent(), a::inside(&app), a::uses_default(&app), app.m2f(), app.t()];
    if got != [1, 2, 3, 4, 5, 6, 7] { println!("C13-PROBE-FAIL {got:?}"); std::process::exit(1); }
    println!("C13-PROBE cases=7 failed=0");
}
