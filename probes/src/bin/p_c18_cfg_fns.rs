//! C18 probe: `cfg`-disabled functions of an entraited module or impl block do not leave a dangling
//! trait method behind (E0425 / E0599 / E0046 if one did), enabled ones are still delegated to, and
//! the mirrored `cfg` is the only attribute copied: `#[mark(..)]` below a `cfg` would define its
//! marker twice if it were copied too.  With unimock: the mock of a trait with a disabled method
//! still compiles, mocks and partially unmocks the enabled ones.
#![allow(dead_code)]
use entrait::*;

#[entrait(pub Other)]
fn other(_d: &impl std::any::Any, x: u32) -> u32 { x + 1 }

#[entrait(pub ModCfg)]
pub mod with_cfg {
    use mark_macro::mark;
    #[cfg(any())]
    pub fn absent(_d: &impl std::any::Any) -> NoSuchType { no_such_fn() }
    #[cfg(all())]
    #[mark(PresentMarker)]
    pub fn present(_d: &impl std::any::Any, x: u32) -> u32 { x + 1 }
    #[cfg(any())]
    #[cfg(all())]
    pub fn absent_twice(_d: &impl std::any::Any) -> NoSuchType { no_such_fn() }
    pub fn plain(deps: &impl super::Other, x: u32) -> u32 { deps.other(x) * 2 }
    #[cfg(not(any()))]
    pub async fn present_async(_d: &impl std::any::Any) -> u32 { 5 }
}

#[entrait(StoreImpl, delegate_by = SelectStore)]
pub trait Store { fn get(&self) -> u32; #[cfg(any())] fn gone(&self) -> NoSuchType; fn more(&self, x: u32) -> u32; }
pub struct Backend;
#[entrait]
impl StoreImpl for Backend {
    fn get(_d: &impl std::any::Any) -> u32 { 11 }
    #[cfg(any())]
    fn gone(_d: &impl std::any::Any) -> NoSuchType { no_such_fn() }
    #[cfg(all())]
    fn more(_d: &impl std::any::Any, x: u32) -> u32 { x + 100 }
}

#[entrait(DynStoreImpl, delegate_by = ref)]
pub trait DynStore { #[cfg(any())] fn gone(&self) -> NoSuchType; fn dyn_get(&self) -> u32; }
pub struct DynBackend;
#[entrait(ref)]
impl DynStoreImpl for DynBackend {
    #[cfg(any())]
    fn gone(_d: &impl std::any::Any) -> NoSuchType { no_such_fn() }
    fn dyn_get(_d: &impl std::any::Any) -> u32 { 13 }
}

pub struct App { d: Box<dyn DynStoreImpl<App> + Sync> }
impl SelectStore<App> for App { type Target = Backend; }
impl AsRef<dyn DynStoreImpl<App>> for App { fn as_ref(&self) -> &(dyn DynStoreImpl<App> + 'static) { &*self.d } }

#[entrait(Base, mock_api = BaseMock, unimock = true, export)]
fn base(_d: &impl std::any::Any) -> u32 { 3 }

#[entrait(MockedCfg, mock_api = MockedCfgMock, unimock = true, export)]
mod mocked {
    #[cfg(any())]
    pub fn nope(_d: &impl std::any::Any) -> NoSuchType { no_such_fn() }
    #[cfg(all())]
    pub fn derived(deps: &impl super::Base) -> u32 { deps.base() + 1 }
    pub fn constant(_d: &impl std::any::Any) -> u32 { 77 }
}

fn block_on<F: std::future::Future>(f: F) -> F::Output {
    use std::task::{Context, Poll, RawWaker, RawWakerVTable, Waker};
    fn raw() -> RawWaker { RawWaker::new(std::ptr::null(), &VT) }
    static VT: RawWakerVTable = RawWakerVTable::new(|_| raw(), |_| {}, |_| {}, |_| {});
    let waker = unsafe { Waker::from_raw(raw()) };
    let mut cx = Context::from_waker(&waker);
    let mut f = Box::pin(f);
    loop { if let Poll::Ready(v) = f.as_mut().poll(&mut cx) { return v; } }
}

fn main() {
    let app = Impl::new(());
    let _marker = with_cfg::PresentMarker;
    let mut got = vec![app.present(1), app.plain(2), block_on(app.present_async())];
    let app2 = Impl::new(App { d: Box::new(DynBackend) });
    got.push(app2.get());
    got.push(app2.more(1));
    got.push(app2.dyn_get());
    {
        use unimock::*;
        let mocked = Unimock::new((BaseMock.each_call(matching!()).returns(41u32),
                                   mocked::MockedCfgMock::constant.each_call(matching!()).returns(1u32)));
        got.push(mocked::derived(&mocked) + mocked.constant());
        let partial = Unimock::new_partial(BaseMock.each_call(matching!()).returns(9u32));
        got.push(partial.derived());
    }
    let want = vec![2, 6, 5, 11, 101, 13, 43, 10];
    if got != want { println!("C18-CFG-PROBE-FAIL {got:?}"); std::process::exit(1); }
    println!("C18-CFG-PROBE cases=8 failed=0");
}
