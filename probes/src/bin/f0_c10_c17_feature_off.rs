//! C10 / C17 probe (entrait's `unimock` cargo feature OFF, built with --no-default-features):
//! nothing is mocked by default; the macros still expand and delegate.
use entrait::*;
#[entrait_export(Plain, mock_api = PlainMock)]
fn plain(_d: &impl std::any::Any, a: u8) -> u8 { a + 1 }
#[entrait(pub InMod, mock_api = InModMock)]
mod m { pub fn in_mod(_d: &impl std::any::Any, a: u8) -> u8 { a + 2 } }
#[entrait(mock_api = TrMock)]
pub trait Tr { fn tr(&self, a: u8) -> u8; }
impl Tr for () { fn tr(&self, a: u8) -> u8 { a + 3 } }
fn main() {
    let app = Impl::new(());
    let got = (app.plain(1), app.in_mod(1), app.tr(1));
    if got != (2, 3, 4) { println!("FEATURE-OFF-PROBE-FAIL {got:?}"); std::process::exit(1); }
    println!("FEATURE-OFF-PROBE cases=3 failed=0");
}
