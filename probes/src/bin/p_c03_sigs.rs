//! C03 probe: signatures of the supported class expand to code that compiles (type and borrow
//! checking by rustc) and the generated method has the original function's call type: every call
//! below is made once directly and once through the trait with the same argument expressions,
//! and results that borrow from the dependency or from arguments are used after the call.
#![allow(clippy::needless_lifetimes, dead_code)]
use entrait::*;

pub struct App { name: String, nums: Vec<u32> }
pub trait Named { fn name(&self) -> &str; }
impl Named for Impl<App> { fn name(&self) -> &str { &self.name } }
pub trait Nums { fn nums(&self) -> &[u32]; }
impl Nums for Impl<App> { fn nums(&self) -> &[u32] { &self.nums } }

// borrows from the dependency
#[entrait(BorrowDep)]
fn borrow_dep(deps: &impl Named) -> &str { deps.name() }
// explicit lifetime tying dependency and result
#[entrait(BorrowDepL)]
fn borrow_dep_l<'a>(deps: &'a impl Nums, idx: usize) -> Option<&'a u32> { deps.nums().get(idx) }
// borrows from an argument, not from the dependency
#[entrait(BorrowArg)]
fn borrow_arg<'a, 'b>(_deps: &'a impl Named, s: &'b str) -> &'b str { &s[1..] }
// named generic dependency with inline and where-clause bounds, further type and const generics
#[entrait(Generic)]
fn generic<D, T, const N: usize>(deps: &D, xs: [T; N]) -> (usize, usize) where D: Named + Nums, T: Clone {
    let _ = xs.clone();
    (deps.name().len() + deps.nums().len(), N)
}
// by-value dependency
#[entrait(ByValue)]
fn by_value<D: Named + Send + Sync + 'static>(deps: D, suffix: &str) -> String { format!("{}{}", deps.name(), suffix) }
// no dependency
#[entrait(NoDeps, no_deps)]
fn no_deps<'a>(a: &'a mut Vec<u8>, b: u8) -> &'a mut Vec<u8> { a.push(b); a }
// qualifiers
#[entrait(UnsafeFn)]
unsafe fn unsafe_fn(_deps: &impl Named, p: *const u32) -> u32 { *p }
#[entrait(ExternFn)]
extern "C" fn extern_fn(_deps: &impl Named, a: u32) -> u32 { a + 1 }
// async, borrowing across the await
#[entrait(AsyncFn)]
async fn async_fn<'a>(deps: &'a impl Named, extra: &'a str) -> (&'a str, &'a str) { (deps.name(), extra) }
// higher-ranked bound, impl Trait argument, slices, tuples, closures
#[entrait(Hrtb)]
fn hrtb<F>(_deps: &impl Named, f: F, v: &[(u8, u8)]) -> u32 where F: for<'x> Fn(&'x (u8, u8)) -> u32 { v.iter().map(f).sum() }
// module with several functions, generics on different functions
// where-clause predicates that talk about lifetime parameters of the function (outlives relations):
// they cannot be written on the trait, where the lifetime is not in scope
#[entrait(OutlivesNamed)]
fn outlives_named<'a, 'b, D>(_deps: &D, a: &'a str, _b: &'b str) -> &'a str where D: Named, 'b: 'a { a }
#[entrait(OutlivesImpl)]
fn outlives_impl<'a, T>(_deps: &impl Named, x: &'a [T]) -> &'a T where T: 'a + Clone, for<'x> &'x T: Sized { &x[0] }

// further parameters written as destructuring patterns whose single binding carries a binding mode
// (`mut`, `ref`, `@`): the bodiless trait method cannot keep the mode (seed R14C03)
pub struct Wrapper(pub Vec<u8>);
pub struct Point { pub x: u32, pub y: u32 }
#[entrait(PatMut)]
fn pat_mut(_deps: &impl Named, Wrapper(mut items): Wrapper, (mut n, _): (u32, u32)) -> (Vec<u8>, u32) { items.push(1); n += 1; (items, n) }
#[entrait(PatRef)]
fn pat_ref<D: Nums>(_deps: &D, Point { ref x, .. }: Point, [whole @ _, _]: [u8; 2]) -> (u32, u8) { (*x, whole) }
#[entrait(PatAsync, no_deps)]
async fn pat_async(Point { ref mut y, .. }: Point, &(ref s, _): &(String, u8)) -> (u32, usize) { *y += 1; (*y, s.len()) }

#[entrait(pub ModTrait)]
mod m {
    pub fn first<D: super::Named>(deps: &D, n: usize) -> String { deps.name().repeat(n) }
    pub fn second<'a, T: std::fmt::Debug>(_deps: &impl super::Nums, t: &'a T) -> (&'a T, String) { (t, format!("{t:?}")) }
    fn private_helper() {}
}

fn block_on<F: std::future::Future>(f: F) -> F::Output {
    use std::task::{Context, Poll, RawWaker, RawWakerVTable, Waker};
    fn raw() -> RawWaker { RawWaker::new(std::ptr::null(), &VT) }
    static VT: RawWakerVTable = RawWakerVTable::new(|_| raw(), |_| {}, |_| {}, |_| {});
    let w = unsafe { Waker::from_raw(raw()) };
    let mut cx = Context::from_waker(&w);
    let mut f = std::pin::pin!(f);
    loop { if let Poll::Ready(v) = f.as_mut().poll(&mut cx) { return v; } }
}

fn main() {
    let app = Impl::new(App { name: "abc".into(), nums: vec![5, 6] });
    let mut bad = 0;
    macro_rules! same { ($n:expr, $a:expr, $b:expr) => {{ let (x, y) = ($a, $b); if x != y { println!("C03-PROBE-FAIL {}: {:?} vs {:?}", $n, x, y); bad += 1; } }}; }
    same!("borrow_dep", borrow_dep(&app), app.borrow_dep());
    same!("borrow_dep_l", borrow_dep_l(&app, 1), app.borrow_dep_l(1));
    let owned = String::from("xyz");
    let kept: &str = { app.borrow_arg(&owned) };
    same!("borrow_arg", borrow_arg(&app, &owned), kept);
    same!("generic", generic(&app, [1u8, 2, 3]), app.generic([1u8, 2, 3]));
    same!("by_value", by_value(Impl::new(App { name: "q".into(), nums: vec![] }), "!"), Impl::new(App { name: "q".into(), nums: vec![] }).by_value("!"));
    let (mut v1, mut v2) = (vec![1u8], vec![1u8]);
    same!("no_deps", no_deps(&mut v1, 2).clone(), app.no_deps(&mut v2, 2).clone());
    let n = 7u32;
    same!("unsafe_fn", unsafe { unsafe_fn(&app, &n) }, unsafe { app.unsafe_fn(&n) });
    same!("extern_fn", extern_fn(&app, 1), app.extern_fn(1));
    same!("async_fn", block_on(async_fn(&app, "e")), block_on(app.async_fn("e")));
    same!("hrtb", hrtb(&app, |p| (p.0 + p.1) as u32, &[(1, 2), (3, 4)]), app.hrtb(|p| (p.0 + p.1) as u32, &[(1, 2), (3, 4)]));
    same!("mod.first", m::first(&app, 2), <Impl<App> as ModTrait<u8>>::first(&app, 2));
    same!("mod.second", m::second(&app, &9u8), app.second(&9u8));
    same!("outlives_named", outlives_named(&app, "p", "q"), app.outlives_named("p", "q"));
    same!("outlives_impl", outlives_impl(&app, &[4u8, 5]), app.outlives_impl(&[4u8, 5]));
    same!("pat_mut", pat_mut(&app, Wrapper(vec![7]), (1, 2)), app.pat_mut(Wrapper(vec![7]), (1, 2)));
    same!("pat_ref", pat_ref(&app, Point { x: 3, y: 4 }, [5, 6]), app.pat_ref(Point { x: 3, y: 4 }, [5, 6]));
    let pair = (String::from("ab"), 0u8);
    same!("pat_async", block_on(pat_async(Point { x: 3, y: 4 }, &pair)), block_on(app.pat_async(Point { x: 3, y: 4 }, &pair)));
    println!("C03-PROBE cases=17 failed={bad}");
    std::process::exit(if bad == 0 { 0 } else { 1 });
}
