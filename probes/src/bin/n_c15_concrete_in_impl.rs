//! C15 negative probe: concrete dependency inside an impl block.
//! EXPECT: Cannot (yet) use concrete dependency in an impl block
use entrait::*;
pub struct App;
#[entrait(FooImpl, delegate_by = Sel)]
pub trait Foo { fn foo(&self); }
pub struct X;
#[entrait]
impl FooImpl for X { fn foo(_app: &App) {} }
fn main() {}
