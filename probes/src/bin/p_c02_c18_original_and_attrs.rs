//! C02 / C18 probe.
//! C02: the annotated item is emitted unchanged — visibility, qualifiers, attributes, body with
//! arbitrary tokens, and every item of an entraited module / impl block in order.
//! C18: attributes below entrait stay on the function and are not copied onto generated items
//! (`#[mark(..)]` would define its marker struct twice, or inside a trait, if it were); parameter
//! attributes are stripped from generated signatures; `cfg` on the methods of an entraited trait is
//! mirrored onto the delegating methods.
#![allow(dead_code)]
use entrait::*;
use mark_macro::mark;

macro_rules! odd_tokens { ($($t:tt)*) => { stringify!($($t)*).len() as u32 }; }

/// docs stay
#[entrait(pub Orig)]
#[mark(OrigMarker)]
#[inline(never)]
#[must_use]
pub(crate) fn orig<'a>(_d: &impl std::any::Any, #[allow(unused_variables)] a: &'a str, #[cfg(all())] b: u32) -> (&'a str, u32) {
    (a, b + odd_tokens!(=> <- @ # $ 'life "str" 1.5e3 r#raw ~ ?))
}

#[entrait(pub ModOrig)]
#[mark(ModMarker)]
pub mod keep {
    use mark_macro::mark;
    pub const FIRST: u32 = 1;
    pub struct Inside(pub u32);
    impl Inside { pub fn get(&self) -> u32 { self.0 } }
    #[mark(FnMarker)]
    pub fn listed(_d: &impl std::any::Any, x: u32) -> u32 { helper(x) + FIRST }
    fn helper(x: u32) -> u32 { x * 2 }
    macro_rules! local { () => { 7 } }
    pub fn also_listed(_d: &impl std::any::Any) -> u32 { local!() }
    pub static LAST: u32 = 9;
}

#[entrait]
pub trait WithCfg {
    fn present(&self) -> u32;
    #[cfg(any())]
    fn absent(&self) -> NoSuchType;
    #[cfg(all())]
    fn also_present(&self) -> u32;
}
impl WithCfg for () { fn present(&self) -> u32 { 1 } fn also_present(&self) -> u32 { 2 } }

fn main() {
    let app = Impl::new(());
    let direct = orig(&app, "s", 1);
    let via = app.orig("s", 1);
    let _markers = (OrigMarker, ModMarker, keep::FnMarker);
    let got = (direct == via, keep::Inside(3).get(), keep::listed(&app, 2), app.listed(2), app.also_listed(), keep::LAST, app.present(), app.also_present());
    if got != (true, 3, 5, 5, 7, 9, 1, 2) { println!("C02-C18-PROBE-FAIL {got:?}"); std::process::exit(1); }
    println!("C02-C18-PROBE cases=8 failed=0");
}
