//! C06 probe: entraited traits with lifetime, defaulted type and const generics keep working through `Impl<T>`.
#![allow(dead_code)]
use entrait::*;

#[entrait]
pub trait WithLt<'a> { fn get(&self, s: &'a str) -> &'a str; }
impl<'a> WithLt<'a> for () { fn get(&self, s: &'a str) -> &'a str { s } }

#[entrait]
pub trait WithDefault<T = u8> { fn def(&self, t: T) -> T; }
impl WithDefault<u8> for () { fn def(&self, t: u8) -> u8 { t + 1 } }

#[entrait]
pub trait WithConst<const N: usize> { fn arr(&self) -> [u8; N]; }
impl<const N: usize> WithConst<N> for () { fn arr(&self) -> [u8; N] { [7; N] } }

#[entrait]
pub trait WithWhere<T> where T: Clone { fn dup(&self, t: &T) -> (T, T); }
impl<T: Clone> WithWhere<T> for () { fn dup(&self, t: &T) -> (T, T) { (t.clone(), t.clone()) } }

// generic traits delegated through a reference the application hands out (seed R15C06): the forwarding
// expression and the where clause must name the same `dyn Trait<K, N>`
#[entrait(delegate_by = Borrow)]
pub trait GenBorrow<K, const N: usize> { fn fill(&self, k: K) -> [K; N] where K: Copy; fn count(&self) -> usize; }
#[entrait(delegate_by = ref)]
pub trait GenRef<'a, K: 'a> { fn pick(&self, ks: &'a [K]) -> &'a K; }
pub struct Filler;
impl<K, const N: usize> GenBorrow<K, N> for Filler { fn fill(&self, k: K) -> [K; N] where K: Copy { [k; N] } fn count(&self) -> usize { N } }
impl<'a, K: 'a> GenRef<'a, K> for Filler { fn pick(&self, ks: &'a [K]) -> &'a K { &ks[ks.len() - 1] } }
pub struct RefApp { filler: Filler }
impl<K: 'static, const N: usize> ::core::borrow::Borrow<dyn GenBorrow<K, N>> for RefApp { fn borrow(&self) -> &(dyn GenBorrow<K, N> + 'static) { &self.filler } }
impl<'a, K: 'a> AsRef<dyn GenRef<'a, K> + 'a> for RefApp { fn as_ref(&self) -> &(dyn GenRef<'a, K> + 'a) { &self.filler } }

fn main() {
    {
        #[allow(unused_imports)]
        use ::core::borrow::Borrow;
        let rapp = Impl::new(RefApp { filler: Filler });
        let got = (GenBorrow::<u8, 3>::fill(&rapp, 4), GenBorrow::<u16, 5>::count(&rapp));
        if got != ([4, 4, 4], 5) { println!("C06-PROBE-FAIL borrow {got:?}"); std::process::exit(1); }
    }
    let app = Impl::new(());
    let got = (app.get("x"), app.def(1), WithConst::<3>::arr(&app), app.dup(&5u8));
    if got != ("x", 2, [7, 7, 7], (5, 5)) { println!("C06-PROBE-FAIL {got:?}"); std::process::exit(1); }
    println!("C06-PROBE cases=6 failed=0");
}
