//! C06 probe: entraited traits with lifetime, defaulted type and const generics keep working through `Impl<T>`.
#![allow(dead_code)]
use entrait::*;

#[entrait]
pub trait WithLt<'a> { fn get(&self, s: &'a str) -> &'a str; }
impl<'a> WithLt<'a> for () { fn get(&self, s: &'a str) -> &'a str { s } }

#[entrait]
pub trait WithDefault<T = u8> { fn def(&self, t: T) -> T; }
impl WithDefault<u8> for () { fn def(&self, t: u8) -> u8 { t + 1 } }

#[entrait]
pub trait WithConst<const N: usize> { fn arr(&self) -> [u8; N]; }
impl<const N: usize> WithConst<N> for () { fn arr(&self) -> [u8; N] { [7; N] } }

#[entrait]
pub trait WithWhere<T> where T: Clone { fn dup(&self, t: &T) -> (T, T); }
impl<T: Clone> WithWhere<T> for () { fn dup(&self, t: &T) -> (T, T) { (t.clone(), t.clone()) } }

fn main() {
    let app = Impl::new(());
    let got = (app.get("x"), app.def(1), WithConst::<3>::arr(&app), app.dup(&5u8));
    if got != ("x", 2, [7, 7, 7], (5, 5)) { println!("C06-PROBE-FAIL {got:?}"); std::process::exit(1); }
    println!("C06-PROBE cases=4 failed=0");
}
