//! C15 negative probe: a delegation-target trait without `delegate_by`.
//! EXPECT: Missing delegate_by
use entrait::*;
#[entrait(FooImpl)]
trait Foo { fn foo(&self); }
fn main() {}
