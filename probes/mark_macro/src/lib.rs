//! `#[mark(Name)]`: re-emits the item and adds `pub struct Name;` next to it.  Applied twice with
//! the same name (or to a trait / impl method) it makes compilation fail — a detector for
//! attributes that get copied onto generated items.
use proc_macro::TokenStream;

#[proc_macro_attribute]
pub fn mark(attr: TokenStream, item: TokenStream) -> TokenStream {
    let mut out: TokenStream = format!("#[allow(dead_code)] pub struct {};", attr).parse().unwrap();
    out.extend(item);
    out
}
