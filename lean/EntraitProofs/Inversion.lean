import EntraitModel.Props
/-
  Inversion lemmas: what a successful expansion looks like, per input mode.  Every property
  theorem starts from one of these.
-/
namespace Entrait

@[simp] theorem ofPErr_ne_ok (e : PErr) (out : Out) : Outcome.ofPErr e ≠ .ok out := by
  cases e <;> simp [Outcome.ofPErr]

@[simp] theorem ofErr_ne_ok (e : PErr ⊕ String) (out : Out) : Outcome.ofErr e ≠ .ok out := by
  rcases e with (_ | _) | _ <;> simp [Outcome.ofErr]

theorem expandFn_ok {v : Variant} {attr : Toks} {f : FnItem} {out : Out}
    (h : expandFn v attr f = .ok out) :
    ∃ a tf tg depMode implBlock,
      parseFnAttr attr = .ok a ∧
      analyzeFn .selfRef (v.apply a.opts) f.sig {} = .ok (tf, tg) ∧
      detectDepMode .singleFn [tf] = .ok depMode ∧
      genImplBlock (v.apply a.opts) [i a.traitIdent] .none tg .singleFn depMode f.attrs [tf] = .ok implBlock ∧
      out = .fnOut f [.trait (genTraitDef (v.apply a.opts) .plain depMode f.attrs a.traitVis a.traitIdent tg {} [tf] .singleFn),
                      .impl implBlock] := by
  unfold expandFn at h
  cases h1 : parseFnAttr attr with
  | error e => simp [h1] at h
  | ok a =>
    simp only [h1] at h
    cases h2 : analyzeFn .selfRef (v.apply a.opts) f.sig {} with
    | error e => simp [h2] at h
    | ok r =>
      obtain ⟨tf, tg⟩ := r
      simp only [h2] at h
      cases h3 : detectDepMode .singleFn [tf] with
      | error e => simp [h3] at h
      | ok depMode =>
        simp only [h3] at h
        cases h4 : genImplBlock (v.apply a.opts) [i a.traitIdent] .none tg .singleFn depMode f.attrs [tf] with
        | error e => simp [h4] at h
        | ok implBlock =>
          simp only [h4] at h
          refine ⟨a, tf, tg, depMode, implBlock, rfl, h2, h3, h4, ?_⟩
          injection h with h
          exact h.symm

theorem expandMod_ok {v : Variant} {attr : Toks} {m : ModItemIn} {out : Out}
    (h : expandMod v attr m = .ok out) :
    ∃ items a fns0 fns tg depMode implBlock,
      splitBody false m.oracle m.body.length m.body = .ok items ∧
      parseFnAttr attr = .ok a ∧
      analyzeFns .selfRef (v.apply a.opts) ((items.filterMap BodyItem.fn?).map (·.sig)) {} = .ok (fns0, tg) ∧
      fns = attachCfg (bodyFnAttrs items) fns0 ∧
      detectDepMode .module fns = .ok depMode ∧
      genImplBlock (v.apply a.opts) [i a.traitIdent] .none tg .module depMode m.attrs fns = .ok implBlock ∧
      out = .modOut m items
        [.trait (genTraitDef (v.apply a.opts) .plain depMode m.attrs a.traitVis a.traitIdent tg {} fns .module),
         .impl implBlock]
        [.raw (a.traitVis ++ [i "use", i m.ident] ++ pathSep ++ [i a.traitIdent, p ';'])] := by
  unfold expandMod at h
  cases h0 : splitBody false m.oracle m.body.length m.body with
  | error e => simp [h0] at h
  | ok items =>
    simp only [h0] at h
    cases h1 : parseFnAttr attr with
    | error e => simp [h1] at h
    | ok a =>
      simp only [h1] at h
      cases h2 : analyzeFns .selfRef (v.apply a.opts) ((items.filterMap BodyItem.fn?).map (·.sig)) {} with
      | error e => simp [h2] at h
      | ok r =>
        obtain ⟨fns0, tg⟩ := r
        simp only [h2] at h
        cases h3 : detectDepMode .module (attachCfg (bodyFnAttrs items) fns0) with
        | error e => simp [h3] at h
        | ok depMode =>
          simp only [h3] at h
          cases h4 : genImplBlock (v.apply a.opts) [i a.traitIdent] .none tg .module depMode m.attrs
              (attachCfg (bodyFnAttrs items) fns0) with
          | error e => simp [h4] at h
          | ok implBlock =>
            simp only [h4] at h
            refine ⟨items, a, fns0, _, tg, depMode, implBlock, rfl, rfl, h2, rfl, h3, h4, ?_⟩
            injection h with h
            exact h.symm

/-- the pieces of a trait-mode expansion -/
def traitTg (t : TraitItem) : TraitGenerics :=
  { params := t.generics.params, preds := t.generics.preds, wtrail := t.generics.wtrail }
def traitSup (t : TraitItem) : Supertraits := { colon := t.colon, bounds := t.supertraits, trailing := t.strail }
def traitImplSubAttrs (t : TraitItem) : List Attr := t.attrs.filter (fun a => a.subKind == .asyncTrait)
def traitContainsAsync (t : TraitItem) : Bool :=
  t.members.any (fun m => match m with | .fn f => f.sig.async_ | _ => false)

def traitImplBlock (attr : TraitAttr) (t : TraitItem) (fns : List TraitFn) : GenImpl :=
  { attrs := traitImplSubAttrs t
    params := implParams .generic false (traitTg t).params
    traitRef := [i t.ident] ++ genericArgs .none (traitTg t).params
    selfTy := implPathToks
    preds := .ty [] entraitTTy (traitImplTBounds attr (traitContainsAsync t) t.ident (traitTg t)) false :: (traitTg t).preds
    members := fns.map (delegationMethod attr (traitContainsAsync t)) }

theorem expandTrait_ok {v : Variant} {attr : Toks} {t : TraitItem} {out : Out}
    (h : expandTrait v attr t = .ok out) :
    ∃ a0 fns delegation,
      parseTraitAttr attr = .ok a0 ∧
      analyzeTraitMembers t.members = .ok fns ∧
      genDelegationTraitDefs { a0 with opts := v.apply a0.opts } t.vis (traitTg t) fns (traitImplSubAttrs t) = .ok delegation ∧
      out = .traitOut
        ([.trait (genTraitDef (v.apply a0.opts) .trait .generic t.attrs t.vis t.ident (traitTg t) (traitSup t) fns .rawTrait)]
          ++ delegation ++ [.impl (traitImplBlock { a0 with opts := v.apply a0.opts } t fns)]) := by
  unfold expandTrait at h
  cases h1 : parseTraitAttr attr with
  | error e => simp [h1] at h
  | ok a0 =>
    simp only [h1] at h
    split at h
    · simp at h
    · cases h2 : analyzeTraitMembers t.members with
      | error e => simp [h2] at h
      | ok fns =>
        simp only [h2] at h
        cases h3 : genDelegationTraitDefs { a0 with opts := v.apply a0.opts } t.vis (traitTg t) fns (traitImplSubAttrs t) with
        | error e =>
          simp only [traitTg, traitImplSubAttrs] at h3
          simp [h3] at h
        | ok delegation =>
          simp only [traitTg, traitImplSubAttrs] at h3
          simp only [h3] at h
          refine ⟨a0, fns, delegation, rfl, rfl, ?_, ?_⟩
          · simp only [traitTg, traitImplSubAttrs]; exact h3
          · injection h with h
            rw [← h]
            rfl

theorem expandImpl_ok {v : Variant} {attr : Toks} {m : ImplItemIn} {out : Out}
    (h : expandImpl v attr m = .ok out) :
    ∃ items a fns0 fns tg depMode implBlock,
      splitBody true m.oracle m.body.length m.body = .ok items ∧
      parseImplAttr attr = .ok a ∧
      analyzeFns (if a.dynRef then .dynamicImpl else .staticImpl) (v.apply a.opts)
        ((items.filterMap BodyItem.fn?).map (·.sig)) {} = .ok (fns0, tg) ∧
      fns = attachCfg (bodyFnAttrs items) fns0 ∧
      detectDepMode .implBlock fns = .ok depMode ∧
      genImplBlock (v.apply a.opts) m.traitPath (if a.dynRef then .dynamic m.selfTy else .static_ m.selfTy) tg
        .implBlock depMode m.attrs fns = .ok implBlock ∧
      out = .implOut
        (printAttrs (m.attrs.filter (fun a => a.subKind != .asyncTrait)) ++
          (if m.unsafe_ then [i "unsafe"] else []) ++ [i "impl"] ++ m.selfTy ++ [braces (items.flatMap BodyItem.print)])
        [.impl implBlock] := by
  unfold expandImpl at h
  cases h0 : splitBody true m.oracle m.body.length m.body with
  | error e => simp [h0] at h
  | ok items =>
    simp only [h0] at h
    cases h1 : parseImplAttr attr with
    | error e => simp [h1] at h
    | ok a =>
      simp only [h1] at h
      cases h2 : analyzeFns (if a.dynRef then .dynamicImpl else .staticImpl) (v.apply a.opts)
          ((items.filterMap BodyItem.fn?).map (·.sig)) {} with
      | error e => simp [h2] at h
      | ok r =>
        obtain ⟨fns0, tg⟩ := r
        simp only [h2] at h
        cases h3 : detectDepMode .implBlock (attachCfg (bodyFnAttrs items) fns0) with
        | error e => simp [h3] at h
        | ok depMode =>
          simp only [h3] at h
          cases h4 : genImplBlock (v.apply a.opts) m.traitPath (if a.dynRef then .dynamic m.selfTy else .static_ m.selfTy) tg
              .implBlock depMode m.attrs (attachCfg (bodyFnAttrs items) fns0) with
          | error e => simp [h4] at h
          | ok implBlock =>
            simp only [h4] at h
            refine ⟨items, a, fns0, _, tg, depMode, implBlock, rfl, rfl, h2, rfl, h3, h4, ?_⟩
            injection h with h
            exact h.symm

end Entrait
