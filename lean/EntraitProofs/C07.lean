import EntraitProofs.C06
import EntraitProofs.C04
import EntraitProofs.ImplMode
import EntraitProofs.C01
import EntraitProofs.C16
/-
  C07 — dependency inversion: `Impl<T>` reaches the selected implementation block.

  Trait side (`#[entrait(TraitImpl, delegate_by = Sel | ref | Borrow)] trait Trait`): the
  delegation-target trait is `TraitImpl<EntraitT, …>: 'static` with the trait's predicates and the
  trait's methods, their receiver replaced by (static) / followed by (dynamic)
  `__impl: &::entrait::Impl<EntraitT>`; for static selection the selector trait is
  `pub trait Sel<T> { type Target: TraitImpl<T>; }`; every `Impl<T>` method body is exactly
      <EntraitT::Target as TraitImpl<EntraitT>>::m(self, p₁, …, pₙ)                        (static)
      <EntraitT as ::core::convert::AsRef<dyn TraitImpl<EntraitT> [+ Sync]>>::as_ref(&*self).m(self, p₁, …, pₙ)   (dynamic)
  i.e. the *same* `&Impl<T>` is handed on as the block's dependency, the caller's arguments follow
  in order, and the target is named by `T` alone.
  Impl-block side (`#[entrait] impl TraitImpl for X`): `impl<EntraitT: Sync [+ Send] + 'static, …>
  Path<EntraitT, …> for X where ::entrait::Impl<EntraitT>: <declared dependency bounds>` whose
  method bodies are `Self::m(__impl, p₁, …, pₙ)[.await]` — `X`'s own function and no other.
-/
namespace Entrait.C07
open Entrait

theorem makeTraitFnSig_inputs (s : Sig) (subs : List Attr) (o : Opts) :
    (makeTraitFnSig s subs o).inputs = s.inputs ∧ (makeTraitFnSig s subs o).ident = s.ident := by
  unfold makeTraitFnSig; split <;> simp

theorem staticImplFn_members (o : Opts) (subs : List Attr) (fs : List TraitFnItem) :
    zipAll staticTargetMemberOk fs
      (((fs.map traitFnOf).map staticImplFn).map fun tf => GenMember.fn tf.attrs (makeTraitFnSig tf.sig subs o) none) = true := by
  induction fs with
  | nil => rfl
  | cons f rest ih =>
    simp only [List.map_cons, zipAll, Bool.and_eq_true]
    refine ⟨?_, ih⟩
    unfold staticTargetMemberOk
    simp only [(makeTraitFnSig_inputs _ subs o).1, (makeTraitFnSig_inputs _ subs o).2]
    unfold staticImplFn traitFnOf
    cases hi : f.sig.inputs with
    | nil => simp [hi]
    | cons x xs =>
      cases x with
      | typed a pt t => simp [hi, FnArg.isRecv]
      | recv a r m c => cases r <;> simp [hi, plainPat]

theorem dynamicImplFn_members (o : Opts) (subs : List Attr) (fs : List TraitFnItem) :
    zipAll dynTargetMemberOk fs
      (((fs.map traitFnOf).map dynamicImplFn).map fun tf => GenMember.fn tf.attrs (makeTraitFnSig tf.sig subs o) none) = true := by
  induction fs with
  | nil => rfl
  | cons f rest ih =>
    simp only [List.map_cons, zipAll, Bool.and_eq_true]
    refine ⟨?_, ih⟩
    unfold dynTargetMemberOk
    simp only [(makeTraitFnSig_inputs _ subs o).1, (makeTraitFnSig_inputs _ subs o).2]
    unfold dynamicImplFn traitFnOf
    cases hi : f.sig.inputs with
    | nil => simp [hi]
    | cons x xs =>
      cases x with
      | typed a pt t => simp [hi, FnArg.isRecv]
      | recv a r m c => cases xs <;> simp [hi]

theorem T_C07_trait (v : Variant) (attr : Toks) (t : TraitItem) (out : Out)
    (h : expand v attr (.trait t) = .ok out) : P_C07 attr (.trait t) out.view = true := by
  obtain ⟨a0, fns, delegation, h1, h2, h3, rfl⟩ := expandTrait_ok h
  have hf := analyzeTraitMembers_ok _ _ h2
  have himpl := mainImpl_last [] [] ([GenItem.trait (genTraitDef (v.apply a0.opts) .trait .generic t.attrs t.vis t.ident
      (traitTg t) (traitSup t) fns .rawTrait)] ++ delegation) (traitImplBlock { a0 with opts := v.apply a0.opts } t fns)
  have hfw := C06.forwardsAll_ok a0 (v.apply a0.opts) t fns hf
  have hhd := C06.implHeader_ok a0 (v.apply a0.opts) t fns
  have hca := C06.containsAsync_eq t
  simp only [P_C07, h1, Out.view, Out.inside, Out.after, himpl]
  simp only [View.items, List.nil_append, traitsOf_append, traitsOf, List.append_nil, List.cons_append]
  unfold P_C07_trait
  unfold genDelegationTraitDefs at h3
  cases hi : a0.implTrait with
  | none => simp
  | some it =>
    obtain ⟨ivis, implIdent⟩ := it
    simp only [hi] at h3 hfw hhd ⊢
    cases hd : a0.delegation with
    | none => simp [hd] at h3
    | some d =>
      cases d with
      | bySelf => simp [hd] at h3
      | byRef b =>
        simp only [hd] at h3 hfw hhd ⊢
        injection h3 with h3
        subst h3
        simp only [traitsOf, Bool.and_eq_true]
        refine ⟨⟨⟨⟨?_, ?_⟩, hhd⟩, hfw⟩, ?_⟩
        · simp [delegTraitHeaderOk, genTraitDef, traitTg, staticSup]
        · have := dynamicImplFn_members (noMockOpts (v.apply a0.opts)) (traitImplSubAttrs t) t.fns
          simpa [genTraitDef, hf, TraitItem.fns] using this
        · simp only [traitImplBlock, List.head?_cons, traitImplTBounds, hi, hd, dynWherePredOk, hca]
          cases traitContainsAsync t <;> cases b <;> simp [fixedExtras]
      | byTrait dn =>
        simp only [hd] at h3 hfw hhd ⊢
        injection h3 with h3
        subst h3
        simp only [traitsOf, Bool.and_eq_true]
        refine ⟨⟨⟨⟨⟨?_, ?_⟩, ?_⟩, hhd⟩, hfw⟩, ?_⟩
        · simp [delegTraitHeaderOk, genTraitDef, traitTg, staticSup]
        · have := staticImplFn_members (noMockOpts (v.apply a0.opts)) (traitImplSubAttrs t) t.fns
          simpa [genTraitDef, hf, TraitItem.fns] using this
        · simp [selectorTrait]
        · simp [traitImplBlock, traitImplTBounds, hi, hd]


/-! ### impl-block side -/

theorem unraw_impl : unraw "__impl" = "__impl" := by decide +kernel

theorem fixParams_impl (f : String) (hne : unraw f ≠ "__impl") (lt : Option String) (us : List FnArg) :
    ∃ rest, fixParams f (implReceiverWith lt :: us) = implReceiverWith lt :: rest := by
  have hb : (unraw "__impl" == unraw f) = false := by
    rw [unraw_impl]; exact beq_false_of_ne (fun h => hne h.symm)
  unfold fixParams
  simp only [List.map_cons, implReceiverWith, FnArg.liftPat, liftPat, plainPat, nameArgs, hb, Bool.false_eq_true,
    if_false]
  exact ⟨_, rfl⟩

theorem parseCall_self (f : String) (names : List String) (aw : Bool) :
    parseCall ([i "Self"] ++ pathSep ++ [i f, parens (joinSep [p ','] (names.map fun a => [i a]))] ++
        (if aw then [p '.', i "await"] else [])) =
      some { selfScope := true, callee := f, args := names, await := aw } := by
  have hp := C01.parseIdentArgs_join names
  cases aw <;> simp [parseCall, parseAwait, i, p, parens, pathSep] at hp ⊢ <;> simp [hp]

theorem selfCommaOf_ind (ind : ImplIndirection) (hind : ind.isNone = false) (tf : TraitFn) :
    selfCommaOf ind tf = [] := by
  unfold selfCommaOf
  cases ind with
  | none => simp [ImplIndirection.isNone] at hind
  | static_ t => cases tf.deps <;> cases tf.sig.inputs <;> rfl
  | dynamic t => cases tf.deps <;> cases tf.sig.inputs <;> rfl

theorem allPlain_implies_len : ∀ xs : List FnArg, allPlain xs = true → (paramIdents xs).length = (typedArgs xs).length := by
  intro xs
  induction xs with
  | nil => intro _; rfl
  | cons a rest ih => cases a with
    | recv => intro hx; simpa [paramIdents] using ih (by simpa [allPlain] using hx)
    | typed a pt t => cases pt with
      | ident rr mm nn ss =>
        intro hx
        cases rr <;> cases mm <;> cases ss <;> simp [allPlain] at hx
        simp [paramIdents, ih hx]
      | other => intro hx; simp [allPlain] at hx

/-- the generated method of one impl-block function calls `Self::f(__impl, p₁, …, pₙ)[.await]` -/
theorem methodCallsFn_impl_ok (dyn : Bool) (ind : ImplIndirection) (hind : ind.isNone = false) (src : FnItem)
    (tf : TraitFn) (hs : ImplModeSpec dyn src.sig tf) (hid : identOk src.sig.ident = true)
    (hne : unraw src.sig.ident ≠ "__impl") (as : List Attr := []) :
    methodCallsFn false true src (.fn as tf.sig (some (delegatingBody .implBlock ind tf))) = true := by
  have hnr := C01.identOk_notRaw _ hid
  obtain ⟨lt, hlt⟩ : ∃ lt, implRecvOf dyn src.sig = implReceiverWith lt := by
    unfold implRecvOf; split <;> exact ⟨_, rfl⟩
  let us := (typedArgs (src.sig.inputs.drop 1)).map FnArg.stripAttrs
  have htyL : ∀ u ∈ implReceiverWith lt :: us, u.isRecv = false := by
    intro u hu
    rcases List.mem_cons.mp hu with rfl | hu
    · rfl
    · obtain ⟨w, hw, rfl⟩ := List.mem_map.mp hu
      rw [stripAttrs_isRecv]
      simpa using (List.mem_filter.mp hw).2
  have htyped : typedArgs tf.sig.inputs = fixParams src.sig.ident (implReceiverWith lt :: us) := by
    rw [← hlt]; exact hs.typed
  obtain ⟨rest, hfp⟩ := fixParams_impl src.sig.ident hne lt us
  have hpi : paramIdents tf.sig.inputs = "__impl" :: paramIdents rest := by
    rw [← paramIdents_typedArgs, htyped, hfp]; rfl
  have hok := paramNamesOk_fixParams src.sig.ident hnr (implReceiverWith lt :: us) htyL tf.sig
  unfold paramNamesOk at hok
  simp only [Bool.and_eq_true, List.nil_append] at hok
  obtain ⟨⟨hplain, hnotfn⟩, hrest⟩ := hok
  have hc2 : allPlain tf.sig.inputs = true := by
    rw [← C16.allPlain_typedArgs, htyped]; exact hplain
  have hpi2 : paramIdents (fixParams src.sig.ident (implReceiverWith lt :: us)) = paramIdents tf.sig.inputs := by
    rw [← htyped, paramIdents_typedArgs]
  rw [hpi2] at hnotfn hrest
  have hprov : ((implReceiverWith lt :: us).filterMap FnArg.providedName).map unraw =
      "__impl" :: ((typedArgs (src.sig.inputs.drop 1)).filterMap FnArg.providedName).map unraw := by
    have h1 : us.filterMap FnArg.providedName = (typedArgs (src.sig.inputs.drop 1)).filterMap FnArg.providedName := by
      simp only [us]; rw [List.filterMap_map]; congr 1; funext a; exact providedName_strip a
    simp only [implReceiverWith, List.filterMap_cons, FnArg.providedName, Pat.providedName, h1, List.map_cons]
    congr 1
  rw [hprov] at hrest
  have hc4 : (nodup ((paramIdents tf.sig.inputs).map unraw) ||
      !nodup (["__impl"] ++ ((typedArgs (src.sig.inputs.drop 1)).filterMap FnArg.providedName).map unraw)) = true := by
    by_cases hnd : nodup ("__impl" :: ((typedArgs (src.sig.inputs.drop 1)).filterMap FnArg.providedName).map unraw) = true
    · simp only [hnd, if_true, Bool.and_eq_true] at hrest
      simp [hrest.1]
    · rw [Bool.not_eq_true] at hnd
      simp only [List.singleton_append, hnd, Bool.not_false, Bool.or_true]
  have hc5 : (typedArgs tf.sig.inputs).length = (typedArgs (src.sig.inputs.drop 1)).length + 1 := by
    have h3 := allPlain_implies_len _ hplain
    have hp := paramIdents_fixParams_length src.sig.ident (implReceiverWith lt :: us)
    rw [typedArgs_of_allTyped _ htyL] at hp
    have hty2 : ∀ u ∈ fixParams src.sig.ident (implReceiverWith lt :: us), u.isRecv = false :=
      fun u hu => sameShape_noRecv _ _ (sameShape_fixParams src.sig.ident _) htyL u hu
    rw [typedArgs_of_allTyped _ hty2] at h3
    rw [htyped, ← h3, hp]; simp [us]
  have hc3 : ∀ x ∈ paramIdents tf.sig.inputs, ¬ unraw x = unraw src.sig.ident := by
    simpa using hnotfn
  unfold methodCallsFn delegatingBody
  simp only [selfCommaOf_ind ind hind tf, List.nil_append, beq_self_eq_true, if_true]
  rw [parseCall_self]
  simp only [hs.ident, hs.origAsync, beq_self_eq_true, Bool.true_and, Bool.false_eq_true, if_false,
    Sig.userParams, hc2, hc5]
  rw [hpi] at hc3 hc4 ⊢
  have hc4' : nodup (("__impl" :: paramIdents rest).map unraw) = true ∨
      nodup (["__impl"] ++ ((typedArgs (src.sig.inputs.drop 1)).filterMap FnArg.providedName).map unraw) = false := by
    simpa using hc4
  simp only [List.map_cons, List.singleton_append, List.drop_one] at hc4'
  simpa using ⟨⟨fun h => hc3 "__impl" List.mem_cons_self h.symm, fun x hx => hc3 x (List.mem_cons_of_mem _ hx)⟩, hc4'⟩


theorem detectDepMode_impl : ∀ (fns : List TraitFn) (d : DepMode),
    detectDepMode .implBlock fns = .ok d → d = .generic ∧ ∀ tf ∈ fns, ∀ ty, tf.deps ≠ .concrete ty
  | [], d, h => by simp [detectDepMode] at h; exact ⟨h.symm, by simp⟩
  | tf :: fns, d, h => by
      unfold detectDepMode at h
      split at h
      · simp at h
      · rename_i hnc
        obtain ⟨hd, hall⟩ := detectDepMode_impl fns d h
        refine ⟨hd, ?_⟩
        intro x hx ty
        rcases List.mem_cons.mp hx with rfl | hx
        · exact fun hc => hnc ty hc
        · exact hall x hx ty

theorem noConcrete_of_zip : ∀ (sigs : List Sig) (fns : List TraitFn),
    zipAll C04.depsMatch sigs fns = true → (∀ tf ∈ fns, ∀ ty, tf.deps ≠ .concrete ty) →
      sigs.any Sig.depIsConcrete = false
  | [], [], _, _ => rfl
  | [], _ :: _, h, _ => by simp [zipAll] at h
  | _ :: _, [], h, _ => by simp [zipAll] at h
  | s :: sigs, tf :: fns, h, hn => by
      simp only [zipAll, Bool.and_eq_true] at h
      have ih := noConcrete_of_zip sigs fns h.2 (fun x hx => hn x (List.mem_cons_of_mem _ hx))
      have hm := h.1
      unfold C04.depsMatch at hm
      cases hd : tf.deps with
      | generic q bs =>
        rw [hd] at hm
        simp only [Bool.and_eq_true, decide_eq_true_eq, Bool.not_eq_true'] at hm
        simp [List.any_cons, hm.2, ih]
      | concrete cty => exact absurd hd (hn tf List.mem_cons_self cty)
      | noDeps => rw [hd] at hm; simp at hm

theorem takesSelfByValue_impl {dyn : Bool} {s : Sig} {tf : TraitFn} (hs : ImplModeSpec dyn s tf) :
    tf.sig.takesSelfByValue = (dyn && s.depByValue) := by
  rcases hs.head with ⟨rfl, hh⟩ | ⟨rfl, hh⟩
  · -- static: the first parameter is the typed `__impl`
    have hshape := sameShape_fixParams s.ident (implRecvOf false s :: (s.inputs.drop 1).map FnArg.stripAttrs)
    simp only [Bool.false_and]
    unfold Sig.takesSelfByValue
    match hX : fixParams s.ident (implRecvOf false s :: (s.inputs.drop 1).map FnArg.stripAttrs) with
    | [] => rw [hX] at hshape; simp [sameShape, implRecvOf, implReceiverWith] at hshape
    | .recv .. :: _ => rw [hX] at hshape; simp [sameShape, implRecvOf, implReceiverWith] at hshape
    | .typed a0 p0 t0 :: rest =>
      rw [hX] at hh
      cases hi : tf.sig.inputs with
      | nil => rfl
      | cons x xs => rw [hi] at hh; simp at hh; subst hh; rfl
  · simp only [Bool.true_and]
    unfold Sig.takesSelfByValue Sig.depByValue
    unfold expectedReceiver at hh
    simp only [Bool.false_eq_true, if_false] at hh
    cases hsi : s.inputs with
    | nil =>
      rw [hsi] at hh
      cases hi : tf.sig.inputs with
      | nil => rfl
      | cons x xs => rw [hi] at hh; simp at hh
    | cons x rest =>
      rw [hsi] at hh
      cases x with
      | recv =>
        cases hi : tf.sig.inputs with
        | nil => rfl
        | cons x xs => rw [hi] at hh; simp at hh
      | typed a pt ty =>
        cases hi : tf.sig.inputs with
        | nil => rw [hi] at hh; cases ty <;> simp at hh
        | cons y ys =>
          rw [hi] at hh
          cases ty <;> simp at hh <;> subst hh <;> rfl

/-- the header of the delegating impl of an impl-block input -/
theorem implBlockHeader_ok (o : Opts) (dyn : Bool) (hn : o.noDepsValue = false) (subAttrs : List Attr) (traitRef selfTy : Toks)
    (sigs : List Sig) (fns : List TraitFn) (tg : TraitGenerics) (depMode : DepMode) (im : GenImpl)
    (han : analyzeFns (if dyn then .dynamicImpl else .staticImpl) o sigs {} = .ok (fns, tg))
    (hdm : detectDepMode .implBlock fns = .ok depMode)
    (him : genImplBlock o traitRef (if dyn then .dynamic selfTy else .static_ selfTy) tg .implBlock depMode subAttrs fns = .ok im) :
    (im.selfTy == selfTy &&
     (traitRef ++ [p '<', i entraitT]).isPrefixOf im.traitRef &&
     implTParamOk (dyn && sigs.any Sig.depByValue) im.params &&
     wherePredsOk implPathTy (sigs.flatMap Sig.declaredDepBounds) (sigs.flatMap (·.generics.preds)) im.preds) = true := by
  have himk := genImplBlock_ok him
  obtain ⟨hdg, hnc⟩ := detectDepMode_impl fns depMode hdm
  subst hdg
  have hpreds := C04.analyzeFns_preds _ o sigs {} tg fns han
  have hpreds' : ∀ q ∈ tg.preds, q ∈ sigs.flatMap (·.generics.preds) := by
    intro q hq
    rcases hpreds q hq with h | h
    · simp at h
    · exact h
  have hz := analyzeFns_zip _ o C04.depsMatch sigs {} tg fns
    (fun s _ tg0 tf tg1 h => C04.depsMatch_of_analyzeFn hn h) han
  have hc := noConcrete_of_zip sigs fns hz hnc
  obtain ⟨hb, _⟩ := C04.depsBounds_of_zip sigs fns hz hc
  have hbv : (dyn && sigs.any Sig.depByValue) = fns.any (fun tf => tf.sig.takesSelfByValue) := by
    have := C04.any_of_zip (fun s => dyn && s.depByValue) (fun tf : TraitFn => tf.sig.takesSelfByValue) sigs fns
      (analyzeFns_zip _ o (fun s tf => (dyn && s.depByValue) == tf.sig.takesSelfByValue) sigs {} tg fns
        (fun s _ tg0 tf tg1 h => by simp [takesSelfByValue_impl (implModeSpec hn h)]) han)
    rw [← this]
    cases dyn <;> simp
  have hind : (if dyn then ImplIndirection.dynamic selfTy else .static_ selfTy).isNone = false := by
    cases dyn <;> rfl
  have hsty : implSelfTy .generic (if dyn then ImplIndirection.dynamic selfTy else .static_ selfTy) o.mockable = selfTy := by
    cases dyn <;> rfl
  rw [himk]
  simp only [implTParamOk, macroParam_generic, implTParam, hsty, entraitT,
    implWherePreds, hb, hbv, hind, genericArgs, Bool.and_eq_true, beq_self_eq_true, Bool.false_eq_true, if_false, true_and]
  refine ⟨⟨?_, C04.sameMultiset_refl _⟩, ?_⟩
  · have hj : ∀ (x : TT) (rest : List Toks), ∃ tl, joinSep [p ','] ([x] :: rest) = x :: tl := by
      intro x rest; cases rest <;> simp [joinSep]
    obtain ⟨tl, htl⟩ := hj (i "EntraitT") (tg.params.map GParam.argToks)
    simp [angle, List.isPrefixOf_iff_prefix, List.prefix_iff_eq_append, htl]
  · unfold wherePredsOk
    cases hde : (sigs.flatMap Sig.declaredDepBounds).isEmpty
    · simp only [Bool.false_eq_true, if_false, List.cons_append, List.nil_append, Bool.and_eq_true]
      refine ⟨⟨by simp, C04.sameMultiset_refl _⟩, ?_⟩
      simpa [List.all_eq_true] using hpreds'
    · simp only [if_true, List.nil_append]
      simpa [List.all_eq_true] using hpreds'


theorem T_C07_impl (v : Variant) (attr : Toks) (m : ImplItemIn) (out : Out)
    (hid : (Item.impl m).identsOk = true) (h : expand v attr (.impl m) = .ok out) :
    P_C07 attr (.impl m) out.view = true := by
  obtain ⟨items, a, fns0, fns, tg, depMode, implBlock, h0, h1, h2, hfns, h3, h4, rfl⟩ := expandImpl_ok h
  subst hfns
  have him := genImplBlock_ok h4
  obtain ⟨im0, h40, _, hep, het, hes, hepr⟩ := genImplBlock_attachCfg h4
  rw [detectDepMode_attachCfg] at h3
  have hnd : (v.apply a.opts).noDepsValue = false := impl_noDepsValue h1
  have hids : ∀ f ∈ items.filterMap BodyItem.fn?, identOk f.sig.ident = true ∧ unraw f.sig.ident ≠ "__impl" := by
    have hid' : (items.filterMap BodyItem.fn?).all (fun f => identOk f.sig.ident && unraw f.sig.ident != "__impl") = true := by
      simpa only [Item.identsOk, Item.sourceFns, h0] using hid
    intro f hf
    have := List.all_eq_true.mp hid' f hf
    simpa using this
  have hhdr := implBlockHeader_ok (v.apply a.opts) a.dynRef hnd m.attrs m.traitPath m.selfTy _ fns0 tg depMode im0 h2 h3 h40
  rw [← hep, ← het, ← hes, ← hepr] at hhdr
  have hind : (if a.dynRef then ImplIndirection.dynamic m.selfTy else .static_ m.selfTy).isNone = false := by
    cases a.dynRef <;> rfl
  have hbody := analyzeFns_zip_cfg (if a.dynRef then .dynamicImpl else .staticImpl) (v.apply a.opts)
    (fun s tf => methodCallsFn false true { sig := s }
      (.fn tf.attrs tf.sig (some (delegatingBody .implBlock (if a.dynRef then .dynamic m.selfTy else .static_ m.selfTy) tf))))
    (fun _ _ _ => rfl)
    ((items.filterMap BodyItem.fn?).map (·.sig)) {} tg fns0 (bodyFnAttrs items)
    (by
      intro s hs tg0 tf tg1 han
      obtain ⟨f, hf, rfl⟩ := List.mem_map.mp hs
      exact methodCallsFn_impl_ok a.dynRef _ hind { sig := f.sig } tf (implModeSpec hnd han) (hids f hf).1 (hids f hf).2 tf.attrs)
    h2
  rw [zipAll_map_left] at hbody
  simp only [P_C07, h1, Out.view, View.items, Out.inside, Out.after, mainImpl?, implsOf, List.nil_append,
    List.getLast?_singleton, Item.sourceFns, h0, P_C07_impl, Bool.and_eq_true]
  simp only [Bool.and_eq_true, List.map_map] at hhdr
  obtain ⟨⟨⟨hA, hB⟩, hC⟩, hD⟩ := hhdr
  refine ⟨⟨⟨⟨?_, hA⟩, hB⟩, ?_⟩, ?_⟩
  · rw [him]
    simp only [zipAll_map_right]
    have hcongr : ∀ (src : FnItem) (g : GenMember),
        methodCallsFn false true { sig := src.sig } g = methodCallsFn false true src g := by
      intro src g; rfl
    simpa [hcongr] using hbody
  · simpa [List.any_map, Function.comp_def] using hC
  · simpa [List.flatMap_map] using hD

/-- C07 for every input mode -/
theorem T_C07 (v : Variant) (attr : Toks) (item : Item) (out : Out)
    (hid : item.identsOk = true) (h : expand v attr item = .ok out) :
    P_C07 attr item out.view = true := by
  cases item with
  | fn f => rfl
  | mod_ m => rfl
  | trait t => exact T_C07_trait v attr t out h
  | impl m => exact T_C07_impl v attr m out hid h

/-- non-vacuity: the example impl block expands, and its method calls `Self::f(__impl, ..)` -/
example :
    (match expand .plain [] (.impl Examples.implX) with
     | .ok out => (implsOf out.view.items).map (fun im => im.members.map fun g =>
          match g with | .fn _ _ (some b) => (parseCall b).map (fun c => (c.selfScope, c.args.head?)) | _ => none)
     | _ => []) = [[some (true, some "__impl")]] := by decide +kernel

end Entrait.C07
