import EntraitProofs.C01
import EntraitProofs.Examples
/-
  C06 — entraited traits: `Impl<T>` forwards every method to `T` (Self / ref / Borrow).

  `T_C06`: for an entraited trait without delegation-target trait the generated impl is
      impl<EntraitT: Sync + 'static, <trait generics>> Trait<args> for ::entrait::Impl<EntraitT>
        where EntraitT: <provider> + <only Sync / 'static>, <the trait's own predicates>
  with provider `Trait<args>` (default / `delegate_by = Self`), `::core::convert::AsRef<dyn Trait<args>>`
  (`ref`) or `::core::borrow::Borrow<dyn Trait<args>>` (`Borrow`); and every method of the trait has
  a delegating method with the same signature up to parameter names whose body is exactly
      self.as_ref()[.as_ref() | .borrow()].m(p₁, …, pₙ)[.await]
  with the method's own parameter identifiers in order and `.await` iff the method is async.
  (`Send` on `T` for async traits delegated by reference is the listed finding C06.send.)
-/
namespace Entrait.C06
open Entrait

/-- the model's forwarding expression is the documented one for the selected shape -/
theorem delegationCall_spec (a : TraitAttr) (ca : Bool) (f : String) (args : List String) (aw : Bool) :
    delegationCall a ca f args ++ (if aw then [p '.', i "await"] else []) =
      specDelegBody (expectedShape a ca) f args aw := by
  unfold delegationCall expectedShape specDelegBody
  cases hi : a.implTrait with
  | none =>
    cases hd : a.delegation with
    | none => simp [argList, identArgs]
    | some d =>
      cases d with
      | bySelf => simp [argList, identArgs]
      | byRef b => cases b <;> simp [argList, identArgs]
      | byTrait dn => simp [argList, identArgs]
  | some it =>
    obtain ⟨iv, implIdent⟩ := it
    cases hd : a.delegation with
    | none => simp [argList, identArgs]
    | some d =>
      cases d with
      | bySelf => simp [argList, identArgs]
      | byRef b => simp [argList, identArgs, dynTarget, entraitT, List.append_assoc]
      | byTrait dn => simp [argList, identArgs, entraitT, List.append_assoc]

theorem containsAsync_eq (t : TraitItem) : t.containsAsync = traitContainsAsync t := by
  unfold TraitItem.containsAsync TraitItem.fns traitContainsAsync
  induction t.members with
  | nil => rfl
  | cons m rest ih =>
    cases m with
    | fn f => simp only [List.filterMap_cons, TraitMember.fn?, List.any_cons, ih]
    | type_ => simp only [List.filterMap_cons, TraitMember.fn?, List.any_cons, ih, Bool.false_or]
    | other => simp only [List.filterMap_cons, TraitMember.fn?, List.any_cons, ih, Bool.false_or]

/-- same signature up to the names of typed parameters -/
theorem sigSame_of_sameShape (sig : Sig) (ins : List FnArg) (h : sameShape sig.inputs ins) :
    sigSameModuloNames sig { sig with inputs := ins } = true := by
  unfold sigSameModuloNames
  simp only [beq_self_eq_true, Bool.true_and]
  generalize sig.inputs = xs at h
  induction xs generalizing ins with
  | nil => cases ins <;> simp_all [sameShape, zipAll]
  | cons x rest ih =>
    cases ins with
    | nil => cases x <;> simp [sameShape] at h
    | cons y ys =>
      cases x <;> cases y <;> simp [sameShape] at h
      · obtain ⟨rfl, rfl, rfl, rfl, h⟩ := h
        simp [zipAll, ih ys h]
      · obtain ⟨rfl, rfl, h⟩ := h
        simp [zipAll, ih ys h]

theorem delegationMethod_eq (a : TraitAttr) (ca : Bool) (tf : TraitFn) :
    delegationMethod a ca tf =
      .fn tf.attrs { tf.sig with inputs := fixParams tf.sig.ident tf.sig.inputs }
        (some (specDelegBody (expectedShape a ca) tf.sig.ident
          (paramIdents (fixParams tf.sig.ident tf.sig.inputs)) tf.originallyAsync)) := by
  unfold delegationMethod
  simp only
  rw [delegationCall_spec]

/-- every method is forwarded with the expected shape (used by C06 and C07) -/
theorem forwardsAll_ok (a0 : TraitAttr) (o : Opts) (t : TraitItem) (fns : List TraitFn)
    (hf : fns = t.fns.map traitFnOf) :
    forwardsAll a0 t (traitImplBlock { a0 with opts := o } t fns) = true := by
  unfold forwardsAll
  simp only [traitImplBlock, hf, zipAll_map_right]
  have hca := containsAsync_eq t
  generalize t.fns = fs
  induction fs with
  | nil => rfl
  | cons f rest ih =>
    simp only [zipAll, Bool.and_eq_true]
    refine ⟨?_, ih⟩
    rw [delegationMethod_eq]
    simp only [Bool.and_eq_true]
    constructor
    · exact sigSame_of_sameShape f.sig _ (sameShape_fixParams f.sig.ident f.sig.inputs)
    · rw [hca]
      show (specDelegBody _ f.sig.ident _ f.sig.async_ == specDelegBody _ f.sig.ident _ f.sig.async_) = true
      simp [expectedShape]

theorem implHeader_ok (a0 : TraitAttr) (o : Opts) (t : TraitItem) (fns : List TraitFn) :
    implHeaderOk t (traitImplBlock { a0 with opts := o } t fns) = true := by
  simp [implHeaderOk, traitImplBlock, traitTg, traitWithArgs, genericArgs, ImplIndirection.isNone, implParams]

theorem T_C06 (v : Variant) (attr : Toks) (item : Item) (out : Out)
    (h : expand v attr item = .ok out) : P_C06 attr item out.view = true := by
  cases item with
  | fn f => simp [P_C06]
  | mod_ m => simp [P_C06]
  | impl m => simp [P_C06]
  | trait t =>
    obtain ⟨a0, fns, delegation, h1, h2, h3, rfl⟩ := expandTrait_ok h
    have hf := analyzeTraitMembers_ok _ _ h2
    have himpl := mainImpl_last [] [] ([GenItem.trait (genTraitDef (v.apply a0.opts) .trait .generic t.attrs t.vis t.ident
        (traitTg t) (traitSup t) fns .rawTrait)] ++ delegation) (traitImplBlock { a0 with opts := v.apply a0.opts } t fns)
    simp only [P_C06, h1, Out.view, Out.inside, Out.after, himpl]
    have hfw := forwardsAll_ok a0 (v.apply a0.opts) t fns hf
    have hhd := implHeader_ok a0 (v.apply a0.opts) t fns
    cases hi : a0.implTrait with
    | some it => simp
    | none =>
      simp only [Option.isSome_none, Bool.false_eq_true, if_false, Bool.and_eq_true]
      rw [hi] at hfw hhd
      refine ⟨⟨hhd, hfw⟩, ?_⟩
      simp only [traitImplBlock, List.head?_cons, traitImplTBounds, hi, traitTg, traitWithArgs, genericArgs,
        ImplIndirection.isNone, if_true, List.nil_append]
      have hca := containsAsync_eq t
      cases hd : a0.delegation with
      | none => cases hta : traitContainsAsync t <;> simp [fixedExtras, hca, hta]
      | some d =>
        cases d with
        | bySelf => cases hta : traitContainsAsync t <;> simp [fixedExtras, hca, hta]
        | byTrait dn => cases hta : traitContainsAsync t <;> simp [fixedExtras, hca, hta]
        | byRef b => cases hta : traitContainsAsync t <;> cases b <;> simp [fixedExtras, hca, hta]

/-- non-vacuity: the example generic async trait, as a leaf trait under the unimock variant -/
example :
    (match expand .unimock [] (.trait Examples.traitTr) with
     | .ok out => P_C06 [] (.trait Examples.traitTr) out.view
     | _ => false) = true := by decide +kernel

end Entrait.C06
