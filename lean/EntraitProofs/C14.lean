import EntraitProofs.C07
/-
  C14 — static delegation is zero-cost: no boxing, no dynamic dispatch, no allocation.

  `T_C14`: unless dynamic dispatch was requested (`delegate_by = ref | Borrow`, `#[entrait(ref)]`
  on an impl block, or `async_trait` on the item), every generated impl block
  * has method bodies that are exactly one direct call, optionally `.await`ed —
    `f(self, a, ..)`, `Self::f(__impl, a, ..)`, `self.as_ref().m(a, ..)` or
    `<EntraitT::Target as I<EntraitT>>::m(self, a, ..)` — so the macro adds no `Box`, no `dyn`
    coercion, no allocation around the user's function;
  * is parameterised by `EntraitT` carrying only `::core::marker::Sync`, `::core::marker::Send`
    and `'static` (no trait object bound), and
  * is implemented for `EntraitT`, `::entrait::Impl<EntraitT>` or the user's own type.
  Together with T_C12 (an async method is declared `-> impl Future`, not boxed) this is the
  token-level content of the property; allocation *counts* of compiled code are rustc's and are
  not modelled (partial).
-/
namespace Entrait.C14
open Entrait

theorem macroHead_implParams (bv : Bool) (ps : List GParam) : macroHeadOk (implParams .generic bv ps) = true := by
  unfold macroHeadOk
  rw [macroParam_generic]
  cases bv <;> simp [implTParam, macroBoundOk, entraitT]

theorem detectDepMode_concrete_inv (mode : InputMode) : ∀ (fns : List TraitFn) (ty : Ty),
    detectDepMode mode fns = .ok (.concrete ty) → mode = .singleFn ∧ ∃ tf ∈ fns, tf.deps = .concrete ty
  | [], ty, h => by simp [detectDepMode] at h
  | tf :: fns, ty, h => by
      unfold detectDepMode at h
      split at h
      · rename_i cty hd
        cases mode <;> simp at h
        subst h
        exact ⟨rfl, tf, List.mem_cons_self, hd⟩
      · obtain ⟨hm, x, hx, hxd⟩ := detectDepMode_concrete_inv mode fns ty h
        exact ⟨hm, x, List.mem_cons_of_mem _ hx, hxd⟩

theorem bodies_fn (attr : Toks) (item : Item) (hi : ∀ t, item ≠ .trait t) (mode : InputMode) (hm : mode ≠ .implBlock)
    (fns : List TraitFn) :
    (fns.map fun tf => GenMember.fn tf.attrs tf.sig (some (delegatingBody mode .none tf))).all (staticBodyOk attr item) = true := by
  simp only [List.all_map, List.all_eq_true]
  intro tf _
  simp only [Function.comp, staticBodyOk]
  cases item with
  | trait t => exact absurd rfl (hi t)
  | fn f => simp [C01.parseCall_delegatingBody mode hm tf]
  | mod_ m => simp [C01.parseCall_delegatingBody mode hm tf]
  | impl m => simp [C01.parseCall_delegatingBody mode hm tf]

theorem bodies_impl (attr : Toks) (m : ImplItemIn) (ind : ImplIndirection) (hind : ind.isNone = false) (fns : List TraitFn) :
    (fns.map fun tf => GenMember.fn tf.attrs tf.sig (some (delegatingBody .implBlock ind tf))).all (staticBodyOk attr (.impl m)) = true := by
  simp only [List.all_map, List.all_eq_true]
  intro tf _
  simp only [Function.comp, staticBodyOk, delegatingBody, C07.selfCommaOf_ind ind hind tf, List.nil_append,
    beq_self_eq_true, if_true]
  rw [C07.parseCall_self]
  rfl

theorem T_C14 (v : Variant) (attr : Toks) (item : Item) (out : Out)
    (h : expand v attr item = .ok out) : P_C14 attr item out.view = true := by
  unfold P_C14
  split
  · rfl
  · rename_i hdyn
    cases item with
    | fn f =>
      obtain ⟨a, tf, tg, depMode, implBlock, h1, h2, h3, h4, rfl⟩ := expandFn_ok h
      have him := genImplBlock_ok h4
      simp only [Out.view, View.items, Out.inside, Out.after, List.nil_append, List.append_nil, implsOf, List.all_cons,
        List.all_nil, Bool.and_true]
      unfold implStaticOk
      rw [him]
      simp only [bodies_fn attr (.fn f) (by intro t; simp) .singleFn (by decide) [tf], Bool.true_and, concreteFn]
      cases hc : f.sig.depIsConcrete
      · -- not concrete: generic mode
        have hg : depMode = .generic := by
          cases depMode with
          | generic => rfl
          | concrete ty =>
            exfalso
            obtain ⟨_, x, hx, hxd⟩ := detectDepMode_concrete_inv .singleFn [tf] ty h3
            simp only [List.mem_singleton] at hx
            subst hx
            obtain ⟨deps, ins, tr, hd, _, rfl⟩ := analyzeFn_ok h2
            simp only at hxd
            cases hn : (v.apply a.opts).noDepsValue
            · have := ((analyzeFnDeps_spec hd hn).2.1 ty hxd).1
              rw [hc] at this; simp at this
            · have := analyzeFnDeps_noDeps hd hn
              rw [this] at hxd; simp at hxd
        subst hg
        simp only [Bool.false_or, macroHead_implParams, Bool.true_and, implSelfTy]
        cases (v.apply a.opts).mockable <;> simp
      · simp
    | mod_ m =>
      simp only [expand] at h
      split at h
      · simp at h
      · obtain ⟨items, a, fns0, fns, tg, depMode, implBlock, h0, h1, h2, hfns, h3, h4, rfl⟩ := expandMod_ok h
        have him := genImplBlock_ok h4
        have hg : depMode = .generic := by
          cases depMode with
          | generic => rfl
          | concrete ty => have := (detectDepMode_concrete_inv .module fns ty h3).1; simp at this
        subst hg
        simp only [Out.view, View.items, Out.inside, Out.after, List.cons_append, List.nil_append, implsOf, List.all_cons,
          List.all_nil, Bool.and_true]
        unfold implStaticOk
        rw [him]
        simp only [bodies_fn attr (.mod_ m) (by intro t; simp) .module (by decide) fns, Bool.true_and, concreteFn,
          Bool.false_or, macroHead_implParams, implSelfTy]
        cases (v.apply a.opts).mockable <;> simp
    | impl m =>
      obtain ⟨items, a, fns0, fns, tg, depMode, implBlock, h0, h1, h2, hfns, h3, h4, rfl⟩ := expandImpl_ok h
      have him := genImplBlock_ok h4
      obtain ⟨hg, _⟩ := C07.detectDepMode_impl fns depMode h3
      subst hg
      have hind : (if a.dynRef then ImplIndirection.dynamic m.selfTy else .static_ m.selfTy).isNone = false := by
        cases a.dynRef <;> rfl
      simp only [Out.view, View.items, Out.inside, Out.after, List.nil_append, List.append_nil, implsOf, List.all_cons,
        List.all_nil, Bool.and_true]
      unfold implStaticOk
      rw [him]
      simp only [bodies_impl attr m _ hind fns, Bool.true_and, concreteFn, Bool.false_or, macroHead_implParams]
      cases a.dynRef <;> simp [implSelfTy]
    | trait t =>
      obtain ⟨a0, fns, delegation, h1, h2, h3, rfl⟩ := expandTrait_ok h
      have hdel : implsOf delegation = [] := by
        unfold genDelegationTraitDefs at h3
        cases hi : a0.implTrait with
        | none => simp only [hi] at h3; injection h3 with h3; subst h3; rfl
        | some it =>
          obtain ⟨ivis, iid⟩ := it
          simp only [hi] at h3
          cases hd : a0.delegation with
          | none => simp [hd] at h3
          | some d =>
            cases d with
            | bySelf => simp [hd] at h3
            | byRef b => simp only [hd] at h3; injection h3 with h3; subst h3; rfl
            | byTrait dn => simp only [hd] at h3; injection h3 with h3; subst h3; rfl
      simp only [Out.view, View.items, Out.inside, Out.after, List.append_nil, List.cons_append, List.nil_append,
        implsOf, implsOf_append, hdel, List.all_cons, List.all_nil, Bool.and_true]
      unfold implStaticOk
      have hstat : (expectedShape a0 t.containsAsync).isStatic = true := by
        simp only [dynamicRequested, h1, Bool.or_eq_true, not_or] at hdyn
        unfold expectedShape
        cases hi : a0.implTrait with
        | none =>
          cases hd : a0.delegation with
          | none => rfl
          | some d => cases d with
            | bySelf => rfl
            | byTrait dn => rfl
            | byRef b => simp [hd] at hdyn
        | some it =>
          cases hd : a0.delegation with
          | none => rfl
          | some d => cases d with
            | bySelf => rfl
            | byTrait dn => rfl
            | byRef b => simp [hd] at hdyn
      have hbodies : (traitImplBlock { a0 with opts := v.apply a0.opts } t fns).members.all (staticBodyOk attr (.trait t)) = true := by
        simp only [traitImplBlock, List.all_map, List.all_eq_true]
        intro tf _
        simp only [Function.comp, C06.delegationMethod_eq, staticBodyOk, h1, hstat, Bool.true_and, ← C06.containsAsync_eq]
        have he : expectedShape { a0 with opts := v.apply a0.opts } t.containsAsync = expectedShape a0 t.containsAsync := rfl
        rw [he]
        cases tf.originallyAsync <;> simp
      rw [hbodies]
      simp [traitImplBlock, macroHead_implParams]


/-- non-vacuity: the example module is statically dispatched and its impl passes the per-impl check -/
example :
    (match expand .plain [i "pub", i "Tr"] (.mod_ Examples.modM) with
     | .ok out => (dynamicRequested [i "pub", i "Tr"] (.mod_ Examples.modM),
                   (implsOf out.view.items).map (implStaticOk [i "pub", i "Tr"] (.mod_ Examples.modM)))
     | _ => (true, [])) = (false, [true]) := by decide +kernel

end Entrait.C14
