import EntraitProofs.C14
import EntraitProofs.C12
/-
  C14 with the clause on signatures: the only type the macro itself writes into a generated signature is the
  future type of a desugared `async fn`; unless dynamic dispatch was requested it is `impl Future<..>` (C12),
  so no boxed `dyn Future` can appear there.
-/
namespace Entrait.C14Full
open Entrait

theorem T_C14_full (v : Variant) (attr : Toks) (item : Item) (out : Out)
    (h : expand v attr item = .ok out) : P_C14_full v attr item out.view = true := by
  unfold P_C14_full
  rw [C14.T_C14 v attr item out h, C12.T_C12 v attr item out h]
  simp

end Entrait.C14Full
