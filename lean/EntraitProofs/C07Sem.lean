import EntraitProofs.C07
/-
  C07 read semantically: *`Impl<T>` reaches the selected implementation block*.

  `T_C07` pins the tokens of the three places static dependency inversion is spread over:
    (1) the where clause of `impl Trait for Impl<EntraitT>`:  `EntraitT: D<EntraitT> + Sync + 'static`,
    (2) the selector trait:  `pub trait D<T> { type Target: I<T>; }`,
    (3) every method body:   `<EntraitT::Target as I<EntraitT>>::m(self, p…)`.
  This file adds the step from those tokens to what the call reaches, over an abstract *world* of user impls
  that does not need rustc:
    * `selects d app`    — the `Target` the application `app` names in its `impl D<App> for App`;
    * `block it ty`      — the implementation block `impl I<T> for ty` (written with `#[entrait] impl I for ty`).
  A world is *coherent for* a selector trait when every selected `Target` has a block of the trait the
  selector trait bounds `Target` by (rustc enforces exactly this when it checks the user's `impl D<App>`).

  `T_C07_sem`: for `expand`'s output on a trait with `delegate_by = D` and delegation-target trait `I`, in
  every world coherent for the generated selector trait, for every application that meets the where clause
  (has a selection for `D`): every method of the `Impl<T>` impl dispatches to a block — the block
  `block I (selects D app)`, i.e. *the one the application selected* — under the method's own name, passing
  `self` (the same `&Impl<T>`) and the method's parameters in order.  Two applications that select
  different blocks reach different blocks through the same generated impl (`reaches_differ`).

  `T_C07_view`: the same for any view on which `P_C07` holds, i.e. for the real macro's output on every
  case where the driver evaluated `P_C07` to 1.
-/
namespace Entrait.C07Sem
open Entrait

/-- the user's impls, abstractly -/
structure World where
  selects : String → Nat → Option Nat       -- selector trait name, application ↦ its `Target`
  block   : String → Nat → Option Nat       -- delegation-target trait name, type ↦ the impl block

/-- the bound the selector trait puts on `Target`: `type Target: I<T>;` -/
def targetBound (sel : GenTrait) : Option String :=
  match sel.members with
  | [.raw [.ident "type", .ident "Target", .punct ':', .ident it, .punct '<', .ident "T", .punct '>', .punct ';']] => some it
  | _ => none

/-- rustc accepted every `impl D<App> for App { type Target = X; }`: `X` implements the bound of `Target` -/
def Coherent (w : World) (sel : GenTrait) : Prop :=
  ∀ it, targetBound sel = some it → ∀ app ty, w.selects sel.ident app = some ty → (w.block it ty).isSome

/-- the selector trait the where clause of the impl requires of `EntraitT` -/
def requiredSelector (im : GenImpl) : Option String :=
  match im.preds.head? with
  | some (.ty [] _ ((.ident d :: _) :: _) _) => some d
  | _ => none

/-- what a statically dispatched body `<EntraitT::Target as I<EntraitT>>::m(..)` reaches for application `app`
    whose selector is `d` -/
def reaches (w : World) (d : String) (app : Nat) : DelegShape → Option Nat
  | .staticTarget it => (w.selects d app).bind (w.block it)
  | _ => none

/-- all pairs of a `zipAll` -/
theorem zipAll_forall {α β : Type} (f : α → β → Bool) : ∀ (as : List α) (bs : List β), zipAll f as bs = true →
    ∀ ab ∈ as.zip bs, f ab.1 ab.2 = true
  | [], [], _ => by simp
  | [], _ :: _, h => by simp [zipAll] at h
  | _ :: _, [], h => by simp [zipAll] at h
  | a :: as, b :: bs, h => by
      simp only [zipAll, Bool.and_eq_true] at h
      intro ab hab
      simp only [List.zip_cons_cons, List.mem_cons] at hab
      rcases hab with rfl | hab
      · exact h.1
      · exact zipAll_forall f as bs h.2 ab hab

theorem targetBound_selectorTrait (d it : String) : targetBound (selectorTrait d it) = some it := rfl

/-- **C07, semantically, for any view on which `P_C07` holds** -/
theorem T_C07_view (attr : Toks) (t : TraitItem) (view : View) (h : P_C07 attr (.trait t) view = true)
    (a : TraitAttr) (ha : parseTraitAttr attr = .ok a) (ip : Toks) (it d : String)
    (hit : a.implTrait = some (ip, it)) (hd : a.delegation = some (.byTrait d)) :
    ∃ main dt sel im, traitsOf view.items = [main, dt, sel] ∧ mainImpl? view = some im ∧
      -- the three sites agree on the names
      sel.ident = d ∧ targetBound sel = some it ∧ dt.ident = it ∧ requiredSelector im = some d ∧
      -- every method forwards to the selected block
      (∀ (w : World), Coherent w sel → ∀ app ty, w.selects d app = some ty →
        ∀ sm ∈ t.fns.zip im.members,
          ∃ attrs g body, sm.2 = .fn attrs g (some body) ∧ g.ident = sm.1.sig.ident ∧
            body = specDelegBody (.staticTarget it) sm.1.sig.ident (paramIdents g.inputs) sm.1.sig.async_ ∧
            reaches w d app (.staticTarget it) = w.block it ty ∧ (w.block it ty).isSome) := by
  unfold P_C07 at h
  rw [ha] at h
  cases htr : traitsOf view.items with
  | nil => simp [htr] at h
  | cons main rest =>
    cases him : mainImpl? view with
    | none => simp [htr, him] at h
    | some im =>
      simp only [htr, him, P_C07_trait, hit, hd] at h
      cases rest with
      | nil => simp at h
      | cons dt rest1 =>
        cases rest1 with
        | nil => simp at h
        | cons sel rest2 =>
          cases rest2 with
          | cons x xs => simp at h
          | nil =>
            simp only [Bool.and_eq_true, beq_iff_eq] at h
            obtain ⟨⟨⟨⟨⟨hdt, _⟩, hsel⟩, _⟩, hfw⟩, hpred⟩ := h
            refine ⟨main, dt, sel, im, rfl, rfl, ?_, ?_, ?_, ?_, ?_⟩
            · rw [hsel]; rfl
            · rw [hsel]; rfl
            · unfold delegTraitHeaderOk at hdt
              simp only [Bool.and_eq_true, beq_iff_eq] at hdt
              exact hdt.1.1.1.1
            · simp [requiredSelector, hpred, i]
            · intro w hco app ty hsel' sm hsm
              have hall := zipAll_forall _ _ _ hfw sm hsm
              have hb : (w.block it ty).isSome := hco it (by rw [hsel]; rfl) app ty (by rw [hsel]; exact hsel')
              cases hm : sm.2 with
              | raw ts => simp [hm] at hall
              | fn attrs g body =>
                cases body with
                | none => simp [hm] at hall
                | some b =>
                  simp only [hm, Bool.and_eq_true, beq_iff_eq] at hall
                  obtain ⟨hs, hbody⟩ := hall
                  have hidn : g.ident = sm.1.sig.ident := by
                    unfold sigSameModuloNames at hs
                    simp only [Bool.and_eq_true, beq_iff_eq] at hs
                    exact hs.1.1.1.1.1.1.1.1.symm
                  refine ⟨attrs, g, b, rfl, hidn, ?_, ?_, hb⟩
                  · rw [hbody]; simp [expectedShape, hit, hd]
                  · simp [reaches, hsel']

/-- **C07, semantically, for the model's expansion** -/
theorem T_C07_sem (v : Variant) (attr : Toks) (t : TraitItem) (out : Out) (h : expand v attr (.trait t) = .ok out)
    (a : TraitAttr) (ha : parseTraitAttr attr = .ok a) (ip : Toks) (it d : String)
    (hit : a.implTrait = some (ip, it)) (hd : a.delegation = some (.byTrait d)) :
    ∃ main dt sel im, traitsOf out.view.items = [main, dt, sel] ∧ mainImpl? out.view = some im ∧
      sel.ident = d ∧ targetBound sel = some it ∧ dt.ident = it ∧ requiredSelector im = some d ∧
      (∀ (w : World), Coherent w sel → ∀ app ty, w.selects d app = some ty →
        ∀ sm ∈ t.fns.zip im.members,
          ∃ attrs g body, sm.2 = .fn attrs g (some body) ∧ g.ident = sm.1.sig.ident ∧
            body = specDelegBody (.staticTarget it) sm.1.sig.ident (paramIdents g.inputs) sm.1.sig.async_ ∧
            reaches w d app (.staticTarget it) = w.block it ty ∧ (w.block it ty).isSome) :=
  T_C07_view attr t out.view (C07.T_C07_trait v attr t out h) a ha ip it d hit hd

/-- two applications with different selections reach different blocks through the same impl -/
theorem reaches_differ (w : World) (d it : String) (app1 app2 ty1 ty2 b1 b2 : Nat)
    (h1 : w.selects d app1 = some ty1) (h2 : w.selects d app2 = some ty2)
    (hb1 : w.block it ty1 = some b1) (hb2 : w.block it ty2 = some b2) (hne : b1 ≠ b2) :
    reaches w d app1 (.staticTarget it) ≠ reaches w d app2 (.staticTarget it) := by
  simp [reaches, h1, h2, hb1, hb2, hne]

/-- non-vacuity: a coherent world with two applications selecting two blocks -/
example :
    let w : World := { selects := fun d app => if d == "DelegateFoo" then (if app == 0 then some 10 else some 11) else none,
                       block := fun it ty => if it == "FooImpl" then some (ty + 100) else none }
    Coherent w (selectorTrait "DelegateFoo" "FooImpl") ∧
    reaches w "DelegateFoo" 0 (.staticTarget "FooImpl") = some 110 ∧
    reaches w "DelegateFoo" 1 (.staticTarget "FooImpl") = some 111 := by
  refine ⟨?_, by decide +kernel, by decide +kernel⟩
  intro it hit app ty _
  have : it = "FooImpl" := by
    have := targetBound_selectorTrait "DelegateFoo" "FooImpl"
    rw [this] at hit; exact (Option.some.inj hit).symm
  subst this
  simp

end Entrait.C07Sem
