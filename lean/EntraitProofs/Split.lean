import EntraitModel.Props
/-
  Lemmas about the module / impl body splitter (`splitBody`): the items it produces, printed
  one after the other, are the body it was given — provided the signature oracle is *stable*
  (the parsed signature prints to the very tokens it consumed; checked per case by the driver).
-/
namespace Entrait

/-- the oracle entries are stable for every suffix of `body` they talk about -/
def OracleOk (o : SigOracle) (body : Toks) : Prop :=
  ∀ e ∈ o, e.consumed ≤ e.remaining ∧ e.remaining ≤ body.length ∧
    e.sig.print = (body.drop (body.length - e.remaining)).take e.consumed

theorem oracleStable_iff (o : SigOracle) (body : Toks) : oracleStable o body = true ↔ OracleOk o body := by
  unfold oracleStable OracleOk
  simp [List.all_eq_true, Bool.and_eq_true, decide_eq_true_eq, and_assoc]

theorem parseOuterAttrs_print : ∀ (ts : Toks) (as : List Attr) (rest : Toks),
    parseOuterAttrs ts = .ok (as, rest) → printAttrs as ++ rest = ts
  | .punct '#' :: .group .bracket inner :: rest', as, rest, h => by
      unfold parseOuterAttrs at h
      cases h' : parseOuterAttrs rest' with
      | error e => simp [h'] at h
      | ok r =>
        obtain ⟨as', r'⟩ := r
        simp [h'] at h
        obtain ⟨rfl, rfl⟩ := h
        have ih := parseOuterAttrs_print rest' as' r' h'
        simp [printAttrs, Attr.print, p, brackets] at ih ⊢
        exact ih
  | [], as, rest, h => by
      simp [parseOuterAttrs] at h
      obtain ⟨rfl, rfl⟩ := h
      simp [printAttrs]
  | t :: ts, as, rest, h => by
      unfold parseOuterAttrs at h
      split at h
      · rename_i inner rest' heq
        cases h' : parseOuterAttrs rest' with
        | error e => simp [h'] at h
        | ok r =>
          obtain ⟨as', r'⟩ := r
          simp [h'] at h
          obtain ⟨rfl, rfl⟩ := h
          have ih := parseOuterAttrs_print rest' as' r' h'
          rw [heq]
          simp [printAttrs, Attr.print, p, brackets] at ih ⊢
          exact ih
      · simp at h
      · simp at h
        obtain ⟨rfl, rfl⟩ := h
        simp [printAttrs]
termination_by ts => ts.length
decreasing_by all_goals simp_wf <;> simp_all <;> omega

theorem parseVis_print (ts vis rest : Toks) (h : parseVis ts = .ok (vis, rest)) : vis ++ rest = ts := by
  unfold parseVis at h
  split at h
  · rename_i c rest'
    split at h
    · rename_i k
      split at h
      · simp at h; obtain ⟨rfl, rfl⟩ := h; simp [i]
      · split at h
        · simp at h
        · simp at h; obtain ⟨rfl, rfl⟩ := h; simp [i]
    · rename_i path
      split at h
      · simp at h; obtain ⟨rfl, rfl⟩ := h; simp [i]
      · simp at h
    · simp at h; obtain ⟨rfl, rfl⟩ := h; simp [i]
  · simp at h; obtain ⟨rfl, rfl⟩ := h; simp [i]
  · simp at h; obtain ⟨rfl, rfl⟩ := h; simp

theorem scanBraceOrSemi_print : ∀ (ts taken rest : Toks),
    scanBraceOrSemi ts = some (taken, rest) → taken ++ rest = ts ∧ taken ≠ []
  | [], taken, rest, h => by simp [scanBraceOrSemi] at h
  | t :: ts, taken, rest, h => by
      unfold scanBraceOrSemi at h
      split at h
      · simp at h
      · simp at h; obtain ⟨rfl, rfl⟩ := h; simp_all
      · simp at h; obtain ⟨rfl, rfl⟩ := h; simp_all [p]
      · rename_i t' rest' _ _ heq
        cases h' : scanBraceOrSemi rest' with
        | none => simp [h'] at h
        | some r =>
          obtain ⟨tk, r'⟩ := r
          simp [h'] at h
          obtain ⟨rfl, rfl⟩ := h
          have ih := scanBraceOrSemi_print rest' tk r' h'
          simp at heq
          obtain ⟨rfl, rfl⟩ := heq
          simp [ih.1]

theorem takeSemis_print (ts : Toks) : (takeSemis ts).1 ++ (takeSemis ts).2 = ts := by
  induction ts with
  | nil => simp [takeSemis]
  | cons t ts ih =>
    unfold takeSemis
    split
    · rename_i rest heq
      simp at heq
      obtain ⟨rfl, rfl⟩ := heq
      simp [p, ih]
    · simp

theorem matchedBracesOrSemi_print (ts taken rest : Toks)
    (h : matchedBracesOrSemi ts = .ok (taken, rest)) : taken ++ rest = ts ∧ taken ≠ [] := by
  unfold matchedBracesOrSemi at h
  cases h' : scanBraceOrSemi ts with
  | none => simp [h'] at h
  | some r =>
    obtain ⟨tk, r'⟩ := r
    simp [h'] at h
    obtain ⟨rfl, rfl⟩ := h
    have h1 := scanBraceOrSemi_print ts tk r' h'
    have h2 := takeSemis_print r'
    constructor
    · rw [List.append_assoc, h2, h1.1]
    · intro hc
      simp at hc
      exact h1.2 hc.1

theorem oracle_at_mem (o : SigOracle) (n k : Nat) (sig : Sig) (h : o.at n = some (k, sig)) :
    ∃ e ∈ o, e.remaining = n ∧ e.consumed = k ∧ e.sig = sig := by
  unfold SigOracle.at at h
  cases hf : o.find? (fun e => e.remaining == n) with
  | none => simp [hf] at h
  | some e =>
    simp [hf] at h
    obtain ⟨rfl, rfl⟩ := h
    have hm := List.mem_of_find?_eq_some hf
    have hp := List.find?_some hf
    exact ⟨e, hm, by simpa using hp, rfl, rfl⟩

/-- one item: what it prints, followed by what is left, is what was there -/
theorem parseBodyItem_print (isImpl : Bool) (o : SigOracle) (body ts : Toks) (item : BodyItem) (rest : Toks)
    (hok : OracleOk o body) (hsuf : ∃ pre, body = pre ++ ts)
    (h : parseBodyItem isImpl o ts = .ok (item, rest)) :
    item.print ++ rest = ts ∧ rest.length < ts.length := by
  unfold parseBodyItem at h
  cases h1 : parseOuterAttrs ts with
  | error e => simp [h1] at h
  | ok r1 =>
    obtain ⟨attrs, rest1⟩ := r1
    simp only [h1] at h
    have e1 := parseOuterAttrs_print ts attrs rest1 h1
    cases h2 : parseVis rest1 with
    | error e => simp [h2] at h
    | ok r2 =>
      obtain ⟨vis, rest2⟩ := r2
      simp only [h2] at h
      have e2 := parseVis_print rest1 vis rest2 h2
      have hts : printAttrs attrs ++ vis ++ rest2 = ts := by rw [List.append_assoc, e2, e1]
      have hlen2 : rest2.length ≤ ts.length := by rw [← hts]; simp only [List.length_append]; omega
      split at h
      · -- a function signature is expected here
        cases h3 : o.at rest2.length with
        | none => simp [h3] at h
        | some ks =>
          obtain ⟨k, sig⟩ := ks
          simp only [h3] at h
          obtain ⟨e, hmem, hrem, hcons, hsig⟩ := oracle_at_mem o _ _ _ h3
          obtain ⟨hle, hbl, hprint⟩ := hok e hmem
          -- rest2 is the suffix of the body the entry talks about
          obtain ⟨pre, hpre⟩ := hsuf
          have hdrop : body.drop (body.length - e.remaining) = rest2 := by
            rw [hrem, hpre, ← hts]
            simp [List.append_assoc]
            rw [show (pre ++ (printAttrs attrs ++ (vis ++ rest2))) = (pre ++ printAttrs attrs ++ vis) ++ rest2 by simp]
            rw [List.drop_left' (by simp; omega)]
          rw [hdrop, hcons, hsig] at hprint
          rw [hrem, hcons] at hle
          split at h
          · -- bodiless declaration
            rename_i rest4 hdr
            simp at h
            obtain ⟨rfl, rfl⟩ := h
            have hl4 : rest4.length + 1 + k = rest2.length := by
              have := congrArg List.length hdr
              simp at this
              omega
            have htake : rest2.take (k + 1) ++ rest4 = rest2 := by
              have : rest2.drop (k + 1) = rest4 := by
                rw [← List.drop_drop, hdr]; simp
              rw [← this, List.take_append_drop]
            constructor
            · simp only [BodyItem.print]
              rw [List.append_assoc, htake, hts]
            · omega
          · rename_i hnot
            cases h4 : matchedBracesOrSemi (rest2.drop k) with
            | error e => simp [h4] at h
            | ok r4 =>
              obtain ⟨bodyToks, rest4⟩ := r4
              simp [h4] at h
              obtain ⟨rfl, rfl⟩ := h
              have e4 := matchedBracesOrSemi_print _ _ _ h4
              constructor
              · simp only [BodyItem.print, FnItem.print]
                rw [hprint]
                rw [List.append_assoc, List.append_assoc, List.append_assoc, e4.1, List.take_append_drop,
                  ← List.append_assoc, hts]
              · have hl := congrArg List.length e4.1
                have hne : bodyToks.length ≠ 0 := by
                  intro hz; exact e4.2 (List.eq_nil_of_length_eq_zero hz)
                simp at hl
                omega
      · cases h4 : matchedBracesOrSemi rest2 with
        | error e => simp [h4] at h
        | ok r4 =>
          obtain ⟨toks, rest3⟩ := r4
          simp [h4] at h
          obtain ⟨rfl, rfl⟩ := h
          have e4 := matchedBracesOrSemi_print _ _ _ h4
          constructor
          · simp only [BodyItem.print]
            rw [List.append_assoc, e4.1, hts]
          · have hl := congrArg List.length e4.1
            have hne : toks.length ≠ 0 := by
              intro hz; exact e4.2 (List.eq_nil_of_length_eq_zero hz)
            simp at hl
            omega

/-- the split items, printed in order, are the body -/
theorem splitBody_print (isImpl : Bool) (o : SigOracle) (body : Toks) (hok : OracleOk o body) :
    ∀ (fuel : Nat) (ts : Toks) (items : List BodyItem), (∃ pre, body = pre ++ ts) →
      splitBody isImpl o fuel ts = .ok items → items.flatMap BodyItem.print = ts
  | _, [], items, _, h => by
      simp [splitBody] at h
      subst h
      simp
  | 0, t :: ts, items, _, h => by simp [splitBody] at h
  | fuel + 1, t :: ts, items, hsuf, h => by
      unfold splitBody at h
      cases h1 : parseBodyItem isImpl o (t :: ts) with
      | error e => simp [h1] at h
      | ok r =>
        obtain ⟨item, rest⟩ := r
        simp only [h1] at h
        cases h2 : splitBody isImpl o fuel rest with
        | error e => simp [h2] at h
        | ok its =>
          simp [h2] at h
          subst h
          have e1 := parseBodyItem_print isImpl o body (t :: ts) item rest hok hsuf h1
          have hsuf' : ∃ pre, body = pre ++ rest := by
            obtain ⟨pre, hp⟩ := hsuf
            exact ⟨pre ++ item.print, by rw [hp, ← e1.1]; simp⟩
          have ih := splitBody_print isImpl o body hok fuel rest its hsuf' h2
          simp [ih, e1.1]

theorem parseOuterAttrs_err (ts : Toks) (e : PErr) : parseOuterAttrs ts = .error e → e = .syn := by
  fun_induction parseOuterAttrs ts <;> simp_all
  all_goals (intro h; exact h.symm)

theorem parseVis_err (ts : Toks) (e : PErr) (h : parseVis ts = .error e) : e = .syn := by
  unfold parseVis at h
  repeat' (split at h)
  all_goals simp_all

theorem matchedBracesOrSemi_err (ts : Toks) (e : PErr) (h : matchedBracesOrSemi ts = .error e) :
    e = readPastTheEnd := by
  unfold matchedBracesOrSemi at h
  split at h <;> simp_all

theorem parseBodyItem_err (isImpl : Bool) (o : SigOracle) (ts : Toks) (e : PErr)
    (h : parseBodyItem isImpl o ts = .error e) : e = .syn ∨ e = readPastTheEnd := by
  unfold parseBodyItem at h
  cases h1 : parseOuterAttrs ts with
  | error e1 =>
    simp [h1] at h; subst h; exact Or.inl (parseOuterAttrs_err _ _ h1)
  | ok r1 =>
    obtain ⟨attrs, rest1⟩ := r1
    simp only [h1] at h
    cases h2 : parseVis rest1 with
    | error e2 => simp [h2] at h; subst h; exact Or.inl (parseVis_err _ _ h2)
    | ok r2 =>
      obtain ⟨vis, rest2⟩ := r2
      simp only [h2] at h
      split at h
      · cases h3 : o.at rest2.length with
        | none => simp [h3] at h; exact Or.inl h.symm
        | some ks =>
          obtain ⟨k, sig⟩ := ks
          simp only [h3] at h
          split at h
          · simp at h
          · cases h4 : matchedBracesOrSemi (rest2.drop k) with
            | error e4 => simp [h4] at h; subst h; exact Or.inr (matchedBracesOrSemi_err _ _ h4)
            | ok r4 => simp [h4] at h
      · cases h4 : matchedBracesOrSemi rest2 with
        | error e4 => simp [h4] at h; subst h; exact Or.inr (matchedBracesOrSemi_err _ _ h4)
        | ok r4 => simp [h4] at h

/-- the body length is enough fuel: the splitter never reports exhaustion -/
theorem splitBody_fuel (isImpl : Bool) (o : SigOracle) (body : Toks) (hok : OracleOk o body) :
    ∀ (fuel : Nat) (ts : Toks), (∃ pre, body = pre ++ ts) → ts.length ≤ fuel →
      splitBody isImpl o fuel ts ≠ .error (.diag "model: out of fuel")
  | _, [], _, _ => by simp [splitBody]
  | 0, t :: ts, _, hl => by simp at hl
  | fuel + 1, t :: ts, hsuf, hl => by
      unfold splitBody
      cases h1 : parseBodyItem isImpl o (t :: ts) with
      | error e =>
        simp
        intro he
        subst he
        rcases parseBodyItem_err _ _ _ _ h1 with h | h
        · cases h
        · simp [readPastTheEnd] at h
      | ok r =>
        obtain ⟨item, rest⟩ := r
        have e1 := parseBodyItem_print isImpl o body (t :: ts) item rest hok hsuf h1
        have hsuf' : ∃ pre, body = pre ++ rest := by
          obtain ⟨pre, hp⟩ := hsuf
          exact ⟨pre ++ item.print, by rw [hp, ← e1.1]; simp⟩
        have ih := splitBody_fuel isImpl o body hok fuel rest hsuf' (by have := e1.2; simp at hl this ⊢; omega)
        cases h2 : splitBody isImpl o fuel rest with
        | error e => simp [h2] at ih ⊢; exact ih
        | ok its => simp [h2]

end Entrait
