import EntraitProofs.C06Sem
import EntraitProofs.C01Sem
/-
  C06, the forwarding clause, *on the observed expansion*.

  `C06Sem.T_C06_iff` reads the bounds of the `Impl<T>` impl; this file reads its methods.  On every view on which
  `P_C06` holds — the model's output by `T_C06`, the real macro's output wherever the driver evaluated `P_C06`
  to 1 — for an entraited trait without a delegation-target trait, every method of `impl Trait for Impl<T>`
    * is named like the trait method it implements,
    * has as body exactly the forwarding expression of the shape `delegate_by` selects (`expectedShape`:
      `Self` ↦ `self.as_ref().m(..)`, `ref` ↦ `self.as_ref().as_ref().m(..)`, `Borrow` ↦ `..borrow().m(..)`),
      calling the provider's method *of the same name*, awaited iff the trait method is async,
    * and forwards its own parameters: with pairwise distinct names, evaluating the forwarded argument list
      with the parameters bound to the caller's values yields exactly those values, in declared order.
-/
namespace Entrait.C06Sem
open Entrait

/-- all pairs of a `zipAll` -/
theorem zipAll_forall {α β : Type} (f : α → β → Bool) : ∀ (as : List α) (bs : List β), zipAll f as bs = true →
    ∀ ab ∈ as.zip bs, f ab.1 ab.2 = true
  | [], [], _ => by simp
  | [], _ :: _, h => by simp [zipAll] at h
  | _ :: _, [], h => by simp [zipAll] at h
  | a :: as, b :: bs, h => by
      simp only [zipAll, Bool.and_eq_true] at h
      intro ab hab
      simp only [List.zip_cons_cons, List.mem_cons] at hab
      rcases hab with rfl | hab
      · exact h.1
      · exact zipAll_forall f as bs h.2 ab hab

/-- the shape `delegate_by` selects when there is no delegation-target trait -/
theorem expectedShape_noTarget (a : TraitAttr) (ca : Bool) (hi : a.implTrait = none) :
    expectedShape a ca = (match a.delegation with | some (.byRef b) => .byRef b | _ => .bySelf) := by
  unfold expectedShape
  rw [hi]
  cases a.delegation with
  | none => rfl
  | some d => cases d <;> rfl

/-- **C06, forwarding, for any view on which `P_C06` holds** -/
theorem T_C06_fwd_view (attr : Toks) (t : TraitItem) (view : View) (a : TraitAttr) (im : GenImpl)
    (hp : parseTraitAttr attr = .ok a) (hi : a.implTrait = none) (him : mainImpl? view = some im)
    (h : P_C06 attr (.trait t) view = true) :
    ∀ sm ∈ t.fns.zip im.members,
      ∃ attrs g body, sm.2 = .fn attrs g (some body) ∧ g.ident = sm.1.sig.ident ∧
        body = specDelegBody (match a.delegation with | some (.byRef b) => .byRef b | _ => .bySelf)
                 sm.1.sig.ident (paramIdents g.inputs) sm.1.sig.async_ ∧
        (nodup ((paramIdents g.inputs).map unraw) = true → (∀ q ∈ paramIdents g.inputs, q ≠ "self") →
          ∀ (recv : Nat) (vs : List Nat), (paramIdents g.inputs).length = vs.length →
            C01.evalArgs recv ((paramIdents g.inputs).zip vs) (paramIdents g.inputs) = some vs) := by
  intro sm hsm
  unfold P_C06 at h
  simp only [hp, him, hi, Option.isSome_none, Bool.false_eq_true, if_false, Bool.and_eq_true] at h
  have hall := zipAll_forall _ _ _ h.1.2 sm hsm
  cases hm : sm.2 with
  | raw ts => simp [hm] at hall
  | fn attrs g body =>
    cases body with
    | none => simp [hm] at hall
    | some b =>
      simp only [hm, Bool.and_eq_true, beq_iff_eq] at hall
      obtain ⟨hs, hbody⟩ := hall
      have hidn : g.ident = sm.1.sig.ident := by
        unfold sigSameModuloNames at hs
        simp only [Bool.and_eq_true, beq_iff_eq] at hs
        exact hs.1.1.1.1.1.1.1.1.symm
      refine ⟨attrs, g, b, rfl, hidn, ?_, ?_⟩
      · rw [hbody, expectedShape_noTarget a _ hi]
      · intro hnd hself recv vs hl
        have := C01.evalParams recv (paramIdents g.inputs) vs [] hl ((nodup_iff _).mp hnd) hself (by simp)
        simpa using this

/-- **the same for the model's expansion** -/
theorem T_C06_fwd (v : Variant) (attr : Toks) (t : TraitItem) (out : Out) (h : expand v attr (.trait t) = .ok out)
    (a : TraitAttr) (hp : parseTraitAttr attr = .ok a) (hi : a.implTrait = none)
    (im : GenImpl) (him : mainImpl? out.view = some im) :
    ∀ sm ∈ t.fns.zip im.members,
      ∃ attrs g body, sm.2 = .fn attrs g (some body) ∧ g.ident = sm.1.sig.ident ∧
        body = specDelegBody (match a.delegation with | some (.byRef b) => .byRef b | _ => .bySelf)
                 sm.1.sig.ident (paramIdents g.inputs) sm.1.sig.async_ ∧
        (nodup ((paramIdents g.inputs).map unraw) = true → (∀ q ∈ paramIdents g.inputs, q ≠ "self") →
          ∀ (recv : Nat) (vs : List Nat), (paramIdents g.inputs).length = vs.length →
            C01.evalArgs recv ((paramIdents g.inputs).zip vs) (paramIdents g.inputs) = some vs) :=
  T_C06_fwd_view attr t out.view a im hp hi him (C06.T_C06 v attr (.trait t) out h)

end Entrait.C06Sem
