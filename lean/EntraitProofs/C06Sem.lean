import EntraitProofs.C06
/-
  C06 read semantically: for an entraited trait without delegation-target trait, `Impl<T>` implements
  the trait *exactly when* `T` provides it in the selected way (given entrait's fixed `T: Sync + 'static`).

  `satT b`: the application type `T` satisfies the bound `b` (an abstract trait solver).  The where clause of
  the generated impl starts with one predicate on `EntraitT`; `T_C06_iff`: the bounds it carries hold of `T`
  iff `T` satisfies the *provider* bound — `Trait<..>` by default, `AsRef<dyn Trait<..>>` for
  `delegate_by = ref`, `Borrow<dyn Trait<..>>` for `delegate_by = Borrow` — whenever `T` meets the fixed
  requirement: nothing else is demanded of `T`.
-/
namespace Entrait.C06Sem
open Entrait

/-- the bound by which `T` provides the trait, as selected by `delegate_by` -/
def providerOf (a : TraitAttr) (t : TraitItem) : Toks :=
  match a.delegation with
  | some (.byRef b) => (if b then borrowPath else asRefPath) ++ [p '<', i "dyn"] ++ traitWithArgs t ++ [p '>']
  | _ => traitWithArgs t

/-- the bounds of the first where-predicate of the impl (the one on `EntraitT`) -/
def headBounds (im : GenImpl) : List Toks :=
  match im.preds.head? with
  | some (.ty [] _ bs false) => bs
  | _ => []

theorem headBounds_spec (attr : Toks) (t : TraitItem) (view : View) (a : TraitAttr) (im : GenImpl)
    (hp : parseTraitAttr attr = .ok a) (hi : a.implTrait = none) (him : mainImpl? view = some im)
    (h : P_C06 attr (.trait t) view = true) :
    ∃ extras, headBounds im = providerOf a t :: extras ∧ ∀ e ∈ extras, e ∈ fixedExtras := by
  unfold P_C06 at h
  simp only [hp, him, hi, Option.isSome_none, Bool.false_eq_true, if_false, Bool.and_eq_true] at h
  obtain ⟨_, h3⟩ := h
  unfold headBounds
  split at h3
  · rename_i bounded first extras hhead
    simp only [Bool.and_eq_true, beq_iff_eq, List.all_eq_true, List.contains_iff_mem] at h3
    obtain ⟨⟨_, hfirst⟩, hext⟩ := h3
    refine ⟨extras, ?_, hext⟩
    rw [hhead]
    simp only [List.cons.injEq, and_true]
    rw [hfirst]
    unfold providerOf
    cases a.delegation with
    | none => rfl
    | some d => cases d <;> rfl
  · cases h3

/-- **exactly when `T` provides it in the selected way** -/
theorem T_C06_iff (satT : Toks → Prop) (attr : Toks) (t : TraitItem) (view : View) (a : TraitAttr) (im : GenImpl)
    (hp : parseTraitAttr attr = .ok a) (hi : a.implTrait = none) (him : mainImpl? view = some im)
    (h : P_C06 attr (.trait t) view = true) (hfixed : ∀ e ∈ fixedExtras, satT e) :
    (∀ b ∈ headBounds im, satT b) ↔ satT (providerOf a t) := by
  obtain ⟨extras, hb, hext⟩ := headBounds_spec attr t view a im hp hi him h
  rw [hb]
  constructor
  · intro hall; exact hall _ List.mem_cons_self
  · intro hprov b hbm
    rcases List.mem_cons.mp hbm with rfl | hbm
    · exact hprov
    · exact hfixed b (hext b hbm)

/-- the same for every expansion of a trait the model produces -/
theorem T_C06_sem (satT : Toks → Prop) (v : Variant) (attr : Toks) (t : TraitItem) (out : Out)
    (h : expand v attr (.trait t) = .ok out) (a : TraitAttr) (hp : parseTraitAttr attr = .ok a) (hi : a.implTrait = none)
    (im : GenImpl) (him : mainImpl? out.view = some im) (hfixed : ∀ e ∈ fixedExtras, satT e) :
    (∀ b ∈ headBounds im, satT b) ↔ satT (providerOf a t) :=
  T_C06_iff satT attr t out.view a im hp hi him (C06.T_C06 v attr (.trait t) out h) hfixed

end Entrait.C06Sem
