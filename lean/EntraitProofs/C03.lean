import EntraitProofs.C07
/-
  C03 — same call type.

  `T_C03`: for every fn / mod / impl-block input with lexically valid function names and
  pairwise different type-parameter names per function (anything else is rejected by rustc
  anyway: E0403), seen as a function of (receiver, arguments…) every generated method — the
  trait's declaration and the delegating impl's definition — has
  * exactly the source function's parameter types after the dependency, in order (token for token),
  * the receiver the dependency parameter prescribes: `&self` / `&'a self` for `&D` / `&'a D`,
    `self` for a by-value dependency, `&self` for `no_deps`; in an impl block `__impl: &Impl<T>`
    (after `&self` for dynamic dispatch),
  * the source's lifetime parameters on the method, its `const` / `unsafe` / `extern` qualifiers and
    variadic, and (on the impl) its asyncness and return type,
  * every where-predicate that is not a bound on the dependency's own type parameter still in
    scope (on the method), and
  * generic scoping: the trait declares exactly the type / const parameters of the source
    functions other than the dependency's (`liftedParams`), and the impl names them in order.
  That such an expansion *compiles* (type and borrow checking) is rustc's judgement and is not
  modelled: partial.  A defect of generic scoping across the functions of one module is recorded
  as known finding C03.dupgeneric.
-/
namespace Entrait.C03
open Entrait

/-! ### per function -/

theorem analyzeFn_fields {kind : ReceiverKind} {opts : Opts} {s : Sig} {tg tg' : TraitGenerics} {tf : TraitFn}
    (h : analyzeFn kind opts s tg = .ok (tf, tg')) :
    tf.sig.generics = removeGenericTypeParams tf.deps s.generics ∧ tf.sig.const_ = s.const_ ∧
    tf.sig.unsafe_ = s.unsafe_ ∧ tf.sig.abi = s.abi ∧ tf.sig.variadic = s.variadic ∧
    analyzeFnDeps s opts tg = .ok (tf.deps, tg') := by
  obtain ⟨deps, ins, tr, hd, _, rfl⟩ := analyzeFn_ok h
  exact ⟨rfl, rfl, rfl, rfl, rfl, hd⟩

theorem tyToks_sameShape : ∀ (xs ys : List FnArg), sameShape xs ys →
    (typedArgs xs).map tyToks = (typedArgs ys).map tyToks
  | [], [], _ => rfl
  | [], _ :: _, h => by simp [sameShape] at h
  | _ :: _, [], h => by simp [sameShape] at h
  | .recv .. :: _, .typed .. :: _, h => by simp [sameShape] at h
  | .typed .. :: _, .recv .. :: _, h => by simp [sameShape] at h
  | .recv .. :: xs, .recv .. :: ys, h => by
      simp only [sameShape] at h
      simpa using tyToks_sameShape xs ys h.2.2.2.2
  | .typed a pt t :: xs, .typed a' p' t' :: ys, h => by
      simp only [sameShape] at h
      obtain ⟨_, rfl, h⟩ := h
      simp [tyToks, tyToks_sameShape xs ys h]

theorem tyToks_strip (xs : List FnArg) :
    (typedArgs (xs.map FnArg.stripAttrs)).map tyToks = (typedArgs xs).map tyToks := by
  induction xs with
  | nil => rfl
  | cons a rest ih => cases a <;> simp [FnArg.stripAttrs, tyToks, ih]

theorem tyToks_fixParams (f : String) (xs : List FnArg) :
    (typedArgs (fixParams f xs)).map tyToks = (typedArgs xs).map tyToks :=
  (tyToks_sameShape _ _ (sameShape_fixParams f xs)).symm

theorem typedArgs_idem (xs : List FnArg) : typedArgs (typedArgs xs) = typedArgs xs := by
  simp [typedArgs]

/-- the method generated for one fn / mod function has the source's call type -/
theorem sigTypesAgree_fn {opts : Opts} {s : Sig} {tg tg' : TraitGenerics} {tf : TraitFn}
    (h : analyzeFn .selfRef opts s tg = .ok (tf, tg')) (g : Sig)
    (hg : g.inputs = tf.sig.inputs ∧ g.generics = tf.sig.generics ∧ g.const_ = tf.sig.const_ ∧
      g.unsafe_ = tf.sig.unsafe_ ∧ g.abi = tf.sig.abi ∧ g.variadic = tf.sig.variadic) :
    sigTypesAgree opts.noDepsValue 0 s g = true ∧ g.inputs.head? = expectedReceiver opts.noDepsValue s := by
  have hs := fnModeSpec h
  obtain ⟨hgen, hc, hu, ha, hv, _⟩ := analyzeFn_fields h
  obtain ⟨r, hin⟩ := hs.inputs
  obtain ⟨g1, g2, g3, g4, g5, g6⟩ := hg
  refine ⟨?_, by rw [g1]; exact hs.recv⟩
  unfold sigTypesAgree
  simp only [List.drop_zero, Bool.and_eq_true, beq_iff_eq]
  refine ⟨⟨⟨⟨⟨?_, ?_⟩, by rw [g3, hc]⟩, by rw [g4, hu]⟩, by rw [g5, ha]⟩, by rw [g6, hv]⟩
  · rw [g1, hin, typedArgs_cons_recv, tyToks_fixParams, tyToks_strip]
  · rw [g2, hgen]; rfl

theorem makeTraitFnSig_fields (s : Sig) (subs : List Attr) (o : Opts) :
    (makeTraitFnSig s subs o).inputs = s.inputs ∧ (makeTraitFnSig s subs o).generics = s.generics ∧
    (makeTraitFnSig s subs o).const_ = s.const_ ∧ (makeTraitFnSig s subs o).unsafe_ = s.unsafe_ ∧
    (makeTraitFnSig s subs o).abi = s.abi ∧ (makeTraitFnSig s subs o).variadic = s.variadic := by
  unfold makeTraitFnSig; split <;> simp

/-! ### where-predicates stay in scope -/

/-- the analysed dependency names the type parameter the specification reads off the signature -/
theorem extractDeps_depName {g : Generics} {tg tg' : TraitGenerics} {d : String} {bs : List Toks} :
    ∀ (ty : Ty), extractDepsFromType g tg ty = .ok (.generic (some d) bs, tg') →
      ∃ toks, ty.stripRefs = .path false false 1 d toks ∧ g.params.any (fun q => q.isType && q.name == d) = true := by
  intro ty
  induction ty with
  | implTrait b t => intro h; simp [extractDepsFromType] at h
  | other t => intro h; simp [extractDepsFromType] at h
  | ref_ lt m e ih => intro h; simp only [extractDepsFromType] at h; simpa [Ty.stripRefs] using ih h
  | paren e ih => intro h; simp only [extractDepsFromType] at h; simpa [Ty.stripRefs] using ih h
  | path qs l n f t =>
    intro h
    unfold extractDepsFromType at h
    cases qs
    · cases l
      · simp only [Bool.false_eq_true, if_false] at h
        by_cases hn : n = 1
        · subst hn
          simp only [bne_self_eq_false, Bool.false_eq_true, if_false] at h
          cases hfd : findDepsGenericBounds g f tg with
          | none => simp [hfd] at h
          | some r =>
            simp only [hfd] at h
            injection h with h
            subst h
            unfold findDepsGenericBounds at hfd
            cases hft : findTypeParam f g.params 0 with
            | none => simp [hft] at hfd
            | some ir =>
              obtain ⟨idx, direct⟩ := ir
              simp [hft] at hfd
              obtain ⟨⟨hfd1, _⟩, _⟩ := hfd
              subst hfd1
              obtain ⟨a', bt', d', hfind⟩ := findTypeParam_spec f g.params 0 idx direct hft
              refine ⟨t, rfl, ?_⟩
              rw [List.any_eq_true]
              exact ⟨_, List.mem_of_find?_eq_some hfind, by simp [GParam.isType, GParam.name]⟩
        · have hn' : (n != 1) = true := by simpa using hn
          simp [hn'] at h
      · simp at h
    · simp at h

theorem depGenericName_of_deps {s : Sig} {opts : Opts} {tg tg' : TraitGenerics} {d : String} {bs : List Toks}
    (hn : opts.noDepsValue = false) (h : analyzeFnDeps s opts tg = .ok (.generic (some d) bs, tg')) :
    s.depGenericName = some d := by
  unfold analyzeFnDeps at h
  simp only [hn, Bool.false_eq_true, if_false] at h
  split at h
  · simp at h
  · simp at h
  · rename_i a pt ty rest heq
    obtain ⟨toks, hst, hany⟩ := extractDeps_depName ty h
    simp [Sig.depGenericName, heq, hst, hany]

/-- the predicates `removeGenericTypeParams` takes off the method are exactly bounds on the dependency parameter -/
theorem predsInScope_ok {opts : Opts} {s : Sig} {tg tg' : TraitGenerics} {tf : TraitFn} {kind : ReceiverKind}
    (h : analyzeFn kind opts s tg = .ok (tf, tg')) (outer : List WherePred) (m : GenMember) (g : Sig)
    (hm : m.sig? = some g) (hg : g.generics = tf.sig.generics) :
    predsInScope opts.noDepsValue outer s m = true := by
  obtain ⟨hgen, _, _, _, _, hd⟩ := analyzeFn_fields h
  unfold predsInScope
  rw [hm]
  simp only [List.all_eq_true, Bool.or_eq_true]
  intro q hq
  rw [hg, hgen]
  simp only [removeGenericTypeParams]
  -- is `q` filtered out?
  cases hdeps : tf.deps with
  | noDeps => right; simp [hq]
  | concrete c => right; simp [hq]
  | generic dn bs =>
    cases dn with
    | none => right; simp [hq]
    | some d =>
      cases q with
      | other ts => right; simp [hq]
      | ty lts bounded bnds tr =>
        cases hie : isTypeEqIdent bounded d with
        | false => right; simp [hq, hie]
        | true =>
          left; left
          cases hn : opts.noDepsValue with
          | true =>
            have := analyzeFnDeps_noDeps hd hn
            rw [hdeps] at this; simp at this
          | false =>
            rw [hdeps] at hd
            have hdn := depGenericName_of_deps hn hd
            unfold isTypeEqIdent at hie
            cases bounded with
            | path qs l n f t =>
              simp only [Bool.and_eq_true, beq_iff_eq] at hie
              obtain ⟨rfl, rfl⟩ := hie
              simp [aboutDep, hdn]
            | implTrait => simp at hie
            | ref_ => simp at hie
            | paren => simp at hie
            | other => simp at hie


/-! ### generic scoping -/

theorem findTypeParam_ge (f : String) : ∀ (ps : List GParam) (k idx : Nat) (direct : List Toks),
    findTypeParam f ps k = some (idx, direct) → k ≤ idx
  | [], _, _, _, h => by simp [findTypeParam] at h
  | .ty a name bs bt d :: rest, k, idx, direct, h => by
      unfold findTypeParam at h
      split at h
      · simp at h; omega
      · have := findTypeParam_ge f rest (k + 1) idx direct h; omega
  | .lt a n b t :: rest, k, idx, direct, h => by
      unfold findTypeParam at h
      have := findTypeParam_ge f rest (k + 1) idx direct h; omega
  | .const_ a n t d :: rest, k, idx, direct, h => by
      unfold findTypeParam at h
      have := findTypeParam_ge f rest (k + 1) idx direct h; omega

def isDepParam (f : String) (q : GParam) : Bool := q.isType && q.name == f

theorem dropIdx_succ {α : Type} (x : α) (xs : List α) (n : Nat) : dropIdx (x :: xs) (n + 1) = x :: dropIdx xs n := rfl

/-- removing the dependency's type parameter: what stays, and (for distinct names) only that -/
theorem dropIdx_spec (f : String) : ∀ (ps : List GParam) (k idx : Nat) (direct : List Toks),
    findTypeParam f ps k = some (idx, direct) →
      (∀ q ∈ ps, isDepParam f q = false → q ∈ dropIdx ps (idx - k)) ∧
      (nodup ((ps.filter GParam.isType).map GParam.name) = true →
        ∀ q ∈ dropIdx ps (idx - k), q ∈ ps ∧ isDepParam f q = false)
  | [], _, _, _, h => by simp [findTypeParam] at h
  | .ty a name bs bt d :: rest, k, idx, direct, h => by
      unfold findTypeParam at h
      split at h
      · rename_i hn
        have hn' : name = f := by simpa using hn
        subst hn'
        simp only [Option.some.injEq, Prod.mk.injEq] at h
        obtain ⟨rfl, _⟩ := h
        simp only [Nat.sub_self, dropIdx]
        constructor
        · intro q hq hnd
          rcases List.mem_cons.mp hq with rfl | hq
          · simp [isDepParam, GParam.isType, GParam.name] at hnd
          · exact hq
        · intro hnd q hq
          refine ⟨List.mem_cons_of_mem _ hq, ?_⟩
          simp only [List.filter_cons, GParam.isType, if_true, List.map_cons, GParam.name, nodup, Bool.and_eq_true,
            Bool.not_eq_true'] at hnd
          cases hdq : isDepParam name q with
          | false => rfl
          | true =>
            exfalso
            simp only [isDepParam, Bool.and_eq_true, beq_iff_eq] at hdq
            have : name ∈ (rest.filter GParam.isType).map GParam.name :=
              List.mem_map.mpr ⟨q, List.mem_filter.mpr ⟨hq, hdq.1⟩, hdq.2⟩
            have hc := hnd.1
            simp [this] at hc
      · rename_i hn
        have hge := findTypeParam_ge f rest (k + 1) idx direct h
        obtain ⟨ih1, ih2⟩ := dropIdx_spec f rest (k + 1) idx direct h
        have hidx : idx - k = (idx - (k + 1)) + 1 := by omega
        rw [hidx, dropIdx_succ]
        constructor
        · intro q hq hnd
          rcases List.mem_cons.mp hq with rfl | hq
          · exact List.mem_cons_self
          · exact List.mem_cons_of_mem _ (ih1 q hq hnd)
        · intro hnd q hq
          simp only [List.filter_cons, GParam.isType, if_true, List.map_cons, nodup, Bool.and_eq_true] at hnd
          rcases List.mem_cons.mp hq with rfl | hq
          · exact ⟨List.mem_cons_self, by simpa [isDepParam, GParam.isType, GParam.name] using hn⟩
          · obtain ⟨h1, h2⟩ := ih2 hnd.2 q hq
            exact ⟨List.mem_cons_of_mem _ h1, h2⟩
  | .lt a n b t :: rest, k, idx, direct, h => by
      unfold findTypeParam at h
      have hge := findTypeParam_ge f rest (k + 1) idx direct h
      obtain ⟨ih1, ih2⟩ := dropIdx_spec f rest (k + 1) idx direct h
      have hidx : idx - k = (idx - (k + 1)) + 1 := by omega
      rw [hidx, dropIdx_succ]
      constructor
      · intro q hq hnd
        rcases List.mem_cons.mp hq with rfl | hq
        · exact List.mem_cons_self
        · exact List.mem_cons_of_mem _ (ih1 q hq hnd)
      · intro hnd q hq
        have hnd' : nodup ((rest.filter GParam.isType).map GParam.name) = true := by
          simpa [List.filter_cons, GParam.isType] using hnd
        rcases List.mem_cons.mp hq with rfl | hq
        · exact ⟨List.mem_cons_self, by simp [isDepParam, GParam.isType]⟩
        · obtain ⟨h1, h2⟩ := ih2 hnd' q hq
          exact ⟨List.mem_cons_of_mem _ h1, h2⟩
  | .const_ a n t d :: rest, k, idx, direct, h => by
      unfold findTypeParam at h
      have hge := findTypeParam_ge f rest (k + 1) idx direct h
      obtain ⟨ih1, ih2⟩ := dropIdx_spec f rest (k + 1) idx direct h
      have hidx : idx - k = (idx - (k + 1)) + 1 := by omega
      rw [hidx, dropIdx_succ]
      constructor
      · intro q hq hnd
        rcases List.mem_cons.mp hq with rfl | hq
        · exact List.mem_cons_self
        · exact List.mem_cons_of_mem _ (ih1 q hq hnd)
      · intro hnd q hq
        have hnd' : nodup ((rest.filter GParam.isType).map GParam.name) = true := by
          simpa [List.filter_cons, GParam.isType] using hnd
        rcases List.mem_cons.mp hq with rfl | hq
        · exact ⟨List.mem_cons_self, by simp [isDepParam, GParam.isType]⟩
        · obtain ⟨h1, h2⟩ := ih2 hnd' q hq
          exact ⟨List.mem_cons_of_mem _ h1, h2⟩

/-- what one function adds to the trait's generic parameters -/
def AddedOk (nd : Bool) (s : Sig) (added : List GParam) : Prop :=
  (∀ q ∈ liftedParams nd s, q ∈ added) ∧ (s.typeParamsDistinct = true → ∀ q ∈ added, q ∈ liftedParams nd s)

theorem liftedParams_none (nd : Bool) (s : Sig) (h : (if nd then none else s.depGenericName) = none) :
    liftedParams nd s = s.generics.params.filter (fun q => !q.isLifetime) := by
  unfold liftedParams
  simp only [h]
  congr 1
  funext q
  simp

theorem addedOk_all (nd : Bool) (s : Sig) (h : (if nd then none else s.depGenericName) = none) :
    AddedOk nd s (s.generics.params.filter (fun q => !q.isLifetime)) := by
  rw [← liftedParams_none nd s h]
  exact ⟨fun q hq => hq, fun _ q hq => hq⟩

theorem extractDeps_params {g : Generics} {tg tg' : TraitGenerics} {deps : FnDeps} :
    ∀ (ty : Ty), extractDepsFromType g tg ty = .ok (deps, tg') →
      (tg'.params = tg.params ++ g.params.filter (fun q => !q.isLifetime) ∧
        (∀ d toks, ty.stripRefs = .path false false 1 d toks → g.params.any (fun q => q.isType && q.name == d) = false)) ∨
      (∃ d toks idx direct, ty.stripRefs = .path false false 1 d toks ∧ findTypeParam d g.params 0 = some (idx, direct) ∧
        tg'.params = tg.params ++ (dropIdx g.params idx).filter (fun q => !q.isLifetime)) := by
  intro ty
  induction ty with
  | implTrait b t =>
    intro h; simp [extractDepsFromType] at h
    left; exact ⟨by rw [← h.2]; rfl, by intro d toks hc; simp [Ty.stripRefs] at hc⟩
  | other t =>
    intro h; simp [extractDepsFromType] at h
    left; exact ⟨by rw [← h.2]; rfl, by intro d toks hc; simp [Ty.stripRefs] at hc⟩
  | ref_ lt m e ih => intro h; simp only [extractDepsFromType] at h; simpa [Ty.stripRefs] using ih h
  | paren e ih => intro h; simp only [extractDepsFromType] at h; simpa [Ty.stripRefs] using ih h
  | path qs l n f t =>
    intro h
    unfold extractDepsFromType at h
    cases qs
    · cases l
      · simp only [Bool.false_eq_true, if_false] at h
        by_cases hn : n = 1
        · subst hn
          simp only [bne_self_eq_false, Bool.false_eq_true, if_false] at h
          cases hfd : findDepsGenericBounds g f tg with
          | none =>
            simp [hfd] at h
            left
            refine ⟨by rw [← h.2]; rfl, ?_⟩
            intro d toks hc
            simp only [Ty.stripRefs, Ty.path.injEq, true_and] at hc
            obtain ⟨rfl, _⟩ := hc
            have hnone : findTypeParam f g.params 0 = none := by
              unfold findDepsGenericBounds at hfd
              cases hft : findTypeParam f g.params 0 with
              | none => rfl
              | some r => simp [hft] at hfd
            exact findTypeParam_none f g.params 0 hnone
          | some r =>
            simp only [hfd] at h
            injection h with h
            subst h
            unfold findDepsGenericBounds at hfd
            cases hft : findTypeParam f g.params 0 with
            | none => simp [hft] at hfd
            | some ir =>
              obtain ⟨idx, direct⟩ := ir
              simp [hft] at hfd
              obtain ⟨_, hfd2⟩ := hfd
              right
              exact ⟨f, t, idx, direct, rfl, hft, by rw [← hfd2]⟩
        · have hn' : (n != 1) = true := by simpa using hn
          simp [hn'] at h
          left
          refine ⟨by rw [← h.2]; rfl, ?_⟩
          intro d toks hc
          simp only [Ty.stripRefs, Ty.path.injEq] at hc
          exact absurd hc.2.2.1 hn
      · simp at h
    · simp at h

theorem analyzeFnDeps_params {s : Sig} {opts : Opts} {tg tg' : TraitGenerics} {deps : FnDeps}
    (h : analyzeFnDeps s opts tg = .ok (deps, tg')) :
    ∃ added, tg'.params = tg.params ++ added ∧ AddedOk opts.noDepsValue s added := by
  unfold analyzeFnDeps at h
  cases hn : opts.noDepsValue with
  | true =>
    simp only [hn, if_true] at h
    injection h with h
    simp only [Prod.mk.injEq] at h
    refine ⟨_, by rw [← h.2]; rfl, addedOk_all true s (by simp)⟩
  | false =>
    simp only [hn, Bool.false_eq_true, if_false] at h
    split at h
    · simp at h
    · simp at h
    · rename_i a pt ty rest heq
      rcases extractDeps_params ty h with ⟨hp, hnone⟩ | ⟨d, toks, idx, direct, hst, hft, hp⟩
      · refine ⟨_, hp, addedOk_all false s ?_⟩
        simp only [Bool.false_eq_true, if_false, Sig.depGenericName, heq]
        cases hs : ty.stripRefs with
        | path qs l n f t =>
          cases qs <;> cases l <;> try rfl
          by_cases hn1 : n = 1
          · subst hn1
            simp [hnone f t hs]
          · cases n with
            | zero => rfl
            | succ n' => cases n' with
              | zero => exact absurd rfl hn1
              | succ n'' => rfl
        | implTrait => rfl
        | ref_ => rfl
        | paren => rfl
        | other => rfl
      · refine ⟨_, hp, ?_⟩
        have hany : s.generics.params.any (fun q => q.isType && q.name == d) = true := by
          obtain ⟨a', bt', d', hfind⟩ := findTypeParam_spec d s.generics.params 0 idx direct hft
          rw [List.any_eq_true]
          exact ⟨_, List.mem_of_find?_eq_some hfind, by simp [GParam.isType, GParam.name]⟩
        have hdn : s.depGenericName = some d := by simp [Sig.depGenericName, heq, hst, hany]
        obtain ⟨h1, h2⟩ := dropIdx_spec d s.generics.params 0 idx direct hft
        simp only [Nat.sub_zero] at h1 h2
        unfold AddedOk liftedParams
        simp only [Bool.false_eq_true, if_false, hdn]
        constructor
        · intro q hq
          simp only [List.mem_filter, Bool.and_eq_true, Bool.not_eq_true'] at hq ⊢
          refine ⟨h1 q hq.1 ?_, hq.2.1⟩
          simpa [isDepParam] using hq.2.2
        · intro hnd q hq
          simp only [List.mem_filter, Bool.and_eq_true, Bool.not_eq_true'] at hq ⊢
          obtain ⟨hmem, hnd2⟩ := h2 hnd q hq.1
          exact ⟨hmem, hq.2, by simpa [isDepParam] using hnd2⟩


theorem analyzeFns_params (kind : ReceiverKind) (opts : Opts) :
    ∀ (sigs : List Sig) (tg tg' : TraitGenerics) (fns : List TraitFn),
      analyzeFns kind opts sigs tg = .ok (fns, tg') →
        ∃ added, tg'.params = tg.params ++ added ∧
          (∀ s ∈ sigs, ∀ q ∈ liftedParams opts.noDepsValue s, q ∈ added) ∧
          ((∀ s ∈ sigs, s.typeParamsDistinct = true) → ∀ q ∈ added, ∃ s ∈ sigs, q ∈ liftedParams opts.noDepsValue s)
  | [], tg, tg', fns, h => by
      simp [analyzeFns] at h
      obtain ⟨_, rfl⟩ := h
      exact ⟨[], by simp, by simp, by simp⟩
  | s :: rest, tg, tg', fns, h => by
      unfold analyzeFns at h
      cases h1 : analyzeFn kind opts s tg with
      | error e => simp [h1] at h
      | ok r =>
        obtain ⟨tf, tg1⟩ := r
        simp only [h1] at h
        cases h2 : analyzeFns kind opts rest tg1 with
        | error e => simp [h2] at h
        | ok r2 =>
          obtain ⟨tfs, tg2⟩ := r2
          simp [h2] at h
          obtain ⟨_, rfl⟩ := h
          obtain ⟨_, _, _, _, _, hd⟩ := analyzeFn_fields h1
          obtain ⟨a1, hp1, ha1, hb1⟩ := analyzeFnDeps_params hd
          obtain ⟨a2, hp2, ha2, hb2⟩ := analyzeFns_params kind opts rest tg1 tg2 tfs h2
          refine ⟨a1 ++ a2, by rw [hp2, hp1, List.append_assoc], ?_, ?_⟩
          · intro x hx q hq
            rcases List.mem_cons.mp hx with rfl | hx
            · exact List.mem_append_left _ (ha1 q hq)
            · exact List.mem_append_right _ (ha2 x hx q hq)
          · intro hnd q hq
            rcases List.mem_append.mp hq with hq | hq
            · exact ⟨s, List.mem_cons_self, hb1 (hnd s List.mem_cons_self) q hq⟩
            · obtain ⟨x, hx, hxq⟩ := hb2 (fun y hy => hnd y (List.mem_cons_of_mem _ hy)) q hq
              exact ⟨x, List.mem_cons_of_mem _ hx, hxq⟩

theorem scoping_ok (opts : Opts) (sigs : List Sig) (fns : List TraitFn) (tg : TraitGenerics)
    (han : analyzeFns .selfRef opts sigs {} = .ok (fns, tg)) (hnd : ∀ s ∈ sigs, s.typeParamsDistinct = true)
    (t : GenTrait) (im : GenImpl) (ht : t.params = tg.params)
    (hr : im.traitRef = [i t.ident] ++ genericArgs .none tg.params) :
    scopingOk opts.noDepsValue sigs t im = true := by
  obtain ⟨added, hp, ha, hb⟩ := analyzeFns_params .selfRef opts sigs {} tg fns han
  have hp' : tg.params = added := by simpa using hp
  unfold scopingOk
  simp only [Bool.and_eq_true, List.all_eq_true, List.any_eq_true, beq_iff_eq, List.contains_iff_mem]
  refine ⟨⟨?_, ?_⟩, ?_⟩
  · intro s hs q hq
    rw [ht, hp']; exact ha s hs q hq
  · intro q hq
    rw [ht, hp'] at hq
    exact hb hnd q hq
  · rw [hr, ht]
    simp [genericArgs, ImplIndirection.isNone]

/-! ### the theorem -/

theorem zipAll_and4 {α β : Type} (f1 f2 f3 f4 : α → β → Bool) (as : List α) (bs : List β)
    (h : zipAll (fun a b => f1 a b && f2 a b && f3 a b && f4 a b) as bs = true) :
    zipAll f1 as bs = true ∧ zipAll f2 as bs = true ∧ zipAll f3 as bs = true ∧ zipAll f4 as bs = true := by
  induction as generalizing bs with
  | nil => cases bs <;> simp_all [zipAll]
  | cons a as ih =>
    cases bs with
    | nil => simp [zipAll] at h
    | cons b bs =>
      simp only [zipAll, Bool.and_eq_true] at h ⊢
      obtain ⟨⟨⟨⟨h1, h2⟩, h3⟩, h4⟩, hr⟩ := h
      obtain ⟨i1, i2, i3, i4⟩ := ih bs hr
      exact ⟨⟨h1, i1⟩, ⟨h2, i2⟩, ⟨h3, i3⟩, ⟨h4, i4⟩⟩

/-- the four per-function conjuncts, for one function of an fn / mod input -/
theorem perFn_ok {opts : Opts} {s : Sig} {tg tg' : TraitGenerics} {tf : TraitFn} (subs : List Attr)
    (mode : InputMode) (tp ip : List WherePred)
    (h : analyzeFn .selfRef opts s tg = .ok (tf, tg')) :
    (declSigOk opts.noDepsValue s (.fn tf.attrs (makeTraitFnSig tf.sig subs opts) none) &&
     implSigOk opts.noDepsValue s (.fn tf.attrs tf.sig (some (delegatingBody mode .none tf))) &&
     predsInScope opts.noDepsValue tp s (.fn tf.attrs (makeTraitFnSig tf.sig subs opts) none) &&
     predsInScope opts.noDepsValue ip s (.fn tf.attrs tf.sig (some (delegatingBody mode .none tf)))) = true := by
  have hs := fnModeSpec h
  obtain ⟨m1, m2, m3, m4, m5, m6⟩ := makeTraitFnSig_fields tf.sig subs opts
  have hd := sigTypesAgree_fn h (makeTraitFnSig tf.sig subs opts) ⟨m1, m2, m3, m4, m5, m6⟩
  have hi := sigTypesAgree_fn h tf.sig ⟨rfl, rfl, rfl, rfl, rfl, rfl⟩
  have hp1 := predsInScope_ok h tp (.fn tf.attrs (makeTraitFnSig tf.sig subs opts) none) _ rfl m2
  have hp2 := predsInScope_ok h ip (.fn tf.attrs tf.sig (some (delegatingBody mode .none tf))) _ rfl rfl
  simp only [Bool.and_eq_true]
  refine ⟨⟨⟨?_, ?_⟩, hp1⟩, hp2⟩
  · simp only [declSigOk, GenMember.sig?, hd.1, hd.2, beq_self_eq_true, Bool.and_self]
  · simp only [implSigOk, GenMember.sig?, hi.1, hi.2, hs.output, hs.async_, beq_self_eq_true, Bool.and_self]


theorem T_C03_fn (v : Variant) (attr : Toks) (f : FnItem) (out : Out)
    (hgen : (Item.fn f).genericsOk = true) (h : expand v attr (.fn f) = .ok out) :
    P_C03 v attr (.fn f) out.view = true := by
  obtain ⟨a, tf, tg, depMode, implBlock, h1, h2, _, h4, rfl⟩ := expandFn_ok h
  have him := genImplBlock_ok h4
  have han : analyzeFns .selfRef (v.apply a.opts) [f.sig] {} = .ok ([tf], tg) := by simp [analyzeFns, h2]
  have hnd : ∀ s ∈ [f.sig], s.typeParamsDistinct = true := by
    simpa [Item.genericsOk, Item.sourceFns] using hgen
  simp only [P_C03, Out.view, View.items, Out.inside, Out.after, List.nil_append, mainImpl?, mainTrait?, implsOf, traitsOf,
    List.getLast?_singleton, List.head?_cons, Item.sourceFns, effectiveOpts, h1, optsNoDeps, List.map_cons, List.map_nil]
  have hper := perFn_ok f.attrs .singleFn
    (genTraitDef (v.apply a.opts) .plain depMode f.attrs a.traitVis a.traitIdent tg {} [tf] .singleFn).preds
    (implWherePreds depMode .none [tf] tg) h2
  simp only [Bool.and_eq_true] at hper
  obtain ⟨⟨⟨p1, p2⟩, p3⟩, p4⟩ := hper
  have hsc := scoping_ok (v.apply a.opts) [f.sig] [tf] tg han hnd
    (genTraitDef (v.apply a.opts) .plain depMode f.attrs a.traitVis a.traitIdent tg {} [tf] .singleFn) implBlock rfl
    (by rw [him]; rfl)
  rw [hsc, him]
  simp only [Bool.and_true, Bool.and_eq_true]
  simp only [genTraitDef, List.map_cons, List.map_nil, zipAll_singleton] at p1 p3 ⊢
  exact ⟨⟨⟨p1, p2⟩, p3⟩, p4⟩

theorem T_C03_mod (v : Variant) (attr : Toks) (m : ModItemIn) (out : Out)
    (hgen : (Item.mod_ m).genericsOk = true) (h : expand v attr (.mod_ m) = .ok out) :
    P_C03 v attr (.mod_ m) out.view = true := by
  simp only [expand] at h
  split at h
  · simp at h
  · obtain ⟨items, a, fns0, fns, tg, depMode, implBlock, h0, h1, h2, hfns, _, h4, rfl⟩ := expandMod_ok h
    have him := genImplBlock_ok h4
    have hnd : ∀ s ∈ (items.filterMap BodyItem.fn?).map (·.sig), s.typeParamsDistinct = true := by
      intro s hs
      obtain ⟨f, hf, rfl⟩ := List.mem_map.mp hs
      have : (items.filterMap BodyItem.fn?).all (fun f => f.sig.typeParamsDistinct) = true := by
        simpa only [Item.genericsOk, Item.sourceFns, h0] using hgen
      exact List.all_eq_true.mp this f hf
    simp only [P_C03, Out.view, View.items, Out.inside, Out.after, mainImpl?, mainTrait?, implsOf, traitsOf,
      List.cons_append, List.nil_append, List.getLast?_singleton, List.head?_cons, Item.sourceFns, h0,
      effectiveOpts, h1, optsNoDeps]
    have hsc := scoping_ok (v.apply a.opts) _ fns0 tg h2 hnd
      (genTraitDef (v.apply a.opts) .plain depMode m.attrs a.traitVis a.traitIdent tg {} fns .module) implBlock rfl
      (by rw [him]; rfl)
    rw [hsc, him]
    have hz := analyzeFns_zip_cfg .selfRef (v.apply a.opts)
      (fun s tf =>
        declSigOk (v.apply a.opts).noDepsValue s (.fn tf.attrs (makeTraitFnSig tf.sig m.attrs (v.apply a.opts)) none) &&
        implSigOk (v.apply a.opts).noDepsValue s (.fn tf.attrs tf.sig (some (delegatingBody .module .none tf))) &&
        predsInScope (v.apply a.opts).noDepsValue tg.preds s (.fn tf.attrs (makeTraitFnSig tf.sig m.attrs (v.apply a.opts)) none) &&
        predsInScope (v.apply a.opts).noDepsValue (implWherePreds depMode .none fns tg) s (.fn tf.attrs tf.sig (some (delegatingBody .module .none tf))))
      (fun _ _ _ => rfl)
      ((items.filterMap BodyItem.fn?).map (·.sig)) {} tg fns0 (bodyFnAttrs items)
      (fun s _ tg0 tf tg1 han => perFn_ok m.attrs .module tg.preds (implWherePreds depMode .none fns tg) han) h2
    rw [← hfns] at hz
    obtain ⟨z1, z2, z3, z4⟩ := zipAll_and4 _ _ _ _ _ _ hz
    simp only [Bool.and_true, Bool.and_eq_true]
    simp only [genTraitDef, zipAll_map_right] at ⊢
    exact ⟨⟨⟨z1, z2⟩, z3⟩, z4⟩

/-- the delegating method of one impl-block function -/
theorem implBlockSig_ok {dyn : Bool} {opts : Opts} {s : Sig} {tg tg' : TraitGenerics} {tf : TraitFn}
    (hn : opts.noDepsValue = false) (hne : unraw s.ident ≠ "__impl")
    (h : analyzeFn (if dyn then .dynamicImpl else .staticImpl) opts s tg = .ok (tf, tg')) (body : Toks)
    (as : List Attr := []) :
    implBlockSigOk dyn s (.fn as tf.sig (some body)) = true := by
  have hs := implModeSpec hn h
  obtain ⟨hgen, hc, hu, ha, hv, _⟩ := analyzeFn_fields h
  let us := (typedArgs (s.inputs.drop 1)).map FnArg.stripAttrs
  obtain ⟨lt, hlt⟩ : ∃ lt, implRecvOf dyn s = implReceiverWith lt := by
    unfold implRecvOf; split <;> exact ⟨_, rfl⟩
  obtain ⟨rest, hfp⟩ := C07.fixParams_impl s.ident hne lt us
  have htyped : typedArgs tf.sig.inputs = implReceiverWith lt :: rest := by rw [hs.typed, hlt]; exact hfp
  have htoks : (typedArgs tf.sig.inputs).map tyToks = tyToks (implReceiverWith lt) :: (typedArgs (s.inputs.drop 1)).map tyToks := by
    have h1 : (typedArgs (typedArgs tf.sig.inputs)).map tyToks = (typedArgs (implReceiverWith lt :: us)).map tyToks := by
      rw [hs.typed, hlt]; exact tyToks_fixParams s.ident _
    rw [typedArgs_idem] at h1
    rw [h1]
    have h2 : typedArgs (implReceiverWith lt :: us) = implReceiverWith lt :: typedArgs us := rfl
    rw [h2]
    simp only [List.map_cons, us]
    rw [← typedArgs_map_strip, typedArgs_idem, tyToks_strip]
  unfold implBlockSigOk
  simp only [GenMember.sig?, Bool.and_eq_true, beq_iff_eq]
  refine ⟨⟨⟨⟨?_, hs.output⟩, hs.async_⟩, by rw [htyped, hlt]; rfl⟩, ?_⟩
  · unfold sigTypesAgree
    simp only [Bool.and_eq_true, beq_iff_eq, Sig.userParams, Bool.false_eq_true, if_false]
    refine ⟨⟨⟨⟨⟨?_, by rw [hgen]; rfl⟩, hc⟩, hu⟩, ha⟩, hv⟩
    rw [List.map_drop, htoks]
    rfl
  · rcases hs.head with ⟨rfl, hh⟩ | ⟨rfl, hh⟩
    · simp only [Bool.false_eq_true, if_false, beq_iff_eq]
      obtain ⟨lt', hlt'⟩ : ∃ lt', implRecvOf false s = implReceiverWith lt' := ⟨_, rfl⟩
      obtain ⟨rest', hfp'⟩ := C07.fixParams_impl s.ident hne lt' ((s.inputs.drop 1).map FnArg.stripAttrs)
      rw [hh, hlt', hfp']; rfl
    · simp only [if_true, beq_iff_eq]; exact hh

theorem T_C03_impl (v : Variant) (attr : Toks) (m : ImplItemIn) (out : Out)
    (hid : (Item.impl m).identsOk = true) (h : expand v attr (.impl m) = .ok out) :
    P_C03 v attr (.impl m) out.view = true := by
  obtain ⟨items, a, fns0, fns, tg, depMode, implBlock, h0, h1, h2, hfns, h3, h4, rfl⟩ := expandImpl_ok h
  subst hfns
  have him := genImplBlock_ok h4
  obtain ⟨im0, h40, _, hep, het, hes, hepr⟩ := genImplBlock_attachCfg h4
  rw [detectDepMode_attachCfg] at h3
  have hnd : (v.apply a.opts).noDepsValue = false := impl_noDepsValue h1
  have hids : ∀ f ∈ items.filterMap BodyItem.fn?, unraw f.sig.ident ≠ "__impl" := by
    have hid' : (items.filterMap BodyItem.fn?).all (fun f => identOk f.sig.ident && unraw f.sig.ident != "__impl") = true := by
      simpa only [Item.identsOk, Item.sourceFns, h0] using hid
    intro f hf
    have := List.all_eq_true.mp hid' f hf
    simp only [Bool.and_eq_true, bne_iff_ne] at this
    exact this.2
  have hhdr := C07.implBlockHeader_ok (v.apply a.opts) a.dynRef hnd m.attrs m.traitPath m.selfTy _ fns0 tg depMode im0 h2 h3 h40
  rw [← hep, ← het, ← hes, ← hepr] at hhdr
  simp only [Bool.and_eq_true] at hhdr
  obtain ⟨⟨⟨hA, hB⟩, _⟩, _⟩ := hhdr
  have hz := analyzeFns_zip_cfg (if a.dynRef then .dynamicImpl else .staticImpl) (v.apply a.opts)
    (fun s tf => implBlockSigOk a.dynRef s
      (.fn tf.attrs tf.sig (some (delegatingBody .implBlock (if a.dynRef then .dynamic m.selfTy else .static_ m.selfTy) tf))))
    (fun _ _ _ => rfl)
    ((items.filterMap BodyItem.fn?).map (·.sig)) {} tg fns0 (bodyFnAttrs items)
    (by
      intro s hs tg0 tf tg1 han
      obtain ⟨f, hf, rfl⟩ := List.mem_map.mp hs
      exact implBlockSig_ok hnd (hids f hf) han _ tf.attrs)
    h2
  simp only [P_C03, h1, Out.view, View.items, Out.inside, Out.after, mainImpl?, implsOf, List.nil_append,
    List.getLast?_singleton, Item.sourceFns, h0, Bool.and_eq_true]
  refine ⟨⟨?_, hA⟩, hB⟩
  rw [him]
  simpa only [zipAll_map_right] using hz

/-- C03 for every input mode -/
theorem T_C03 (v : Variant) (attr : Toks) (item : Item) (out : Out)
    (hid : item.identsOk = true) (hgen : item.genericsOk = true) (h : expand v attr item = .ok out) :
    P_C03 v attr item out.view = true := by
  cases item with
  | fn f => exact T_C03_fn v attr f out hgen h
  | mod_ m => exact T_C03_mod v attr m out hgen h
  | trait t => rfl
  | impl m => exact T_C03_impl v attr m out hid h

/-- the recorded defect of generic scoping: two functions of one module that each declare a
    type parameter `T` give the trait `T` twice (`traitParamsNodup` is false of the model too) -/
theorem C03_dupgeneric_witness :
    let sigOf (name : String) : Sig :=
      { ident := name
        generics := { params := [.ty [] "D" [] false none, .ty [] "T" [] false none] }
        inputs := [.typed [] (.ident false false "d" none) (.ref_ none false (.path false false 1 "D" [i "D"])),
                   .typed [] (.ident false false "t" none) (.path false false 1 "T" [i "T"])] }
    (match analyzeFns .selfRef {} [sigOf "a", sigOf "b"] {} with
     | .ok (_, tg) => tg.params.map GParam.name
     | .error _ => []) = ["T", "T"] := by decide +kernel

end Entrait.C03
