import EntraitProofs.FnMode
import EntraitProofs.Examples
/-
  C01 — calling a generated trait method is calling the original function.

  `T_C01`: for every fn / mod input the model accepts, the generated impl has exactly one method
  per source function, in order, and the body of the method generated for `f` parses as the call
      f([self,] p₁, …, pₙ)[.await]
  where `self` is passed iff the invocation is not `no_deps`, `p₁ … pₙ` are the method's own
  parameter identifiers in declared order — plain, pairwise distinct (given distinct source
  bindings) and different from `f`, so none of them shadows the callee — one per user parameter,
  and `.await` is present iff the source function is async.
-/
namespace Entrait.C01
open Entrait

theorem parseIdentArgs_join : ∀ (names : List String),
    parseIdentArgs (joinSep [p ','] (names.map fun a => [i a])) = some names
  | [] => rfl
  | [a] => rfl
  | a :: b :: rest => by
      have ih := parseIdentArgs_join (b :: rest)
      simp only [List.map_cons, joinSep, i, p] at ih ⊢
      simp [parseIdentArgs, ih]

theorem parseIdentArgs_self_join (names : List String) :
    parseIdentArgs ([i "self", p ','] ++ joinSep [p ','] (names.map fun a => [i a])) = some ("self" :: names) := by
  have ih := parseIdentArgs_join names
  simp only [i, p] at ih ⊢
  simp [parseIdentArgs, ih]

/-- the first argument of a delegating call -/
def selfArgs (tf : TraitFn) : List String :=
  match tf.deps, tf.sig.inputs with
  | .noDeps, _ => []
  | _, [] => []
  | _, _ :: _ => ["self"]

theorem parseCall_delegatingBody (mode : InputMode) (hm : mode ≠ .implBlock) (tf : TraitFn) :
    parseCall (delegatingBody mode .none tf) =
      some { selfScope := false, callee := tf.sig.ident,
             args := selfArgs tf ++ paramIdents tf.sig.inputs, await := tf.originallyAsync } := by
  have hmode : (mode == InputMode.implBlock) = false := by cases mode <;> simp_all
  unfold delegatingBody selfArgs selfCommaOf
  simp only [hmode, Bool.false_eq_true, if_false, List.nil_append]
  have hargs : ∀ (pre : Toks) (pn : List String),
      parseIdentArgs (pre ++ joinSep [p ','] ((paramIdents tf.sig.inputs).map fun a => [i a])) = some (pn ++ paramIdents tf.sig.inputs) →
      parseCall ([i tf.sig.ident, parens (pre ++ joinSep [p ','] ((paramIdents tf.sig.inputs).map fun a => [i a]))] ++
          (if tf.originallyAsync then [p '.', i "await"] else [])) =
        some { selfScope := false, callee := tf.sig.ident, args := pn ++ paramIdents tf.sig.inputs, await := tf.originallyAsync } := by
    intro pre pn hp
    cases ha : tf.originallyAsync <;>
      simp [parseCall, parseAwait, i, p, parens] at hp ⊢ <;> simp [hp]
  cases hd : tf.deps with
  | noDeps => simpa using hargs [] [] (by simpa using parseIdentArgs_join _)
  | generic q bs =>
    cases hi : tf.sig.inputs with
    | nil => simpa [hi, paramIdents] using hargs [] [] (by simp [hi, paramIdents, joinSep, parseIdentArgs])
    | cons x xs => simpa [hi] using hargs [i "self", p ','] ["self"] (by simpa [hi] using parseIdentArgs_self_join _)
  | concrete cty =>
    cases hi : tf.sig.inputs with
    | nil => simpa [hi, paramIdents] using hargs [] [] (by simp [hi, paramIdents, joinSep, parseIdentArgs])
    | cons x xs => simpa [hi] using hargs [i "self", p ','] ["self"] (by simpa [hi] using parseIdentArgs_self_join _)

theorem identOk_notRaw (s : String) (h : identOk s = true) : NotRaw (unraw s) := by
  intro rest hr
  unfold identOk at h
  rw [hr] at h
  simp at h

theorem paramIdents_cons_recv (a r m c) (xs : List FnArg) :
    paramIdents (.recv a r m c :: xs) = paramIdents xs := rfl

theorem allPlain_cons_recv (a r m c) (xs : List FnArg) :
    allPlain (.recv a r m c :: xs) = allPlain xs := rfl

/-- the generated method of one function satisfies the per-method predicate of C01 -/
theorem methodCallsFn_ok (opts : Opts) (mode : InputMode) (hm : mode ≠ .implBlock) (src : FnItem) (tf : TraitFn)
    (hs : FnModeSpec opts src.sig tf) (hid : identOk src.sig.ident = true) (as : List Attr := []) :
    methodCallsFn opts.noDepsValue false src (.fn as tf.sig (some (delegatingBody mode .none tf))) = true := by
  obtain ⟨r, hin⟩ := hs.inputs
  have hnr := identOk_notRaw _ hid
  -- the user parameters, attributes stripped; all typed after `typedArgs`
  let us := (typedArgs (src.sig.userParams opts.noDepsValue)).map FnArg.stripAttrs
  have hty : ∀ u ∈ us, u.isRecv = false := by
    intro u hu
    obtain ⟨w, hw, rfl⟩ := List.mem_map.mp hu
    rw [stripAttrs_isRecv]
    have := (List.mem_filter.mp hw).2
    simpa using this
  have htyped : typedArgs tf.sig.inputs = fixParams src.sig.ident us := by
    rw [hin, typedArgs_cons_recv, typedArgs_fixParams, typedArgs_map_strip]
  have hpi : paramIdents tf.sig.inputs = paramIdents (fixParams src.sig.ident us) := by
    rw [← paramIdents_typedArgs, htyped]
  have hok := paramNamesOk_fixParams src.sig.ident hnr us hty tf.sig
  rw [paramNamesOk_strip] at hok
  unfold paramNamesOk at hok
  simp only [Bool.and_eq_true, List.nil_append] at hok
  obtain ⟨⟨hplain, hnotfn⟩, hrest⟩ := hok
  -- selfArgs
  have hself : selfArgs tf = if opts.noDepsValue then [] else ["self"] := by
    unfold selfArgs
    cases hn : opts.noDepsValue
    · have hne : tf.deps ≠ .noDeps := fun hc => by have := hs.depsNoDeps.mp hc; simp [hn] at this
      rw [hin]
      cases hd : tf.deps <;> simp_all
    · have := hs.depsNoDeps.mpr hn
      simp [this]
  have h2 : ∀ xs : List FnArg, allPlain (typedArgs xs) = allPlain xs := by
    intro xs
    induction xs with
    | nil => rfl
    | cons a rest ih => cases a with
      | recv => simpa [allPlain] using ih
      | typed a pt t => cases pt with
        | ident rr mm nn ss => cases rr <;> cases mm <;> cases ss <;> simp [allPlain, ih]
        | other => simp [allPlain]
  have hc2 : allPlain tf.sig.inputs = true := by
    rw [← h2, htyped]; exact allPlain_fixParams _ _
  have hc3 : (!((paramIdents tf.sig.inputs).map unraw).contains (unraw tf.sig.ident)) = true := by
    rw [hpi, hs.ident]; exact hnotfn
  have hc4 : (nodup ((paramIdents tf.sig.inputs).map unraw) ||
      !nodup (((typedArgs (src.sig.userParams opts.noDepsValue)).filterMap FnArg.providedName).map unraw)) = true := by
    rw [hpi]
    by_cases hnd : nodup (((typedArgs (src.sig.userParams opts.noDepsValue)).filterMap FnArg.providedName).map unraw) = true
    · simp only [hnd, if_true, Bool.and_eq_true] at hrest
      simp [hrest.1]
    · simp [hnd]
  have hc5 : (typedArgs tf.sig.inputs).length = (typedArgs (src.sig.userParams opts.noDepsValue)).length := by
    have h := congrArg List.length htyped
    have hp := paramIdents_fixParams_length src.sig.ident us
    have hap : ∀ xs : List FnArg, allPlain xs = true → (paramIdents xs).length = (typedArgs xs).length := by
      intro xs
      induction xs with
      | nil => intro _; rfl
      | cons a rest ih => cases a with
        | recv => intro hx; simpa [paramIdents] using ih (by simpa [allPlain] using hx)
        | typed a pt t => cases pt with
          | ident rr mm nn ss =>
            intro hx
            cases rr <;> cases mm <;> cases ss <;> simp [allPlain] at hx
            simp [paramIdents, ih hx]
          | other => intro hx; simp [allPlain] at hx
    have h3 := hap _ (allPlain_fixParams src.sig.ident us)
    rw [typedArgs_of_allTyped us hty] at hp
    have hty2 : ∀ u ∈ fixParams src.sig.ident us, u.isRecv = false := by
      have hs2 := sameShape_fixParams src.sig.ident us
      intro u hu
      exact sameShape_noRecv _ _ hs2 hty u hu
    rw [typedArgs_of_allTyped _ hty2] at h3
    rw [h, ← h3, hp]; simp [us]
  have hargs : selfArgs tf ++ paramIdents tf.sig.inputs =
      (if opts.noDepsValue then [] else ["self"]) ++ paramIdents tf.sig.inputs := by rw [hself]
  unfold methodCallsFn
  simp only [parseCall_delegatingBody mode hm tf, hargs, hs.ident, hs.origAsync, beq_self_eq_true, Bool.true_and,
    Bool.false_eq_true, if_false, Nat.add_zero, hc2, hc4, hc5]
  rw [← hs.ident]
  have hc3' : ∀ x ∈ paramIdents tf.sig.inputs, ¬ unraw x = unraw tf.sig.ident := by
    simpa using hc3
  have hc4' : nodup ((paramIdents tf.sig.inputs).map unraw) = true ∨
      nodup (((typedArgs (src.sig.userParams opts.noDepsValue)).filterMap FnArg.providedName).map unraw) = false := by
    simpa using hc4
  simpa using ⟨hc3', hc4'⟩

theorem T_C01 (v : Variant) (attr : Toks) (item : Item) (out : Out)
    (hid : item.identsOk = true) (h : expand v attr item = .ok out) :
    P_C01 v attr item out.view = true := by
  cases item with
  | fn f =>
    obtain ⟨a, tf, tg, depMode, implBlock, h1, h2, _, h4, rfl⟩ := expandFn_ok h
    have hs := fnModeSpec h2
    have him := genImplBlock_ok h4
    have hidf : identOk f.sig.ident = true := by
      simpa [Item.identsOk, Item.sourceFns] using hid
    simp only [P_C01, Out.view, View.items, Out.inside, Out.after, List.nil_append, mainImpl?, implsOf,
      List.getLast?_singleton, Item.sourceFns, effectiveOpts, h1, optsNoDeps]
    rw [him]
    simp only [List.map_cons, List.map_nil, zipAll_singleton]
    exact methodCallsFn_ok (v.apply a.opts) .singleFn (by decide) f tf hs hidf
  | mod_ m =>
    simp only [expand] at h
    split at h
    · simp at h
    · obtain ⟨items, a, fns0, fns, tg, depMode, implBlock, h0, h1, h2, hfns, _, h4, rfl⟩ := expandMod_ok h
      subst hfns
      have him := genImplBlock_ok h4
      simp only [P_C01, Out.view, View.items, Out.inside, Out.after, mainImpl?, implsOf, List.cons_append,
        List.nil_append, List.getLast?_singleton, Item.sourceFns, h0, effectiveOpts, h1, optsNoDeps]
      rw [him]
      simp only [zipAll_map_right]
      have hids : ∀ f ∈ items.filterMap BodyItem.fn?, identOk f.sig.ident = true := by
        have hid' : (items.filterMap BodyItem.fn?).all (fun f => identOk f.sig.ident) = true := by
          simpa only [Item.identsOk, Item.sourceFns, h0] using hid
        exact fun f hf => List.all_eq_true.mp hid' f hf
      have := analyzeFns_zip_cfg .selfRef (v.apply a.opts)
        (fun s tf => methodCallsFn (v.apply a.opts).noDepsValue false { sig := s }
          (.fn tf.attrs tf.sig (some (delegatingBody .module .none tf)))) (fun _ _ _ => rfl)
        ((items.filterMap BodyItem.fn?).map (·.sig)) {} tg fns0 (bodyFnAttrs items)
        (by
          intro s hs tg0 tf tg1 han
          obtain ⟨f, hf, rfl⟩ := List.mem_map.mp hs
          exact methodCallsFn_ok (v.apply a.opts) .module (by decide) { sig := f.sig } tf (fnModeSpec han) (hids f hf) tf.attrs)
        h2
      rw [zipAll_map_left] at this
      -- the predicate only reads the signature of the source function
      refine zipAll_mono _ _ _ _ ?_ this
      intro x _ y _ hxy
      simpa [methodCallsFn] using hxy
  | trait t => simp [P_C01]
  | impl m => simp [P_C01]

/-- non-vacuity: the example function (destructuring and `mut` parameters) satisfies the
    hypotheses and the predicate, by evaluation -/
example :
    (match expand .plain [i "Foo"] (.fn Examples.fnFoo) with
     | .ok out => (Item.fn Examples.fnFoo).identsOk && P_C01 .plain [i "Foo"] (.fn Examples.fnFoo) out.view
     | _ => false) = true := by decide +kernel

end Entrait.C01
