import EntraitProofs.Inversion
import EntraitProofs.Examples
/-
  C17 — options mean what the table says; macro variants are option shorthands.

  Part 1 (`expand_congr_*`): the expansion reads the options only through their *values*
  (`no_deps`, `export`, `?Send`, `unimock`, `mockall` as booleans with their defaults, `mock_api`):
  two attribute parses that agree on those values, on the trait name / visibility / delegation and
  on `ref`, expand identically.
-/
namespace Entrait.C17
open Entrait

/-- the values the expansion can observe -/
structure OptVals where
  noDeps : Bool
  export_ : Bool
  futureSend : Bool
  unimock : Bool
  mockall : Bool
  mockApi : Option String
  deriving DecidableEq, Repr

def vals (o : Opts) : OptVals :=
  { noDeps := o.noDepsValue, export_ := o.exportValue, futureSend := o.futureSendValue,
    unimock := o.unimockValue, mockall := o.mockallValue, mockApi := o.mockApi }

section congr
variable {o o' : Opts} (h : vals o = vals o')
include h

theorem v_noDeps : o.noDepsValue = o'.noDepsValue := congrArg OptVals.noDeps h
theorem v_export : o.exportValue = o'.exportValue := congrArg OptVals.export_ h
theorem v_send : o.futureSendValue = o'.futureSendValue := congrArg OptVals.futureSend h
theorem v_unimock : o.unimockValue = o'.unimockValue := congrArg OptVals.unimock h
theorem v_mockall : o.mockallValue = o'.mockallValue := congrArg OptVals.mockall h
theorem v_mockApi : o.mockApi = o'.mockApi := congrArg OptVals.mockApi h

theorem v_mockable : o.mockable = o'.mockable := by
  unfold Opts.mockable; rw [v_unimock h, v_mockall h, v_mockApi h]

theorem analyzeFn_congr (kind : ReceiverKind) (s : Sig) (tg : TraitGenerics) :
    analyzeFn kind o s tg = analyzeFn kind o' s tg := by
  unfold analyzeFn analyzeFnDeps; rw [v_noDeps h]

theorem analyzeFns_congr (kind : ReceiverKind) : ∀ (sigs : List Sig) (tg : TraitGenerics),
    analyzeFns kind o sigs tg = analyzeFns kind o' sigs tg
  | [], tg => rfl
  | s :: rest, tg => by
      unfold analyzeFns
      rw [analyzeFn_congr h kind s tg]
      cases analyzeFn kind o' s tg with
      | error e => rfl
      | ok r => obtain ⟨tf, tg1⟩ := r; simp only [analyzeFns_congr kind rest tg1]

theorem genTraitDef_congr (ind depMode subAttrs vis ident tg sup fns mode) :
    genTraitDef o ind depMode subAttrs vis ident tg sup fns mode =
    genTraitDef o' ind depMode subAttrs vis ident tg sup fns mode := by
  unfold genTraitDef unimockAttrOf mockallAttrOf makeTraitFnSig
  simp only [v_unimock h, v_mockApi h, v_export h, v_mockall h, v_send h]

theorem genImplBlock_congr (traitRef ind tg mode depMode subAttrs fns) :
    genImplBlock o traitRef ind tg mode depMode subAttrs fns =
    genImplBlock o' traitRef ind tg mode depMode subAttrs fns := by
  unfold genImplBlock; rw [v_mockable h]

theorem noMock_vals : vals (noMockOpts o) = vals (noMockOpts o') := by
  simp only [vals, noMockOpts, Opts.noDepsValue, Opts.exportValue, Opts.futureSendValue, Opts.unimockValue, Opts.mockallValue]
  have h1 := v_noDeps h; have h2 := v_export h; have h3 := v_send h
  simp only [Opts.noDepsValue, Opts.exportValue, Opts.futureSendValue] at h1 h2 h3
  rw [h1, h2, h3]

end congr

/-- fn / mod attributes agreeing on the observable values -/
def FnAttrEquiv (v1 v2 : Variant) (a b : FnAttr) : Prop :=
  a.traitVis = b.traitVis ∧ a.traitIdent = b.traitIdent ∧ vals (v1.apply a.opts) = vals (v2.apply b.opts)

theorem expandFn_congr (v1 v2 : Variant) (attr1 attr2 : Toks) (f : FnItem) (a b : FnAttr)
    (h1 : parseFnAttr attr1 = .ok a) (h2 : parseFnAttr attr2 = .ok b) (he : FnAttrEquiv v1 v2 a b) :
    expandFn v1 attr1 f = expandFn v2 attr2 f := by
  obtain ⟨hv, hi, ho⟩ := he
  unfold expandFn
  simp only [h1, h2, analyzeFn_congr ho, hv, hi]
  cases analyzeFn .selfRef (v2.apply b.opts) f.sig {} with
  | error e => rfl
  | ok r =>
    obtain ⟨tf, tg⟩ := r
    simp only []
    cases detectDepMode .singleFn [tf] with
    | error e => rfl
    | ok d => simp only [genTraitDef_congr ho, genImplBlock_congr ho]

theorem expandMod_congr (v1 v2 : Variant) (attr1 attr2 : Toks) (m : ModItemIn) (a b : FnAttr)
    (h1 : parseFnAttr attr1 = .ok a) (h2 : parseFnAttr attr2 = .ok b) (he : FnAttrEquiv v1 v2 a b) :
    expandMod v1 attr1 m = expandMod v2 attr2 m := by
  obtain ⟨hv, hi, ho⟩ := he
  unfold expandMod
  cases splitBody false m.oracle m.body.length m.body with
  | error e => rfl
  | ok items =>
    simp only [h1, h2, analyzeFns_congr ho, hv, hi]
    cases analyzeFns .selfRef (v2.apply b.opts) ((items.filterMap BodyItem.fn?).map (·.sig)) {} with
    | error e => rfl
    | ok r =>
      obtain ⟨fns, tg⟩ := r
      simp only []
      cases detectDepMode .module fns with
      | error e => rfl
      | ok d => simp only [genTraitDef_congr ho, genImplBlock_congr ho]

def TraitAttrEquiv (v1 v2 : Variant) (a b : TraitAttr) : Prop :=
  a.implTrait = b.implTrait ∧ a.delegation = b.delegation ∧ vals (v1.apply a.opts) = vals (v2.apply b.opts)

theorem genDelegationTraitDefs_congr {a b : TraitAttr} (hi : a.implTrait = b.implTrait) (hd : a.delegation = b.delegation)
    (ho : vals a.opts = vals b.opts) (vis tg fns subs) :
    genDelegationTraitDefs a vis tg fns subs = genDelegationTraitDefs b vis tg fns subs := by
  unfold genDelegationTraitDefs
  rw [hi, hd]
  simp only [genTraitDef_congr (noMock_vals ho)]

theorem expandTrait_congr (v1 v2 : Variant) (attr1 attr2 : Toks) (t : TraitItem) (a b : TraitAttr)
    (h1 : parseTraitAttr attr1 = .ok a) (h2 : parseTraitAttr attr2 = .ok b) (he : TraitAttrEquiv v1 v2 a b) :
    expandTrait v1 attr1 t = expandTrait v2 attr2 t := by
  obtain ⟨hi, hd, ho⟩ := he
  unfold expandTrait
  simp only [h1, h2, hi, hd]
  split
  · rfl
  · cases analyzeTraitMembers t.members with
    | error e => rfl
    | ok fns =>
      simp only []
      have hg := genDelegationTraitDefs_congr (a := { a with opts := v1.apply a.opts }) (b := { b with opts := v2.apply b.opts })
        hi hd ho t.vis
        { params := t.generics.params, preds := t.generics.preds, wtrail := t.generics.wtrail } fns
        (t.attrs.filter (fun a => a.subKind == .asyncTrait))
      simp only [hi, hd] at hg
      rw [hg]
      cases genDelegationTraitDefs { implTrait := b.implTrait, opts := v2.apply b.opts, delegation := b.delegation } t.vis
        { params := t.generics.params, preds := t.generics.preds, wtrail := t.generics.wtrail } fns
        (t.attrs.filter (fun a => a.subKind == .asyncTrait)) with
      | error e => rfl
      | ok del =>
        simp only [genTraitDef_congr ho]
        rfl

def ImplAttrEquiv (v1 v2 : Variant) (a b : ImplAttr) : Prop :=
  a.dynRef = b.dynRef ∧ vals (v1.apply a.opts) = vals (v2.apply b.opts)

theorem expandImpl_congr (v1 v2 : Variant) (attr1 attr2 : Toks) (m : ImplItemIn) (a b : ImplAttr)
    (h1 : parseImplAttr attr1 = .ok a) (h2 : parseImplAttr attr2 = .ok b) (he : ImplAttrEquiv v1 v2 a b) :
    expandImpl v1 attr1 m = expandImpl v2 attr2 m := by
  obtain ⟨hd, ho⟩ := he
  unfold expandImpl
  cases splitBody true m.oracle m.body.length m.body with
  | error e => rfl
  | ok items =>
    simp only [h1, h2, analyzeFns_congr ho, hd]
    cases analyzeFns (if b.dynRef then .dynamicImpl else .staticImpl) (v2.apply b.opts)
        ((items.filterMap BodyItem.fn?).map (·.sig)) {} with
    | error e => rfl
    | ok r =>
      obtain ⟨fns, tg⟩ := r
      simp only []
      cases detectDepMode .implBlock fns with
      | error e => rfl
      | ok d => simp only [genImplBlock_congr ho]


/-! ## Part 2 — the comma-separated option list -/

def isComma : TT → Bool
  | .punct ',' => true
  | _ => false

def CommaFree (seg : Toks) : Prop := ∀ t ∈ seg, isComma t = false

theorem not_comma_of {t : TT} (ht : isComma t = false) : t = TT.punct ',' → False := by
  intro h; subst h; simp [isComma] at ht

theorem splitCommas_ne_nil : ∀ ts : Toks, splitCommas ts ≠ []
  | [] => by simp [splitCommas]
  | t :: rest => by
      cases ht : isComma t with
      | true =>
        have : t = .punct ',' := by
          cases t with
          | punct c => unfold isComma at ht; split at ht <;> simp_all
          | ident s => simp [isComma] at ht
          | lit s => simp [isComma] at ht
          | group d g => simp [isComma] at ht
        subst this
        rw [splitCommas.eq_2]; simp
      | false =>
        rw [splitCommas.eq_3 t rest (not_comma_of ht)]
        split <;> simp

theorem splitCommas_cons_comma (rest : Toks) : splitCommas (.punct ',' :: rest) = [] :: splitCommas rest :=
  splitCommas.eq_2 rest

theorem splitCommas_cons_other (t : TT) (ht : isComma t = false) (rest : Toks) :
    ∃ seg segs, splitCommas rest = seg :: segs ∧ splitCommas (t :: rest) = (t :: seg) :: segs := by
  cases hs : splitCommas rest with
  | nil => exact absurd hs (splitCommas_ne_nil rest)
  | cons seg segs =>
    refine ⟨seg, segs, rfl, ?_⟩
    rw [splitCommas.eq_3 t rest (not_comma_of ht), hs]

/-- a comma in the middle separates the segment lists -/
theorem splitCommas_append : ∀ (xs ys : Toks),
    splitCommas (xs ++ .punct ',' :: ys) = splitCommas xs ++ splitCommas ys
  | [], ys => by simp [splitCommas]
  | t :: rest, ys => by
      have ih := splitCommas_append rest ys
      cases ht : isComma t with
      | true =>
        cases t with
        | punct c =>
          have : c = ',' := by
            unfold isComma at ht; split at ht <;> simp_all
          subst this
          simp only [List.cons_append, splitCommas_cons_comma, ih]
        | ident s => simp [isComma] at ht
        | lit s => simp [isComma] at ht
        | group d g => simp [isComma] at ht
      | false =>
        obtain ⟨seg, segs, h1, h2⟩ := splitCommas_cons_other t ht rest
        obtain ⟨seg', segs', h1', h2'⟩ := splitCommas_cons_other t ht (rest ++ .punct ',' :: ys)
        rw [ih, h1] at h1'
        simp only [List.cons_append, List.cons.injEq] at h1'
        obtain ⟨rfl, rfl⟩ := h1'
        simp only [List.cons_append, h2', h2]

theorem splitCommas_commaFree : ∀ (seg : Toks), CommaFree seg → splitCommas seg = [seg]
  | [], _ => by simp [splitCommas]
  | t :: rest, h => by
      have ih := splitCommas_commaFree rest (fun x hx => h x (List.mem_cons_of_mem _ hx))
      obtain ⟨seg, segs, h1, h2⟩ := splitCommas_cons_other t (h t List.mem_cons_self) rest
      rw [ih] at h1
      simp only [List.cons.injEq] at h1
      obtain ⟨rfl, rfl⟩ := h1
      exact h2

/-- `…, seg` at the end of the argument list -/
theorem splitCommas_snoc (pre seg : Toks) (hs : CommaFree seg) :
    splitCommas (pre ++ .punct ',' :: seg) = splitCommas pre ++ [seg] := by
  rw [splitCommas_append, splitCommas_commaFree seg hs]

/-- `…, seg, …` in the middle -/
theorem splitCommas_mid (pre seg post : Toks) (hs : CommaFree seg) :
    splitCommas (pre ++ .punct ',' :: (seg ++ .punct ',' :: post)) = splitCommas pre ++ seg :: splitCommas post := by
  rw [splitCommas_append, splitCommas_append, splitCommas_commaFree seg hs]
  rfl

/-! ### outcomes of parsing an option list -/

/-- the option a completely consumed segment denotes -/
def segOpt (seg : Toks) : Option Opt :=
  match parseOpt seg with
  | .ok (o, []) => some o
  | _ => none

theorem parseOptSegs_cons_ok {σ : Type} (set : σ → Opt → Option σ) (st : σ) (seg : Toks) (segs : List Toks) (r : σ) :
    parseOptSegs set st (seg :: segs) = .ok r ↔
      ∃ o st', segOpt seg = some o ∧ set st o = some st' ∧ parseOptSegs set st' segs = .ok r := by
  rw [parseOptSegs.eq_2]
  unfold segOpt
  cases hp : parseOpt seg with
  | error e => simp
  | ok or =>
    obtain ⟨o, rest⟩ := or
    simp only []
    cases hs : set st o with
    | none => cases rest <;> simp [hs]
    | some st' =>
      cases rest with
      | nil => simp [hs]
      | cons x xs => simp

theorem parseOptSegs_append {σ : Type} (set : σ → Opt → Option σ) : ∀ (a b : List Toks) (st : σ),
    parseOptSegs set st (a ++ b) =
      match parseOptSegs set st a with
      | .error e => .error e
      | .ok st' => parseOptSegs set st' b
  | [], b, st => by simp [parseOptSegs]
  | seg :: a, b, st => by
      simp only [List.cons_append]
      rw [parseOptSegs.eq_2, parseOptSegs.eq_2]
      cases parseOpt seg with
      | error e => rfl
      | ok or =>
        obtain ⟨o, rest⟩ := or
        simp only []
        cases set st o with
        | none => rfl
        | some st' =>
          simp only []
          split
          · exact parseOptSegs_append set a b st'
          · rfl

/-- segments that parse alike can be exchanged -/
theorem parseOptSegs_congr {σ : Type} (set : σ → Opt → Option σ) : ∀ (l1 l2 : List Toks) (st : σ),
    l1.map parseOpt = l2.map parseOpt → parseOptSegs set st l1 = parseOptSegs set st l2
  | [], [], _, _ => rfl
  | [], _ :: _, _, h => by simp at h
  | _ :: _, [], _, h => by simp at h
  | x :: l1, y :: l2, st, h => by
      simp only [List.map_cons, List.cons.injEq] at h
      rw [parseOptSegs.eq_2, parseOptSegs.eq_2, h.1]
      cases parseOpt y with
      | error e => rfl
      | ok or =>
        obtain ⟨o, rest⟩ := or
        simp only []
        cases set st o with
        | none => rfl
        | some st' => simp only [parseOptSegs_congr set l1 l2 st' h.2]


/-! ## Part 3 — attribute argument lists as lists of segments -/

/-- the argument list written from its comma-separated segments -/
def attrOf (segs : List Toks) : Toks := joinSep [p ','] segs

theorem splitCommas_attrOf : ∀ (segs : List Toks), segs ≠ [] → (∀ s ∈ segs, CommaFree s) →
    splitCommas (attrOf segs) = segs
  | [], h, _ => absurd rfl h
  | [x], _, hc => by
      simp only [attrOf, joinSep]
      exact splitCommas_commaFree x (hc x List.mem_cons_self)
  | x :: y :: rest, _, hc => by
      have ih := splitCommas_attrOf (y :: rest) (by simp) (fun s hs => hc s (List.mem_cons_of_mem _ hs))
      simp only [attrOf, joinSep] at ih ⊢
      have : x ++ [p ','] ++ joinSep [p ','] (y :: rest) = x ++ TT.punct ',' :: joinSep [p ','] (y :: rest) := by
        simp [p]
      rw [this, splitCommas_append, splitCommas_commaFree x (hc x List.mem_cons_self), ih]
      rfl

/-- every argument list is `attrOf` of its segments (so the theorems below, stated over segment
    lists, speak about all argument lists) -/
theorem attrOf_splitCommas : ∀ ts : Toks, attrOf (splitCommas ts) = ts
  | [] => rfl
  | t :: rest => by
      have ih := attrOf_splitCommas rest
      cases ht : isComma t with
      | true =>
        have : t = .punct ',' := by
          cases t with
          | punct c => unfold isComma at ht; split at ht <;> simp_all
          | ident s => simp [isComma] at ht
          | lit s => simp [isComma] at ht
          | group d g => simp [isComma] at ht
        subst this
        rw [splitCommas_cons_comma]
        cases hs : splitCommas rest with
        | nil => exact absurd hs (splitCommas_ne_nil rest)
        | cons seg segs =>
          rw [hs] at ih
          simp only [attrOf, joinSep, List.nil_append] at ih ⊢
          rw [ih]; rfl
      | false =>
        obtain ⟨seg, segs, h1, h2⟩ := splitCommas_cons_other t ht rest
        rw [h2]
        rw [h1] at ih
        cases segs with
        | nil => simp only [attrOf, joinSep] at ih ⊢; rw [ih]
        | cons s2 ss =>
          simp only [attrOf, joinSep] at ih ⊢
          rw [← ih]; simp

theorem commaFree_of_split : ∀ (ts : Toks), ∀ s ∈ splitCommas ts, CommaFree s
  | [], s, hs => by simp [splitCommas] at hs; subst hs; intro t ht; simp at ht
  | t :: rest, s, hs => by
      have ih := commaFree_of_split rest
      cases ht : isComma t with
      | true =>
        have : t = .punct ',' := by
          cases t with
          | punct c => unfold isComma at ht; split at ht <;> simp_all
          | ident s => simp [isComma] at ht
          | lit s => simp [isComma] at ht
          | group d g => simp [isComma] at ht
        subst this
        rw [splitCommas_cons_comma] at hs
        rcases List.mem_cons.mp hs with rfl | hs
        · intro x hx; simp at hx
        · exact ih s hs
      | false =>
        obtain ⟨seg, segs, h1, h2⟩ := splitCommas_cons_other t ht rest
        rw [h2] at hs
        rcases List.mem_cons.mp hs with rfl | hs
        · intro x hx
          rcases List.mem_cons.mp hx with rfl | hx
          · exact ht
          · exact ih seg (by rw [h1]; exact List.mem_cons_self) x hx
        · exact ih s (by rw [h1]; exact List.mem_cons_of_mem _ hs)

/-! ### expansion is a function of the parsed attribute -/

def ParseRel {α : Type} (E : α → α → Prop) (r1 r2 : Except PErr α) : Prop :=
  match r1, r2 with
  | .error e1, .error e2 => e1 = e2
  | .ok a, .ok b => E a b
  | _, _ => False

theorem expand_fnmod_of_rel (v1 v2 : Variant) (a1 a2 : Toks)
    (h : ParseRel (FnAttrEquiv v1 v2) (parseFnAttr a1) (parseFnAttr a2)) :
    (∀ f, expand v1 a1 (.fn f) = expand v2 a2 (.fn f)) ∧ (∀ m, expand v1 a1 (.mod_ m) = expand v2 a2 (.mod_ m)) := by
  unfold ParseRel at h
  cases h1 : parseFnAttr a1 with
  | error e1 =>
    cases h2 : parseFnAttr a2 with
    | error e2 =>
      rw [h1, h2] at h
      simp only at h
      subst h
      constructor
      · intro f; simp only [expand, expandFn, h1, h2]
      · intro m
        simp only [expand]
        split
        · rfl
        · unfold expandMod
          cases splitBody false m.oracle m.body.length m.body with
          | error e => rfl
          | ok items => simp only [h1, h2]
    | ok b => rw [h1, h2] at h; exact absurd h (by simp)
  | ok a =>
    cases h2 : parseFnAttr a2 with
    | error e2 => rw [h1, h2] at h; exact absurd h (by simp)
    | ok b =>
      rw [h1, h2] at h
      constructor
      · intro f; exact expandFn_congr v1 v2 a1 a2 f a b h1 h2 h
      · intro m
        simp only [expand]
        split
        · rfl
        · exact expandMod_congr v1 v2 a1 a2 m a b h1 h2 h

theorem expand_trait_of_rel (v1 v2 : Variant) (a1 a2 : Toks)
    (h : ParseRel (TraitAttrEquiv v1 v2) (parseTraitAttr a1) (parseTraitAttr a2)) (t : TraitItem) :
    expand v1 a1 (.trait t) = expand v2 a2 (.trait t) := by
  unfold ParseRel at h
  cases h1 : parseTraitAttr a1 with
  | error e1 =>
    cases h2 : parseTraitAttr a2 with
    | error e2 =>
      rw [h1, h2] at h
      simp only at h
      subst h
      simp only [expand, expandTrait, h1, h2]
    | ok b => rw [h1, h2] at h; exact absurd h (by simp)
  | ok a =>
    cases h2 : parseTraitAttr a2 with
    | error e2 => rw [h1, h2] at h; exact absurd h (by simp)
    | ok b =>
      rw [h1, h2] at h
      exact expandTrait_congr v1 v2 a1 a2 t a b h1 h2 h

theorem parseRel_refl_fn (v : Variant) (r : Except PErr FnAttr) : ParseRel (FnAttrEquiv v v) r r := by
  cases r with
  | error e => rfl
  | ok a => exact ⟨rfl, rfl, rfl⟩

theorem parseRel_refl_trait (v : Variant) (r : Except PErr TraitAttr) : ParseRel (TraitAttrEquiv v v) r r := by
  cases r with
  | error e => rfl
  | ok a => exact ⟨rfl, rfl, rfl⟩

/-! ### (a) an option written bare is identical to `option = true` -/

def boolOptNames : List String := ["no_deps", "debug", "export", "unimock", "mockall"]

theorem bare_eq_true (s : String) (hs : s ∈ boolOptNames) :
    parseOpt [i s] = parseOpt [i s, p '=', i "true"] := by
  simp only [boolOptNames, List.mem_cons, List.mem_nil_iff, or_false] at hs
  rcases hs with rfl | rfl | rfl | rfl | rfl <;> rfl

theorem bare_ok (s : String) (hs : s ∈ boolOptNames) : ∃ o, parseOpt [i s] = .ok (o, []) := by
  simp only [boolOptNames, List.mem_cons, List.mem_nil_iff, or_false] at hs
  rcases hs with rfl | rfl | rfl | rfl | rfl
  · exact ⟨.noDeps true, rfl⟩
  · exact ⟨.debug true, rfl⟩
  · exact ⟨.export_ true, rfl⟩
  · exact ⟨.unimock true, rfl⟩
  · exact ⟨.mockall true, rfl⟩

theorem commaFree_bare (s : String) : CommaFree [i s] := by
  intro t ht; simp only [List.mem_singleton] at ht; subst ht; rfl

theorem commaFree_eqTrue (s : String) : CommaFree [i s, p '=', i "true"] := by
  intro t ht
  simp only [List.mem_cons, List.mem_nil_iff, or_false] at ht
  rcases ht with rfl | rfl | rfl <;> rfl

theorem commaFree_all_append {A B : List Toks} {x : Toks} (hA : ∀ s ∈ A, CommaFree s) (hx : CommaFree x)
    (hB : ∀ s ∈ B, CommaFree s) : ∀ s ∈ A ++ x :: B, CommaFree s := by
  intro s hs
  rcases List.mem_append.mp hs with h | h
  · exact hA s h
  · rcases List.mem_cons.mp h with rfl | h
    · exact hx
    · exact hB s h

/-- exchanging one option segment for another that parses alike: fn / mod targets -/
theorem parseFnAttr_replace (a0 : Toks) (A B : List Toks) (x y : Toks)
    (ha0 : CommaFree a0) (hA : ∀ s ∈ A, CommaFree s) (hB : ∀ s ∈ B, CommaFree s) (hx : CommaFree x) (hy : CommaFree y)
    (hxy : parseOpt x = parseOpt y) :
    parseFnAttr (attrOf (a0 :: A ++ x :: B)) = parseFnAttr (attrOf (a0 :: A ++ y :: B)) := by
  have hc1 : ∀ s ∈ a0 :: (A ++ x :: B), CommaFree s := by
    intro s hs
    rcases List.mem_cons.mp hs with rfl | hs
    · exact ha0
    · exact commaFree_all_append hA hx hB s hs
  have hc2 : ∀ s ∈ a0 :: (A ++ y :: B), CommaFree s := by
    intro s hs
    rcases List.mem_cons.mp hs with rfl | hs
    · exact ha0
    · exact commaFree_all_append hA hy hB s hs
  unfold parseFnAttr
  rw [List.cons_append, List.cons_append, splitCommas_attrOf _ (by simp) hc1, splitCommas_attrOf _ (by simp) hc2]
  unfold parseFnSegs
  have : parseOptSegs Opts.setFn {} (A ++ x :: B) = parseOptSegs Opts.setFn {} (A ++ y :: B) :=
    parseOptSegs_congr _ _ _ _ (by simp [hxy])
  simp only [this]

theorem attrOf_ne_nil_of_mem {segs : List Toks} {x : Toks} (hx : x ≠ []) (hm : x ∈ segs) : attrOf segs ≠ [] := by
  induction segs with
  | nil => simp at hm
  | cons a rest ih =>
    cases rest with
    | nil =>
      simp only [List.mem_singleton] at hm
      subst hm
      simpa [attrOf, joinSep] using hx
    | cons b rest' =>
      simp only [attrOf, joinSep]
      intro h
      simp [p] at h

theorem parseTraitSegs_cons (seg0 : Toks) (segs : List Toks) :
    parseTraitSegs (seg0 :: segs) =
      match parseOpt seg0 with
      | .ok _ => parseOptSegs TraitAttr.set {} (seg0 :: segs)
      | .error _ =>
        match parseVis seg0 with
        | .error e => .error e
        | .ok (vis, rest) =>
          match rest with
          | .ident name :: rest0 =>
              if isKeyword name then .error .syn
              else
                parseOptSegs TraitAttr.set { implTrait := some (vis, name) }
                  (if !rest0.isEmpty then rest0 :: segs else if segs == [[]] then [] else segs)
          | _ => .error .syn := rfl

/-- exchanging one option segment for another that parses alike (successfully): trait targets -/
theorem parseTraitAttr_replace (A B : List Toks) (x y : Toks) (o : Opt) (r1 : Toks)
    (hA : ∀ s ∈ A, CommaFree s) (hB : ∀ s ∈ B, CommaFree s) (hx : CommaFree x) (hy : CommaFree y)
    (hpx : parseOpt x = .ok (o, r1)) (hxy : parseOpt x = parseOpt y) (hxn : x ≠ []) (hyn : y ≠ []) :
    parseTraitAttr (attrOf (A ++ x :: B)) = parseTraitAttr (attrOf (A ++ y :: B)) := by
  have hc1 := commaFree_all_append hA hx hB
  have hc2 := commaFree_all_append hA hy hB
  have hn1 : attrOf (A ++ x :: B) ≠ [] := attrOf_ne_nil_of_mem hxn (by simp)
  have hn2 : attrOf (A ++ y :: B) ≠ [] := attrOf_ne_nil_of_mem hyn (by simp)
  unfold parseTraitAttr
  simp only [List.isEmpty_iff, hn1, hn2, if_false]
  rw [splitCommas_attrOf _ (by simp) hc1, splitCommas_attrOf _ (by simp) hc2]
  cases A with
  | nil =>
    simp only [List.nil_append]
    rw [parseTraitSegs_cons, parseTraitSegs_cons, ← hxy, hpx]
    exact parseOptSegs_congr _ _ _ _ (by simp [hxy])
  | cons a0 A' =>
    simp only [List.cons_append]
    rw [parseTraitSegs_cons, parseTraitSegs_cons]
    cases hp0 : parseOpt a0 with
    | ok r => exact parseOptSegs_congr _ _ _ _ (by simp [hxy])
    | error e =>
      simp only []
      cases parseVis a0 with
      | error e => rfl
      | ok vr =>
        obtain ⟨vis, rest⟩ := vr
        simp only []
        cases rest with
        | nil => rfl
        | cons t0 rest0 =>
          cases t0 with
          | ident name =>
            simp only []
            split
            · rfl
            · have hne1 : (A' ++ x :: B == [[]]) = false := by
                cases A' with
                | nil => cases B <;> simp [hxn]
                | cons q qs => cases qs <;> simp
              have hne2 : (A' ++ y :: B == [[]]) = false := by
                cases A' with
                | nil => cases B <;> simp [hyn]
                | cons q qs => cases qs <;> simp
              simp only [hne1, hne2, Bool.false_eq_true, if_false]
              split
              · exact parseOptSegs_congr _ _ _ _ (by simp [hxy])
              · exact parseOptSegs_congr _ _ _ _ (by simp [hxy])
          | punct c => rfl
          | lit l => rfl
          | group d g => rfl

/-- **bare ≡ `= true`**, for every boolean option, at any position of the option list, for every
    variant and every fn / mod / trait item -/
theorem T_C17_bare (v : Variant) (s : String) (hs : s ∈ boolOptNames) (a0 : Toks) (A B : List Toks)
    (ha0 : CommaFree a0) (hA : ∀ s ∈ A, CommaFree s) (hB : ∀ s ∈ B, CommaFree s) :
    (∀ f, expand v (attrOf (a0 :: A ++ [i s] :: B)) (.fn f) = expand v (attrOf (a0 :: A ++ [i s, p '=', i "true"] :: B)) (.fn f)) ∧
    (∀ m, expand v (attrOf (a0 :: A ++ [i s] :: B)) (.mod_ m) = expand v (attrOf (a0 :: A ++ [i s, p '=', i "true"] :: B)) (.mod_ m)) ∧
    (∀ t, expand v (attrOf (A ++ [i s] :: B)) (.trait t) = expand v (attrOf (A ++ [i s, p '=', i "true"] :: B)) (.trait t)) := by
  have hfn := parseFnAttr_replace a0 A B [i s] [i s, p '=', i "true"] ha0 hA hB (commaFree_bare s) (commaFree_eqTrue s)
    (bare_eq_true s hs)
  obtain ⟨o, hok⟩ := bare_ok s hs
  have htr := parseTraitAttr_replace A B [i s] [i s, p '=', i "true"] o [] hA hB (commaFree_bare s) (commaFree_eqTrue s)
    hok (bare_eq_true s hs) (by simp) (by simp)
  have h1 := expand_fnmod_of_rel v v (attrOf (a0 :: A ++ [i s] :: B)) (attrOf (a0 :: A ++ [i s, p '=', i "true"] :: B))
    (by rw [hfn]; exact parseRel_refl_fn v _)
  refine ⟨h1.1, h1.2, fun t => ?_⟩
  exact expand_trait_of_rel v v (attrOf (A ++ [i s] :: B)) (attrOf (A ++ [i s, p '=', i "true"] :: B))
    (by rw [htr]; exact parseRel_refl_trait v _) t

end Entrait.C17
