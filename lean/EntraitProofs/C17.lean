import EntraitProofs.Inversion
import EntraitProofs.Examples
/-
  C17 — options mean what the table says; macro variants are option shorthands.

  Part 1 (`expand_congr_*`): the expansion reads the options only through their *values*
  (`no_deps`, `export`, `?Send`, `unimock`, `mockall` as booleans with their defaults, `mock_api`):
  two attribute parses that agree on those values, on the trait name / visibility / delegation and
  on `ref`, expand identically.
-/
namespace Entrait.C17
open Entrait

/-- the values the expansion can observe -/
structure OptVals where
  noDeps : Bool
  export_ : Bool
  futureSend : Bool
  unimock : Bool
  mockall : Bool
  mockApi : Option String
  deriving DecidableEq, Repr

def vals (o : Opts) : OptVals :=
  { noDeps := o.noDepsValue, export_ := o.exportValue, futureSend := o.futureSendValue,
    unimock := o.unimockValue, mockall := o.mockallValue, mockApi := o.mockApi }

section congr
variable {o o' : Opts} (h : vals o = vals o')
include h

theorem v_noDeps : o.noDepsValue = o'.noDepsValue := congrArg OptVals.noDeps h
theorem v_export : o.exportValue = o'.exportValue := congrArg OptVals.export_ h
theorem v_send : o.futureSendValue = o'.futureSendValue := congrArg OptVals.futureSend h
theorem v_unimock : o.unimockValue = o'.unimockValue := congrArg OptVals.unimock h
theorem v_mockall : o.mockallValue = o'.mockallValue := congrArg OptVals.mockall h
theorem v_mockApi : o.mockApi = o'.mockApi := congrArg OptVals.mockApi h

theorem v_mockable : o.mockable = o'.mockable := by
  unfold Opts.mockable; rw [v_unimock h, v_mockall h, v_mockApi h]

theorem analyzeFn_congr (kind : ReceiverKind) (s : Sig) (tg : TraitGenerics) :
    analyzeFn kind o s tg = analyzeFn kind o' s tg := by
  unfold analyzeFn analyzeFnDeps; rw [v_noDeps h]

theorem analyzeFns_congr (kind : ReceiverKind) : ∀ (sigs : List Sig) (tg : TraitGenerics),
    analyzeFns kind o sigs tg = analyzeFns kind o' sigs tg
  | [], tg => rfl
  | s :: rest, tg => by
      unfold analyzeFns
      rw [analyzeFn_congr h kind s tg]
      cases analyzeFn kind o' s tg with
      | error e => rfl
      | ok r => obtain ⟨tf, tg1⟩ := r; simp only [analyzeFns_congr kind rest tg1]

theorem genTraitDef_congr (ind depMode subAttrs vis ident tg sup fns mode) :
    genTraitDef o ind depMode subAttrs vis ident tg sup fns mode =
    genTraitDef o' ind depMode subAttrs vis ident tg sup fns mode := by
  unfold genTraitDef unimockAttrOf mockallAttrOf makeTraitFnSig
  simp only [v_unimock h, v_mockApi h, v_export h, v_mockall h, v_send h]

theorem genImplBlock_congr (traitRef ind tg mode depMode subAttrs fns) :
    genImplBlock o traitRef ind tg mode depMode subAttrs fns =
    genImplBlock o' traitRef ind tg mode depMode subAttrs fns := by
  unfold genImplBlock; rw [v_mockable h]

theorem noMock_vals : vals (noMockOpts o) = vals (noMockOpts o') := by
  simp only [vals, noMockOpts, Opts.noDepsValue, Opts.exportValue, Opts.futureSendValue, Opts.unimockValue, Opts.mockallValue]
  have h1 := v_noDeps h; have h2 := v_export h; have h3 := v_send h
  simp only [Opts.noDepsValue, Opts.exportValue, Opts.futureSendValue] at h1 h2 h3
  rw [h1, h2, h3]

end congr

/-- fn / mod attributes agreeing on the observable values -/
def FnAttrEquiv (v1 v2 : Variant) (a b : FnAttr) : Prop :=
  a.traitVis = b.traitVis ∧ a.traitIdent = b.traitIdent ∧ vals (v1.apply a.opts) = vals (v2.apply b.opts)

theorem expandFn_congr (v1 v2 : Variant) (attr1 attr2 : Toks) (f : FnItem) (a b : FnAttr)
    (h1 : parseFnAttr attr1 = .ok a) (h2 : parseFnAttr attr2 = .ok b) (he : FnAttrEquiv v1 v2 a b) :
    expandFn v1 attr1 f = expandFn v2 attr2 f := by
  obtain ⟨hv, hi, ho⟩ := he
  unfold expandFn
  simp only [h1, h2, analyzeFn_congr ho, hv, hi]
  cases analyzeFn .selfRef (v2.apply b.opts) f.sig {} with
  | error e => rfl
  | ok r =>
    obtain ⟨tf, tg⟩ := r
    simp only []
    cases detectDepMode .singleFn [tf] with
    | error e => rfl
    | ok d => simp only [genTraitDef_congr ho, genImplBlock_congr ho]

theorem expandMod_congr (v1 v2 : Variant) (attr1 attr2 : Toks) (m : ModItemIn) (a b : FnAttr)
    (h1 : parseFnAttr attr1 = .ok a) (h2 : parseFnAttr attr2 = .ok b) (he : FnAttrEquiv v1 v2 a b) :
    expandMod v1 attr1 m = expandMod v2 attr2 m := by
  obtain ⟨hv, hi, ho⟩ := he
  unfold expandMod
  cases splitBody false m.oracle m.body.length m.body with
  | error e => rfl
  | ok items =>
    simp only [h1, h2, analyzeFns_congr ho, hv, hi]
    cases analyzeFns .selfRef (v2.apply b.opts) ((items.filterMap BodyItem.fn?).map (·.sig)) {} with
    | error e => rfl
    | ok r =>
      obtain ⟨fns, tg⟩ := r
      simp only []
      cases detectDepMode .module (attachCfg (bodyFnAttrs items) fns) with
      | error e => rfl
      | ok d => simp only [genTraitDef_congr ho, genImplBlock_congr ho]

def TraitAttrEquiv (v1 v2 : Variant) (a b : TraitAttr) : Prop :=
  a.implTrait = b.implTrait ∧ a.delegation = b.delegation ∧ vals (v1.apply a.opts) = vals (v2.apply b.opts)

theorem genDelegationTraitDefs_congr {a b : TraitAttr} (hi : a.implTrait = b.implTrait) (hd : a.delegation = b.delegation)
    (ho : vals a.opts = vals b.opts) (vis tg fns subs) :
    genDelegationTraitDefs a vis tg fns subs = genDelegationTraitDefs b vis tg fns subs := by
  unfold genDelegationTraitDefs
  rw [hi, hd]
  simp only [genTraitDef_congr (noMock_vals ho)]

theorem expandTrait_congr (v1 v2 : Variant) (attr1 attr2 : Toks) (t : TraitItem) (a b : TraitAttr)
    (h1 : parseTraitAttr attr1 = .ok a) (h2 : parseTraitAttr attr2 = .ok b) (he : TraitAttrEquiv v1 v2 a b) :
    expandTrait v1 attr1 t = expandTrait v2 attr2 t := by
  obtain ⟨hi, hd, ho⟩ := he
  unfold expandTrait
  simp only [h1, h2, hi, hd]
  split
  · rfl
  · cases analyzeTraitMembers t.members with
    | error e => rfl
    | ok fns =>
      simp only []
      have hg := genDelegationTraitDefs_congr (a := { a with opts := v1.apply a.opts }) (b := { b with opts := v2.apply b.opts })
        hi hd ho t.vis
        { params := t.generics.params, preds := t.generics.preds, wtrail := t.generics.wtrail } fns
        (t.attrs.filter (fun a => a.subKind == .asyncTrait))
      simp only [hi, hd] at hg
      rw [hg]
      cases genDelegationTraitDefs { implTrait := b.implTrait, opts := v2.apply b.opts, delegation := b.delegation } t.vis
        { params := t.generics.params, preds := t.generics.preds, wtrail := t.generics.wtrail } fns
        (t.attrs.filter (fun a => a.subKind == .asyncTrait)) with
      | error e => rfl
      | ok del =>
        simp only [genTraitDef_congr ho]
        rfl

def ImplAttrEquiv (v1 v2 : Variant) (a b : ImplAttr) : Prop :=
  a.dynRef = b.dynRef ∧ vals (v1.apply a.opts) = vals (v2.apply b.opts)

theorem expandImpl_congr (v1 v2 : Variant) (attr1 attr2 : Toks) (m : ImplItemIn) (a b : ImplAttr)
    (h1 : parseImplAttr attr1 = .ok a) (h2 : parseImplAttr attr2 = .ok b) (he : ImplAttrEquiv v1 v2 a b) :
    expandImpl v1 attr1 m = expandImpl v2 attr2 m := by
  obtain ⟨hd, ho⟩ := he
  unfold expandImpl
  cases splitBody true m.oracle m.body.length m.body with
  | error e => rfl
  | ok items =>
    simp only [h1, h2, analyzeFns_congr ho, hd]
    cases analyzeFns (if b.dynRef then .dynamicImpl else .staticImpl) (v2.apply b.opts)
        ((items.filterMap BodyItem.fn?).map (·.sig)) {} with
    | error e => rfl
    | ok r =>
      obtain ⟨fns, tg⟩ := r
      simp only []
      cases detectDepMode .implBlock (attachCfg (bodyFnAttrs items) fns) with
      | error e => rfl
      | ok d => simp only [genImplBlock_congr ho]


/-! ## Part 2 — the comma-separated option list -/

def isComma : TT → Bool
  | .punct ',' => true
  | _ => false

def CommaFree (seg : Toks) : Prop := ∀ t ∈ seg, isComma t = false

theorem not_comma_of {t : TT} (ht : isComma t = false) : t = TT.punct ',' → False := by
  intro h; subst h; simp [isComma] at ht

theorem splitCommas_ne_nil : ∀ ts : Toks, splitCommas ts ≠ []
  | [] => by simp [splitCommas]
  | t :: rest => by
      cases ht : isComma t with
      | true =>
        have : t = .punct ',' := by
          cases t with
          | punct c => unfold isComma at ht; split at ht <;> simp_all
          | ident s => simp [isComma] at ht
          | lit s => simp [isComma] at ht
          | group d g => simp [isComma] at ht
        subst this
        rw [splitCommas.eq_2]; simp
      | false =>
        rw [splitCommas.eq_3 t rest (not_comma_of ht)]
        split <;> simp

theorem splitCommas_cons_comma (rest : Toks) : splitCommas (.punct ',' :: rest) = [] :: splitCommas rest :=
  splitCommas.eq_2 rest

theorem splitCommas_cons_other (t : TT) (ht : isComma t = false) (rest : Toks) :
    ∃ seg segs, splitCommas rest = seg :: segs ∧ splitCommas (t :: rest) = (t :: seg) :: segs := by
  cases hs : splitCommas rest with
  | nil => exact absurd hs (splitCommas_ne_nil rest)
  | cons seg segs =>
    refine ⟨seg, segs, rfl, ?_⟩
    rw [splitCommas.eq_3 t rest (not_comma_of ht), hs]

/-- a comma in the middle separates the segment lists -/
theorem splitCommas_append : ∀ (xs ys : Toks),
    splitCommas (xs ++ .punct ',' :: ys) = splitCommas xs ++ splitCommas ys
  | [], ys => by simp [splitCommas]
  | t :: rest, ys => by
      have ih := splitCommas_append rest ys
      cases ht : isComma t with
      | true =>
        cases t with
        | punct c =>
          have : c = ',' := by
            unfold isComma at ht; split at ht <;> simp_all
          subst this
          simp only [List.cons_append, splitCommas_cons_comma, ih]
        | ident s => simp [isComma] at ht
        | lit s => simp [isComma] at ht
        | group d g => simp [isComma] at ht
      | false =>
        obtain ⟨seg, segs, h1, h2⟩ := splitCommas_cons_other t ht rest
        obtain ⟨seg', segs', h1', h2'⟩ := splitCommas_cons_other t ht (rest ++ .punct ',' :: ys)
        rw [ih, h1] at h1'
        simp only [List.cons_append, List.cons.injEq] at h1'
        obtain ⟨rfl, rfl⟩ := h1'
        simp only [List.cons_append, h2', h2]

theorem splitCommas_commaFree : ∀ (seg : Toks), CommaFree seg → splitCommas seg = [seg]
  | [], _ => by simp [splitCommas]
  | t :: rest, h => by
      have ih := splitCommas_commaFree rest (fun x hx => h x (List.mem_cons_of_mem _ hx))
      obtain ⟨seg, segs, h1, h2⟩ := splitCommas_cons_other t (h t List.mem_cons_self) rest
      rw [ih] at h1
      simp only [List.cons.injEq] at h1
      obtain ⟨rfl, rfl⟩ := h1
      exact h2

/-- `…, seg` at the end of the argument list -/
theorem splitCommas_snoc (pre seg : Toks) (hs : CommaFree seg) :
    splitCommas (pre ++ .punct ',' :: seg) = splitCommas pre ++ [seg] := by
  rw [splitCommas_append, splitCommas_commaFree seg hs]

/-- `…, seg, …` in the middle -/
theorem splitCommas_mid (pre seg post : Toks) (hs : CommaFree seg) :
    splitCommas (pre ++ .punct ',' :: (seg ++ .punct ',' :: post)) = splitCommas pre ++ seg :: splitCommas post := by
  rw [splitCommas_append, splitCommas_append, splitCommas_commaFree seg hs]
  rfl

/-! ### outcomes of parsing an option list -/

/-- the option a completely consumed segment denotes -/
def segOpt (seg : Toks) : Option Opt :=
  match parseOpt seg with
  | .ok (o, []) => some o
  | _ => none

theorem parseOptSegs_cons_ok {σ : Type} (set : σ → Opt → Option σ) (st : σ) (seg : Toks) (segs : List Toks) (r : σ) :
    parseOptSegs set st (seg :: segs) = .ok r ↔
      ∃ o st', segOpt seg = some o ∧ set st o = some st' ∧ parseOptSegs set st' segs = .ok r := by
  rw [parseOptSegs.eq_2]
  unfold segOpt
  cases hp : parseOpt seg with
  | error e => simp
  | ok or =>
    obtain ⟨o, rest⟩ := or
    simp only []
    cases hs : set st o with
    | none => cases rest <;> simp [hs]
    | some st' =>
      cases rest with
      | nil => simp [hs]
      | cons x xs => simp

theorem parseOptSegs_append {σ : Type} (set : σ → Opt → Option σ) : ∀ (a b : List Toks) (st : σ),
    parseOptSegs set st (a ++ b) =
      match parseOptSegs set st a with
      | .error e => .error e
      | .ok st' => parseOptSegs set st' b
  | [], b, st => by simp [parseOptSegs]
  | seg :: a, b, st => by
      simp only [List.cons_append]
      rw [parseOptSegs.eq_2, parseOptSegs.eq_2]
      cases parseOpt seg with
      | error e => rfl
      | ok or =>
        obtain ⟨o, rest⟩ := or
        simp only []
        cases set st o with
        | none => rfl
        | some st' =>
          simp only []
          split
          · exact parseOptSegs_append set a b st'
          · rfl

/-- segments that parse alike can be exchanged -/
theorem parseOptSegs_congr {σ : Type} (set : σ → Opt → Option σ) : ∀ (l1 l2 : List Toks) (st : σ),
    l1.map parseOpt = l2.map parseOpt → parseOptSegs set st l1 = parseOptSegs set st l2
  | [], [], _, _ => rfl
  | [], _ :: _, _, h => by simp at h
  | _ :: _, [], _, h => by simp at h
  | x :: l1, y :: l2, st, h => by
      simp only [List.map_cons, List.cons.injEq] at h
      rw [parseOptSegs.eq_2, parseOptSegs.eq_2, h.1]
      cases parseOpt y with
      | error e => rfl
      | ok or =>
        obtain ⟨o, rest⟩ := or
        simp only []
        cases set st o with
        | none => rfl
        | some st' => simp only [parseOptSegs_congr set l1 l2 st' h.2]


/-! ## Part 3 — attribute argument lists as lists of segments -/

/-- the argument list written from its comma-separated segments -/
def attrOf (segs : List Toks) : Toks := joinSep [p ','] segs

theorem splitCommas_attrOf : ∀ (segs : List Toks), segs ≠ [] → (∀ s ∈ segs, CommaFree s) →
    splitCommas (attrOf segs) = segs
  | [], h, _ => absurd rfl h
  | [x], _, hc => by
      simp only [attrOf, joinSep]
      exact splitCommas_commaFree x (hc x List.mem_cons_self)
  | x :: y :: rest, _, hc => by
      have ih := splitCommas_attrOf (y :: rest) (by simp) (fun s hs => hc s (List.mem_cons_of_mem _ hs))
      simp only [attrOf, joinSep] at ih ⊢
      have : x ++ [p ','] ++ joinSep [p ','] (y :: rest) = x ++ TT.punct ',' :: joinSep [p ','] (y :: rest) := by
        simp [p]
      rw [this, splitCommas_append, splitCommas_commaFree x (hc x List.mem_cons_self), ih]
      rfl

/-- every argument list is `attrOf` of its segments (so the theorems below, stated over segment
    lists, speak about all argument lists) -/
theorem attrOf_splitCommas : ∀ ts : Toks, attrOf (splitCommas ts) = ts
  | [] => rfl
  | t :: rest => by
      have ih := attrOf_splitCommas rest
      cases ht : isComma t with
      | true =>
        have : t = .punct ',' := by
          cases t with
          | punct c => unfold isComma at ht; split at ht <;> simp_all
          | ident s => simp [isComma] at ht
          | lit s => simp [isComma] at ht
          | group d g => simp [isComma] at ht
        subst this
        rw [splitCommas_cons_comma]
        cases hs : splitCommas rest with
        | nil => exact absurd hs (splitCommas_ne_nil rest)
        | cons seg segs =>
          rw [hs] at ih
          simp only [attrOf, joinSep, List.nil_append] at ih ⊢
          rw [ih]; rfl
      | false =>
        obtain ⟨seg, segs, h1, h2⟩ := splitCommas_cons_other t ht rest
        rw [h2]
        rw [h1] at ih
        cases segs with
        | nil => simp only [attrOf, joinSep] at ih ⊢; rw [ih]
        | cons s2 ss =>
          simp only [attrOf, joinSep] at ih ⊢
          rw [← ih]; simp

theorem commaFree_of_split : ∀ (ts : Toks), ∀ s ∈ splitCommas ts, CommaFree s
  | [], s, hs => by simp [splitCommas] at hs; subst hs; intro t ht; simp at ht
  | t :: rest, s, hs => by
      have ih := commaFree_of_split rest
      cases ht : isComma t with
      | true =>
        have : t = .punct ',' := by
          cases t with
          | punct c => unfold isComma at ht; split at ht <;> simp_all
          | ident s => simp [isComma] at ht
          | lit s => simp [isComma] at ht
          | group d g => simp [isComma] at ht
        subst this
        rw [splitCommas_cons_comma] at hs
        rcases List.mem_cons.mp hs with rfl | hs
        · intro x hx; simp at hx
        · exact ih s hs
      | false =>
        obtain ⟨seg, segs, h1, h2⟩ := splitCommas_cons_other t ht rest
        rw [h2] at hs
        rcases List.mem_cons.mp hs with rfl | hs
        · intro x hx
          rcases List.mem_cons.mp hx with rfl | hx
          · exact ht
          · exact ih seg (by rw [h1]; exact List.mem_cons_self) x hx
        · exact ih s (by rw [h1]; exact List.mem_cons_of_mem _ hs)

/-! ### expansion is a function of the parsed attribute -/

def ParseRel {α : Type} (E : α → α → Prop) (r1 r2 : Except PErr α) : Prop :=
  match r1, r2 with
  | .error e1, .error e2 => e1 = e2
  | .ok a, .ok b => E a b
  | _, _ => False

theorem expand_fnmod_of_rel (v1 v2 : Variant) (a1 a2 : Toks)
    (h : ParseRel (FnAttrEquiv v1 v2) (parseFnAttr a1) (parseFnAttr a2)) :
    (∀ f, expand v1 a1 (.fn f) = expand v2 a2 (.fn f)) ∧ (∀ m, expand v1 a1 (.mod_ m) = expand v2 a2 (.mod_ m)) := by
  unfold ParseRel at h
  cases h1 : parseFnAttr a1 with
  | error e1 =>
    cases h2 : parseFnAttr a2 with
    | error e2 =>
      rw [h1, h2] at h
      simp only at h
      subst h
      constructor
      · intro f; simp only [expand, expandFn, h1, h2]
      · intro m
        simp only [expand]
        split
        · rfl
        · unfold expandMod
          cases splitBody false m.oracle m.body.length m.body with
          | error e => rfl
          | ok items => simp only [h1, h2]
    | ok b => rw [h1, h2] at h; exact absurd h (by simp)
  | ok a =>
    cases h2 : parseFnAttr a2 with
    | error e2 => rw [h1, h2] at h; exact absurd h (by simp)
    | ok b =>
      rw [h1, h2] at h
      constructor
      · intro f; exact expandFn_congr v1 v2 a1 a2 f a b h1 h2 h
      · intro m
        simp only [expand]
        split
        · rfl
        · exact expandMod_congr v1 v2 a1 a2 m a b h1 h2 h

theorem expand_trait_of_rel (v1 v2 : Variant) (a1 a2 : Toks)
    (h : ParseRel (TraitAttrEquiv v1 v2) (parseTraitAttr a1) (parseTraitAttr a2)) (t : TraitItem) :
    expand v1 a1 (.trait t) = expand v2 a2 (.trait t) := by
  unfold ParseRel at h
  cases h1 : parseTraitAttr a1 with
  | error e1 =>
    cases h2 : parseTraitAttr a2 with
    | error e2 =>
      rw [h1, h2] at h
      simp only at h
      subst h
      simp only [expand, expandTrait, h1, h2]
    | ok b => rw [h1, h2] at h; exact absurd h (by simp)
  | ok a =>
    cases h2 : parseTraitAttr a2 with
    | error e2 => rw [h1, h2] at h; exact absurd h (by simp)
    | ok b =>
      rw [h1, h2] at h
      exact expandTrait_congr v1 v2 a1 a2 t a b h1 h2 h

theorem parseRel_refl_fn (v : Variant) (r : Except PErr FnAttr) : ParseRel (FnAttrEquiv v v) r r := by
  cases r with
  | error e => rfl
  | ok a => exact ⟨rfl, rfl, rfl⟩

theorem parseRel_refl_trait (v : Variant) (r : Except PErr TraitAttr) : ParseRel (TraitAttrEquiv v v) r r := by
  cases r with
  | error e => rfl
  | ok a => exact ⟨rfl, rfl, rfl⟩

/-! ### (a) an option written bare is identical to `option = true` -/

def boolOptNames : List String := ["no_deps", "debug", "export", "unimock", "mockall"]

theorem bare_eq_true (s : String) (hs : s ∈ boolOptNames) :
    parseOpt [i s] = parseOpt [i s, p '=', i "true"] := by
  simp only [boolOptNames, List.mem_cons, List.mem_nil_iff, or_false] at hs
  rcases hs with rfl | rfl | rfl | rfl | rfl <;> rfl

theorem bare_ok (s : String) (hs : s ∈ boolOptNames) : ∃ o, parseOpt [i s] = .ok (o, []) := by
  simp only [boolOptNames, List.mem_cons, List.mem_nil_iff, or_false] at hs
  rcases hs with rfl | rfl | rfl | rfl | rfl
  · exact ⟨.noDeps true, rfl⟩
  · exact ⟨.debug true, rfl⟩
  · exact ⟨.export_ true, rfl⟩
  · exact ⟨.unimock true, rfl⟩
  · exact ⟨.mockall true, rfl⟩

theorem commaFree_bare (s : String) : CommaFree [i s] := by
  intro t ht; simp only [List.mem_singleton] at ht; subst ht; rfl

theorem commaFree_eqTrue (s : String) : CommaFree [i s, p '=', i "true"] := by
  intro t ht
  simp only [List.mem_cons, List.mem_nil_iff, or_false] at ht
  rcases ht with rfl | rfl | rfl <;> rfl

theorem commaFree_all_append {A B : List Toks} {x : Toks} (hA : ∀ s ∈ A, CommaFree s) (hx : CommaFree x)
    (hB : ∀ s ∈ B, CommaFree s) : ∀ s ∈ A ++ x :: B, CommaFree s := by
  intro s hs
  rcases List.mem_append.mp hs with h | h
  · exact hA s h
  · rcases List.mem_cons.mp h with rfl | h
    · exact hx
    · exact hB s h

/-- exchanging one option segment for another that parses alike: fn / mod targets -/
theorem parseFnAttr_replace (a0 : Toks) (A B : List Toks) (x y : Toks)
    (ha0 : CommaFree a0) (hA : ∀ s ∈ A, CommaFree s) (hB : ∀ s ∈ B, CommaFree s) (hx : CommaFree x) (hy : CommaFree y)
    (hxy : parseOpt x = parseOpt y) :
    parseFnAttr (attrOf (a0 :: A ++ x :: B)) = parseFnAttr (attrOf (a0 :: A ++ y :: B)) := by
  have hc1 : ∀ s ∈ a0 :: (A ++ x :: B), CommaFree s := by
    intro s hs
    rcases List.mem_cons.mp hs with rfl | hs
    · exact ha0
    · exact commaFree_all_append hA hx hB s hs
  have hc2 : ∀ s ∈ a0 :: (A ++ y :: B), CommaFree s := by
    intro s hs
    rcases List.mem_cons.mp hs with rfl | hs
    · exact ha0
    · exact commaFree_all_append hA hy hB s hs
  unfold parseFnAttr
  rw [List.cons_append, List.cons_append, splitCommas_attrOf _ (by simp) hc1, splitCommas_attrOf _ (by simp) hc2]
  unfold parseFnSegs
  have : parseOptSegs Opts.setFn {} (A ++ x :: B) = parseOptSegs Opts.setFn {} (A ++ y :: B) :=
    parseOptSegs_congr _ _ _ _ (by simp [hxy])
  simp only [this]

theorem attrOf_ne_nil_of_mem {segs : List Toks} {x : Toks} (hx : x ≠ []) (hm : x ∈ segs) : attrOf segs ≠ [] := by
  induction segs with
  | nil => simp at hm
  | cons a rest ih =>
    cases rest with
    | nil =>
      simp only [List.mem_singleton] at hm
      subst hm
      simpa [attrOf, joinSep] using hx
    | cons b rest' =>
      simp only [attrOf, joinSep]
      intro h
      simp [p] at h

theorem parseTraitSegs_cons (seg0 : Toks) (segs : List Toks) :
    parseTraitSegs (seg0 :: segs) =
      match parseOpt seg0 with
      | .ok _ => parseOptSegs TraitAttr.set {} (seg0 :: segs)
      | .error _ =>
        match parseVis seg0 with
        | .error e => .error e
        | .ok (vis, rest) =>
          match rest with
          | .ident name :: rest0 =>
              if isKeyword name then .error .syn
              else
                parseOptSegs TraitAttr.set { implTrait := some (vis, name) }
                  (if !rest0.isEmpty then rest0 :: segs else if segs == [[]] then [] else segs)
          | _ => .error .syn := rfl

/-- exchanging one option segment for another that parses alike (successfully): trait targets -/
theorem parseTraitAttr_replace (A B : List Toks) (x y : Toks) (o : Opt) (r1 : Toks)
    (hA : ∀ s ∈ A, CommaFree s) (hB : ∀ s ∈ B, CommaFree s) (hx : CommaFree x) (hy : CommaFree y)
    (hpx : parseOpt x = .ok (o, r1)) (hxy : parseOpt x = parseOpt y) (hxn : x ≠ []) (hyn : y ≠ []) :
    parseTraitAttr (attrOf (A ++ x :: B)) = parseTraitAttr (attrOf (A ++ y :: B)) := by
  have hc1 := commaFree_all_append hA hx hB
  have hc2 := commaFree_all_append hA hy hB
  have hn1 : attrOf (A ++ x :: B) ≠ [] := attrOf_ne_nil_of_mem hxn (by simp)
  have hn2 : attrOf (A ++ y :: B) ≠ [] := attrOf_ne_nil_of_mem hyn (by simp)
  unfold parseTraitAttr
  simp only [List.isEmpty_iff, hn1, hn2, if_false]
  rw [splitCommas_attrOf _ (by simp) hc1, splitCommas_attrOf _ (by simp) hc2]
  cases A with
  | nil =>
    simp only [List.nil_append]
    rw [parseTraitSegs_cons, parseTraitSegs_cons, ← hxy, hpx]
    exact parseOptSegs_congr _ _ _ _ (by simp [hxy])
  | cons a0 A' =>
    simp only [List.cons_append]
    rw [parseTraitSegs_cons, parseTraitSegs_cons]
    cases hp0 : parseOpt a0 with
    | ok r => exact parseOptSegs_congr _ _ _ _ (by simp [hxy])
    | error e =>
      simp only []
      cases parseVis a0 with
      | error e => rfl
      | ok vr =>
        obtain ⟨vis, rest⟩ := vr
        simp only []
        cases rest with
        | nil => rfl
        | cons t0 rest0 =>
          cases t0 with
          | ident name =>
            simp only []
            split
            · rfl
            · have hne1 : (A' ++ x :: B == [[]]) = false := by
                cases A' with
                | nil => cases B <;> simp [hxn]
                | cons q qs => cases qs <;> simp
              have hne2 : (A' ++ y :: B == [[]]) = false := by
                cases A' with
                | nil => cases B <;> simp [hyn]
                | cons q qs => cases qs <;> simp
              simp only [hne1, hne2, Bool.false_eq_true, if_false]
              split
              · exact parseOptSegs_congr _ _ _ _ (by simp [hxy])
              · exact parseOptSegs_congr _ _ _ _ (by simp [hxy])
          | punct c => rfl
          | lit l => rfl
          | group d g => rfl

/-- **bare ≡ `= true`**, for every boolean option, at any position of the option list, for every
    variant and every fn / mod / trait item -/
theorem T_C17_bare (v : Variant) (s : String) (hs : s ∈ boolOptNames) (a0 : Toks) (A B : List Toks)
    (ha0 : CommaFree a0) (hA : ∀ s ∈ A, CommaFree s) (hB : ∀ s ∈ B, CommaFree s) :
    (∀ f, expand v (attrOf (a0 :: A ++ [i s] :: B)) (.fn f) = expand v (attrOf (a0 :: A ++ [i s, p '=', i "true"] :: B)) (.fn f)) ∧
    (∀ m, expand v (attrOf (a0 :: A ++ [i s] :: B)) (.mod_ m) = expand v (attrOf (a0 :: A ++ [i s, p '=', i "true"] :: B)) (.mod_ m)) ∧
    (∀ t, expand v (attrOf (A ++ [i s] :: B)) (.trait t) = expand v (attrOf (A ++ [i s, p '=', i "true"] :: B)) (.trait t)) := by
  have hfn := parseFnAttr_replace a0 A B [i s] [i s, p '=', i "true"] ha0 hA hB (commaFree_bare s) (commaFree_eqTrue s)
    (bare_eq_true s hs)
  obtain ⟨o, hok⟩ := bare_ok s hs
  have htr := parseTraitAttr_replace A B [i s] [i s, p '=', i "true"] o [] hA hB (commaFree_bare s) (commaFree_eqTrue s)
    hok (bare_eq_true s hs) (by simp) (by simp)
  have h1 := expand_fnmod_of_rel v v (attrOf (a0 :: A ++ [i s] :: B)) (attrOf (a0 :: A ++ [i s, p '=', i "true"] :: B))
    (by rw [hfn]; exact parseRel_refl_fn v _)
  refine ⟨h1.1, h1.2, fun t => ?_⟩
  exact expand_trait_of_rel v v (attrOf (A ++ [i s] :: B)) (attrOf (A ++ [i s, p '=', i "true"] :: B))
    (by rw [htr]; exact parseRel_refl_trait v _) t


/-! ### simulation of two runs of the option-list parser -/

def Opt.key : Opt → Nat
  | .noDeps _ => 0 | .debug _ => 1 | .delegateBy _ => 2 | .export_ _ => 3
  | .maybeSend => 4 | .mockApi _ => 5 | .unimock _ => 6 | .mockall _ => 7

/-- no segment of the list sets the option with key `k` -/
def NoKey (k : Nat) (segs : List Toks) : Prop :=
  ∀ seg ∈ segs, ∀ o rest, parseOpt seg = .ok (o, rest) → Opt.key o ≠ k

theorem parseOptSegs_sim {σ : Type} (set : σ → Opt → Option σ) (R : σ → σ → Prop) (P : Opt → Prop)
    (hstep : ∀ st st' o, R st st' → P o →
      (set st o = none ∧ set st' o = none) ∨ ∃ s s', set st o = some s ∧ set st' o = some s' ∧ R s s') :
    ∀ (segs : List Toks) (st st' : σ), R st st' →
      (∀ seg ∈ segs, ∀ o rest, parseOpt seg = .ok (o, rest) → P o) →
      ParseRel R (parseOptSegs set st segs) (parseOptSegs set st' segs)
  | [], st, st', hr, _ => by simp only [parseOptSegs, ParseRel]; exact hr
  | seg :: segs, st, st', hr, hP => by
      rw [parseOptSegs.eq_2, parseOptSegs.eq_2]
      cases hp : parseOpt seg with
      | error e => simp only [ParseRel]
      | ok or =>
        obtain ⟨o, rest⟩ := or
        simp only []
        rcases hstep st st' o hr (hP seg List.mem_cons_self o rest hp) with ⟨h1, h2⟩ | ⟨s, s', h1, h2, hr'⟩
        · simp only [h1, h2, ParseRel]
        · simp only [h1, h2]
          split
          · exact parseOptSegs_sim set R P hstep segs s s' hr' (fun sg hsg => hP sg (List.mem_cons_of_mem _ hsg))
          · simp only [ParseRel]

/-- an invariant of the parser state that every option allowed by `P` preserves -/
theorem parseOptSegs_invariant {σ : Type} (set : σ → Opt → Option σ) (Q : σ → Prop) (P : Opt → Prop)
    (hstep : ∀ st o s, Q st → P o → set st o = some s → Q s) (segs : List Toks) (st r : σ) (hq : Q st)
    (hP : ∀ seg ∈ segs, ∀ o rest, parseOpt seg = .ok (o, rest) → P o)
    (h : parseOptSegs set st segs = .ok r) : Q r := by
  have := parseOptSegs_sim set (fun a b => a = b ∧ Q a) P
    (by
      intro a b o ⟨hab, hqa⟩ hpo
      subst hab
      cases hs : set a o with
      | none => exact Or.inl ⟨rfl, rfl⟩
      | some s => exact Or.inr ⟨s, s, rfl, rfl, rfl, hstep a o s hqa hpo hs⟩)
    segs st st ⟨rfl, hq⟩ hP
  rw [h] at this
  exact this.2

theorem parseRel_append {σ : Type} (set : σ → Opt → Option σ) (E : σ → σ → Prop) (A X1 X2 : List Toks) (st : σ)
    (h : ∀ stA, parseOptSegs set st A = .ok stA → ParseRel E (parseOptSegs set stA X1) (parseOptSegs set stA X2)) :
    ParseRel E (parseOptSegs set st (A ++ X1)) (parseOptSegs set st (A ++ X2)) := by
  rw [parseOptSegs_append, parseOptSegs_append]
  cases hA : parseOptSegs set st A with
  | error e => simp only [ParseRel]
  | ok stA => exact h stA hA

theorem parseFnSegs_cons (seg0 : Toks) (segs : List Toks) :
    parseFnSegs (seg0 :: segs) =
      match parseVis seg0 with
      | .error e => .error e
      | .ok (vis, rest) =>
        match rest with
        | [.ident name] =>
            if isKeyword name then .error .syn
            else
              match parseOptSegs Opts.setFn {} segs with
              | .error e => .error e
              | .ok opts => .ok { traitVis := vis, traitIdent := name, opts := opts }
        | _ => .error .syn := rfl

/-- from a relation between the parsed option sets to a relation between the parsed attributes -/
theorem parseFnSegs_rel (v1 v2 : Variant) (a0 : Toks) (X1 X2 : List Toks) (E : Opts → Opts → Prop)
    (hE : ∀ r1 r2, E r1 r2 → vals (v1.apply r1) = vals (v2.apply r2))
    (h : ParseRel E (parseOptSegs Opts.setFn {} X1) (parseOptSegs Opts.setFn {} X2)) :
    ParseRel (FnAttrEquiv v1 v2) (parseFnSegs (a0 :: X1)) (parseFnSegs (a0 :: X2)) := by
  rw [parseFnSegs_cons, parseFnSegs_cons]
  cases parseVis a0 with
  | error e => simp only [ParseRel]
  | ok vr =>
    obtain ⟨vis, rest⟩ := vr
    simp only []
    split
    · rename_i name
      split
      · simp only [ParseRel]
      · cases h1 : parseOptSegs Opts.setFn {} X1 with
        | error e1 =>
          cases h2 : parseOptSegs Opts.setFn {} X2 with
          | error e2 => rw [h1, h2] at h; simpa only [ParseRel] using h
          | ok r2 => rw [h1, h2] at h; simp only [ParseRel] at h
        | ok r1 =>
          cases h2 : parseOptSegs Opts.setFn {} X2 with
          | error e2 => rw [h1, h2] at h; simp only [ParseRel] at h
          | ok r2 =>
            rw [h1, h2] at h
            simp only [ParseRel] at h ⊢
            exact ⟨rfl, rfl, hE r1 r2 h⟩
    · simp only [ParseRel]

/-- the token-level form of `parseFnSegs_rel` -/
theorem parseFnAttr_rel (v1 v2 : Variant) (a0 : Toks) (X1 X2 : List Toks) (E : Opts → Opts → Prop)
    (ha0 : CommaFree a0) (h1c : ∀ s ∈ X1, CommaFree s) (h2c : ∀ s ∈ X2, CommaFree s)
    (hE : ∀ r1 r2, E r1 r2 → vals (v1.apply r1) = vals (v2.apply r2))
    (h : ParseRel E (parseOptSegs Opts.setFn {} X1) (parseOptSegs Opts.setFn {} X2)) :
    ParseRel (FnAttrEquiv v1 v2) (parseFnAttr (attrOf (a0 :: X1))) (parseFnAttr (attrOf (a0 :: X2))) := by
  unfold parseFnAttr
  rw [splitCommas_attrOf _ (by simp) (by
        intro s hs; rcases List.mem_cons.mp hs with rfl | hs
        · exact ha0
        · exact h1c s hs),
      splitCommas_attrOf _ (by simp) (by
        intro s hs; rcases List.mem_cons.mp hs with rfl | hs
        · exact ha0
        · exact h2c s hs)]
  exact parseFnSegs_rel v1 v2 a0 X1 X2 E hE h

/-! ### (b) `no_deps = false` and `export = false` are identical to omitting them -/

def segNoDepsFalse : Toks := [i "no_deps", p '=', i "false"]
def segExportFalse : Toks := [i "export", p '=', i "false"]

theorem parse_noDepsFalse : parseOpt segNoDepsFalse = .ok (.noDeps false, []) := rfl
theorem parse_exportFalse : parseOpt segExportFalse = .ok (.export_ false, []) := rfl

theorem commaFree_3 (a b c : TT) (ha : isComma a = false) (hb : isComma b = false) (hc : isComma c = false) :
    CommaFree [a, b, c] := by
  intro t ht
  simp only [List.mem_cons, List.mem_nil_iff, or_false] at ht
  rcases ht with rfl | rfl | rfl <;> assumption

theorem setFn_noDeps_sim (st st' : Opts) (o : Opt) (hr : st' = { st with noDeps := some false }) (hp : Opt.key o ≠ 0) :
    (Opts.setFn st o = none ∧ Opts.setFn st' o = none) ∨
      ∃ s s', Opts.setFn st o = some s ∧ Opts.setFn st' o = some s' ∧ s' = { s with noDeps := some false } := by
  subst hr
  cases o with
  | noDeps b => exact absurd rfl hp
  | delegateBy d => exact Or.inl ⟨rfl, rfl⟩
  | debug b => exact Or.inr ⟨_, _, rfl, rfl, rfl⟩
  | export_ b => exact Or.inr ⟨_, _, rfl, rfl, rfl⟩
  | maybeSend => exact Or.inr ⟨_, _, rfl, rfl, rfl⟩
  | mockApi m => exact Or.inr ⟨_, _, rfl, rfl, rfl⟩
  | unimock b => exact Or.inr ⟨_, _, rfl, rfl, rfl⟩
  | mockall b => exact Or.inr ⟨_, _, rfl, rfl, rfl⟩

theorem setFn_export_sim (st st' : Opts) (o : Opt) (hr : st' = { st with export_ := some false }) (hp : Opt.key o ≠ 3) :
    (Opts.setFn st o = none ∧ Opts.setFn st' o = none) ∨
      ∃ s s', Opts.setFn st o = some s ∧ Opts.setFn st' o = some s' ∧ s' = { s with export_ := some false } := by
  subst hr
  cases o with
  | export_ b => exact absurd rfl hp
  | delegateBy d => exact Or.inl ⟨rfl, rfl⟩
  | debug b => exact Or.inr ⟨_, _, rfl, rfl, rfl⟩
  | noDeps b => exact Or.inr ⟨_, _, rfl, rfl, rfl⟩
  | maybeSend => exact Or.inr ⟨_, _, rfl, rfl, rfl⟩
  | mockApi m => exact Or.inr ⟨_, _, rfl, rfl, rfl⟩
  | unimock b => exact Or.inr ⟨_, _, rfl, rfl, rfl⟩
  | mockall b => exact Or.inr ⟨_, _, rfl, rfl, rfl⟩

/-- a field no segment sets keeps its initial value -/
theorem setFn_noDeps_untouched (segs : List Toks) (st r : Opts) (hn : NoKey 0 segs) (hst : st.noDeps = none)
    (h : parseOptSegs Opts.setFn st segs = .ok r) : r.noDeps = none :=
  parseOptSegs_invariant Opts.setFn (fun s => s.noDeps = none) (fun o => Opt.key o ≠ 0)
    (by
      intro s o s' hq hp hs
      cases o <;> simp [Opts.setFn] at hs <;> first | (subst hs; exact hq) | exact absurd rfl hp)
    segs st r hst hn h

theorem setFn_export_untouched (segs : List Toks) (st r : Opts) (hn : NoKey 3 segs) (hst : st.export_ = none)
    (h : parseOptSegs Opts.setFn st segs = .ok r) : r.export_ = none :=
  parseOptSegs_invariant Opts.setFn (fun s => s.export_ = none) (fun o => Opt.key o ≠ 3)
    (by
      intro s o s' hq hp hs
      cases o <;> simp [Opts.setFn] at hs <;> first | (subst hs; exact hq) | exact absurd rfl hp)
    segs st r hst hn h

theorem setFn_unimock_untouched (segs : List Toks) (st r : Opts) (hn : NoKey 6 segs) (hst : st.unimock = none)
    (h : parseOptSegs Opts.setFn st segs = .ok r) : r.unimock = none :=
  parseOptSegs_invariant Opts.setFn (fun s => s.unimock = none) (fun o => Opt.key o ≠ 6)
    (by
      intro s o s' hq hp hs
      cases o <;> simp [Opts.setFn] at hs <;> first | (subst hs; exact hq) | exact absurd rfl hp)
    segs st r hst hn h

theorem noKey_append {k : Nat} {A B : List Toks} (h : NoKey k (A ++ B)) : NoKey k A ∧ NoKey k B :=
  ⟨fun s hs => h s (List.mem_append_left _ hs), fun s hs => h s (List.mem_append_right _ hs)⟩

/-- the option set parsed with `no_deps = false` inserted, against the one without -/
theorem noDepsFalse_rel (A B : List Toks) (hn : NoKey 0 (A ++ B)) :
    ParseRel (fun r0 r => r = { r0 with noDeps := some false } ∧ r0.noDeps = none)
      (parseOptSegs Opts.setFn {} (A ++ B)) (parseOptSegs Opts.setFn {} (A ++ segNoDepsFalse :: B)) := by
  have hmain : ParseRel (fun r0 r => r = { r0 with noDeps := some false })
      (parseOptSegs Opts.setFn {} (A ++ B)) (parseOptSegs Opts.setFn {} (A ++ segNoDepsFalse :: B)) := by
    apply parseRel_append
    intro stA _
    rw [parseOptSegs.eq_2 Opts.setFn stA segNoDepsFalse B, parse_noDepsFalse]
    simp only [Opts.setFn, List.isEmpty_nil, if_true]
    exact parseOptSegs_sim Opts.setFn _ (fun o => Opt.key o ≠ 0) setFn_noDeps_sim B stA _ rfl (noKey_append hn).2
  cases h0 : parseOptSegs Opts.setFn {} (A ++ B) with
  | error e =>
    rw [h0] at hmain
    cases h1 : parseOptSegs Opts.setFn {} (A ++ segNoDepsFalse :: B) with
    | error e1 => rw [h1] at hmain; simpa only [ParseRel] using hmain
    | ok r => rw [h1] at hmain; simp only [ParseRel] at hmain
  | ok r0 =>
    rw [h0] at hmain
    cases h1 : parseOptSegs Opts.setFn {} (A ++ segNoDepsFalse :: B) with
    | error e1 => rw [h1] at hmain; simp only [ParseRel] at hmain
    | ok r =>
      rw [h1] at hmain
      simp only [ParseRel] at hmain ⊢
      exact ⟨hmain, setFn_noDeps_untouched _ _ _ hn rfl h0⟩

theorem exportFalse_rel (A B : List Toks) (hn : NoKey 3 (A ++ B)) :
    ParseRel (fun r0 r => r = { r0 with export_ := some false } ∧ r0.export_ = none)
      (parseOptSegs Opts.setFn {} (A ++ B)) (parseOptSegs Opts.setFn {} (A ++ segExportFalse :: B)) := by
  have hmain : ParseRel (fun r0 r => r = { r0 with export_ := some false })
      (parseOptSegs Opts.setFn {} (A ++ B)) (parseOptSegs Opts.setFn {} (A ++ segExportFalse :: B)) := by
    apply parseRel_append
    intro stA _
    rw [parseOptSegs.eq_2 Opts.setFn stA segExportFalse B, parse_exportFalse]
    simp only [Opts.setFn, List.isEmpty_nil, if_true]
    exact parseOptSegs_sim Opts.setFn _ (fun o => Opt.key o ≠ 3) setFn_export_sim B stA _ rfl (noKey_append hn).2
  cases h0 : parseOptSegs Opts.setFn {} (A ++ B) with
  | error e =>
    rw [h0] at hmain
    cases h1 : parseOptSegs Opts.setFn {} (A ++ segExportFalse :: B) with
    | error e1 => rw [h1] at hmain; simpa only [ParseRel] using hmain
    | ok r => rw [h1] at hmain; simp only [ParseRel] at hmain
  | ok r0 =>
    rw [h0] at hmain
    cases h1 : parseOptSegs Opts.setFn {} (A ++ segExportFalse :: B) with
    | error e1 => rw [h1] at hmain; simp only [ParseRel] at hmain
    | ok r =>
      rw [h1] at hmain
      simp only [ParseRel] at hmain ⊢
      exact ⟨hmain, setFn_export_untouched _ _ _ hn rfl h0⟩

theorem vals_noDepsFalse (v : Variant) (r0 : Opts) (h : r0.noDeps = none) :
    vals (v.apply r0) = vals (v.apply { r0 with noDeps := some false }) := by
  cases v <;> simp [vals, Variant.apply, Opts.noDepsValue, Opts.exportValue, Opts.futureSendValue, Opts.unimockValue,
    Opts.mockallValue, h]

theorem vals_exportFalse (v : Variant) (hv : v = .plain ∨ v = .unimock) (r0 : Opts) (h : r0.export_ = none) :
    vals (v.apply r0) = vals (v.apply { r0 with export_ := some false }) := by
  rcases hv with rfl | rfl <;>
    simp [vals, Variant.apply, Opts.noDepsValue, Opts.exportValue, Opts.futureSendValue, Opts.unimockValue,
      Opts.mockallValue, h]

/-- **`no_deps = false` ≡ omitted**: for every variant, at any position, provided no other segment
    sets `no_deps` -/
theorem T_C17_noDeps_false (v : Variant) (a0 : Toks) (A B : List Toks)
    (ha0 : CommaFree a0) (hA : ∀ s ∈ A, CommaFree s) (hB : ∀ s ∈ B, CommaFree s) (hn : NoKey 0 (A ++ B)) :
    (∀ f, expand v (attrOf (a0 :: A ++ B)) (.fn f) = expand v (attrOf (a0 :: A ++ segNoDepsFalse :: B)) (.fn f)) ∧
    (∀ m, expand v (attrOf (a0 :: A ++ B)) (.mod_ m) = expand v (attrOf (a0 :: A ++ segNoDepsFalse :: B)) (.mod_ m)) := by
  have hc : CommaFree segNoDepsFalse := commaFree_3 _ _ _ rfl rfl rfl
  have := parseFnAttr_rel v v a0 (A ++ B) (A ++ segNoDepsFalse :: B) _ ha0
    (by intro s hs; rcases List.mem_append.mp hs with h | h; exact hA s h; exact hB s h)
    (commaFree_all_append hA hc hB)
    (by rintro r0 r ⟨rfl, h0⟩; exact vals_noDepsFalse v r0 h0)
    (noDepsFalse_rel A B hn)
  exact expand_fnmod_of_rel v v (attrOf (a0 :: (A ++ B))) (attrOf (a0 :: (A ++ segNoDepsFalse :: B))) this

/-- **`export = false` ≡ omitted**, before variant defaults apply (`entrait` itself, with or without
    the `unimock` feature) -/
theorem T_C17_export_false (v : Variant) (hv : v = .plain ∨ v = .unimock) (a0 : Toks) (A B : List Toks)
    (ha0 : CommaFree a0) (hA : ∀ s ∈ A, CommaFree s) (hB : ∀ s ∈ B, CommaFree s) (hn : NoKey 3 (A ++ B)) :
    (∀ f, expand v (attrOf (a0 :: A ++ B)) (.fn f) = expand v (attrOf (a0 :: A ++ segExportFalse :: B)) (.fn f)) ∧
    (∀ m, expand v (attrOf (a0 :: A ++ B)) (.mod_ m) = expand v (attrOf (a0 :: A ++ segExportFalse :: B)) (.mod_ m)) := by
  have hc : CommaFree segExportFalse := commaFree_3 _ _ _ rfl rfl rfl
  have := parseFnAttr_rel v v a0 (A ++ B) (A ++ segExportFalse :: B) _ ha0
    (by intro s hs; rcases List.mem_append.mp hs with h | h; exact hA s h; exact hB s h)
    (commaFree_all_append hA hc hB)
    (by rintro r0 r ⟨rfl, h0⟩; exact vals_exportFalse v hv r0 h0)
    (exportFalse_rel A B hn)
  exact expand_fnmod_of_rel v v (attrOf (a0 :: (A ++ B))) (attrOf (a0 :: (A ++ segExportFalse :: B))) this

/-- the exception is real: under `entrait_export`, `export = false` is *not* the same as omitting it -/
example : vals (Variant.export_.apply {}) ≠ vals (Variant.export_.apply { export_ := some false }) := by decide


/-! ### (d) macro variants are option shorthands -/

def segExport : Toks := [i "export"]
def segUnimock : Toks := [i "unimock"]
theorem parse_export : parseOpt segExport = .ok (.export_ true, []) := rfl
theorem parse_unimock : parseOpt segUnimock = .ok (.unimock true, []) := rfl

/-- `entrait_export` is `entrait` + `export`; with the `unimock` feature likewise -/
def addExport : Variant → Variant
  | .plain => .export_
  | .unimock => .exportUnimock
  | v => v

/-- the `unimock` cargo feature turns `entrait` into the unimock variant -/
def addUnimock : Variant → Variant
  | .plain => .unimock
  | .export_ => .exportUnimock
  | v => v

/-- appending one option segment -/
theorem snoc_rel {σ : Type} (set : σ → Opt → Option σ) (X : List Toks) (seg : Toks) (o : Opt) (st : σ) (f : σ → σ)
    (hp : parseOpt seg = .ok (o, [])) (hset : ∀ s, set s o = some (f s)) :
    ParseRel (fun r0 r => r = f r0) (parseOptSegs set st X) (parseOptSegs set st (X ++ [seg])) := by
  have := parseRel_append set (fun r0 r => r = f r0) X [] [seg] st
    (by
      intro stA _
      rw [parseOptSegs.eq_2, hp]
      simp only [hset, List.isEmpty_nil, if_true, parseOptSegs, ParseRel])
  simpa only [List.append_nil] using this

theorem rel_strengthen {σ : Type} {E : σ → σ → Prop} {Q : σ → Prop} {r1 r2 : Except PErr σ}
    (h : ParseRel E r1 r2) (hq : ∀ r, r1 = .ok r → Q r) : ParseRel (fun a b => E a b ∧ Q a) r1 r2 := by
  cases r1 with
  | error e => cases r2 <;> simpa only [ParseRel] using h
  | ok a =>
    cases r2 with
    | error e => simp only [ParseRel] at h
    | ok b => simp only [ParseRel] at h ⊢; exact ⟨h, hq a rfl⟩

theorem vals_addExport (v : Variant) (hv : v = .plain ∨ v = .unimock) (r0 : Opts) (h : r0.export_ = none) :
    vals ((addExport v).apply r0) = vals (v.apply { r0 with export_ := some true }) := by
  rcases hv with rfl | rfl <;>
    simp [addExport, vals, Variant.apply, Opts.noDepsValue, Opts.exportValue, Opts.futureSendValue, Opts.unimockValue,
      Opts.mockallValue, h]

theorem vals_addUnimock (v : Variant) (hv : v = .plain ∨ v = .export_) (r0 : Opts) (h : r0.unimock = none) :
    vals ((addUnimock v).apply r0) = vals (v.apply { r0 with unimock := some true }) := by
  rcases hv with rfl | rfl <;>
    simp [addUnimock, vals, Variant.apply, Opts.noDepsValue, Opts.exportValue, Opts.futureSendValue, Opts.unimockValue,
      Opts.mockallValue, h]

/-- **`entrait_export(args)` ≡ `entrait(args, export)`** unless `args` sets `export` (fn / mod) -/
theorem T_C17_variant_export (v : Variant) (hv : v = .plain ∨ v = .unimock) (a0 : Toks) (X : List Toks)
    (ha0 : CommaFree a0) (hX : ∀ s ∈ X, CommaFree s) (hn : NoKey 3 X) :
    (∀ f, expand (addExport v) (attrOf (a0 :: X)) (.fn f) = expand v (attrOf (a0 :: X ++ [segExport])) (.fn f)) ∧
    (∀ m, expand (addExport v) (attrOf (a0 :: X)) (.mod_ m) = expand v (attrOf (a0 :: X ++ [segExport])) (.mod_ m)) := by
  have hrel := rel_strengthen (Q := fun r => r.export_ = none)
    (snoc_rel Opts.setFn X segExport (.export_ true) {} (fun s => { s with export_ := some true }) parse_export (fun _ => rfl))
    (fun r hr => setFn_export_untouched X {} r hn rfl hr)
  have := parseFnAttr_rel (addExport v) v a0 X (X ++ [segExport]) _ ha0 hX
    (by
      intro s hs
      rcases List.mem_append.mp hs with h | h
      · exact hX s h
      · simp only [List.mem_singleton] at h; subst h; exact commaFree_bare "export")
    (by rintro r0 r ⟨rfl, h0⟩; exact vals_addExport v hv r0 h0)
    hrel
  exact expand_fnmod_of_rel (addExport v) v (attrOf (a0 :: X)) (attrOf (a0 :: (X ++ [segExport]))) this

/-- **with the `unimock` feature, `entrait(args)` ≡ `entrait(args, unimock)` without it** unless
    `args` sets `unimock`: fn / mod -/
theorem T_C17_variant_unimock (v : Variant) (hv : v = .plain ∨ v = .export_) (a0 : Toks) (X : List Toks)
    (ha0 : CommaFree a0) (hX : ∀ s ∈ X, CommaFree s) (hn : NoKey 6 X) :
    (∀ f, expand (addUnimock v) (attrOf (a0 :: X)) (.fn f) = expand v (attrOf (a0 :: X ++ [segUnimock])) (.fn f)) ∧
    (∀ m, expand (addUnimock v) (attrOf (a0 :: X)) (.mod_ m) = expand v (attrOf (a0 :: X ++ [segUnimock])) (.mod_ m)) := by
  have hrel := rel_strengthen (Q := fun r => r.unimock = none)
    (snoc_rel Opts.setFn X segUnimock (.unimock true) {} (fun s => { s with unimock := some true }) parse_unimock (fun _ => rfl))
    (fun r hr => setFn_unimock_untouched X {} r hn rfl hr)
  have := parseFnAttr_rel (addUnimock v) v a0 X (X ++ [segUnimock]) _ ha0 hX
    (by
      intro s hs
      rcases List.mem_append.mp hs with h | h
      · exact hX s h
      · simp only [List.mem_singleton] at h; subst h; exact commaFree_bare "unimock")
    (by rintro r0 r ⟨rfl, h0⟩; exact vals_addUnimock v hv r0 h0)
    hrel
  exact expand_fnmod_of_rel (addUnimock v) v (attrOf (a0 :: X)) (attrOf (a0 :: (X ++ [segUnimock]))) this


/-! #### trait targets -/

theorem traitSet_unimock_untouched (segs : List Toks) (st r : TraitAttr) (hn : NoKey 6 segs) (hst : st.opts.unimock = none)
    (h : parseOptSegs TraitAttr.set st segs = .ok r) : r.opts.unimock = none :=
  parseOptSegs_invariant TraitAttr.set (fun s => s.opts.unimock = none) (fun o => Opt.key o ≠ 6)
    (by
      intro s o s' hq hp hs
      cases o <;> simp [TraitAttr.set] at hs <;> first | (subst hs; exact hq) | exact absurd rfl hp)
    segs st r hst hn h

theorem parseRel_mono {σ : Type} {E F : σ → σ → Prop} {r1 r2 : Except PErr σ} (hEF : ∀ a b, E a b → F a b)
    (h : ParseRel E r1 r2) : ParseRel F r1 r2 := by
  cases r1 with
  | error e => cases r2 <;> simpa only [ParseRel] using h
  | ok a =>
    cases r2 with
    | error e => simp only [ParseRel] at h
    | ok b => simp only [ParseRel] at h ⊢; exact hEF a b h

theorem trait_snoc_rel (v : Variant) (hv : v = .plain ∨ v = .export_) (st : TraitAttr) (X : List Toks)
    (hn : NoKey 6 X) (hst : st.opts.unimock = none) :
    ParseRel (TraitAttrEquiv (addUnimock v) v) (parseOptSegs TraitAttr.set st X)
      (parseOptSegs TraitAttr.set st (X ++ [segUnimock])) := by
  have hrel := rel_strengthen (Q := fun r => r.opts.unimock = none)
    (snoc_rel TraitAttr.set X segUnimock (.unimock true) st
      (fun s => { s with opts := { s.opts with unimock := some true } }) parse_unimock (fun _ => rfl))
    (fun r hr => traitSet_unimock_untouched X st r hn hst hr)
  refine parseRel_mono ?_ hrel
  rintro a b ⟨rfl, h0⟩
  exact ⟨rfl, rfl, vals_addUnimock v hv a.opts h0⟩

theorem T_C17_variant_unimock_trait (v : Variant) (hv : v = .plain ∨ v = .export_) (S : List Toks)
    (hS : ∀ s ∈ S, CommaFree s) (hne : ∀ s ∈ S, s ≠ []) (hn : NoKey 6 S)
    (hr0 : ∀ s0 ∈ S.head?, ∀ vis name rest0, parseVis s0 = .ok (vis, .ident name :: rest0) → NoKey 6 [rest0])
    (t : TraitItem) :
    expand (addUnimock v) (attrOf S) (.trait t) = expand v (attrOf (S ++ [segUnimock])) (.trait t) := by
  apply expand_trait_of_rel
  cases S with
  | nil =>
    have h2 : parseTraitAttr (attrOf ([] ++ [segUnimock])) = .ok { opts := { unimock := some true } } := rfl
    have h1 : parseTraitAttr (attrOf []) = .ok {} := rfl
    rw [h1, h2]
    simp only [ParseRel]
    exact ⟨rfl, rfl, vals_addUnimock v hv {} rfl⟩
  | cons s0 S' =>
    have hc2 : ∀ s ∈ (s0 :: S') ++ [segUnimock], CommaFree s := by
      intro s hs
      rcases List.mem_append.mp hs with h | h
      · exact hS s h
      · simp only [List.mem_singleton] at h; subst h; exact commaFree_bare "unimock"
    have hn1 : attrOf (s0 :: S') ≠ [] := attrOf_ne_nil_of_mem (hne s0 List.mem_cons_self) List.mem_cons_self
    have hn2 : attrOf ((s0 :: S') ++ [segUnimock]) ≠ [] :=
      attrOf_ne_nil_of_mem (hne s0 List.mem_cons_self) (by simp)
    unfold parseTraitAttr
    simp only [List.isEmpty_iff, hn1, hn2, if_false]
    rw [splitCommas_attrOf _ (by simp) hS, splitCommas_attrOf _ (by simp) hc2]
    simp only [List.cons_append]
    rw [parseTraitSegs_cons, parseTraitSegs_cons]
    cases hp0 : parseOpt s0 with
    | ok r =>
      simp only []
      exact trait_snoc_rel v hv {} (s0 :: S') hn rfl
    | error e =>
      simp only []
      cases hpv : parseVis s0 with
      | error e => simp only [ParseRel]
      | ok vr =>
        obtain ⟨vis, rest⟩ := vr
        simp only []
        cases rest with
        | nil => simp only [ParseRel]
        | cons t0 rest0 =>
          cases t0 with
          | punct c => simp only [ParseRel]
          | lit l => simp only [ParseRel]
          | group d g => simp only [ParseRel]
          | ident name =>
            simp only []
            split
            · simp only [ParseRel]
            · have hS'n : NoKey 6 S' := fun s hs => hn s (List.mem_cons_of_mem _ hs)
              have hne1 : (S' == [[]]) = false := by
                cases S' with
                | nil => rfl
                | cons q qs =>
                  have := hne q (by simp)
                  cases qs <;> simp [this]
              have hne2 : (S' ++ [segUnimock] == [[]]) = false := by
                cases S' with
                | nil => rfl
                | cons q qs => cases qs <;> simp
              simp only [hne1, hne2, Bool.false_eq_true, if_false]
              split
              · have hnk : NoKey 6 (rest0 :: S') := by
                  intro s hs
                  rcases List.mem_cons.mp hs with rfl | hs
                  · exact hr0 s0 (by simp) vis name s hpv s List.mem_cons_self
                  · exact hS'n s hs
                have := trait_snoc_rel v hv { implTrait := some (vis, name) } (rest0 :: S') hnk rfl
                simpa only [List.cons_append] using this
              · exact trait_snoc_rel v hv { implTrait := some (vis, name) } S' hS'n rfl


/-! ### (c) the expansion does not depend on option order -/

/-- the keys of the options a segment list sets -/
def segKeys (segs : List Toks) : List Nat := (segs.filterMap segOpt).map Opt.key

/-- setting two different options commutes -/
def SetComm {σ : Type} (set : σ → Opt → Option σ) : Prop :=
  ∀ st o1 o2 s1 s2, Opt.key o1 ≠ Opt.key o2 → set st o1 = some s1 → set s1 o2 = some s2 →
    ∃ s1', set st o2 = some s1' ∧ set s1' o1 = some s2

theorem setFn_comm : SetComm Opts.setFn := by
  intro st o1 o2 s1 s2 hk h1 h2
  cases o1 <;> cases o2 <;> simp only [Opts.setFn, Option.some.injEq, reduceCtorEq] at h1 h2 <;>
    first
    | exact absurd rfl hk
    | (subst h1; subst h2; exact ⟨_, rfl, rfl⟩)

theorem traitSet_comm : SetComm TraitAttr.set := by
  intro st o1 o2 s1 s2 hk h1 h2
  cases o1 <;> cases o2 <;> simp only [TraitAttr.set, Option.some.injEq, reduceCtorEq] at h1 h2 <;>
    first
    | exact absurd rfl hk
    | (subst h1; subst h2; exact ⟨_, rfl, rfl⟩)

theorem segKeys_cons_some {x : Toks} {o : Opt} (l : List Toks) (h : segOpt x = some o) :
    segKeys (x :: l) = Opt.key o :: segKeys l := by
  simp [segKeys, List.filterMap_cons, h]

theorem parseOptSegs_perm {σ : Type} (set : σ → Opt → Option σ) (hc : SetComm set) {l1 l2 : List Toks}
    (hp : l1.Perm l2) :
    ∀ (st r : σ), (segKeys l1).Nodup → parseOptSegs set st l1 = .ok r → parseOptSegs set st l2 = .ok r := by
  induction hp with
  | nil => intro st r _ h; exact h
  | cons x _ ih =>
    intro st r hnd h
    rw [parseOptSegs_cons_ok] at h ⊢
    obtain ⟨o, st', ho, hs, hrest⟩ := h
    rw [segKeys_cons_some _ ho] at hnd
    exact ⟨o, st', ho, hs, ih st' r (List.nodup_cons.mp hnd).2 hrest⟩
  | swap x y l =>
    intro st r hnd h
    rw [parseOptSegs_cons_ok] at h
    obtain ⟨oy, s1, hoy, hs1, h⟩ := h
    rw [parseOptSegs_cons_ok] at h
    obtain ⟨ox, s2, hox, hs2, hrest⟩ := h
    rw [segKeys_cons_some _ hoy, segKeys_cons_some _ hox] at hnd
    have hk : Opt.key oy ≠ Opt.key ox := by
      intro he
      have := (List.nodup_cons.mp hnd).1
      simp [he] at this
    obtain ⟨s1', h1', h2'⟩ := hc st oy ox s1 s2 hk hs1 hs2
    rw [parseOptSegs_cons_ok]
    refine ⟨ox, s1', hox, h1', ?_⟩
    rw [parseOptSegs_cons_ok]
    exact ⟨oy, s2, hoy, h2', hrest⟩
  | trans p1 _ ih1 ih2 =>
    intro st r hnd h
    have hnd2 := (List.Perm.nodup_iff ((p1.filterMap segOpt).map Opt.key)).mp hnd
    exact ih2 st r hnd2 (ih1 st r hnd h)

/-- **order independence**, fn / mod: any permutation of an accepted option list with pairwise
    different options expands identically -/
theorem T_C17_perm_fn (v : Variant) (a0 : Toks) (X1 X2 : List Toks) (hp : X1.Perm X2)
    (ha0 : CommaFree a0) (h1c : ∀ s ∈ X1, CommaFree s) (hnd : (segKeys X1).Nodup)
    (hok : ∃ r, parseOptSegs Opts.setFn {} X1 = .ok r) :
    (∀ f, expand v (attrOf (a0 :: X1)) (.fn f) = expand v (attrOf (a0 :: X2)) (.fn f)) ∧
    (∀ m, expand v (attrOf (a0 :: X1)) (.mod_ m) = expand v (attrOf (a0 :: X2)) (.mod_ m)) := by
  obtain ⟨r, hr⟩ := hok
  have hr2 := parseOptSegs_perm Opts.setFn setFn_comm hp {} r hnd hr
  have h2c : ∀ s ∈ X2, CommaFree s := fun s hs => h1c s (hp.mem_iff.mpr hs)
  have := parseFnAttr_rel v v a0 X1 X2 (fun a b => a = b) ha0 h1c h2c (by rintro a b rfl; rfl)
    (by rw [hr, hr2]; simp only [ParseRel])
  exact expand_fnmod_of_rel v v (attrOf (a0 :: X1)) (attrOf (a0 :: X2)) this

theorem parseOptSegs_ok_head {σ : Type} (set : σ → Opt → Option σ) (st r : σ) (s0 : Toks) (S : List Toks)
    (h : parseOptSegs set st (s0 :: S) = .ok r) : ∃ o, parseOpt s0 = .ok (o, []) := by
  rw [parseOptSegs_cons_ok] at h
  obtain ⟨o, _, ho, _, _⟩ := h
  unfold segOpt at ho
  split at ho
  · rename_i o' heq
    exact ⟨o', heq⟩
  · simp at ho

/-- **order independence**, trait targets without a delegation-target trait: the whole argument
    list is an option list -/
theorem T_C17_perm_trait (v : Variant) (S1 S2 : List Toks) (hp : S1.Perm S2)
    (h1c : ∀ s ∈ S1, CommaFree s) (hne : ∀ s ∈ S1, s ≠ []) (hnd : (segKeys S1).Nodup)
    (hok : ∃ r, parseOptSegs TraitAttr.set {} S1 = .ok r) (t : TraitItem) :
    expand v (attrOf S1) (.trait t) = expand v (attrOf S2) (.trait t) := by
  obtain ⟨r, hr⟩ := hok
  have hr2 := parseOptSegs_perm TraitAttr.set traitSet_comm hp {} r hnd hr
  have h2c : ∀ s ∈ S2, CommaFree s := fun s hs => h1c s (hp.mem_iff.mpr hs)
  have hne2 : ∀ s ∈ S2, s ≠ [] := fun s hs => hne s (hp.mem_iff.mpr hs)
  apply expand_trait_of_rel
  cases S1 with
  | nil =>
    have : S2 = [] := List.Perm.eq_nil (hp.symm)
    subst this
    exact parseRel_refl_trait v _
  | cons a A =>
    cases S2 with
    | nil => exact absurd (List.Perm.eq_nil hp) (by simp)
    | cons b B =>
      have hn1 : attrOf (a :: A) ≠ [] := attrOf_ne_nil_of_mem (hne a List.mem_cons_self) List.mem_cons_self
      have hn2 : attrOf (b :: B) ≠ [] := attrOf_ne_nil_of_mem (hne2 b List.mem_cons_self) List.mem_cons_self
      obtain ⟨oa, hoa⟩ := parseOptSegs_ok_head _ _ _ _ _ hr
      obtain ⟨ob, hob⟩ := parseOptSegs_ok_head _ _ _ _ _ hr2
      unfold parseTraitAttr
      simp only [List.isEmpty_iff, hn1, hn2, if_false]
      rw [splitCommas_attrOf _ (by simp) h1c, splitCommas_attrOf _ (by simp) h2c,
        parseTraitSegs_cons, parseTraitSegs_cons, hoa, hob]
      simp only [hr, hr2, ParseRel]
      exact ⟨rfl, rfl, rfl⟩


/-! ### (e) each option is accepted only on the targets documented for it -/

inductive Target | fn | mod_ | trait | impl
  deriving DecidableEq, Repr

/-- the option table of the crate documentation (`src/lib.rs`, "# Options"), transcribed -/
def documented : Opt → Target → Bool
  | .noDeps _, .fn => true
  | .export_ _, .fn => true
  | .export_ _, .mod_ => true
  | .mockApi _, t => t != .impl
  | .unimock _, t => t != .impl
  | .mockall _, t => t != .impl
  | .maybeSend, t => t != .impl
  | .delegateBy _, .trait => true
  | _, _ => false

/-- what the attribute parsers accept, per target -/
def accepts (o : Opt) : Target → Bool
  | .fn => (Opts.setFn {} o).isSome
  | .mod_ => (Opts.setFn {} o).isSome
  | .trait => (TraitAttr.set {} o).isSome
  | .impl => (ImplAttr.set {} o).isSome

/-- acceptance does not depend on what was parsed before -/
theorem accepts_state_indep (o : Opt) :
    (∀ st, (Opts.setFn st o).isSome = (Opts.setFn {} o).isSome) ∧
    (∀ st, (TraitAttr.set st o).isSome = (TraitAttr.set {} o).isSome) ∧
    (∀ st, (ImplAttr.set st o).isSome = (ImplAttr.set {} o).isSome) := by
  cases o <;> exact ⟨fun _ => rfl, fun _ => rfl, fun _ => rfl⟩

/-- the model accepts exactly the documented (option, target) pairs — apart from the undocumented
    `debug`, and from `no_deps` on modules (`C17_no_deps_on_mod`, a recorded finding) -/
theorem T_C17_table (o : Opt) (t : Target) (hdebug : Opt.key o ≠ 1) (hfinding : ¬ (Opt.key o = 0 ∧ t = .mod_)) :
    accepts o t = documented o t := by
  cases o <;> cases t <;> first | rfl | exact absurd rfl hdebug | exact absurd ⟨rfl, rfl⟩ hfinding

/-- the deviation from the documented table: `no_deps` is accepted on a module -/
theorem C17_no_deps_on_mod (b : Bool) : accepts (.noDeps b) .mod_ = true ∧ documented (.noDeps b) .mod_ = false :=
  ⟨rfl, rfl⟩

/-- a rejected option is answered with "Unsupported option", wherever it stands in an otherwise
    accepted prefix -/
theorem rejected_is_diag {σ : Type} (set : σ → Opt → Option σ) (A B : List Toks) (seg : Toks) (o : Opt) (rest : Toks)
    (st stA : σ) (hA : parseOptSegs set st A = .ok stA) (hp : parseOpt seg = .ok (o, rest)) (hrej : set stA o = none) :
    parseOptSegs set st (A ++ seg :: B) = .error unsupported := by
  rw [parseOptSegs_append, hA]
  simp only []
  rw [parseOptSegs.eq_2, hp]
  simp only [hrej]

/-- anything that is not an option name is answered with its "Unkonwn entrait option" message -/
theorem unknown_is_diag (s : String) (hk : isKeyword s = false)
    (hs : s ∉ ["no_deps", "debug", "delegate_by", "export", "mock_api", "unimock", "mockall"]) (rest : Toks) :
    parseOpt (i s :: rest) = .error (unknownOpt s) := by
  simp only [List.mem_cons, List.mem_nil_iff, or_false, not_or] at hs
  obtain ⟨h1, h2, h3, h4, h5, h6, h7⟩ := hs
  simp [parseOpt, i, hk, h1, h2, h3, h4, h5, h6, h7]


/-! ### non-vacuity -/

/-- the hypotheses of the order theorem hold of `no_deps, unimock, mock_api = M` -/
example : (segKeys [[i "no_deps"], [i "unimock"], [i "mock_api", p '=', i "M"]]).Nodup ∧
    ∃ r, parseOptSegs Opts.setFn {} [[i "no_deps"], [i "unimock"], [i "mock_api", p '=', i "M"]] = .ok r :=
  ⟨by decide +kernel, _, rfl⟩

/-- `NoKey` holds of a list that does not mention the option -/
example : NoKey 3 [[i "no_deps"], [i "mock_api", p '=', i "M"]] := by
  intro seg hs o rest hp
  simp only [List.mem_cons, List.mem_nil_iff, or_false] at hs
  rcases hs with rfl | rfl
  · have : parseOpt [i "no_deps"] = .ok (.noDeps true, []) := rfl
    rw [this] at hp; injection hp with hp; injection hp with h1 _; subst h1; decide
  · have : parseOpt [i "mock_api", p '=', i "M"] = .ok (.mockApi "M", []) := rfl
    rw [this] at hp; injection hp with hp; injection hp with h1 _; subst h1; decide

end Entrait.C17
