import EntraitProofs.Structure
/-
  What the generated method signature of an fn / mod input looks like (receiver kind `selfRef`).
-/
namespace Entrait

theorem fixParams_cons_recv (f : String) (a r m c) (us : List FnArg) :
    fixParams f (.recv a r m c :: us) = .recv a r m c :: fixParams f us := by
  simp [fixParams, FnArg.liftPat, keptIdents, nameArgs]

theorem stripAttrs_isRecv (a : FnArg) : a.stripAttrs.isRecv = a.isRecv := by
  cases a <;> rfl

theorem typedArgs_map_strip (xs : List FnArg) :
    typedArgs (xs.map FnArg.stripAttrs) = (typedArgs xs).map FnArg.stripAttrs := by
  induction xs with
  | nil => rfl
  | cons a rest ih => cases a <;> simp [FnArg.stripAttrs, ih]

theorem providedName_strip (a : FnArg) : a.stripAttrs.providedName = a.providedName := by
  cases a <;> rfl

theorem namesKept_strip (fnName : String) : ∀ (us : List FnArg) (ns : List String),
    namesKept fnName (us.map FnArg.stripAttrs) ns = namesKept fnName us ns
  | [], [] => rfl
  | [], _ :: _ => rfl
  | _ :: _, [] => rfl
  | u :: us, n :: ns => by
      simp only [List.map_cons, namesKept, providedName_strip, namesKept_strip fnName us ns]

theorem paramNamesOk_strip (f : String) (us : List FnArg) (sig : Sig) :
    paramNamesOk f (us.map FnArg.stripAttrs) sig = paramNamesOk f us sig := by
  unfold paramNamesOk
  have h1 : (us.map FnArg.stripAttrs).filterMap FnArg.providedName = us.filterMap FnArg.providedName := by
    rw [List.filterMap_map]
    congr 1
    funext a
    exact providedName_strip a
  simp only [h1, namesKept_strip, List.length_map]

/-- the receiver's reference part for a dependency parameter of the given type -/
def refOf : Ty → Option (Option String)
  | .ref_ lt _ _ => some lt
  | _ => none

/-- the receiver-rewriting step for fn / mod inputs -/
theorem generateParams_selfRef {deps : FnDeps} {inputs : List FnArg} {itrail : Bool}
    {ins : List FnArg} {tr : Bool}
    (h : generateParams .selfRef deps inputs itrail = .ok (ins, tr)) :
    (deps = .noDeps ∧ ins = .recv [] (some none) false none :: inputs) ∨
    (deps ≠ .noDeps ∧ inputs = [] ∧ ins = []) ∨
    (deps ≠ .noDeps ∧ ∃ a pt ty rest, inputs = .typed a pt ty :: rest ∧
      ins = .recv [] (refOf ty) false none :: rest) := by
  unfold generateParams rewriteFirst insertImplRecv at h
  cases deps with
  | noDeps =>
    simp [genFirstReceiver, selfReceiverArg] at h
    exact Or.inl ⟨rfl, h.1.symm⟩
  | generic q bs =>
    right
    cases inputs with
    | nil => simp at h; exact Or.inl ⟨by simp, rfl, by simpa [eq_comm] using h.1⟩
    | cons x rest =>
      right
      cases x with
      | recv => simp at h
      | typed a pt ty =>
        refine ⟨by simp, a, pt, ty, rest, rfl, ?_⟩
        cases ty <;> simp [genFirstReceiver, selfReceiverArg] at h <;> simp [refOf, h.1]
  | concrete cty =>
    right
    cases inputs with
    | nil => simp at h; exact Or.inl ⟨by simp, rfl, by simpa [eq_comm] using h.1⟩
    | cons x rest =>
      right
      cases x with
      | recv => simp at h
      | typed a pt ty =>
        refine ⟨by simp, a, pt, ty, rest, rfl, ?_⟩
        cases ty <;> simp [genFirstReceiver, selfReceiverArg] at h <;> simp [refOf, h.1]

/-- the method generated for one function of an fn / mod input -/
structure FnModeSpec (opts : Opts) (sig : Sig) (tf : TraitFn) : Prop where
  ident : tf.sig.ident = sig.ident
  async_ : tf.sig.async_ = sig.async_
  origAsync : tf.originallyAsync = sig.async_
  output : tf.sig.output = sig.output
  attrs : tf.attrs = []
  depsNoDeps : (tf.deps = .noDeps) ↔ opts.noDepsValue = true
  /-- a receiver, then the renamed user parameters -/
  inputs : ∃ r, tf.sig.inputs = .recv [] r false none ::
      fixParams sig.ident ((sig.userParams opts.noDepsValue).map FnArg.stripAttrs)
  /-- `&self` / `&'a self` for a dependency taken by reference, `self` for one taken by value -/
  recv : tf.sig.inputs.head? = expectedReceiver opts.noDepsValue sig

theorem fnModeSpec {opts : Opts} {sig : Sig} {tg tg' : TraitGenerics} {tf : TraitFn}
    (h : analyzeFn .selfRef opts sig tg = .ok (tf, tg')) : FnModeSpec opts sig tf := by
  obtain ⟨deps, ins, tr, hd, hg, rfl⟩ := analyzeFn_ok h
  cases hn : opts.noDepsValue
  · -- with a dependency parameter
    obtain ⟨hne, a, pt, ty, rest, hin⟩ := analyzeFnDeps_deps hd hn
    rcases generateParams_selfRef hg with ⟨hnd, _⟩ | ⟨_, hnil, _⟩ | ⟨_, a', pt', ty', rest', hin', rfl⟩
    · exact absurd hnd hne
    · simp [hin] at hnil
    · rw [hin] at hin'
      simp [FnArg.stripAttrs] at hin'
      obtain ⟨⟨_, rfl, rfl⟩, hrest⟩ := hin'
      refine ⟨rfl, rfl, rfl, rfl, rfl, ?_, ?_, ?_⟩
      · simp [hne, hn]
      · refine ⟨refOf ty, ?_⟩
        simp only [fixParams_cons_recv, Sig.userParams, hn, Bool.false_eq_true, if_false]
        rw [hin]
        simp [hrest]
      · simp only [fixParams_cons_recv, List.head?_cons, expectedReceiver, hn, Bool.false_eq_true, if_false, hin]
        cases ty <;> rfl
  · have hdn := analyzeFnDeps_noDeps hd hn
    subst hdn
    rcases generateParams_selfRef hg with ⟨_, rfl⟩ | ⟨hne, _, _⟩ | ⟨hne, _⟩
    · refine ⟨rfl, rfl, rfl, rfl, rfl, ?_, ?_, ?_⟩
      · simp [hn]
      · exact ⟨some none, by simp [fixParams_cons_recv, Sig.userParams, hn]⟩
      · simp [fixParams_cons_recv, expectedReceiver, hn]
    · exact absurd rfl hne
    · exact absurd rfl hne

end Entrait
