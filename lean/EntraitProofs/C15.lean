import EntraitProofs.C07
/-
  C15 — misuse yields a compile-time diagnostic; the macro never panics.

  `T_C15_nopanic`: for **every** variant, attribute token list and item, the model's expansion is
  never `.panic _`: each of the implementation's panic sites (`converter.rs` receiver rewriting and
  `Punctuated::insert`, the input-mode guard of `detect_trait_dependency_mode`, the `Pat::Ident`
  expectation of `gen_delegating_fn_item`) is unreachable — a receiver or an empty parameter list
  is rejected by the dependency analysis first, and every parameter pattern has been reduced to a
  plain identifier by `fix_fn_param_idents` before code generation.
  `T_C15_misuse`: whenever the invocation contains a documented misuse (`specMisuses`), the
  expansion is `.diag msg` with `msg` the specific message of one of the misuses present.
  Not expressible in the model (left to the correspondence check, which re-parses every real
  output with `syn`): "never emits tokens that fail to parse", and the span of the diagnostic.
-/
namespace Entrait.C15
open Entrait

/-! ### no panic -/

theorem generateParams_total (kind : ReceiverKind) (deps : FnDeps) (inputs : List FnArg) (itrail : Bool)
    (h : deps = .noDeps ∨ ∃ a pt ty rest, inputs = .typed a pt ty :: rest) :
    ∃ r, generateParams kind deps inputs itrail = .ok r := by
  unfold generateParams rewriteFirst insertImplRecv
  rcases h with rfl | ⟨a, pt, ty, rest, rfl⟩
  · cases kind <;> cases inputs <;> simp [genFirstReceiver]
  · cases deps with
    | noDeps => cases kind <;> simp [genFirstReceiver]
    | generic q bs => cases kind <;> cases ty <;> cases rest <;> simp [genFirstReceiver]
    | concrete c => cases kind <;> cases ty <;> cases rest <;> simp [genFirstReceiver]

/-- the dependency analysis decides alone whether a function is analysed -/
theorem analyzeFn_of_deps {kind : ReceiverKind} {opts : Opts} {sig : Sig} {tg tg' : TraitGenerics} {deps : FnDeps}
    (hd : analyzeFnDeps sig opts tg = .ok (deps, tg')) :
    ∃ tf, analyzeFn kind opts sig tg = .ok (tf, tg') ∧ tf.deps = deps := by
  have hshape : deps = .noDeps ∨ ∃ a pt ty rest, sig.inputs.map FnArg.stripAttrs = .typed a pt ty :: rest := by
    cases hn : opts.noDepsValue
    · obtain ⟨_, a, pt, ty, rest, hin⟩ := analyzeFnDeps_deps hd hn
      exact Or.inr ⟨[], pt, ty, rest.map FnArg.stripAttrs, by simp [hin, FnArg.stripAttrs]⟩
    · exact Or.inl (analyzeFnDeps_noDeps hd hn)
  obtain ⟨⟨ins, tr⟩, hg⟩ := generateParams_total kind deps _ sig.itrail hshape
  unfold analyzeFn convertSig
  simp only [hd, hg]
  exact ⟨_, rfl, rfl⟩

theorem analyzeFn_error {kind : ReceiverKind} {opts : Opts} {sig : Sig} {tg : TraitGenerics} {e : PErr}
    (hd : analyzeFnDeps sig opts tg = .error e) : analyzeFn kind opts sig tg = .error (.inl e) := by
  unfold analyzeFn
  simp only [hd]

theorem analyzeFn_not_panic (kind : ReceiverKind) (opts : Opts) (sig : Sig) (tg : TraitGenerics) (s : String) :
    analyzeFn kind opts sig tg ≠ .error (.inr s) := by
  cases hd : analyzeFnDeps sig opts tg with
  | error e => rw [analyzeFn_error hd]; simp
  | ok r =>
    obtain ⟨deps, tg'⟩ := r
    obtain ⟨tf, h, _⟩ := analyzeFn_of_deps (kind := kind) hd
    rw [h]; simp

theorem analyzeFns_not_panic (kind : ReceiverKind) (opts : Opts) (s : String) :
    ∀ (sigs : List Sig) (tg : TraitGenerics), analyzeFns kind opts sigs tg ≠ .error (.inr s)
  | [], tg => by simp [analyzeFns]
  | sig :: rest, tg => by
      unfold analyzeFns
      cases h1 : analyzeFn kind opts sig tg with
      | error e =>
        simp only []
        intro hc
        injection hc with hc
        exact analyzeFn_not_panic kind opts sig tg s (by rw [h1, hc])
      | ok r =>
        obtain ⟨tf, tg1⟩ := r
        simp only []
        cases h2 : analyzeFns kind opts rest tg1 with
        | error e =>
          simp only []
          intro hc
          injection hc with hc
          exact analyzeFns_not_panic kind opts s rest tg1 (by rw [h2, hc])
        | ok r2 => obtain ⟨tfs, tg2⟩ := r2; simp

theorem detectDepMode_not_panic (mode : InputMode) (hm : mode ≠ .rawTrait) (s : String) :
    ∀ fns : List TraitFn, detectDepMode mode fns ≠ .error (.inr s)
  | [] => by simp [detectDepMode]
  | tf :: fns => by
      unfold detectDepMode
      split
      · cases mode <;> simp_all
      · exact detectDepMode_not_panic mode hm s fns

theorem hasNonIdent_of_allPlain : ∀ xs : List FnArg, allPlain xs = true → hasNonIdentParam xs = false
  | [], _ => rfl
  | .recv .. :: rest, h => by
      simp only [allPlain] at h
      simpa [hasNonIdentParam] using hasNonIdent_of_allPlain rest h
  | .typed _ (.other _ _) _ :: rest, h => by simp [allPlain] at h
  | .typed _ (.ident r m n s) _ :: rest, h => by
      have h' : allPlain rest = true := by
        cases r <;> cases m <;> cases s <;> simp [allPlain] at h ⊢ <;> exact h
      simpa [hasNonIdentParam] using hasNonIdent_of_allPlain rest h'

theorem analyzeFn_allPlain {kind : ReceiverKind} {opts : Opts} {sig : Sig} {tg tg' : TraitGenerics} {tf : TraitFn}
    (h : analyzeFn kind opts sig tg = .ok (tf, tg')) : allPlain tf.sig.inputs = true := by
  obtain ⟨deps, ins, tr, _, _, rfl⟩ := analyzeFn_ok h
  exact allPlain_fixParams _ _

theorem genImplBlock_total (opts : Opts) (traitRef : Toks) (ind : ImplIndirection) (tg : TraitGenerics)
    (mode : InputMode) (depMode : DepMode) (subAttrs : List Attr) (fns : List TraitFn)
    (h : ∀ tf ∈ fns, allPlain tf.sig.inputs = true) :
    ∃ im, genImplBlock opts traitRef ind tg mode depMode subAttrs fns = .ok im := by
  unfold genImplBlock
  have : fns.any (fun tf => hasNonIdentParam tf.sig.inputs) = false := by
    rw [List.any_eq_false]
    intro tf htf
    simp [hasNonIdent_of_allPlain _ (h tf htf)]
  simp only [this, Bool.false_eq_true, if_false]
  exact ⟨_, rfl⟩

theorem ofPErr_ne_panic (e : PErr) (s : String) : Outcome.ofPErr e ≠ .panic s := by
  cases e <;> simp [Outcome.ofPErr]

theorem ofErr_inl_ne_panic (e : PErr) (s : String) : Outcome.ofErr (.inl e) ≠ .panic s := by
  cases e <;> simp [Outcome.ofErr]

theorem ofErr_panic {e : PErr ⊕ String} {s : String} (h : Outcome.ofErr e = .panic s) : e = .inr s := by
  rcases e with (_ | _) | _ <;> simp [Outcome.ofErr] at h
  rw [h]

/-- the shared tail of fn / mod / impl expansion -/
theorem fnsPipeline_nopanic (kind : ReceiverKind) (mode : InputMode) (hm : mode ≠ .rawTrait) (opts : Opts)
    (sigs : List Sig) (traitRef : Toks) (ind : ImplIndirection) (subAttrs : List Attr) (k : List TraitFn → TraitGenerics → DepMode → GenImpl → Outcome)
    (hk : ∀ fns tg d im s, k fns tg d im ≠ .panic s) (s : String) (as : List (List Attr)) :
    (match analyzeFns kind opts sigs {} with
     | .error e => Outcome.ofErr e
     | .ok (fns, tg) =>
       match detectDepMode mode (attachCfg as fns) with
       | .error e => Outcome.ofErr e
       | .ok depMode =>
         match genImplBlock opts traitRef ind tg mode depMode subAttrs (attachCfg as fns) with
         | .error site => .panic site
         | .ok im => k (attachCfg as fns) tg depMode im) ≠ .panic s := by
  simp only [detectDepMode_attachCfg]
  cases h2 : analyzeFns kind opts sigs {} with
  | error e =>
    simp only []
    intro hc
    exact analyzeFns_not_panic kind opts s sigs {} (by rw [h2, ofErr_panic hc])
  | ok r =>
    obtain ⟨fns, tg⟩ := r
    simp only []
    cases h3 : detectDepMode mode fns with
    | error e =>
      simp only []
      intro hc
      exact detectDepMode_not_panic mode hm s fns (by rw [h3, ofErr_panic hc])
    | ok depMode =>
      simp only []
      have hall := analyzeFns_all_cfg kind opts (fun tf => allPlain tf.sig.inputs = true) (fun _ _ h => h)
        (fun _ _ _ _ h => analyzeFn_allPlain h) sigs {} tg fns as h2
      obtain ⟨im, him⟩ := genImplBlock_total opts traitRef ind tg mode depMode subAttrs _ hall
      simp only [him]
      exact hk _ tg depMode im s

theorem T_C15_nopanic (v : Variant) (attr : Toks) (item : Item) (s : String) :
    expand v attr item ≠ .panic s := by
  cases item with
  | fn f =>
    simp only [expand]
    unfold expandFn
    cases h1 : parseFnAttr attr with
    | error e => exact ofPErr_ne_panic e s
    | ok a =>
      simp only []
      cases h2 : analyzeFn .selfRef (v.apply a.opts) f.sig {} with
      | error e =>
        simp only []
        intro hc
        exact analyzeFn_not_panic _ _ _ _ s (by rw [h2, ofErr_panic hc])
      | ok r =>
        obtain ⟨tf, tg⟩ := r
        simp only []
        cases h3 : detectDepMode .singleFn [tf] with
        | error e =>
          simp only []
          intro hc
          exact detectDepMode_not_panic .singleFn (by decide) s [tf] (by rw [h3, ofErr_panic hc])
        | ok depMode =>
          simp only []
          obtain ⟨im, him⟩ := genImplBlock_total (v.apply a.opts) [i a.traitIdent] .none tg .singleFn depMode f.attrs [tf]
            (by intro x hx; simp at hx; subst hx; exact analyzeFn_allPlain h2)
          simp [him]
  | mod_ m =>
    simp only [expand]
    split
    · simp
    · unfold expandMod
      cases h0 : splitBody false m.oracle m.body.length m.body with
      | error e => exact ofPErr_ne_panic e s
      | ok items =>
        simp only []
        cases h1 : parseFnAttr attr with
        | error e => exact ofPErr_ne_panic e s
        | ok a =>
          simp only []
          exact fnsPipeline_nopanic .selfRef .module (by decide) (v.apply a.opts) _ [i a.traitIdent] .none m.attrs
            (fun fns tg d im => .ok (.modOut m items
              [.trait (genTraitDef (v.apply a.opts) .plain d m.attrs a.traitVis a.traitIdent tg {} fns .module), .impl im]
              [.raw (a.traitVis ++ [i "use", i m.ident] ++ pathSep ++ [i a.traitIdent, p ';'])]))
            (by intros; simp) s (bodyFnAttrs items)
  | trait t =>
    simp only [expand]
    unfold expandTrait
    cases h1 : parseTraitAttr attr with
    | error e => exact ofPErr_ne_panic e s
    | ok a0 =>
      simp only []
      split
      · simp
      · cases h2 : analyzeTraitMembers t.members with
        | error e => exact ofPErr_ne_panic e s
        | ok fns =>
          simp only []
          split
          · exact ofPErr_ne_panic _ s
          · simp
  | impl m =>
    simp only [expand]
    unfold expandImpl
    cases h0 : splitBody true m.oracle m.body.length m.body with
    | error e => exact ofPErr_ne_panic e s
    | ok items =>
      simp only []
      cases h1 : parseImplAttr attr with
      | error e => exact ofPErr_ne_panic e s
      | ok a =>
        simp only []
        exact fnsPipeline_nopanic _ .implBlock (by decide) (v.apply a.opts) _ m.traitPath _ m.attrs
          (fun fns tg d im => .ok (.implOut
            (printAttrs (m.attrs.filter (fun a => a.subKind != .asyncTrait)) ++
              (if m.unsafe_ then [i "unsafe"] else []) ++ [i "impl"] ++ m.selfTy ++ [braces (items.flatMap BodyItem.print)])
            [.impl im]))
          (by intros; simp) s (bodyFnAttrs items)


/-! ### documented misuses are answered with their message -/

theorem extractDeps_stripped (g : Generics) (tg : TraitGenerics) (ty : Ty)
    (h1 : ∀ lt m e, ty ≠ .ref_ lt m e) (h2 : ∀ e, ty ≠ .paren e) :
    (∀ m, tyMisuse ty = some m → extractDepsFromType g tg ty = .error (.diag m)) ∧
    (tyMisuse ty = none → ∃ r, extractDepsFromType g tg ty = .ok r) := by
  cases ty with
  | implTrait bs tr => exact ⟨by simp [tyMisuse], fun _ => ⟨_, rfl⟩⟩
  | path q l n f t =>
    cases q
    · cases l
      · refine ⟨by simp [tyMisuse], fun _ => ?_⟩
        simp only [extractDepsFromType, Bool.false_eq_true, if_false]
        split
        · exact ⟨_, rfl⟩
        · split <;> exact ⟨_, rfl⟩
      · simp [extractDepsFromType, tyMisuse]
    · simp [extractDepsFromType, tyMisuse]
  | ref_ lt m e => exact absurd rfl (h1 lt m e)
  | paren e => exact absurd rfl (h2 e)
  | other t => exact ⟨by simp [tyMisuse], fun _ => ⟨_, rfl⟩⟩

theorem analyzeFnDeps_misuse {opts : Opts} (hn : opts.noDepsValue = false) (s : Sig) (tg : TraitGenerics) :
    (∀ m, depsError s = some m → analyzeFnDeps s opts tg = .error (.diag m)) ∧
    (depsError s = none → ∃ r, analyzeFnDeps s opts tg = .ok r) := by
  unfold depsError analyzeFnDeps
  simp only [hn, Bool.false_eq_true, if_false]
  cases hi : s.inputs with
  | nil => simp
  | cons x rest =>
    cases x with
    | recv => simp
    | typed a pt ty =>
      simp only
      rw [extractDeps_stripRefs]
      exact extractDeps_stripped s.generics tg ty.stripRefs (stripRefs_not_ref ty).1 (stripRefs_not_ref ty).2

/-- analysis of a list of functions: the first rejected signature decides; if none is rejected,
    all are analysed and their dependency kinds agree with the declared ones -/
theorem analyzeFns_misuse (kind : ReceiverKind) {opts : Opts} (hn : opts.noDepsValue = false) :
    ∀ (sigs : List Sig) (tg : TraitGenerics),
      (∃ s ∈ sigs, ∃ m, depsError s = some m ∧ analyzeFns kind opts sigs tg = .error (.inl (.diag m))) ∨
      ((∀ s ∈ sigs, depsError s = none) ∧
        ∃ fns tg', analyzeFns kind opts sigs tg = .ok (fns, tg') ∧ zipAll C04.depsMatch sigs fns = true)
  | [], tg => Or.inr ⟨by simp, [], tg, rfl, rfl⟩
  | s :: rest, tg => by
      obtain ⟨hm1, hm2⟩ := analyzeFnDeps_misuse hn s tg
      cases hde : depsError s with
      | some m =>
        have hm := hm1 m hde
        left
        refine ⟨s, List.mem_cons_self, m, hde, ?_⟩
        unfold analyzeFns
        rw [analyzeFn_error hm]
      | none =>
        obtain ⟨⟨deps, tg1⟩, hd⟩ := hm2 hde
        obtain ⟨tf, htf, _⟩ := analyzeFn_of_deps (kind := kind) hd
        have hdm := C04.depsMatch_of_analyzeFn hn htf
        rcases analyzeFns_misuse kind hn rest tg1 with ⟨s', hs', m, hm', he⟩ | ⟨hall, fns, tg2, hok, hz⟩
        · left
          refine ⟨s', List.mem_cons_of_mem _ hs', m, hm', ?_⟩
          unfold analyzeFns
          simp only [htf, he]
        · right
          refine ⟨?_, tf :: fns, tg2, ?_, ?_⟩
          · intro x hx
            rcases List.mem_cons.mp hx with rfl | hx
            · exact hde
            · exact hall x hx
          · unfold analyzeFns
            simp only [htf, hok]
          · simp only [zipAll, hdm, hz, Bool.and_self]

/-- a concrete dependency among the functions of a module / impl block is rejected -/
theorem detectDepMode_concrete (mode : InputMode) :
    ∀ (sigs : List Sig) (fns : List TraitFn), zipAll C04.depsMatch sigs fns = true →
      sigs.any Sig.depIsConcrete = true →
      detectDepMode mode fns = (match mode with
        | .singleFn => detectDepMode .singleFn fns
        | .module => .error (.inl (.diag msgConcreteInModule))
        | .implBlock => .error (.inl (.diag msgConcreteInImpl))
        | .rawTrait => detectDepMode .rawTrait fns)
  | [], [], _, h => by simp at h
  | [], _ :: _, h, _ => by simp [zipAll] at h
  | _ :: _, [], h, _ => by simp [zipAll] at h
  | s :: sigs, tf :: fns, h, hc => by
      simp only [zipAll, Bool.and_eq_true] at h
      have hm := h.1
      unfold C04.depsMatch at hm
      cases mode with
      | singleFn => rfl
      | rawTrait => rfl
      | module =>
        unfold detectDepMode
        cases hd : tf.deps with
        | concrete cty => rfl
        | generic q bs =>
          rw [hd] at hm
          simp only [Bool.and_eq_true, decide_eq_true_eq, Bool.not_eq_true'] at hm
          simp only [List.any_cons, hm.2, Bool.false_or] at hc
          exact detectDepMode_concrete .module sigs fns h.2 hc
        | noDeps => rw [hd] at hm; simp at hm
      | implBlock =>
        unfold detectDepMode
        cases hd : tf.deps with
        | concrete cty => rfl
        | generic q bs =>
          rw [hd] at hm
          simp only [Bool.and_eq_true, decide_eq_true_eq, Bool.not_eq_true'] at hm
          simp only [List.any_cons, hm.2, Bool.false_or] at hc
          exact detectDepMode_concrete .implBlock sigs fns h.2 hc
        | noDeps => rw [hd] at hm; simp at hm


theorem sigMisuses_noDeps (mode : Mode) (s : Sig) : sigMisuses true mode s = [] := by simp [sigMisuses]

/-- the shared tail of mod / impl expansion answers a misuse among the functions -/
theorem fnsPipeline_misuse (kind : ReceiverKind) (mode : InputMode) (smode : Mode)
    (hmode : (mode = .module ∧ smode = .mod_) ∨ (mode = .implBlock ∧ smode = .impl))
    (opts : Opts) (hn : opts.noDepsValue = false) (sigs : List Sig) (traitRef : Toks) (ind : ImplIndirection)
    (subAttrs : List Attr) (k : List TraitFn → TraitGenerics → DepMode → GenImpl → Outcome)
    (hne : sigs.flatMap (sigMisuses false smode) ≠ []) (as : List (List Attr)) :
    ∃ msg ∈ sigs.flatMap (sigMisuses false smode),
      (match analyzeFns kind opts sigs {} with
       | .error e => Outcome.ofErr e
       | .ok (fns, tg) =>
         match detectDepMode mode (attachCfg as fns) with
         | .error e => Outcome.ofErr e
         | .ok depMode =>
           match genImplBlock opts traitRef ind tg mode depMode subAttrs (attachCfg as fns) with
           | .error site => .panic site
           | .ok im => k (attachCfg as fns) tg depMode im) = .diag msg := by
  simp only [detectDepMode_attachCfg]
  rcases analyzeFns_misuse kind hn sigs {} with ⟨s, hs, m, hm, he⟩ | ⟨hall, fns, tg', hok, hz⟩
  · refine ⟨m, ?_, ?_⟩
    · rw [List.mem_flatMap]
      exact ⟨s, hs, by simp [sigMisuses, hm]⟩
    · simp only [he, Outcome.ofErr]
  · -- no signature is rejected outright: the misuse is a concrete dependency
    have hconc : sigs.any Sig.depIsConcrete = true := by
      cases hc : sigs.any Sig.depIsConcrete with
      | true => rfl
      | false =>
        exfalso
        apply hne
        rw [List.flatMap_eq_nil_iff]
        intro s hs
        have := List.any_eq_false.mp hc s hs
        simp [sigMisuses, hall s hs, this]
    obtain ⟨s, hs, hsc⟩ := List.any_eq_true.mp hconc
    have hd := detectDepMode_concrete mode sigs fns hz hconc
    rcases hmode with ⟨rfl, rfl⟩ | ⟨rfl, rfl⟩
    · refine ⟨msgConcreteInModule, ?_, ?_⟩
      · rw [List.mem_flatMap]
        exact ⟨s, hs, by simp [sigMisuses, hall s hs, hsc, concreteMisuse]⟩
      · simp only [hok, hd, Outcome.ofErr]
    · refine ⟨msgConcreteInImpl, ?_, ?_⟩
      · rw [List.mem_flatMap]
        exact ⟨s, hs, by simp [sigMisuses, hall s hs, hsc, concreteMisuse]⟩
      · simp only [hok, hd, Outcome.ofErr]

theorem analyzeTraitMembers_misuse : ∀ ms : List TraitMember,
    (ms.any TraitMember.isOther = true → analyzeTraitMembers ms = .error (.diag msgUnsupportedTraitItem)) ∧
    (ms.any TraitMember.isOther = false → ∃ fns, analyzeTraitMembers ms = .ok fns)
  | [] => by simp [analyzeTraitMembers]
  | .fn f :: rest => by
      obtain ⟨h1, h2⟩ := analyzeTraitMembers_misuse rest
      simp only [List.any_cons, TraitMember.isOther, Bool.false_or, analyzeTraitMembers]
      constructor
      · intro h; rw [h1 h]
      · intro h; obtain ⟨fns, hf⟩ := h2 h; rw [hf]; exact ⟨_, rfl⟩
  | .type_ ts :: rest => by
      simpa only [List.any_cons, TraitMember.isOther, Bool.false_or, analyzeTraitMembers] using analyzeTraitMembers_misuse rest
  | .other ts :: rest => by simp [analyzeTraitMembers, TraitMember.isOther]

theorem T_C15_misuse (v : Variant) (attr : Toks) (item : Item) (m : String) (ms : List String)
    (h : specMisuses attr item = some (m :: ms)) :
    ∃ msg ∈ m :: ms, expand v attr item = .diag msg := by
  cases item with
  | fn f =>
    simp only [specMisuses] at h
    simp only [expand]
    unfold expandFn
    cases h1 : parseFnAttr attr with
    | error e =>
      rw [h1] at h
      cases e with
      | syn => simp at h
      | diag m' =>
        simp only [Option.some.injEq, List.cons.injEq] at h
        exact ⟨m', by simp [h.1], rfl⟩
    | ok a =>
      rw [h1] at h
      simp only [Option.some.injEq] at h
      have hn : a.opts.noDepsValue = false := by
        cases hnd : a.opts.noDepsValue with
        | false => rfl
        | true => rw [hnd, sigMisuses_noDeps] at h; simp at h
      rw [hn] at h
      have hn' : (v.apply a.opts).noDepsValue = false := by rw [apply_noDepsValue]; exact hn
      unfold sigMisuses at h
      simp only [Bool.false_eq_true, if_false] at h
      cases hde : depsError f.sig with
      | none => rw [hde] at h; simp [concreteMisuse] at h
      | some m' =>
        rw [hde] at h
        simp only [List.cons.injEq] at h
        have he := analyzeFn_error (kind := .selfRef) ((analyzeFnDeps_misuse hn' f.sig {}).1 m' hde)
        simp only [he]
        exact ⟨m', by simp [h.1], rfl⟩
  | mod_ m' =>
    simp only [specMisuses] at h
    simp only [expand]
    split at h
    · rename_i hu
      simp only [Option.some.injEq, List.cons.injEq] at h
      simp only [hu, if_true]
      exact ⟨_, by simp [h.1], rfl⟩
    · rename_i hu
      simp only [hu, Bool.false_eq_true, if_false]
      unfold expandMod
      cases h0 : splitBody false m'.oracle m'.body.length m'.body with
      | error e => rw [h0] at h; simp at h
      | ok items =>
        rw [h0] at h
        simp only []
        cases h1 : parseFnAttr attr with
        | error e =>
          rw [h1] at h
          cases e with
          | syn => simp at h
          | diag m2 =>
            simp only [Option.some.injEq, List.cons.injEq] at h
            exact ⟨m2, by simp [h.1], rfl⟩
        | ok a =>
          rw [h1] at h
          simp only [Option.some.injEq] at h
          have hn : a.opts.noDepsValue = false := by
            cases hnd : a.opts.noDepsValue with
            | false => rfl
            | true =>
              rw [hnd] at h
              simp only [sigMisuses_noDeps] at h
              rw [List.flatMap_eq_nil_iff.mpr (fun _ _ => rfl)] at h
              simp at h
          rw [hn] at h
          have hn' : (v.apply a.opts).noDepsValue = false := by rw [apply_noDepsValue]; exact hn
          have hfm : ((items.filterMap BodyItem.fn?).map (·.sig)).flatMap (sigMisuses false .mod_) = m :: ms := by
            rw [List.flatMap_map]; exact h
          obtain ⟨msg, hmem, hres⟩ := fnsPipeline_misuse .selfRef .module .mod_ (Or.inl ⟨rfl, rfl⟩) (v.apply a.opts) hn'
            ((items.filterMap BodyItem.fn?).map (·.sig)) [i a.traitIdent] .none m'.attrs
            (fun fns tg d im => .ok (.modOut m' items
              [.trait (genTraitDef (v.apply a.opts) .plain d m'.attrs a.traitVis a.traitIdent tg {} fns .module), .impl im]
              [.raw (a.traitVis ++ [i "use", i m'.ident] ++ pathSep ++ [i a.traitIdent, p ';'])]))
            (by rw [hfm]; simp) (bodyFnAttrs items)
          rw [hfm] at hmem
          exact ⟨msg, hmem, hres⟩
  | impl m' =>
    simp only [specMisuses] at h
    simp only [expand]
    unfold expandImpl
    cases h0 : splitBody true m'.oracle m'.body.length m'.body with
    | error e => rw [h0] at h; simp at h
    | ok items =>
      rw [h0] at h
      simp only []
      cases h1 : parseImplAttr attr with
      | error e =>
        rw [h1] at h
        cases e with
        | syn => simp at h
        | diag m2 =>
          simp only [Option.some.injEq, List.cons.injEq] at h
          exact ⟨m2, by simp [h.1], rfl⟩
      | ok a =>
        rw [h1] at h
        simp only [Option.some.injEq] at h
        have hn' : (v.apply a.opts).noDepsValue = false := impl_noDepsValue h1
        have hfm : ((items.filterMap BodyItem.fn?).map (·.sig)).flatMap (sigMisuses false .impl) = m :: ms := by
          rw [List.flatMap_map]; exact h
        obtain ⟨msg, hmem, hres⟩ := fnsPipeline_misuse (if a.dynRef then .dynamicImpl else .staticImpl) .implBlock .impl
          (Or.inr ⟨rfl, rfl⟩) (v.apply a.opts) hn'
          ((items.filterMap BodyItem.fn?).map (·.sig)) m'.traitPath (if a.dynRef then .dynamic m'.selfTy else .static_ m'.selfTy) m'.attrs
          (fun fns tg d im => .ok (.implOut
            (printAttrs (m'.attrs.filter (fun a => a.subKind != .asyncTrait)) ++
              (if m'.unsafe_ then [i "unsafe"] else []) ++ [i "impl"] ++ m'.selfTy ++ [braces (items.flatMap BodyItem.print)])
            [.impl im]))
          (by rw [hfm]; simp) (bodyFnAttrs items)
        rw [hfm] at hmem
        exact ⟨msg, hmem, hres⟩
  | trait t =>
    simp only [specMisuses] at h
    simp only [expand]
    unfold expandTrait
    cases h1 : parseTraitAttr attr with
    | error e =>
      rw [h1] at h
      cases e with
      | syn => simp at h
      | diag m2 =>
        simp only [Option.some.injEq, List.cons.injEq] at h
        exact ⟨m2, by simp [h.1], rfl⟩
    | ok a =>
      rw [h1] at h
      simp only [Option.some.injEq] at h
      simp only []
      obtain ⟨hA, hB⟩ := analyzeTraitMembers_misuse t.members
      cases hother : t.members.any TraitMember.isOther with
      | false =>
        obtain ⟨fns, hf⟩ := hB hother
        simp only [hother, Bool.false_eq_true, if_false, List.append_nil] at h
        cases hi : a.implTrait with
        | none =>
          cases hd : a.delegation with
          | none => simp [hi, hd, delegationMisuses] at h
          | some d =>
            cases d with
            | byTrait dn =>
              simp only [hi, hd, delegationMisuses, List.cons.injEq] at h
              exact ⟨_, by simp [← h.1], rfl⟩
            | bySelf => simp [hi, hd, delegationMisuses] at h
            | byRef b => simp [hi, hd, delegationMisuses] at h
        | some it =>
          obtain ⟨ivis, iid⟩ := it
          cases hd : a.delegation with
          | none =>
            simp only [hi, hd, delegationMisuses, List.cons.injEq] at h
            refine ⟨msgMissingDelegateBy, by simp [← h.1], ?_⟩
            simp only [hf, genDelegationTraitDefs, hi, hd, Outcome.ofPErr]
          | some d =>
            cases d with
            | byTrait dn => simp [hi, hd, delegationMisuses] at h
            | bySelf =>
              simp only [hi, hd, delegationMisuses, List.cons.injEq] at h
              refine ⟨msgMissingDelegateBy, by simp [← h.1], ?_⟩
              simp only [hf, genDelegationTraitDefs, hi, hd, Outcome.ofPErr]
            | byRef b => simp [hi, hd, delegationMisuses] at h
      | true =>
        have hf := hA hother
        simp only [hother, if_true] at h
        have hmemU : msgUnsupportedTraitItem ∈ m :: ms := by rw [← h]; simp
        cases hi : a.implTrait with
        | none =>
          cases hd : a.delegation with
          | none => exact ⟨_, hmemU, by simp only [hf, Outcome.ofPErr]⟩
          | some d =>
            cases d with
            | byTrait dn =>
              refine ⟨msgCustomWithoutTrait, ?_, rfl⟩
              rw [← h]; simp [hi, hd, delegationMisuses]
            | bySelf => exact ⟨_, hmemU, by simp only [hf, Outcome.ofPErr]⟩
            | byRef b => exact ⟨_, hmemU, by simp only [hf, Outcome.ofPErr]⟩
        | some it => exact ⟨_, hmemU, by simp only [hf, Outcome.ofPErr]⟩


/-! ### conversely: an invocation without any listed misuse expands -/

theorem detectDepMode_ok_of_noConcrete (mode : InputMode) (hm : mode ≠ .rawTrait) :
    ∀ (fns : List TraitFn), (∀ tf ∈ fns, ∀ ty, tf.deps ≠ .concrete ty) → detectDepMode mode fns = .ok .generic
  | [], _ => rfl
  | tf :: fns, h => by
      unfold detectDepMode
      split
      · rename_i ty hty
        exact absurd hty (h tf List.mem_cons_self ty)
      · exact detectDepMode_ok_of_noConcrete mode hm fns (fun x hx => h x (List.mem_cons_of_mem _ hx))

theorem noConcrete_of_match : ∀ (sigs : List Sig) (fns : List TraitFn),
    zipAll C04.depsMatch sigs fns = true → sigs.any Sig.depIsConcrete = false →
      ∀ tf ∈ fns, ∀ ty, tf.deps ≠ .concrete ty :=
  fun sigs fns hz hc => (C04.depsBounds_of_zip sigs fns hz hc).2

/-- the shared tail of mod / impl expansion succeeds when no function is misused -/
theorem fnsPipeline_ok (kind : ReceiverKind) (mode : InputMode) (smode : Mode)
    (hmode : (mode = .module ∧ smode = .mod_) ∨ (mode = .implBlock ∧ smode = .impl))
    (opts : Opts) (sigs : List Sig) (traitRef : Toks) (ind : ImplIndirection)
    (subAttrs : List Attr) (k : List TraitFn → TraitGenerics → DepMode → GenImpl → Outcome)
    (hk : ∀ fns tg d im, ∃ out, k fns tg d im = .ok out)
    (hnone : sigs.flatMap (sigMisuses opts.noDepsValue smode) = []) (as : List (List Attr)) :
    ∃ out,
      (match analyzeFns kind opts sigs {} with
       | .error e => Outcome.ofErr e
       | .ok (fns, tg) =>
         match detectDepMode mode (attachCfg as fns) with
         | .error e => Outcome.ofErr e
         | .ok depMode =>
           match genImplBlock opts traitRef ind tg mode depMode subAttrs (attachCfg as fns) with
           | .error site => .panic site
           | .ok im => k (attachCfg as fns) tg depMode im) = .ok out := by
  simp only [detectDepMode_attachCfg]
  have hm : mode ≠ .rawTrait := by rcases hmode with ⟨rfl, _⟩ | ⟨rfl, _⟩ <;> decide
  -- analysis succeeds and no dependency is concrete
  have hA : ∃ fns tg, analyzeFns kind opts sigs {} = .ok (fns, tg) ∧ ∀ tf ∈ fns, ∀ ty, tf.deps ≠ .concrete ty := by
    cases hn : opts.noDepsValue with
    | true =>
      -- `no_deps`: every function is analysed, with `FnDeps.noDeps`
      have hall : ∀ (sigs : List Sig) (tg : TraitGenerics), ∃ fns tg',
          analyzeFns kind opts sigs tg = .ok (fns, tg') ∧ ∀ tf ∈ fns, tf.deps = .noDeps := by
        intro sigs
        induction sigs with
        | nil => intro tg; exact ⟨[], tg, rfl, by simp⟩
        | cons s rest ih =>
          intro tg
          have hd : analyzeFnDeps s opts tg = .ok (.noDeps, depsWithGenerics s.generics tg) := by
            simp [analyzeFnDeps, hn]
          obtain ⟨tf, htf, hdeps⟩ := analyzeFn_of_deps (kind := kind) hd
          obtain ⟨fns, tg2, hok, hnd⟩ := ih (depsWithGenerics s.generics tg)
          refine ⟨tf :: fns, tg2, ?_, ?_⟩
          · unfold analyzeFns; simp only [htf, hok]
          · intro x hx
            rcases List.mem_cons.mp hx with rfl | hx
            · exact hdeps
            · exact hnd x hx
      obtain ⟨fns, tg, hok, hnd⟩ := hall sigs {}
      exact ⟨fns, tg, hok, fun tf htf ty => by rw [hnd tf htf]; simp⟩
    | false =>
      rw [hn] at hnone
      rcases analyzeFns_misuse kind hn sigs {} with ⟨s, hs, m, hm', _⟩ | ⟨hall, fns, tg', hok, hz⟩
      · exfalso
        have : m ∈ sigs.flatMap (sigMisuses false smode) := by
          rw [List.mem_flatMap]; exact ⟨s, hs, by simp [sigMisuses, hm']⟩
        rw [hnone] at this; simp at this
      · have hc : sigs.any Sig.depIsConcrete = false := by
          rw [List.any_eq_false]
          intro s hs
          cases hcs : s.depIsConcrete with
          | false => simp
          | true =>
            exfalso
            have hmem : ∃ m, m ∈ sigMisuses false smode s := by
              rcases hmode with ⟨_, rfl⟩ | ⟨_, rfl⟩ <;> simp [sigMisuses, hall s hs, hcs, concreteMisuse]
            obtain ⟨m, hm'⟩ := hmem
            have : m ∈ sigs.flatMap (sigMisuses false smode) := by
              rw [List.mem_flatMap]; exact ⟨s, hs, hm'⟩
            rw [hnone] at this; simp at this
        exact ⟨fns, tg', hok, noConcrete_of_match sigs fns hz hc⟩
  obtain ⟨fns, tg, hok, hnc⟩ := hA
  have hdm := detectDepMode_ok_of_noConcrete mode hm fns hnc
  have hall := analyzeFns_all_cfg kind opts (fun tf => allPlain tf.sig.inputs = true) (fun _ _ h => h)
    (fun _ _ _ _ h => analyzeFn_allPlain h) sigs {} tg fns as hok
  obtain ⟨im, him⟩ := genImplBlock_total opts traitRef ind tg mode .generic subAttrs _ hall
  obtain ⟨out, hout⟩ := hk (attachCfg as fns) tg .generic im
  exact ⟨out, by simp only [hok, hdm, him, hout]⟩

/-- **acceptance**: when the attribute arguments and the item are well-formed at the syn level and
    none of the documented misuses is present, the model expands (for a single fn: also with a
    concrete dependency) -/
theorem T_C15_accepts (v : Variant) (attr : Toks) (item : Item) (h : specMisuses attr item = some []) :
    ∃ out, expand v attr item = .ok out := by
  cases item with
  | fn f =>
    simp only [specMisuses] at h
    simp only [expand]
    unfold expandFn
    cases h1 : parseFnAttr attr with
    | error e => rw [h1] at h; cases e <;> simp at h
    | ok a =>
      rw [h1] at h
      simp only [Option.some.injEq] at h
      simp only []
      -- the dependency analysis succeeds
      have hd : ∃ r, analyzeFnDeps f.sig (v.apply a.opts) {} = .ok r := by
        cases hn : (v.apply a.opts).noDepsValue with
        | true => exact ⟨(.noDeps, depsWithGenerics f.sig.generics {}), by simp [analyzeFnDeps, hn]⟩
        | false =>
          have hn0 : a.opts.noDepsValue = false := by rw [← apply_noDepsValue v]; exact hn
          rw [hn0] at h
          have hde : depsError f.sig = none := by
            cases hde : depsError f.sig with
            | none => rfl
            | some m => simp [sigMisuses, hde] at h
          exact (analyzeFnDeps_misuse hn f.sig {}).2 hde
      obtain ⟨⟨deps, tg⟩, hd⟩ := hd
      obtain ⟨tf, htf, _⟩ := analyzeFn_of_deps (kind := .selfRef) hd
      simp only [htf]
      have hdm : ∃ d, detectDepMode .singleFn [tf] = .ok d := by
        unfold detectDepMode
        split
        · exact ⟨_, rfl⟩
        · exact ⟨_, rfl⟩
      obtain ⟨d, hdm⟩ := hdm
      simp only [hdm]
      obtain ⟨im, him⟩ := genImplBlock_total (v.apply a.opts) [i a.traitIdent] .none tg .singleFn d f.attrs [tf]
        (by intro x hx; simp at hx; subst hx; exact analyzeFn_allPlain htf)
      simp only [him]
      exact ⟨_, rfl⟩
  | mod_ m =>
    simp only [specMisuses] at h
    simp only [expand]
    split at h
    · simp at h
    · rename_i hu
      simp only [hu, Bool.false_eq_true, if_false]
      unfold expandMod
      cases h0 : splitBody false m.oracle m.body.length m.body with
      | error e => rw [h0] at h; simp at h
      | ok items =>
        rw [h0] at h
        simp only []
        cases h1 : parseFnAttr attr with
        | error e => rw [h1] at h; cases e <;> simp at h
        | ok a =>
          rw [h1] at h
          simp only [Option.some.injEq] at h
          simp only []
          have hfm : ((items.filterMap BodyItem.fn?).map (·.sig)).flatMap (sigMisuses (v.apply a.opts).noDepsValue .mod_) = [] := by
            rw [List.flatMap_map, apply_noDepsValue]; exact h
          exact fnsPipeline_ok .selfRef .module .mod_ (Or.inl ⟨rfl, rfl⟩) (v.apply a.opts) _ [i a.traitIdent] .none m.attrs
            (fun fns tg d im => .ok (.modOut m items
              [.trait (genTraitDef (v.apply a.opts) .plain d m.attrs a.traitVis a.traitIdent tg {} fns .module), .impl im]
              [.raw (a.traitVis ++ [i "use", i m.ident] ++ pathSep ++ [i a.traitIdent, p ';'])]))
            (fun _ _ _ _ => ⟨_, rfl⟩) hfm (bodyFnAttrs items)
  | impl m =>
    simp only [specMisuses] at h
    simp only [expand]
    unfold expandImpl
    cases h0 : splitBody true m.oracle m.body.length m.body with
    | error e => rw [h0] at h; simp at h
    | ok items =>
      rw [h0] at h
      simp only []
      cases h1 : parseImplAttr attr with
      | error e => rw [h1] at h; cases e <;> simp at h
      | ok a =>
        rw [h1] at h
        simp only [Option.some.injEq] at h
        simp only []
        have hn' : (v.apply a.opts).noDepsValue = false := impl_noDepsValue h1
        have hfm : ((items.filterMap BodyItem.fn?).map (·.sig)).flatMap (sigMisuses (v.apply a.opts).noDepsValue .impl) = [] := by
          rw [List.flatMap_map, hn']; exact h
        exact fnsPipeline_ok _ .implBlock .impl (Or.inr ⟨rfl, rfl⟩) (v.apply a.opts) _ m.traitPath _ m.attrs
          (fun fns tg d im => .ok (.implOut
            (printAttrs (m.attrs.filter (fun a => a.subKind != .asyncTrait)) ++
              (if m.unsafe_ then [i "unsafe"] else []) ++ [i "impl"] ++ m.selfTy ++ [braces (items.flatMap BodyItem.print)])
            [.impl im]))
          (fun _ _ _ _ => ⟨_, rfl⟩) hfm (bodyFnAttrs items)
  | trait t =>
    simp only [specMisuses] at h
    simp only [expand]
    unfold expandTrait
    cases h1 : parseTraitAttr attr with
    | error e => rw [h1] at h; cases e <;> simp at h
    | ok a =>
      rw [h1] at h
      simp only [Option.some.injEq, List.append_eq_nil_iff] at h
      obtain ⟨hdel, hoth⟩ := h
      simp only []
      have hother : t.members.any TraitMember.isOther = false := by
        cases ho : t.members.any TraitMember.isOther with
        | false => rfl
        | true => simp [ho] at hoth
      obtain ⟨fns, hf⟩ := (analyzeTraitMembers_misuse t.members).2 hother
      cases hi : a.implTrait with
      | none =>
        cases hd : a.delegation with
        | none => simp only [hf, genDelegationTraitDefs, hi]; exact ⟨_, rfl⟩
        | some d =>
          cases d with
          | byTrait dn => simp [hi, hd, delegationMisuses] at hdel
          | bySelf => simp only [hf, genDelegationTraitDefs, hi]; exact ⟨_, rfl⟩
          | byRef b => simp only [hf, genDelegationTraitDefs, hi]; exact ⟨_, rfl⟩
      | some it =>
        obtain ⟨ivis, iid⟩ := it
        cases hd : a.delegation with
        | none => simp [hi, hd, delegationMisuses] at hdel
        | some d =>
          cases d with
          | bySelf => simp [hi, hd, delegationMisuses] at hdel
          | byTrait dn => simp only [hf, genDelegationTraitDefs, hi, hd]; exact ⟨_, rfl⟩
          | byRef b => simp only [hf, genDelegationTraitDefs, hi, hd]; exact ⟨_, rfl⟩

/-- non-vacuity: a function without a dependency parameter, and a concrete dependency in a module -/
example : specMisuses [i "Foo"] (.fn { sig := { ident := "f" } }) = some [msgNoReceiver] ∧
    expand .plain [i "Foo"] (.fn { sig := { ident := "f" } }) = .diag msgNoReceiver := by decide +kernel

example : specMisuses [i "TrImpl"] (.trait Examples.traitTr) = some [msgMissingDelegateBy] ∧
    expand .plain [i "TrImpl"] (.trait Examples.traitTr) = .diag msgMissingDelegateBy := by decide +kernel

end Entrait.C15
