import EntraitProofs.Inversion
import EntraitProofs.Split
import EntraitProofs.Examples
/-
  C02 — append-only: the annotated fn / mod / impl items are emitted unchanged.

  Statements are about the *token stream* the model returns (`Out.render`):
  * fn: the input item's tokens are a prefix, generated items follow;
  * mod: the header, then one brace group holding the input body followed by generated items,
    then generated items;
  * impl block: the inherent block `impl Type { <input body> }` (attributes other than
    async_trait and `unsafe` carried), then generated items.
  For mod / impl the body is re-assembled from the split items, which is the identity provided
  the signature oracle is stable (`OracleOk`: syn's printer is the identity on the signatures it
  parsed; decided per case by the driver as `synStable`).  Function bodies and unrecognised
  items are arbitrary token lists.
-/
namespace Entrait.C02
open Entrait

theorem T_C02_fn (v : Variant) (attr : Toks) (f : FnItem) (out : Out)
    (h : expand v attr (.fn f) = .ok out) :
    out.render = (Item.fn f).print ++ printGen out.after := by
  obtain ⟨a, tf, tg, depMode, implBlock, _, _, _, _, rfl⟩ := expandFn_ok h
  rfl

theorem T_C02_mod (v : Variant) (attr : Toks) (m : ModItemIn) (out : Out)
    (hst : OracleOk m.oracle m.body) (h : expand v attr (.mod_ m) = .ok out) :
    out.render = printAttrs m.attrs ++ m.vis ++ [i "mod", i m.ident, braces (m.body ++ printGen out.inside)] ++ printGen out.after ∧
    (Item.mod_ m).print = printAttrs m.attrs ++ m.vis ++ [i "mod", i m.ident, braces m.body] := by
  simp only [expand] at h
  split at h
  · simp at h
  · rename_i hu
    obtain ⟨items, a, fns0, fns, tg, depMode, implBlock, hsplit, _, _, hfns, _, _, rfl⟩ := expandMod_ok h
    have hb := splitBody_print false m.oracle m.body hst m.body.length m.body items ⟨[], by simp⟩ hsplit
    constructor
    · simp only [Out.render, Out.inside, Out.after, hb]
    · simp [Item.print, ModItemIn.print, hu]

theorem T_C02_impl (v : Variant) (attr : Toks) (m : ImplItemIn) (out : Out)
    (hst : OracleOk m.oracle m.body) (h : expand v attr (.impl m) = .ok out) :
    out.render = expectedInherent m ++ printGen out.after := by
  obtain ⟨items, a, fns0, fns, tg, depMode, implBlock, hsplit, _, _, hfns, _, _, rfl⟩ := expandImpl_ok h
  have hb := splitBody_print true m.oracle m.body hst m.body.length m.body items ⟨[], by simp⟩ hsplit
  simp only [Out.render, Out.after, expectedInherent, hb]

/-- the predicate the driver evaluates (on the real output it is the harness's prefix check) -/
theorem T_C02 (v : Variant) (attr : Toks) (item : Item) (input : Toks) (out : Out)
    (hst : synStable item input = true) (h : expand v attr item = .ok out) :
    P_C02 item out.view = true := by
  cases item with
  | fn f => simp [P_C02, Out.view]
  | mod_ m => simp [P_C02, Out.view]
  | trait t => simp [P_C02]
  | impl m =>
    have hok : OracleOk m.oracle m.body := by
      simp only [synStable, Bool.and_eq_true] at hst
      exact (oracleStable_iff _ _).mp hst.2
    obtain ⟨items, a, fns0, fns, tg, depMode, implBlock, hsplit, _, _, hfns, _, _, rfl⟩ := expandImpl_ok h
    have hb := splitBody_print true m.oracle m.body hok m.body.length m.body items ⟨[], by simp⟩ hsplit
    simp [P_C02, Out.view, expectedInherent, hb]

/-- with a stable oracle the model never runs out of splitter fuel -/
theorem no_fuel_exhaustion (m : ModItemIn) (hst : OracleOk m.oracle m.body) :
    splitBody false m.oracle m.body.length m.body ≠ .error (.diag "model: out of fuel") :=
  splitBody_fuel false m.oracle m.body hst m.body.length m.body ⟨[], by simp⟩ (Nat.le_refl _)

/-- non-vacuity: the example module has a stable oracle -/
example : oracleStable Examples.modM.oracle Examples.modM.body = true := by decide +kernel

end Entrait.C02
