import EntraitProofs.C15
import EntraitProofs.Slices
/-
  C15, "… at the offending tokens".

  `T_C15_at`: whenever a documented misuse is present (`specMisuseLoci` lists each with the leaf
  range to blame), the model answers with one of them — message *and* place (`diagLocus`).
  The slice theorems of `Slices.lean` say what those ranges are: the function's name, its
  receiver, the dependency type proper, the unsupported trait member.
-/
namespace Entrait.C15Locus
open Entrait

theorem core_eq_stripRefs : ∀ ty : Ty, ty.core = ty.stripRefs
  | .ref_ _ _ e => by simp [Ty.core, Ty.stripRefs, core_eq_stripRefs e]
  | .paren e => by simp [Ty.core, Ty.stripRefs, core_eq_stripRefs e]
  | .implTrait .. => rfl
  | .path .. => rfl
  | .other .. => rfl

/-- the analysis rejects a signature iff the locator has a place to blame -/
theorem depsErrorAt_none_iff (s : Sig) : depsError s = none ↔ s.depsErrorAt = none := by
  unfold depsError Sig.depsErrorAt
  cases hi : s.inputs with
  | nil => simp
  | cons x rest =>
    cases x with
    | recv => simp
    | typed a pt ty =>
      simp only [core_eq_stripRefs]
      cases hty : ty.stripRefs with
      | path q l n f ts =>
        cases q <;> cases l <;> simp [tyMisuse, Sig.depTypeAt, hi]
      | implTrait => simp [tyMisuse]
      | ref_ => simp [tyMisuse]
      | paren => simp [tyMisuse]
      | other => simp [tyMisuse]

/-- one located function: its outright misuse, with the place -/
theorem sigMisusesAt_error (mode : Mode) (b : Nat) (s : Sig) (m : String) (h : depsError s = some m) :
    ∃ l, locAt b s.depsErrorAt = some l ∧ (m, l) ∈ sigMisusesAt false mode (b, s) := by
  cases hat : s.depsErrorAt with
  | none => rw [(depsErrorAt_none_iff s).mpr hat] at h; simp at h
  | some r =>
    obtain ⟨o, n⟩ := r
    exact ⟨.item (b + o) n, rfl, by simp [sigMisusesAt, h, hat, locAt]⟩

theorem depTypeAt_of_concrete (s : Sig) (h : s.depIsConcrete = true) : ∃ o n, s.depTypeAt = some (o, n) := by
  unfold Sig.depIsConcrete at h
  cases hi : s.inputs with
  | nil => simp [hi] at h
  | cons x rest =>
    cases x with
    | recv => simp [hi] at h
    | typed a pt ty => exact ⟨_, _, by simp only [Sig.depTypeAt, hi]; rfl⟩

/-- analysis of located functions: the first rejected signature decides message and place -/
theorem analyzeFns_at (kind : ReceiverKind) {opts : Opts} (hn : opts.noDepsValue = false) (mode : Mode) :
    ∀ (bs : List (Nat × Sig)) (tg : TraitGenerics),
      (∃ ml, ml ∈ bs.flatMap (sigMisusesAt false mode) ∧
          analyzeFns kind opts (bs.map (·.2)) tg = .error (.inl (.diag ml.1)) ∧ firstDepsError bs = some ml.2) ∨
      ((∀ q ∈ bs, depsError q.2 = none) ∧ firstDepsError bs = none ∧
        ∃ fns tg', analyzeFns kind opts (bs.map (·.2)) tg = .ok (fns, tg') ∧
          zipAll C04.depsMatch (bs.map (·.2)) fns = true)
  | [], tg => Or.inr ⟨by simp, rfl, [], tg, rfl, rfl⟩
  | (b, s) :: rest, tg => by
      obtain ⟨hm1, hm2⟩ := C15.analyzeFnDeps_misuse hn s tg
      cases hde : depsError s with
      | some m =>
        have hm := hm1 m hde
        obtain ⟨l, hl, hmem⟩ := sigMisusesAt_error mode b s m hde
        left
        refine ⟨(m, l), ?_, ?_, ?_⟩
        · simp only [List.flatMap_cons, List.mem_append]; exact Or.inl hmem
        · simp only [List.map_cons]
          unfold analyzeFns
          rw [C15.analyzeFn_error hm]
        · unfold firstDepsError
          cases hat : s.depsErrorAt with
          | none => rw [hat] at hl; simp [locAt] at hl
          | some r => simp only; rw [hat] at hl; exact hl
      | none =>
        have hnone := (depsErrorAt_none_iff s).mp hde
        obtain ⟨⟨deps, tg1⟩, hd⟩ := hm2 hde
        obtain ⟨tf, htf, _⟩ := C15.analyzeFn_of_deps (kind := kind) hd
        have hdm := C04.depsMatch_of_analyzeFn hn htf
        rcases analyzeFns_at kind hn mode rest tg1 with ⟨ml, hmem, he, hf⟩ | ⟨hall, hfn, fns, tg2, hok, hz⟩
        · left
          refine ⟨ml, ?_, ?_, ?_⟩
          · simp only [List.flatMap_cons, List.mem_append]; exact Or.inr hmem
          · simp only [List.map_cons]
            unfold analyzeFns
            simp only [htf, he]
          · unfold firstDepsError
            simp only [hnone]
            exact hf
        · right
          refine ⟨?_, ?_, tf :: fns, tg2, ?_, ?_⟩
          · intro q hq
            rcases List.mem_cons.mp hq with rfl | hq
            · exact hde
            · exact hall q hq
          · unfold firstDepsError
            simp only [hnone]
            exact hfn
          · simp only [List.map_cons]
            unfold analyzeFns
            simp only [htf, hok]
          · simp only [List.map_cons, zipAll, hdm, hz, Bool.and_self]

/-- concrete dependencies among located functions: the first one decides message and place -/
theorem detect_at (mode : InputMode) (smode : Mode) (msg : String)
    (hmode : (mode = .module ∧ smode = .mod_ ∧ msg = msgConcreteInModule) ∨
             (mode = .implBlock ∧ smode = .impl ∧ msg = msgConcreteInImpl)) :
    ∀ (bs : List (Nat × Sig)) (fns : List TraitFn), zipAll C04.depsMatch (bs.map (·.2)) fns = true →
      (∀ q ∈ bs, depsError q.2 = none) → bs.any (fun q => q.2.depIsConcrete) = true →
      ∃ l, (msg, l) ∈ bs.flatMap (sigMisusesAt false smode) ∧
        detectDepMode mode fns = .error (.inl (.diag msg)) ∧ firstConcrete fns bs = some l
  | [], [], _, _, h => by simp at h
  | [], _ :: _, h, _, _ => by simp [zipAll] at h
  | _ :: _, [], h, _, _ => by simp [zipAll] at h
  | (b, s) :: rest, tf :: fns, h, hall, hc => by
      simp only [List.map_cons, zipAll, Bool.and_eq_true] at h
      obtain ⟨hdm, hz⟩ := h
      have hde : depsError s = none := hall (b, s) List.mem_cons_self
      unfold C04.depsMatch at hdm
      cases hd : tf.deps with
      | noDeps => rw [hd] at hdm; simp at hdm
      | concrete cty =>
        rw [hd] at hdm
        simp only at hdm
        obtain ⟨o, n, hat⟩ := depTypeAt_of_concrete s hdm
        refine ⟨.item (b + o) n, ?_, ?_, ?_⟩
        · simp only [List.flatMap_cons, List.mem_append]
          left
          rcases hmode with ⟨_, rfl, rfl⟩ | ⟨_, rfl, rfl⟩ <;>
            simp [sigMisusesAt, hde, hdm, concreteMisuse, hat, locAt]
        · unfold detectDepMode
          rcases hmode with ⟨rfl, _, rfl⟩ | ⟨rfl, _, rfl⟩ <;> simp only [hd]
        · unfold firstConcrete
          simp only [hd, hat, locAt]
      | generic q bs' =>
        rw [hd] at hdm
        simp only [Bool.and_eq_true, Bool.not_eq_true'] at hdm
        have hc' : rest.any (fun q => q.2.depIsConcrete) = true := by
          simpa [List.any_cons, hdm.2] using hc
        obtain ⟨l, hmem, hdet, hfc⟩ := detect_at mode smode msg hmode rest fns hz
          (fun q hq => hall q (List.mem_cons_of_mem _ hq)) hc'
        refine ⟨l, ?_, ?_, ?_⟩
        · simp only [List.flatMap_cons, List.mem_append]; exact Or.inr hmem
        · unfold detectDepMode
          simp only [hd]
          exact hdet
        · unfold firstConcrete
          simp only [hd]
          exact hfc

/-- the shared tail of mod / impl expansion: message and place of a misuse among the functions -/
theorem fnsPipeline_at (kind : ReceiverKind) (mode : InputMode) (smode : Mode) (msgC : String)
    (hmode : (mode = .module ∧ smode = .mod_ ∧ msgC = msgConcreteInModule) ∨
             (mode = .implBlock ∧ smode = .impl ∧ msgC = msgConcreteInImpl))
    (opts : Opts) (hn : opts.noDepsValue = false) (bs : List (Nat × Sig)) (traitRef : Toks) (ind : ImplIndirection)
    (subAttrs : List Attr) (k : List TraitFn → TraitGenerics → DepMode → GenImpl → Outcome)
    (hne : bs.flatMap (sigMisusesAt false smode) ≠ []) (as : List (List Attr)) :
    ∃ ml ∈ bs.flatMap (sigMisusesAt false smode),
      (match analyzeFns kind opts (bs.map (·.2)) {} with
       | .error e => Outcome.ofErr e
       | .ok (fns, tg) =>
         match detectDepMode mode (attachCfg as fns) with
         | .error e => Outcome.ofErr e
         | .ok depMode =>
           match genImplBlock opts traitRef ind tg mode depMode subAttrs (attachCfg as fns) with
           | .error site => .panic site
           | .ok im => k (attachCfg as fns) tg depMode im) = .diag ml.1 ∧
      (match analyzeFns kind opts (bs.map (·.2)) {} with
       | .error _ => firstDepsError bs
       | .ok (fns, _) => firstConcrete fns bs) = some ml.2 := by
  simp only [detectDepMode_attachCfg]
  rcases analyzeFns_at kind hn smode bs {} with ⟨ml, hmem, he, hf⟩ | ⟨hall, _, fns, tg', hok, hz⟩
  · exact ⟨ml, hmem, by simp only [he, Outcome.ofErr], by simp only [he]; exact hf⟩
  · have hconc : bs.any (fun q => q.2.depIsConcrete) = true := by
      cases hc : bs.any (fun q => q.2.depIsConcrete) with
      | true => rfl
      | false =>
        exfalso
        apply hne
        rw [List.flatMap_eq_nil_iff]
        intro q hq
        have := List.any_eq_false.mp hc q hq
        simp only [Bool.not_eq_true] at this
        simp [sigMisusesAt, hall q hq, this]
    obtain ⟨l, hmem, hdet, hfc⟩ := detect_at mode smode msgC hmode bs fns hz hall hconc
    exact ⟨(msgC, l), hmem, by simp only [hok, hdet, Outcome.ofErr], by simp only [hok]; exact hfc⟩

theorem sigMisusesAt_noDeps (mode : Mode) (q : Nat × Sig) : sigMisusesAt true mode q = [] := by simp [sigMisusesAt]

/-! ### trait attributes: the span kept with `delegate_by` -/

theorem lastDelegateAt_some : ∀ (segs : List Toks) (st a : TraitAttr) (base : Nat) (acc : Option Nat),
    parseOptSegs TraitAttr.set st segs = .ok a → (st.delegation.isSome → acc.isSome) →
      a.delegation.isSome → (lastDelegateAt segs base acc).isSome
  | [], st, a, base, acc, h, hacc, ha => by
      simp [parseOptSegs] at h; subst h
      simpa [lastDelegateAt] using hacc ha
  | seg :: segs, st, a, base, acc, h, hacc, ha => by
      rw [parseOptSegs.eq_2] at h
      cases hp : parseOpt seg with
      | error e => simp [hp] at h
      | ok r =>
        obtain ⟨opt, rest⟩ := r
        simp only [hp] at h
        cases hs : TraitAttr.set st opt with
        | none => simp [hs] at h
        | some st' =>
          simp only [hs] at h
          split at h
          · unfold lastDelegateAt
            simp only [hp]
            refine lastDelegateAt_some segs st' a _ _ h ?_ ha
            intro hst'
            cases opt <;> simp [TraitAttr.set] at hs <;> subst hs <;> first | rfl | exact hacc hst'
          · simp at h

theorem implTrait_preserved : ∀ (segs : List Toks) (st a : TraitAttr),
    parseOptSegs TraitAttr.set st segs = .ok a → a.implTrait = st.implTrait :=
  fun segs st a h =>
    parseOptSegs_inv TraitAttr.set (fun x => x.implTrait = st.implTrait)
      (by intro s o s' hs hq; cases o <;> simp [TraitAttr.set] at hs <;> subst hs <;> exact hq)
      segs st a rfl h

/-- a successfully parsed trait attribute that carries `delegate_by` but no target trait: the
    `delegate_by` keyword is found among the option segments -/
theorem lastDelegateAt_of_parse {attr : Toks} {a : TraitAttr} (h : parseTraitAttr attr = .ok a)
    (hi : a.implTrait = none) (hd : a.delegation.isSome) :
    ∃ n, lastDelegateAt (splitCommas attr) 0 none = some n := by
  unfold parseTraitAttr at h
  split at h
  · simp at h; subst h; simp at hd
  · unfold parseTraitSegs at h
    split at h
    · simp at h; subst h; simp at hd
    · rename_i seg0 segs hsplit
      split at h
      · rw [hsplit]
        have := lastDelegateAt_some (seg0 :: segs) {} a 0 none h (by simp) hd
        exact Option.isSome_iff_exists.mp this
      · exfalso
        split at h
        · simp at h
        · split at h
          · rename_i name rest0 _
            split at h
            · simp at h
            · have := implTrait_preserved _ _ a h
              rw [hi] at this
              simp at this
          · simp at h

theorem firstOther_mem : ∀ (ms : List TraitMember) (off : Nat), ms.any TraitMember.isOther = true →
    ∃ l, firstOtherMember ms off = some l ∧ l ∈ otherMemberLoci ms off
  | [], _, h => by simp at h
  | .other ts :: rest, off, _ => ⟨_, rfl, by simp [otherMemberLoci]⟩
  | .fn f :: rest, off, h => by
      have h' : rest.any TraitMember.isOther = true := by simpa [TraitMember.isOther] using h
      obtain ⟨l, h1, h2⟩ := firstOther_mem rest (off + flatLen (TraitMember.fn f).print) h'
      exact ⟨l, by simpa [firstOtherMember] using h1, by simpa [otherMemberLoci] using h2⟩
  | .type_ ts :: rest, off, h => by
      have h' : rest.any TraitMember.isOther = true := by simpa [TraitMember.isOther] using h
      obtain ⟨l, h1, h2⟩ := firstOther_mem rest (off + flatLen (TraitMember.type_ ts).print) h'
      exact ⟨l, by simpa [firstOtherMember] using h1, by simpa [otherMemberLoci] using h2⟩

theorem firstOther_none : ∀ (ms : List TraitMember) (off : Nat), ms.any TraitMember.isOther = false →
    firstOtherMember ms off = none ∧ otherMemberLoci ms off = []
  | [], _, _ => ⟨rfl, rfl⟩
  | .other ts :: rest, off, h => by simp [TraitMember.isOther] at h
  | .fn f :: rest, off, h => by
      have h' : rest.any TraitMember.isOther = false := by simpa [TraitMember.isOther] using h
      simpa [firstOtherMember, otherMemberLoci] using firstOther_none rest _ h'
  | .type_ ts :: rest, off, h => by
      have h' : rest.any TraitMember.isOther = false := by simpa [TraitMember.isOther] using h
      simpa [firstOtherMember, otherMemberLoci] using firstOther_none rest _ h'

/-- **C15, where**: when documented misuses are present, the model answers with one of them and
    blames the tokens the specification lists for it -/
theorem T_C15_at (v : Variant) (attr : Toks) (item : Item) (x : String × Locus) (xs : List (String × Locus))
    (h : specMisuseLoci attr item = some (x :: xs)) :
    ∃ ml ∈ x :: xs, expand v attr item = .diag ml.1 ∧ diagLocus v attr item = some ml.2 := by
  cases item with
  | fn f =>
    simp only [specMisuseLoci] at h
    simp only [expand, diagLocus]
    unfold expandFn fnLocus
    cases h1 : parseFnAttr attr with
    | error e =>
      rw [h1] at h
      cases e with
      | syn => simp at h
      | diag m' =>
        simp only [Option.some.injEq] at h
        cases hl : fnAttrLocus attr with
        | none => simp [hl] at h
        | some l =>
          simp only [hl, Option.toList, List.map_cons, List.map_nil, List.cons.injEq] at h
          exact ⟨(m', l), by simp [← h.1], rfl, rfl⟩
    | ok a =>
      rw [h1] at h
      simp only [Option.some.injEq] at h
      have hn : a.opts.noDepsValue = false := by
        cases hnd : a.opts.noDepsValue with
        | false => rfl
        | true => rw [hnd, sigMisusesAt_noDeps] at h; simp at h
      rw [hn] at h
      have hn' : (v.apply a.opts).noDepsValue = false := by rw [apply_noDepsValue]; exact hn
      simp only [hn', Bool.false_eq_true, if_false]
      cases hde : depsError f.sig with
      | none =>
        simp only [sigMisusesAt, Bool.false_eq_true, if_false, hde] at h
        split at h <;> simp [concreteMisuse] at h
      | some m' =>
        obtain ⟨l, hl, hmem⟩ := sigMisusesAt_error .fn f.sigBase f.sig m' hde
        have he := C15.analyzeFn_error (kind := .selfRef) ((C15.analyzeFnDeps_misuse hn' f.sig {}).1 m' hde)
        refine ⟨(m', l), by rw [← h]; exact hmem, by simp only [he]; rfl, ?_⟩
        unfold firstDepsError
        cases hat : f.sig.depsErrorAt with
        | none => rw [hat] at hl; simp [locAt] at hl
        | some r => simp only; rw [hat] at hl; exact hl
  | mod_ m' =>
    simp only [specMisuseLoci] at h
    simp only [expand, diagLocus]
    unfold modLocus
    split at h
    · rename_i hu
      simp only [Option.some.injEq, List.cons.injEq] at h
      simp only [hu, if_true]
      obtain ⟨hx, _⟩ := h
      subst hx
      exact ⟨_, List.mem_cons_self, rfl, rfl⟩
    · rename_i hu
      simp only [hu, Bool.false_eq_true, if_false]
      unfold expandMod
      cases h0 : splitBody false m'.oracle m'.body.length m'.body with
      | error e => rw [h0] at h; simp at h
      | ok items =>
        rw [h0] at h
        simp only []
        cases h1 : parseFnAttr attr with
        | error e =>
          rw [h1] at h
          cases e with
          | syn => simp at h
          | diag m2 =>
            simp only [Option.some.injEq] at h
            cases hl : fnAttrLocus attr with
            | none => simp [hl] at h
            | some l =>
              simp only [hl, Option.toList, List.map_cons, List.map_nil, List.cons.injEq] at h
              exact ⟨(m2, l), by simp [← h.1], rfl, rfl⟩
        | ok a =>
          rw [h1] at h
          simp only [Option.some.injEq] at h
          have hn : a.opts.noDepsValue = false := by
            cases hnd : a.opts.noDepsValue with
            | false => rfl
            | true =>
              rw [hnd] at h
              rw [List.flatMap_eq_nil_iff.mpr (fun q _ => sigMisusesAt_noDeps _ q)] at h
              simp at h
          rw [hn] at h
          have hn' : (v.apply a.opts).noDepsValue = false := by rw [apply_noDepsValue]; exact hn
          obtain ⟨ml, hmem, hres, hloc⟩ := fnsPipeline_at .selfRef .module .mod_ msgConcreteInModule (Or.inl ⟨rfl, rfl, rfl⟩)
            (v.apply a.opts) hn' (sigBases items (flatLen m'.headToks + 1)) [i a.traitIdent] .none m'.attrs
            (fun fns tg d im => .ok (.modOut m' items
              [.trait (genTraitDef (v.apply a.opts) .plain d m'.attrs a.traitVis a.traitIdent tg {} fns .module), .impl im]
              [.raw (a.traitVis ++ [i "use", i m'.ident] ++ pathSep ++ [i a.traitIdent, p ';'])]))
            (by rw [h]; simp) (bodyFnAttrs items)
          rw [sigBases_sigs] at hres hloc
          rw [h] at hmem
          refine ⟨ml, hmem, hres, ?_⟩
          simp only [sigBases_sigs, hn', Bool.false_eq_true, if_false]
          exact hloc
  | impl m' =>
    simp only [specMisuseLoci] at h
    simp only [expand, diagLocus]
    unfold expandImpl implLocus
    cases h0 : splitBody true m'.oracle m'.body.length m'.body with
    | error e => rw [h0] at h; simp at h
    | ok items =>
      rw [h0] at h
      simp only []
      cases h1 : parseImplAttr attr with
      | error e =>
        rw [h1] at h
        cases e with
        | syn => simp at h
        | diag m2 =>
          simp only [Option.some.injEq] at h
          cases hl : implAttrLocus attr with
          | none => simp [hl] at h
          | some l =>
            simp only [hl, Option.toList, List.map_cons, List.map_nil, List.cons.injEq] at h
            exact ⟨(m2, l), by simp [← h.1], rfl, rfl⟩
      | ok a =>
        rw [h1] at h
        simp only [Option.some.injEq] at h
        have hn' : (v.apply a.opts).noDepsValue = false := impl_noDepsValue h1
        obtain ⟨ml, hmem, hres, hloc⟩ := fnsPipeline_at (if a.dynRef then .dynamicImpl else .staticImpl) .implBlock .impl
          msgConcreteInImpl (Or.inr ⟨rfl, rfl, rfl⟩) (v.apply a.opts) hn'
          (sigBases items (flatLen m'.headToks + 1)) m'.traitPath
          (if a.dynRef then .dynamic m'.selfTy else .static_ m'.selfTy) m'.attrs
          (fun fns tg d im => .ok (.implOut
            (printAttrs (m'.attrs.filter (fun a => a.subKind != .asyncTrait)) ++
              (if m'.unsafe_ then [i "unsafe"] else []) ++ [i "impl"] ++ m'.selfTy ++ [braces (items.flatMap BodyItem.print)])
            [.impl im]))
          (by rw [h]; simp) (bodyFnAttrs items)
        rw [sigBases_sigs] at hres hloc
        rw [h] at hmem
        refine ⟨ml, hmem, hres, ?_⟩
        simp only [sigBases_sigs]
        exact hloc
  | trait t =>
    simp only [specMisuseLoci] at h
    simp only [expand, diagLocus]
    unfold expandTrait traitLocus
    cases h1 : parseTraitAttr attr with
    | error e =>
      rw [h1] at h
      cases e with
      | syn => simp at h
      | diag m2 =>
        simp only [Option.some.injEq] at h
        cases hl : traitAttrLocus attr with
        | none => simp [hl] at h
        | some l =>
          simp only [hl, Option.toList, List.map_cons, List.map_nil, List.cons.injEq] at h
          exact ⟨(m2, l), by simp [← h.1], rfl, rfl⟩
    | ok a =>
      rw [h1] at h
      simp only [Option.some.injEq] at h
      simp only []
      obtain ⟨hA, hB⟩ := C15.analyzeTraitMembers_misuse t.members
      cases hi : a.implTrait with
      | none =>
        cases hd : a.delegation with
        | none =>
          -- only an unsupported member can be the misuse
          simp only [hi, hd, delegationMisusesAt, List.nil_append] at h
          cases hother : t.members.any TraitMember.isOther with
          | false => rw [(firstOther_none _ _ hother).2] at h; simp at h
          | true =>
            obtain ⟨l, hl1, hl2⟩ := firstOther_mem t.members (flatLen t.headToks + 1) hother
            refine ⟨(msgUnsupportedTraitItem, l), ?_, ?_, ?_⟩
            · rw [← h]; exact List.mem_map.mpr ⟨l, hl2, rfl⟩
            · simp only [hA hother, Outcome.ofPErr]
            · simp only [hl1]
        | some d =>
          cases d with
          | byTrait dn =>
            obtain ⟨n, hn⟩ := lastDelegateAt_of_parse h1 hi (by simp [hd])
            refine ⟨(msgCustomWithoutTrait, .attr n 1), ?_, rfl, ?_⟩
            · rw [← h]; simp [hi, hd, delegationMisusesAt, hn]
            · simp only [hn, Option.map]
          | bySelf =>
            simp only [hi, hd, delegationMisusesAt, List.nil_append] at h
            cases hother : t.members.any TraitMember.isOther with
            | false => rw [(firstOther_none _ _ hother).2] at h; simp at h
            | true =>
              obtain ⟨l, hl1, hl2⟩ := firstOther_mem t.members (flatLen t.headToks + 1) hother
              refine ⟨(msgUnsupportedTraitItem, l), ?_, ?_, ?_⟩
              · rw [← h]; exact List.mem_map.mpr ⟨l, hl2, rfl⟩
              · simp only [hA hother, Outcome.ofPErr]
              · simp only [hl1]
          | byRef b =>
            simp only [hi, hd, delegationMisusesAt, List.nil_append] at h
            cases hother : t.members.any TraitMember.isOther with
            | false => rw [(firstOther_none _ _ hother).2] at h; simp at h
            | true =>
              obtain ⟨l, hl1, hl2⟩ := firstOther_mem t.members (flatLen t.headToks + 1) hother
              refine ⟨(msgUnsupportedTraitItem, l), ?_, ?_, ?_⟩
              · rw [← h]; exact List.mem_map.mpr ⟨l, hl2, rfl⟩
              · simp only [hA hother, Outcome.ofPErr]
              · simp only [hl1]
      | some it =>
        cases hother : t.members.any TraitMember.isOther with
        | true =>
          obtain ⟨l, hl1, hl2⟩ := firstOther_mem t.members (flatLen t.headToks + 1) hother
          refine ⟨(msgUnsupportedTraitItem, l), ?_, ?_, ?_⟩
          · rw [← h]; exact List.mem_append_right _ (List.mem_map.mpr ⟨l, hl2, rfl⟩)
          · cases hd : a.delegation with
            | none => simp only [hA hother, Outcome.ofPErr]
            | some d => cases d <;> simp only [hA hother, Outcome.ofPErr]
          · cases hd : a.delegation with
            | none => simp only [hl1]
            | some d => cases d <;> simp only [hl1]
        | false =>
          obtain ⟨fns, hf⟩ := hB hother
          obtain ⟨hfo, hol⟩ := firstOther_none t.members (flatLen t.headToks + 1) hother
          rw [hol] at h
          simp only [List.map_nil, List.append_nil] at h
          obtain ⟨ivis, iid⟩ := it
          cases hd : a.delegation with
          | none =>
            simp only [hi, hd, delegationMisusesAt, List.cons.injEq] at h
            refine ⟨(msgMissingDelegateBy, .callSite), by simp [← h.1], ?_, ?_⟩
            · simp only [hf, genDelegationTraitDefs, Outcome.ofPErr]
            · simp only [hfo]
          | some d =>
            cases d with
            | byTrait dn => simp [hi, hd, delegationMisusesAt] at h
            | byRef b => simp [hi, hd, delegationMisusesAt] at h
            | bySelf =>
              simp only [hi, hd, delegationMisusesAt, List.cons.injEq] at h
              refine ⟨(msgMissingDelegateBy, .callSite), by simp [← h.1], ?_, ?_⟩
              · simp only [hf, genDelegationTraitDefs, Outcome.ofPErr]
              · simp only [hfo]

/-! ### what the item-side places are: slices of the input -/

/-- the tokens a signature-level misuse of `s` is blamed on: the function's name if there is no
    parameter to blame, the receiver, or the dependency type proper -/
def Offending (s : Sig) (node : Toks) : Prop :=
  (s.inputs = [] ∧ node = [i s.ident]) ∨
  (∃ a r m c rest, s.inputs = .recv a r m c :: rest ∧ node = (FnArg.recv a r m c).print) ∨
  (∃ attrs pat ty rest, s.inputs = .typed attrs pat ty :: rest ∧ node = ty.core.print)

theorem depsErrorAt_slice (s : Sig) (o n : Nat) (h : s.depsErrorAt = some (o, n)) :
    ∃ node, At s.print o node ∧ n = flatLen node ∧ Offending s node := by
  unfold Sig.depsErrorAt at h
  cases hi : s.inputs with
  | nil =>
    simp only [hi, Option.some.injEq, Prod.mk.injEq] at h
    obtain ⟨rfl, rfl⟩ := h
    exact ⟨[i s.ident], Sig.ident_at s, by simp, Or.inl ⟨hi, rfl⟩⟩
  | cons x rest =>
    cases x with
    | recv a r m c =>
      simp only [hi, Option.some.injEq, Prod.mk.injEq] at h
      obtain ⟨rfl, rfl⟩ := h
      exact ⟨_, Sig.arg0_at s _ rest hi, rfl, Or.inr (Or.inl ⟨a, r, m, c, rest, hi, rfl⟩)⟩
    | typed attrs pat ty =>
      obtain ⟨o', n', hat, hAt, hn⟩ := Sig.depType_at s attrs pat ty rest hi
      have : s.depTypeAt = some (o, n) := by
        simp only [hi] at h
        split at h <;> first | exact h | simp at h
      rw [hat] at this
      simp only [Option.some.injEq, Prod.mk.injEq] at this
      obtain ⟨rfl, rfl⟩ := this
      exact ⟨_, hAt, hn, Or.inr (Or.inr ⟨attrs, pat, ty, rest, hi, rfl⟩)⟩

theorem depTypeAt_slice (s : Sig) (o n : Nat) (h : s.depTypeAt = some (o, n)) :
    ∃ node, At s.print o node ∧ n = flatLen node ∧ Offending s node := by
  cases hi : s.inputs with
  | nil => simp [Sig.depTypeAt, hi] at h
  | cons x rest =>
    cases x with
    | recv a r m c => simp [Sig.depTypeAt, hi] at h
    | typed attrs pat ty =>
      obtain ⟨o', n', hat, hAt, hn⟩ := Sig.depType_at s attrs pat ty rest hi
      rw [hat] at h
      simp only [Option.some.injEq, Prod.mk.injEq] at h
      obtain ⟨rfl, rfl⟩ := h
      exact ⟨_, hAt, hn, Or.inr (Or.inr ⟨attrs, pat, ty, rest, hi, rfl⟩)⟩

/-- every place `sigMisusesAt` lists for a located function is a slice of that function's
    signature holding its offending tokens -/
theorem sigMisusesAt_slice (nd : Bool) (mode : Mode) (b : Nat) (s : Sig) (m : String) (l : Locus)
    (h : (m, l) ∈ sigMisusesAt nd mode (b, s)) :
    ∃ o node, l = .item (b + o) (flatLen node) ∧ At s.print o node ∧ Offending s node := by
  unfold sigMisusesAt at h
  cases nd with
  | true => simp at h
  | false =>
    simp only [Bool.false_eq_true, if_false] at h
    cases hde : depsError s with
    | some m' =>
      simp only [hde] at h
      cases hat : s.depsErrorAt with
      | none => simp [hat, locAt] at h
      | some r =>
        obtain ⟨o, n⟩ := r
        simp only [hat, locAt, Option.toList, List.map_cons, List.map_nil, List.mem_singleton, Prod.mk.injEq] at h
        obtain ⟨node, hAt, hn, hoff⟩ := depsErrorAt_slice s o n hat
        exact ⟨o, node, by rw [h.2, hn], hAt, hoff⟩
    | none =>
      simp only [hde] at h
      split at h
      · cases hat : s.depTypeAt with
        | none => simp [hat, locAt] at h
        | some r =>
          obtain ⟨o, n⟩ := r
          simp only [hat, locAt, Option.toList, List.map_cons, List.map_nil, List.mem_flatMap, List.mem_singleton,
            Prod.mk.injEq] at h
          obtain ⟨_, _, _, hl⟩ := h
          obtain ⟨node, hAt, hn, hoff⟩ := depTypeAt_slice s o n hat
          exact ⟨o, node, by rw [hl, hn], hAt, hoff⟩
      · simp at h

theorem otherMemberLoci_slice : ∀ (ms : List TraitMember) (off : Nat) (l : Locus), l ∈ otherMemberLoci ms off →
    ∃ k ts, l = .item (off + k) (flatLen ts) ∧ TraitMember.other ts ∈ ms ∧ At (ms.flatMap TraitMember.print) k ts
  | [], _, _, h => by simp [otherMemberLoci] at h
  | .other ts :: rest, off, l, h => by
      simp only [otherMemberLoci, List.mem_cons] at h
      rcases h with rfl | h
      · exact ⟨0, ts, rfl, List.mem_cons_self, by simpa [List.flatMap_cons, TraitMember.print] using At.here ts _⟩
      · obtain ⟨k, ts', rfl, hmem, hat⟩ := otherMemberLoci_slice rest _ l h
        refine ⟨flatLen ts + k, ts', by rw [Nat.add_assoc], List.mem_cons_of_mem _ hmem, ?_⟩
        simpa [List.flatMap_cons, TraitMember.print] using At.append_left ts hat
  | .fn f :: rest, off, l, h => by
      simp only [otherMemberLoci] at h
      obtain ⟨k, ts', rfl, hmem, hat⟩ := otherMemberLoci_slice rest _ l h
      refine ⟨flatLen (TraitMember.fn f).print + k, ts', by rw [Nat.add_assoc], List.mem_cons_of_mem _ hmem, ?_⟩
      simpa [List.flatMap_cons] using At.append_left (TraitMember.fn f).print hat
  | .type_ t :: rest, off, l, h => by
      simp only [otherMemberLoci] at h
      obtain ⟨k, ts', rfl, hmem, hat⟩ := otherMemberLoci_slice rest _ l h
      refine ⟨flatLen (TraitMember.type_ t).print + k, ts', by rw [Nat.add_assoc], List.mem_cons_of_mem _ hmem, ?_⟩
      simpa [List.flatMap_cons] using At.append_left (TraitMember.type_ t).print hat

/-- the item's own tokens are what the encoder printed (module / impl bodies: the signature oracle is stable) -/
def BodyStable : Item → Prop
  | .mod_ m => OracleOk m.oracle m.body
  | .impl m => OracleOk m.oracle m.body
  | _ => True

theorem At_trans {ts mid node : Toks} {k o : Nat} (h1 : At ts k mid) (h2 : At mid o node) : At ts (k + o) node := by
  obtain ⟨pre, post, e, hl⟩ := h1
  obtain ⟨pre2, post2, e2, hl2⟩ := h2
  exact ⟨pre ++ pre2, post2 ++ post, by rw [e, e2]; simp [List.append_assoc], by simp [hl, hl2]⟩

/-! attribute-side places are never item-side ones -/

theorem optSegsLocus_attr {σ : Type} (set : σ → Opt → Option σ) :
    ∀ (segs : List Toks) (st : σ) (base : Nat) (l : Locus), optSegsLocus set st segs base = some l → ∃ n, l = .attr n 1
  | [], _, _, _, h => by simp [optSegsLocus] at h
  | seg :: segs, st, base, l, h => by
      unfold optSegsLocus at h
      split at h
      · exact ⟨_, (Option.some.inj h).symm⟩
      · simp at h
      · split at h
        · exact ⟨_, (Option.some.inj h).symm⟩
        · split at h
          · exact optSegsLocus_attr set segs _ _ l h
          · simp at h

theorem fnAttrLocus_attr {ts : Toks} {l : Locus} (h : fnAttrLocus ts = some l) : ∃ n, l = .attr n 1 := by
  unfold fnAttrLocus fnSegsLocus at h
  split at h
  · simp at h
  · split at h
    · simp at h
    · split at h
      · split at h
        · simp at h
        · exact optSegsLocus_attr _ _ _ _ l h
      · simp at h

theorem traitAttrLocus_attr {ts : Toks} {l : Locus} (h : traitAttrLocus ts = some l) : ∃ n, l = .attr n 1 := by
  unfold traitAttrLocus at h
  split at h
  · simp at h
  · unfold traitSegsLocus at h
    split at h
    · simp at h
    · split at h
      · exact optSegsLocus_attr _ _ _ _ l h
      · split at h
        · simp at h
        · split at h
          · split at h
            · simp at h
            · simp only at h
              split at h
              · exact optSegsLocus_attr _ _ _ _ l h
              · split at h
                · simp at h
                · exact optSegsLocus_attr _ _ _ _ l h
          · simp at h

theorem implAttrLocus_attr {ts : Toks} {l : Locus} (h : implAttrLocus ts = some l) : ∃ n, l = .attr n 1 := by
  unfold implAttrLocus at h
  simp only at h
  split at h
  · simp at h
  · exact optSegsLocus_attr _ _ _ _ l h

theorem not_item_of_attrList {m m' : String} {n len : Nat} {o : Option Locus} (ho : ∀ l, o = some l → ∃ k, l = .attr k 1)
    (hm : (m, Locus.item n len) ∈ o.toList.map (fun l => (m', l))) : False := by
  simp only [List.mem_map, Option.mem_toList, Prod.mk.injEq] at hm
  obtain ⟨l', hl', _, heq⟩ := hm
  obtain ⟨k, hk⟩ := ho l' hl'
  rw [hk] at heq
  cases heq

theorem sigBases_mem_fn : ∀ (items : List BodyItem) (off b : Nat) (s : Sig), (b, s) ∈ sigBases items off →
    ∃ f ∈ items.filterMap BodyItem.fn?, f.sig = s
  | [], _, _, _, h => by simp [sigBases] at h
  | .pubFn f :: rest, off, b, s, h => by
      simp only [sigBases, List.mem_cons, Prod.mk.injEq] at h
      rcases h with ⟨_, rfl⟩ | h
      · exact ⟨f, (show f ∈ f :: rest.filterMap BodyItem.fn? from List.mem_cons_self), rfl⟩
      · obtain ⟨g, hg, hs⟩ := sigBases_mem_fn rest _ b s h
        exact ⟨g, (show g ∈ f :: rest.filterMap BodyItem.fn? from List.mem_cons_of_mem _ hg), hs⟩
  | .unknown .. :: rest, off, b, s, h => by
      simp only [sigBases] at h
      obtain ⟨g, hg, hs⟩ := sigBases_mem_fn rest _ b s h
      exact ⟨g, (show g ∈ rest.filterMap BodyItem.fn? from hg), hs⟩

/-- a place among the functions of a split body is a slice of the braces' content -/
theorem body_slice (nd : Bool) (mode : Mode) (items : List BodyItem) (B : Nat) (m : String) (n len : Nat)
    (hm : (m, Locus.item n len) ∈ (sigBases items B).flatMap (sigMisusesAt nd mode)) :
    ∃ k node, n = B + k ∧ len = flatLen node ∧ At (items.flatMap BodyItem.print) k node ∧
      ∃ f ∈ items.filterMap BodyItem.fn?, Offending f.sig node := by
  simp only [List.mem_flatMap] at hm
  obtain ⟨⟨b, s⟩, hbs, hmem⟩ := hm
  obtain ⟨o, node, hl, hAt, hoff⟩ := sigMisusesAt_slice nd mode b s m _ hmem
  obtain ⟨k, hk, hat⟩ := sigBases_at items B b s hbs
  obtain ⟨f, hf, hfs⟩ := sigBases_mem_fn items B b s hbs
  simp only [Locus.item.injEq] at hl
  exact ⟨k + o, node, by rw [hl.1, hk, Nat.add_assoc], hl.2, At_trans hat hAt, f, hf, by rw [hfs]; exact hoff⟩

/-- **C15, what the places are**: every item-side place the specification lists is a slice of the
    item's tokens, and the slice holds exactly the offending tokens — the `unsafe` of an `unsafe mod`,
    the name / receiver / dependency type of one of the functions the macro analyses, or an
    unsupported trait member as a whole -/
theorem T_C15_where (attr : Toks) (item : Item) (hst : BodyStable item) (l : List (String × Locus))
    (h : specMisuseLoci attr item = some l) (m : String) (n len : Nat) (hm : (m, Locus.item n len) ∈ l) :
    ∃ node, At item.print n node ∧ len = flatLen node ∧
      (node = [i "unsafe"] ∨ (∃ f ∈ item.sourceFns, Offending f.sig node) ∨
       (∃ t ts, item = .trait t ∧ TraitMember.other ts ∈ t.members ∧ node = ts)) := by
  cases item with
  | fn f =>
    simp only [specMisuseLoci] at h
    cases h1 : parseFnAttr attr with
    | error e =>
      rw [h1] at h
      cases e with
      | syn => simp at h
      | diag m' =>
        simp only [Option.some.injEq] at h
        subst h
        exact (not_item_of_attrList (fun l hl => fnAttrLocus_attr hl) hm).elim
    | ok a =>
      rw [h1] at h
      simp only [Option.some.injEq] at h
      subst h
      obtain ⟨o, node, hl, hAt, hoff⟩ := sigMisusesAt_slice _ _ _ _ _ _ hm
      simp only [Locus.item.injEq] at hl
      refine ⟨node, ?_, hl.2, Or.inr (Or.inl ⟨f, by simp [Item.sourceFns], hoff⟩)⟩
      rw [hl.1]
      have := At.append_right f.body (At.append_left (printAttrs f.attrs ++ f.vis) hAt)
      simpa [Item.print, FnItem.print, FnItem.sigBase, List.append_assoc] using this
  | mod_ m' =>
    simp only [specMisuseLoci] at h
    split at h
    · rename_i hu
      simp only [Option.some.injEq] at h
      subst h
      simp only [List.mem_singleton, Prod.mk.injEq, Locus.item.injEq] at hm
      obtain ⟨_, rfl, rfl⟩ := hm
      refine ⟨[i "unsafe"], ?_, by simp, Or.inl rfl⟩
      have := At.mid (printAttrs m'.attrs ++ m'.vis) [i "unsafe"] [i "mod", i m'.ident, braces m'.body]
      simpa [Item.print, ModItemIn.print, hu, List.append_assoc] using this
    · rename_i hu
      cases h0 : splitBody false m'.oracle m'.body.length m'.body with
      | error e => rw [h0] at h; simp at h
      | ok items =>
        rw [h0] at h
        cases h1 : parseFnAttr attr with
        | error e =>
          rw [h1] at h
          cases e with
          | syn => simp at h
          | diag m2 =>
            simp only [Option.some.injEq] at h
            subst h
            exact (not_item_of_attrList (fun l hl => fnAttrLocus_attr hl) hm).elim
        | ok a =>
          rw [h1] at h
          simp only [Option.some.injEq] at h
          subst h
          obtain ⟨k, node, hn, hlen, hat, f, hf, hoff⟩ := body_slice _ _ _ _ _ _ _ hm
          have hbody : items.flatMap BodyItem.print = m'.body :=
            splitBody_print false m'.oracle m'.body hst m'.body.length m'.body items ⟨[], rfl⟩ h0
          refine ⟨node, ?_, hlen, Or.inr (Or.inl ⟨f, by simpa [Item.sourceFns, h0] using hf, hoff⟩)⟩
          rw [hbody] at hat
          have := At.append_left m'.headToks (At.group .brace hat)
          have hp : (Item.mod_ m').print = m'.headToks ++ [braces m'.body] := by
            simp [Item.print, ModItemIn.print, ModItemIn.headToks, List.append_assoc]
          rw [hp, hn]
          exact this.of_eq (by omega)
  | impl m' =>
    simp only [specMisuseLoci] at h
    cases h0 : splitBody true m'.oracle m'.body.length m'.body with
    | error e => rw [h0] at h; simp at h
    | ok items =>
      rw [h0] at h
      cases h1 : parseImplAttr attr with
      | error e =>
        rw [h1] at h
        cases e with
        | syn => simp at h
        | diag m2 =>
          simp only [Option.some.injEq] at h
          subst h
          exact (not_item_of_attrList (fun l hl => implAttrLocus_attr hl) hm).elim
      | ok a =>
        rw [h1] at h
        simp only [Option.some.injEq] at h
        subst h
        obtain ⟨k, node, hn, hlen, hat, f, hf, hoff⟩ := body_slice _ _ _ _ _ _ _ hm
        have hbody : items.flatMap BodyItem.print = m'.body :=
          splitBody_print true m'.oracle m'.body hst m'.body.length m'.body items ⟨[], rfl⟩ h0
        refine ⟨node, ?_, hlen, Or.inr (Or.inl ⟨f, by simpa [Item.sourceFns, h0] using hf, hoff⟩)⟩
        rw [hbody] at hat
        have := At.append_left m'.headToks (At.group .brace hat)
        have hp : (Item.impl m').print = m'.headToks ++ [braces m'.body] := by
          simp [Item.print, ImplItemIn.print, ImplItemIn.headToks, List.append_assoc]
        rw [hp, hn]
        exact this.of_eq (by omega)
  | trait t =>
    simp only [specMisuseLoci] at h
    cases h1 : parseTraitAttr attr with
    | error e =>
      rw [h1] at h
      cases e with
      | syn => simp at h
      | diag m2 =>
        simp only [Option.some.injEq] at h
        subst h
        exact (not_item_of_attrList (fun l hl => traitAttrLocus_attr hl) hm).elim
    | ok a =>
      rw [h1] at h
      simp only [Option.some.injEq] at h
      subst h
      rcases List.mem_append.mp hm with hd | ho
      · exfalso
        unfold delegationMisusesAt at hd
        split at hd
        · simp only [List.mem_map, Option.mem_toList, Prod.mk.injEq] at hd
          obtain ⟨_, _, _, hc⟩ := hd
          cases hc
        · simp at hd
        · simp at hd
        · simp at hd
      · simp only [List.mem_map, Prod.mk.injEq] at ho
        obtain ⟨l', hl', _, rfl⟩ := ho
        obtain ⟨k, ts, hl, hmem, hat⟩ := otherMemberLoci_slice _ _ _ hl'
        simp only [Locus.item.injEq] at hl
        refine ⟨ts, ?_, hl.2, Or.inr (Or.inr ⟨t, ts, rfl, hmem, rfl⟩)⟩
        have := At.append_left t.headToks (At.group .brace hat)
        have hp : (Item.trait t).print = t.headToks ++ [braces (t.members.flatMap TraitMember.print)] := by
          simp [Item.print, TraitItem.print, TraitItem.headToks, List.append_assoc]
        rw [hp, hl.1]
        exact this.of_eq (by omega)

/-! ### non-vacuity: concrete misuses with their places, by evaluation -/

/-- `#[entrait(Foo, frobnicate)] fn foo<D>(d: &D) {}`: the unknown option is blamed on its identifier -/
example : specMisuseLoci [i "Foo", p ',', i "frobnicate"]
      (.fn { sig := { ident := "foo", generics := { params := [.ty [] "D" [] false none] },
                      inputs := [.typed [] (.ident false false "d" none) (.ref_ none false (.path false false 1 "D" [i "D"]))] },
             body := [braces []] })
    = some [(unknownOpt "frobnicate" |> fun | .diag m => m | .syn => "", .attr 2 1)] := by rfl

/-- `#[entrait(Foo)] pub fn foo() {}`: no dependency parameter — blamed on the name `foo` (leaf 2 of `pub fn foo ( ) { }`) -/
example : specMisuseLoci [i "Foo"] (.fn { vis := [i "pub"], sig := { ident := "foo" }, body := [braces []] })
    = some [(msgNoReceiver, .item 2 1)] := by rfl

example : diagLocus .plain [i "Foo"] (.fn { vis := [i "pub"], sig := { ident := "foo" }, body := [braces []] })
    = some (.item 2 1) := by rfl

/-- and that leaf is the identifier `foo` -/
example : ((TT.flattenList (Item.fn { vis := [i "pub"], sig := { ident := "foo" }, body := [braces []] }).print).drop 2).take 1
    = [Leaf.ident "foo"] := by rfl

/-- `#[entrait(FooImpl)] trait Foo { fn a(&self); }`: nothing to blame but the invocation -/
example : specMisuseLoci [i "FooImpl"]
      (.trait { ident := "Foo", members := [.fn { sig := { ident := "a", inputs := [.recv [] (some none) false none] } }] })
    = some [(msgMissingDelegateBy, .callSite)] := by rfl

end Entrait.C15Locus
