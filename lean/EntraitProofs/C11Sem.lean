import EntraitProofs.C11
import EntraitProofs.C01
/-
  C11 read semantically: *an un-mocked call reaches the real function*.

  `T_C11` pins the arguments of the unimock derivation: one `unmock_with` entry per method.  This file adds
  the step from those tokens to what an un-mocked call does, under unimock's documented contract for
  `unmock_with` entries, which does not need rustc:

    * an entry `path`           — the un-mocked call of method `m(&self, a₁, …, aₙ)` is `path(self, a₁, …, aₙ)`;
    * an entry `path(e₁, …, eₖ)` — the un-mocked call is exactly `path(e₁, …, eₖ)`;
    * an entry `_`              — the method has no un-mocked behaviour.

  `T_C11_sem_entry`: for a generated method whose delegating body `T_C01` has pinned, the call unimock makes
  for the entry the macro writes *is the very call the delegating impl makes*: same callee (the source
  function's name), same argument identifiers in the same order — `self` first exactly when the function
  takes its dependency, no `self` for `no_deps`.  `T_C11_sem`: lifted to every (source function, method) pair
  of `expand`'s output in fn and module mode.  A function with a concrete dependency gets `_`
  (`concrete_no_unmock`): its generated trait is a leaf, and there is no `Unimock`-generic function to call.

  That unimock implements this contract is unimock's (E2 samples it: `p_c11_unimock` runs un-mocked calls
  through `Unimock::new_partial` and observes the real function's result).
-/
namespace Entrait.C11Sem
open Entrait

/-- the call unimock makes for an un-mocked invocation of the method with signature `g`, by entry -/
def unmockCall (entry : Toks) (g : Sig) : Option (String × List String) :=
  match entry with
  | [.ident f] => if f == "_" then none else some (f, "self" :: paramIdents g.inputs)
  | [.ident f, .group .paren args] => (parseIdentArgs args).map (fun a => (f, a))
  | _ => none

/-- the call a delegating body makes -/
def bodyCall (m : GenMember) : Option (String × List String) :=
  match m with
  | .fn _ _ (some b) => (parseCall b).map (fun c => (c.callee, c.args))
  | _ => none

/-- a function with a concrete dependency has no un-mocked behaviour -/
theorem concrete_no_unmock (src g : Sig) (hc : src.depIsConcrete = true) :
    unmockCall (depKindEntry false src g) g = none := by
  simp [depKindEntry, hc, unmockCall, i]

/-- **C11, semantically, per method** -/
theorem T_C11_sem_entry (noDeps : Bool) (src : FnItem) (m : GenMember)
    (hm : methodCallsFn noDeps false src m = true)
    (hu : (m.sig?.map (·.ident)) ≠ some "_")
    (hc : noDeps = true ∨ src.sig.depIsConcrete = false) :
    ∃ g, m.sig? = some g ∧ g.ident = src.sig.ident ∧
      unmockCall (depKindEntry noDeps src.sig g) g = bodyCall m ∧
      bodyCall m = some (src.sig.ident, (if noDeps then [] else ["self"]) ++ paramIdents g.inputs) := by
  cases m with
  | raw ts => simp [methodCallsFn] at hm
  | fn attrs g body =>
    cases body with
    | none => simp [methodCallsFn] at hm
    | some b =>
      refine ⟨g, rfl, ?_⟩
      simp only [methodCallsFn] at hm
      cases hpc : parseCall b with
      | none => simp [hpc] at hm
      | some c =>
        simp only [hpc, Bool.and_eq_true, beq_iff_eq, Bool.false_eq_true, if_false] at hm
        obtain ⟨⟨⟨⟨⟨⟨⟨⟨hid, hcallee⟩, _⟩, _⟩, hargs⟩, _⟩, _⟩, _⟩, _⟩ := hm
        have hne : g.ident ≠ "_" := by
          intro he; apply hu; simp [GenMember.sig?, he]
        refine ⟨hid, ?_, ?_⟩
        · simp only [bodyCall, hpc, Option.map_some, hcallee, hargs]
          cases noDeps with
          | true =>
            simp only [depKindEntry, if_true, unmockCall, i, parens]
            have := C01.parseIdentArgs_join (paramIdents g.inputs)
            simp only [i] at this
            simp [this]
          | false =>
            have hc' : src.sig.depIsConcrete = false := by simpa using hc
            simp [depKindEntry, hc', unmockCall, i, hne]
        · simp only [bodyCall, hpc, Option.map_some, hcallee, hargs, hid]

/-- all pairs of a `zipAll` -/
theorem zipAll_forall {α β : Type} (f : α → β → Bool) : ∀ (as : List α) (bs : List β), zipAll f as bs = true →
    ∀ ab ∈ as.zip bs, f ab.1 ab.2 = true
  | [], [], _ => by simp
  | [], _ :: _, h => by simp [zipAll] at h
  | _ :: _, [], h => by simp [zipAll] at h
  | a :: as, b :: bs, h => by
      simp only [zipAll, Bool.and_eq_true] at h
      intro ab hab
      simp only [List.zip_cons_cons, List.mem_cons] at hab
      rcases hab with rfl | hab
      · exact h.1
      · exact zipAll_forall f as bs h.2 ab hab

/-- **C11, semantically**: in fn and module mode, for every source function that takes an abstract
    dependency (or none at all, under `no_deps`), the un-mocked call of its generated method is the call the
    delegating impl makes: the source function, with the receiver as dependency and the arguments in order -/
theorem T_C11_sem (v : Variant) (attr : Toks) (item : Item) (out : Out)
    (hid : item.identsOk = true) (h : expand v attr item = .ok out)
    (hmode : (∃ f, item = .fn f) ∨ (∃ m, item = .mod_ m))
    (im : GenImpl) (him : mainImpl? out.view = some im) :
    ∀ sm ∈ item.sourceFns.zip im.members,
      (sm.2.sig?.map (·.ident)) ≠ some "_" →
      (optsNoDeps (effectiveOpts v attr item) = true ∨ sm.1.sig.depIsConcrete = false) →
      ∃ g, sm.2.sig? = some g ∧ g.ident = sm.1.sig.ident ∧
        unmockCall (depKindEntry (optsNoDeps (effectiveOpts v attr item)) sm.1.sig g) g = bodyCall sm.2 ∧
        bodyCall sm.2 = some (sm.1.sig.ident,
          (if optsNoDeps (effectiveOpts v attr item) then [] else ["self"]) ++ paramIdents g.inputs) := by
  have hp := C01.T_C01 v attr item out hid h
  intro sm hsm hu hc
  have hz : zipAll (fun src m => methodCallsFn (optsNoDeps (effectiveOpts v attr item)) false src m)
      item.sourceFns im.members = true := by
    rcases hmode with ⟨f, rfl⟩ | ⟨m, rfl⟩
    · simpa [P_C01, him] using hp
    · simpa [P_C01, him] using hp
  exact T_C11_sem_entry _ sm.1 sm.2 (zipAll_forall _ _ _ hz sm hsm) hu hc

/-- non-vacuity: the three entry forms -/
example :
    let g : Sig := { ident := "foo",
                      inputs := [.recv [] (some none) false none, .typed [] (.ident false false "a" none) (.other [i "u8"])] }
    unmockCall [i "foo"] g = some ("foo", ["self", "a"]) ∧
    unmockCall [i "foo", parens [i "a"]] g = some ("foo", ["a"]) ∧
    unmockCall [i "_"] g = none := by
  decide +kernel

end Entrait.C11Sem
