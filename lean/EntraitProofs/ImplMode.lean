import EntraitProofs.FnMode
/-
  What the generated method signature of an impl-block input looks like
  (receiver kinds `staticImpl` / `dynamicImpl`).
-/
namespace Entrait

theorem generateParams_impl {dyn : Bool} {deps : FnDeps} {a : List Attr} {pt : Pat} {ty : Ty} {rest : List FnArg}
    {itrail : Bool} {ins : List FnArg} {tr : Bool} (hne : deps ≠ .noDeps)
    (h : generateParams (if dyn then .dynamicImpl else .staticImpl) deps (.typed a pt ty :: rest) itrail = .ok (ins, tr)) :
    (dyn = false ∧ ins = implReceiverWith (refOf ty).join :: rest) ∨
    (dyn = true ∧ ins = .recv [] (refOf ty) false none :: implReceiverArg :: rest) := by
  unfold generateParams rewriteFirst insertImplRecv at h
  cases dyn
  · left
    refine ⟨rfl, ?_⟩
    cases deps with
    | noDeps => exact absurd rfl hne
    | generic q bs => cases ty <;> simp [genFirstReceiver] at h <;> exact h.1.symm
    | concrete cty => cases ty <;> simp [genFirstReceiver] at h <;> exact h.1.symm
  · right
    refine ⟨rfl, ?_⟩
    cases deps with
    | noDeps => exact absurd rfl hne
    | generic q bs =>
      cases ty <;> cases rest <;> simp [genFirstReceiver, selfReceiverArg] at h <;> simp [refOf, h.1]
    | concrete cty =>
      cases ty <;> cases rest <;> simp [genFirstReceiver, selfReceiverArg] at h <;> simp [refOf, h.1]

/-- the method generated for one function of an impl block -/
structure ImplModeSpec (dyn : Bool) (sig : Sig) (tf : TraitFn) : Prop where
  ident : tf.sig.ident = sig.ident
  async_ : tf.sig.async_ = sig.async_
  origAsync : tf.originallyAsync = sig.async_
  output : tf.sig.output = sig.output
  attrs : tf.attrs = []
  deps : tf.deps ≠ .noDeps
  /-- `__impl` (after `&self` for dynamic dispatch), then the renamed user parameters -/
  typed : typedArgs tf.sig.inputs =
    fixParams sig.ident (implRecvOf dyn sig :: (typedArgs (sig.inputs.drop 1)).map FnArg.stripAttrs)
  head : (dyn = false ∧ tf.sig.inputs.head? = (fixParams sig.ident (implRecvOf false sig :: (sig.inputs.drop 1).map FnArg.stripAttrs)).head?) ∨
         (dyn = true ∧ tf.sig.inputs.head? = expectedReceiver false sig)

theorem implRecvOf_static {sig : Sig} {a : List Attr} {pt : Pat} {ty : Ty} {rest : List FnArg}
    (hin : sig.inputs = .typed a pt ty :: rest) : implRecvOf false sig = implReceiverWith (refOf ty).join := by
  simp only [implRecvOf, Sig.depRefLifetime, hin, Bool.false_eq_true, if_false]
  cases ty <;> rfl

theorem implRecvOf_dynamic (sig : Sig) : implRecvOf true sig = implReceiverWith none := rfl

theorem typedArgs_cons_implRecv (lt : Option String) (xs : List FnArg) :
    typedArgs (implReceiverWith lt :: xs) = implReceiverWith lt :: typedArgs xs := rfl

theorem implModeSpec {dyn : Bool} {opts : Opts} {sig : Sig} {tg tg' : TraitGenerics} {tf : TraitFn}
    (hn : opts.noDepsValue = false)
    (h : analyzeFn (if dyn then .dynamicImpl else .staticImpl) opts sig tg = .ok (tf, tg')) :
    ImplModeSpec dyn sig tf := by
  obtain ⟨deps, ins, tr, hd, hg, rfl⟩ := analyzeFn_ok h
  obtain ⟨hne, a, pt, ty, rest, hin⟩ := analyzeFnDeps_deps hd hn
  rw [hin] at hg
  simp only [List.map_cons, FnArg.stripAttrs] at hg
  have hdrop : (sig.inputs.drop 1).map FnArg.stripAttrs = rest.map FnArg.stripAttrs := by rw [hin]; simp
  rcases generateParams_impl hne hg with ⟨rfl, rfl⟩ | ⟨rfl, rfl⟩
  · refine ⟨rfl, rfl, rfl, rfl, rfl, hne, ?_, Or.inl ⟨rfl, ?_⟩⟩
    · simp only [typedArgs_fixParams, implRecvOf_static hin, typedArgs_cons_implRecv, hin, List.drop_succ_cons,
        List.drop_zero, typedArgs_map_strip]
    · simp [hin, implRecvOf_static hin]
  · refine ⟨rfl, rfl, rfl, rfl, rfl, hne, ?_, Or.inr ⟨rfl, ?_⟩⟩
    · simp only [fixParams_cons_recv, typedArgs_cons_recv, typedArgs_fixParams, implRecvOf_dynamic, implReceiverArg,
        typedArgs_cons_implRecv, hin, List.drop_succ_cons, List.drop_zero, typedArgs_map_strip]
    · simp only [fixParams_cons_recv, List.head?_cons, expectedReceiver, Bool.false_eq_true, if_false, hin]
      cases ty <;> rfl

/-! ### impl-block attributes never set `no_deps` -/

theorem parseOptSegs_inv {σ : Type} (set : σ → Opt → Option σ) (Q : σ → Prop)
    (hset : ∀ st o st', set st o = some st' → Q st → Q st') :
    ∀ (segs : List Toks) (st st' : σ), Q st → parseOptSegs set st segs = .ok st' → Q st'
  | [], st, st', hq, h => by simp [parseOptSegs] at h; subst h; exact hq
  | seg :: segs, st, st', hq, h => by
      unfold parseOptSegs at h
      split at h
      · simp at h
      · rename_i opt rest _
        split at h
        · simp at h
        · rename_i st1 hs
          split at h
          · exact parseOptSegs_inv set Q hset segs st1 st' (hset st opt st1 hs hq) h
          · simp at h

theorem implAttr_noDeps {ts : Toks} {a : ImplAttr} (h : parseImplAttr ts = .ok a) : a.opts.noDeps = none := by
  unfold parseImplAttr parseImplOpts at h
  simp only at h
  have hset : ∀ (st : ImplAttr) (o : Opt) (st' : ImplAttr), ImplAttr.set st o = some st' →
      st.opts.noDeps = none → st'.opts.noDeps = none := by
    intro st o st' hs hq
    cases o <;> simp [ImplAttr.set] at hs
    subst hs; exact hq
  split at h
  · injection h with h; subst h; rfl
  · refine parseOptSegs_inv ImplAttr.set (fun st => st.opts.noDeps = none) hset _ _ _ ?_ h
    rfl

theorem apply_noDepsValue (v : Variant) (o : Opts) : (v.apply o).noDepsValue = o.noDepsValue := by
  unfold Variant.apply Opts.noDepsValue
  split <;> split <;> rfl


theorem impl_noDepsValue {v : Variant} {ts : Toks} {a : ImplAttr} (h : parseImplAttr ts = .ok a) :
    (v.apply a.opts).noDepsValue = false := by
  rw [apply_noDepsValue]; simp [Opts.noDepsValue, implAttr_noDeps h]

end Entrait
