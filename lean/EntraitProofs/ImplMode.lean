import EntraitProofs.FnMode
/-
  What the generated method signature of an impl-block input looks like
  (receiver kinds `staticImpl` / `dynamicImpl`).
-/
namespace Entrait

theorem generateParams_impl {dyn : Bool} {deps : FnDeps} {a : List Attr} {pt : Pat} {ty : Ty} {rest : List FnArg}
    {itrail : Bool} {ins : List FnArg} {tr : Bool} (hne : deps ≠ .noDeps)
    (h : generateParams (if dyn then .dynamicImpl else .staticImpl) deps (.typed a pt ty :: rest) itrail = .ok (ins, tr)) :
    (dyn = false ∧ ins = implReceiverArg :: rest) ∨
    (dyn = true ∧ ∃ r, ins = .recv [] r false none :: implReceiverArg :: rest) := by
  unfold generateParams at h
  cases dyn
  · left
    refine ⟨rfl, ?_⟩
    cases deps with
    | noDeps => exact absurd rfl hne
    | generic q bs => cases ty <;> simp [genFirstReceiver] at h <;> exact h.1.symm
    | concrete cty => cases ty <;> simp [genFirstReceiver] at h <;> exact h.1.symm
  · right
    refine ⟨rfl, ?_⟩
    cases deps with
    | noDeps => exact absurd rfl hne
    | generic q bs =>
      cases ty <;> cases rest <;> simp [genFirstReceiver, selfReceiverArg, insertAt] at h <;> exact ⟨_, h.1.symm⟩
    | concrete cty =>
      cases ty <;> cases rest <;> simp [genFirstReceiver, selfReceiverArg, insertAt] at h <;> exact ⟨_, h.1.symm⟩

/-- the method generated for one function of an impl block -/
structure ImplModeSpec (dyn : Bool) (sig : Sig) (tf : TraitFn) : Prop where
  ident : tf.sig.ident = sig.ident
  async_ : tf.sig.async_ = sig.async_
  origAsync : tf.originallyAsync = sig.async_
  output : tf.sig.output = sig.output
  attrs : tf.attrs = []
  deps : tf.deps ≠ .noDeps
  /-- `__impl` (after `&self` for dynamic dispatch), then the renamed user parameters -/
  typed : typedArgs tf.sig.inputs =
    fixParams sig.ident (implReceiverArg :: (typedArgs (sig.inputs.drop 1)).map FnArg.stripAttrs)
  head : (dyn = false ∧ tf.sig.inputs.head? = (fixParams sig.ident (implReceiverArg :: (sig.inputs.drop 1).map FnArg.stripAttrs)).head?) ∨
         (dyn = true ∧ ∃ r, tf.sig.inputs.head? = some (.recv [] r false none))

theorem implModeSpec {dyn : Bool} {opts : Opts} {sig : Sig} {tg tg' : TraitGenerics} {tf : TraitFn}
    (hn : opts.noDepsValue = false)
    (h : analyzeFn (if dyn then .dynamicImpl else .staticImpl) opts sig tg = .ok (tf, tg')) :
    ImplModeSpec dyn sig tf := by
  obtain ⟨deps, ins, tr, hd, hg, rfl⟩ := analyzeFn_ok h
  obtain ⟨hne, a, pt, ty, rest, hin⟩ := analyzeFnDeps_deps hd hn
  rw [hin] at hg
  simp only [List.map_cons, FnArg.stripAttrs] at hg
  have hdrop : (sig.inputs.drop 1).map FnArg.stripAttrs = rest.map FnArg.stripAttrs := by rw [hin]; simp
  rcases generateParams_impl hne hg with ⟨rfl, rfl⟩ | ⟨rfl, r, rfl⟩
  · refine ⟨rfl, rfl, rfl, rfl, rfl, hne, ?_, Or.inl ⟨rfl, ?_⟩⟩
    · simp only [typedArgs_fixParams, implReceiverArg, typedArgs_cons_typed, hin, List.drop_succ_cons, List.drop_zero,
        typedArgs_map_strip]
    · simp [hin]
  · refine ⟨rfl, rfl, rfl, rfl, rfl, hne, ?_, Or.inr ⟨rfl, r, ?_⟩⟩
    · simp only [fixParams_cons_recv, typedArgs_cons_recv, typedArgs_fixParams, implReceiverArg, typedArgs_cons_typed,
        hin, List.drop_succ_cons, List.drop_zero, typedArgs_map_strip]
    · simp [fixParams_cons_recv]

end Entrait
