import EntraitProofs.C18
import EntraitProofs.C08
/-
  C18 read semantically: "cfg-disabled functions of an entraited module or impl block do not leave a
  dangling trait method behind".

  What a build keeps is decided by rustc's evaluation of `cfg` predicates.  That evaluation is
  abstracted as `ev : Toks → Bool` (the tokens inside `#[..]` ↦ whether the predicate holds in the
  build at hand); an item is kept iff every `cfg` attribute on it evaluates to true.  `T_C18_sem`:
  for every expansion of a module or impl block and *every* evaluation, the methods of the generated
  trait that the build keeps, and the delegating methods it keeps, are — by name, in order — exactly
  the source functions it keeps.  So no build has a method without its function (the dangling method
  of the former finding), and none lacks the method of a function it has.
-/
namespace Entrait.C18Sem
open Entrait

/-- an item with these attributes survives cfg-stripping under the evaluation `ev` -/
def kept (ev : Toks → Bool) (as : List Attr) : Bool := as.all (fun a => !isPlainCfg a || ev a.inner)

/-- names of the generated methods a build keeps -/
def keptMethods (ev : Toks → Bool) (ms : List GenMember) : List String :=
  methodNames (ms.filter (fun m => kept ev m.attrs))

/-- names of the source functions a build keeps -/
def keptFns (ev : Toks → Bool) (fs : List FnItem) : List String :=
  (fs.filter (fun f => kept ev f.attrs)).map (·.sig.ident)

/-- only the `cfg` attributes matter for survival -/
theorem kept_filter (ev : Toks → Bool) (as : List Attr) : kept ev (as.filter isPlainCfg) = kept ev as := by
  unfold kept
  induction as with
  | nil => rfl
  | cons a as ih =>
    by_cases h : isPlainCfg a = true
    · simp only [List.filter_cons, h, if_true, List.all_cons, ih]
    · have h' : isPlainCfg a = false := by simpa using h
      simp only [List.filter_cons, h', Bool.false_eq_true, if_false, List.all_cons, Bool.not_false, Bool.true_or,
        Bool.true_and, ih]

/-- position by position: the analysed function carries the `cfg` attributes and the name of its source -/
def mirrors (f : FnItem) (tf : TraitFn) : Bool :=
  tf.attrs == f.attrs.filter isPlainCfg && tf.sig.ident == f.sig.ident

theorem attachCfg_mirrors : ∀ (fs : List FnItem) (fns0 : List TraitFn),
    zipAll (fun (s : Sig) (tf : TraitFn) => tf.sig.ident == s.ident) (fs.map (·.sig)) fns0 = true →
    zipAll mirrors fs (attachCfg (fs.map (·.attrs)) fns0) = true
  | [], [], _ => rfl
  | [], _ :: _, h => by simp [zipAll] at h
  | _ :: _, [], h => by simp [zipAll] at h
  | f :: fs, tf :: fns0, h => by
      simp only [List.map_cons, zipAll, Bool.and_eq_true] at h
      simp only [List.map_cons, attachCfg, zipAll, Bool.and_eq_true, mirrors, withCfgOf_attrs, withCfgOf_sig]
      refine ⟨⟨?_, h.1⟩, attachCfg_mirrors fs fns0 h.2⟩
      have : List.filter Attr.isCfgAttr f.attrs = List.filter isPlainCfg f.attrs := by
        congr 1; funext a; exact C18.isCfgAttr_eq a
      simp [this]

/-- the kept methods of a member list generated from analysed functions -/
theorem keptMethods_map (ev : Toks → Bool) (g : TraitFn → Sig) (hg : ∀ tf, (g tf).ident = tf.sig.ident)
    (b : TraitFn → Option Toks) (fns : List TraitFn) :
    keptMethods ev (fns.map fun tf => GenMember.fn tf.attrs (g tf) (b tf)) =
      (fns.filter (fun tf => kept ev tf.attrs)).map (·.sig.ident) := by
  unfold keptMethods
  induction fns with
  | nil => rfl
  | cons tf fns ih =>
    have hat : (GenMember.fn tf.attrs (g tf) (b tf)).attrs = tf.attrs := rfl
    rw [List.map_cons, List.filter_cons, List.filter_cons, hat]
    cases kept ev tf.attrs
    · simpa using ih
    · simp only [if_true, List.map_cons]
      rw [← ih]
      simp [methodNames, GenMember.sig?, hg]

/-- the kept methods of a member list generated from mirrored functions are the kept functions -/
theorem kept_of_mirrors (ev : Toks → Bool) (g : TraitFn → Sig) (hg : ∀ tf, (g tf).ident = tf.sig.ident)
    (b : TraitFn → Option Toks) (fs : List FnItem) (fns : List TraitFn) (h : zipAll mirrors fs fns = true) :
    keptMethods ev (fns.map fun tf => GenMember.fn tf.attrs (g tf) (b tf)) = keptFns ev fs := by
  rw [keptMethods_map ev g hg b]
  unfold keptFns
  induction fs generalizing fns with
  | nil => cases fns with
    | nil => rfl
    | cons _ _ => simp [zipAll] at h
  | cons f fs ih =>
    cases fns with
    | nil => simp [zipAll] at h
    | cons tf fns =>
      simp only [zipAll, Bool.and_eq_true, mirrors, beq_iff_eq] at h
      obtain ⟨⟨ha, hi⟩, hrest⟩ := h
      have hk : kept ev tf.attrs = kept ev f.attrs := by rw [ha, kept_filter]
      rw [List.filter_cons, List.filter_cons, hk]
      cases kept ev f.attrs
      · simpa using ih fns hrest
      · simp only [if_true, List.map_cons, hi, ih fns hrest]

/-- **no dangling method, no missing method**: for every expansion of a module and every evaluation of
    `cfg` predicates, the trait methods and the delegating methods a build keeps are the functions it keeps -/
theorem T_C18_sem_mod (ev : Toks → Bool) (v : Variant) (attr : Toks) (m : ModItemIn) (out : Out)
    (h : expand v attr (.mod_ m) = .ok out) :
    (traitsOf out.view.items).all (fun t => keptMethods ev t.members == keptFns ev (Item.mod_ m).sourceFns) = true ∧
    (implsOf out.view.items).all (fun im => keptMethods ev im.members == keptFns ev (Item.mod_ m).sourceFns) = true := by
  simp only [expand] at h
  split at h
  · simp at h
  · obtain ⟨items, a, fns0, fns, tg, depMode, implBlock, h0, _, h2, hfns, _, h4, rfl⟩ := expandMod_ok h
    have him := genImplBlock_ok h4
    have hz := analyzeFns_zip .selfRef (v.apply a.opts) (fun (s : Sig) tf => tf.sig.ident == s.ident)
      ((items.filterMap BodyItem.fn?).map (·.sig)) {} tg fns0
      (fun s _ tg0 tf tg1 han => by
        obtain ⟨deps, ins, tr, _, _, rfl⟩ := analyzeFn_ok han
        simp) h2
    have hmir := attachCfg_mirrors _ _ hz
    have hfns' : fns = attachCfg ((items.filterMap BodyItem.fn?).map (·.attrs)) fns0 := hfns
    rw [← hfns'] at hmir
    simp only [Out.view, View.items, Out.inside, Out.after, List.cons_append, List.nil_append, traitsOf, implsOf,
      Item.sourceFns, h0, List.all_cons, List.all_nil, Bool.and_true, beq_iff_eq]
    constructor
    · simp only [genTraitDef]
      exact kept_of_mirrors ev _ (fun tf => C08.makeTraitFnSig_ident _ _ _) _ _ _ hmir
    · rw [him]
      exact kept_of_mirrors ev _ (fun _ => rfl) _ _ _ hmir

/-- the same for an impl block (there is no generated trait: the delegation-target trait is the user's,
    and mirrors the `cfg` attributes of its own methods by `T_C18`) -/
theorem T_C18_sem_impl (ev : Toks → Bool) (v : Variant) (attr : Toks) (m : ImplItemIn) (out : Out)
    (h : expand v attr (.impl m) = .ok out) :
    (implsOf out.view.items).all (fun im => keptMethods ev im.members == keptFns ev (Item.impl m).sourceFns) = true := by
  obtain ⟨items, a, fns0, fns, tg, depMode, implBlock, h0, _, h2, hfns, _, h4, rfl⟩ := expandImpl_ok h
  have him := genImplBlock_ok h4
  have hz := analyzeFns_zip _ (v.apply a.opts) (fun (s : Sig) tf => tf.sig.ident == s.ident)
    ((items.filterMap BodyItem.fn?).map (·.sig)) {} tg fns0
    (fun s _ tg0 tf tg1 han => by
      obtain ⟨deps, ins, tr, _, _, rfl⟩ := analyzeFn_ok han
      simp) h2
  have hmir := attachCfg_mirrors _ _ hz
  have hfns' : fns = attachCfg ((items.filterMap BodyItem.fn?).map (·.attrs)) fns0 := hfns
  rw [← hfns'] at hmir
  simp only [Out.view, View.items, Out.inside, Out.after, List.nil_append, implsOf,
    Item.sourceFns, h0, List.all_cons, List.all_nil, Bool.and_true, beq_iff_eq]
  rw [him]
  exact kept_of_mirrors ev _ (fun _ => rfl) _ _ _ hmir

/-! ### entraited traits: every attribute of a method is mirrored, so every build agrees about which methods exist -/

/-- names of the methods of the user's trait a build keeps -/
def keptTraitFns (ev : Toks → Bool) (fs : List TraitFnItem) : List String :=
  (fs.filter (fun f => kept ev f.attrs)).map (·.sig.ident)

theorem kept_traitFnOf (ev : Toks → Bool) (fs : List TraitFnItem) :
    ((fs.map traitFnOf).filter (fun tf => kept ev tf.attrs)).map (·.sig.ident) = keptTraitFns ev fs := by
  unfold keptTraitFns
  induction fs with
  | nil => rfl
  | cons f fs ih =>
    have h1 : (traitFnOf f).attrs = f.attrs := rfl
    have h2 : (traitFnOf f).sig.ident = f.sig.ident := rfl
    rw [List.map_cons, List.filter_cons, List.filter_cons, h1]
    cases kept ev f.attrs
    · simpa using ih
    · simp only [if_true, List.map_cons, h2, ih]

/-- for every expansion of an entraited trait and every evaluation of `cfg` predicates: the methods the build
    keeps on the re-emitted trait, on the delegation-target trait (if one is generated) and on the delegating impl
    for `Impl<T>` are exactly the methods of the user's trait that the build keeps -/
theorem T_C18_sem_trait (ev : Toks → Bool) (v : Variant) (attr : Toks) (t : TraitItem) (out : Out)
    (h : expand v attr (.trait t) = .ok out) :
    (traitsOf out.view.items).all (fun g =>
      (g.members.filter GenMember.isFn).isEmpty || keptMethods ev g.members == keptTraitFns ev t.fns) = true ∧
    (match mainImpl? out.view with
     | some im => keptMethods ev im.members == keptTraitFns ev t.fns
     | none => false) = true := by
  obtain ⟨a0, fns, delegation, _, h2, h3, rfl⟩ := expandTrait_ok h
  have hf := analyzeTraitMembers_ok _ _ h2
  have himpl := mainImpl_last [] [] ([GenItem.trait (genTraitDef (v.apply a0.opts) .trait .generic t.attrs t.vis t.ident
      (traitTg t) (traitSup t) fns .rawTrait)] ++ delegation) (traitImplBlock { a0 with opts := v.apply a0.opts } t fns)
  have hfns : ∀ (g : TraitFn → TraitFn), (∀ tf, (g tf).attrs = tf.attrs) → (∀ tf, (g tf).sig.ident = tf.sig.ident) →
      ((fns.map g).filter (fun tf => kept ev tf.attrs)).map (·.sig.ident) = keptTraitFns ev t.fns := by
    intro g ha hi
    rw [← kept_traitFnOf, hf]
    simp only [TraitItem.fns]
    generalize (t.members.filterMap TraitMember.fn?).map traitFnOf = xs
    induction xs with
    | nil => rfl
    | cons x xs ih =>
      rw [List.map_cons, List.filter_cons, List.filter_cons, ha]
      cases kept ev x.attrs
      · simpa using ih
      · simp only [if_true, List.map_cons, hi, ih]
  have hmain : ∀ (o : Opts) (ind : TraitIndirection) (subs : List Attr) (vis : Toks) (id : String) (tg : TraitGenerics)
      (sup : Supertraits) (g : TraitFn → TraitFn), (∀ tf, (g tf).attrs = tf.attrs) → (∀ tf, (g tf).sig.ident = tf.sig.ident) →
      keptMethods ev (genTraitDef o ind .generic subs vis id tg sup (fns.map g) .rawTrait).members = keptTraitFns ev t.fns := by
    intro o ind subs vis id tg sup g ha hi
    simp only [genTraitDef]
    rw [keptMethods_map ev _ (fun tf => C08.makeTraitFnSig_ident _ _ _)]
    exact hfns g ha hi
  have hstatA : ∀ tf, (staticImplFn tf).attrs = tf.attrs := by
    intro tf; unfold staticImplFn; split <;> rfl
  have hstatI : ∀ tf, (staticImplFn tf).sig.ident = tf.sig.ident := by
    intro tf; unfold staticImplFn; split <;> rfl
  have hdynA : ∀ tf, (dynamicImplFn tf).attrs = tf.attrs := by
    intro tf; unfold dynamicImplFn; split <;> rfl
  have hdynI : ∀ tf, (dynamicImplFn tf).sig.ident = tf.sig.ident := by
    intro tf; unfold dynamicImplFn; split <;> rfl
  constructor
  · have hid := hmain (v.apply a0.opts) .trait t.attrs t.vis t.ident (traitTg t) (traitSup t) id (fun _ => rfl) (fun _ => rfl)
    simp only [List.map_id_fun, id_eq] at hid
    simp only [Out.view, Out.inside, Out.after, View.items, List.nil_append, List.cons_append, traitsOf_append, traitsOf,
      List.append_nil, List.all_cons, Bool.and_eq_true, Bool.or_eq_true, beq_iff_eq]
    refine ⟨Or.inr hid, ?_⟩
    unfold genDelegationTraitDefs at h3
    split at h3
    · cases h3; rfl
    · split at h3
      · cases h3
        simp only [traitsOf, List.all_cons, List.all_nil, Bool.and_true, Bool.and_eq_true, Bool.or_eq_true, beq_iff_eq]
        exact ⟨Or.inr (hmain _ _ _ _ _ _ _ staticImplFn hstatA hstatI), Or.inl rfl⟩
      · cases h3
        simp only [traitsOf, List.all_cons, List.all_nil, Bool.and_true, Bool.or_eq_true, beq_iff_eq]
        exact Or.inr (hmain _ _ _ _ _ _ _ dynamicImplFn hdynA hdynI)
      · cases h3
  · simp only [Out.view, Out.inside, Out.after, himpl, beq_iff_eq]
    simp only [traitImplBlock]
    have : (fns.map (delegationMethod { a0 with opts := v.apply a0.opts } (traitContainsAsync t))) =
        fns.map (fun tf => GenMember.fn tf.attrs { tf.sig with inputs := fixParams tf.sig.ident tf.sig.inputs }
          (some (delegationCall { a0 with opts := v.apply a0.opts } (traitContainsAsync t) tf.sig.ident
            (paramIdents (fixParams tf.sig.ident tf.sig.inputs)) ++ (if tf.originallyAsync then [p '.', i "await"] else [])))) := by
      apply List.map_congr_left
      intro tf _
      rfl
    rw [this, keptMethods_map ev (fun tf => { tf.sig with inputs := fixParams tf.sig.ident tf.sig.inputs }) (fun _ => rfl)]
    have := hfns id (fun _ => rfl) (fun _ => rfl)
    simpa using this

/-! ### the same reading for any output on which the predicates hold (in particular the real macro's)

  `P_C18` and `P_C08` are evaluated on the output of the real macro for every generated case.  The next
  theorem says what that buys: whenever both hold of a view — model or real — the generated trait has,
  in every build, exactly the methods of the functions the build keeps. -/

theorem methodNames_length_le (ms : List GenMember) : (methodNames ms).length ≤ ms.length :=
  List.length_filterMap_le _ _

theorem kept_of_preds (ev : Toks → Bool) : ∀ (fs : List FnItem) (ms : List GenMember),
    memberAttrsOk (fs.map (fun f => f.attrs.filter isPlainCfg)) ms = true →
    methodNames ms = fs.map (·.sig.ident) → ms.length = (methodNames ms).length →
    keptMethods ev ms = keptFns ev fs
  | [], [], _, _, _ => rfl
  | [], _ :: _, h, _, _ => by simp [memberAttrsOk, zipAll] at h
  | _ :: _, [], h, _, _ => by simp [memberAttrsOk, zipAll] at h
  | f :: fs, m :: ms, h, hn, hl => by
      cases m with
      | raw ts =>
        exfalso
        have h1 : methodNames (GenMember.raw ts :: ms) = methodNames ms := rfl
        rw [h1] at hl
        have := methodNames_length_le ms
        simp only [List.length_cons] at hl
        omega
      | fn as s b =>
        have h1 : methodNames (GenMember.fn as s b :: ms) = s.ident :: methodNames ms := rfl
        rw [h1] at hn hl
        simp only [List.map_cons, List.cons.injEq] at hn
        simp only [List.length_cons, Nat.add_right_cancel_iff] at hl
        simp only [memberAttrsOk, List.map_cons, zipAll, Bool.and_eq_true, beq_iff_eq] at h
        obtain ⟨⟨ha, _⟩, hrest⟩ := h
        have ih := kept_of_preds ev fs ms hrest hn.2 hl
        unfold keptMethods keptFns at ih ⊢
        have hat : (GenMember.fn as s b).attrs = as := rfl
        have hk : kept ev as = kept ev f.attrs := by rw [ha, kept_filter]
        rw [List.filter_cons, List.filter_cons, hat, hk]
        cases kept ev f.attrs
        · simpa using ih
        · simp only [if_true, List.map_cons]
          rw [← ih]
          simp [methodNames, GenMember.sig?, hn.1]

/-- for any view of a module expansion on which `P_C18` and `P_C08` hold -/
theorem T_C18_view_mod (ev : Toks → Bool) (attr : Toks) (m : ModItemIn) (e : Option (List String)) (view : View)
    (h18 : P_C18 (.mod_ m) view = true) (h08 : P_C08 attr (.mod_ m) e view = true) :
    (traitsOf view.inside).all (fun t => keptMethods ev t.members == keptFns ev (Item.mod_ m).sourceFns) = true := by
  simp only [P_C08] at h08
  split at h08
  · rename_i a t im hp ht hi
    simp only [Bool.and_eq_true, beq_iff_eq] at h08
    obtain ⟨⟨⟨⟨⟨⟨hnames, _⟩, _⟩, hlen⟩, _⟩, _⟩, _⟩ := h08
    simp only [P_C18, mirroredAttrs, View.items, traitsOf_append, ht, List.cons_append, List.all_cons, Bool.and_eq_true] at h18
    obtain ⟨⟨⟨_, hattrs⟩, _⟩, _⟩ := h18
    simp only [ht, List.all_cons, List.all_nil, Bool.and_true, beq_iff_eq]
    exact kept_of_preds ev _ _ hattrs hnames hlen
  · simp at h08

/-- non-vacuity: in `mod m { #[cfg(any())] #[inline] pub fn a(..) {} pub fn c(..) {} }` a build in which
    `any()` is false keeps exactly `c` — function, trait method and delegating method -/
example :
    let ev : Toks → Bool := fun ts => ts != [i "cfg", parens [i "any", parens []]]
    (match expand .plain [i "Foo"] (.mod_ Examples.modCfg) with
     | .ok out => ((traitsOf out.view.items).map (fun t => keptMethods ev t.members),
                   (implsOf out.view.items).map (fun im => keptMethods ev im.members),
                   keptFns ev (Item.mod_ Examples.modCfg).sourceFns)
     | _ => ([], [], [])) = ([["c"]], [["c"]], ["c"]) := by decide +kernel

/-- non-vacuity (trait mode): `#[entrait(CfImpl, delegate_by = ref)] pub trait Cf { #[cfg(any())] fn gone(&self); fn here(&self); }` —
    in a build where `any()` is false the re-emitted trait, the delegation-target trait `CfImpl` and the impl for
    `Impl<T>` all keep exactly `here` -/
example :
    let ev : Toks → Bool := fun ts => ts != [i "cfg", parens [i "any", parens []]]
    (match expand .plain [i "CfImpl", p ',', i "delegate_by", p '=', i "ref"] (.trait Examples.traitCfg) with
     | .ok out => ((traitsOf out.view.items).map (fun t => keptMethods ev t.members),
                   (mainImpl? out.view).map (fun im => keptMethods ev im.members),
                   keptTraitFns ev Examples.traitCfg.fns)
     | _ => ([], none, [])) = ([["here"], ["here"]], some ["here"], ["here"]) := by decide +kernel

end Entrait.C18Sem
