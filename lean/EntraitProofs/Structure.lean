import EntraitProofs.Inversion
import EntraitProofs.Params
/-
  Structural lemmas about the analysis and code generation functions, shared by the property
  theorems: what `analyzeFn` / `analyzeFns` / `genImplBlock` / `genTraitDef` return.
-/
namespace Entrait

/-! ### zipAll -/

theorem zipAll_map_right {α β γ : Type} (f : α → γ → Bool) (g : β → γ) :
    ∀ (as : List α) (bs : List β), zipAll f as (bs.map g) = zipAll (fun a b => f a (g b)) as bs
  | [], [] => rfl
  | [], _ :: _ => rfl
  | _ :: _, [] => rfl
  | a :: as, b :: bs => by simp [zipAll, zipAll_map_right f g as bs]

theorem zipAll_map_left {α β γ : Type} (f : γ → β → Bool) (g : α → γ) :
    ∀ (as : List α) (bs : List β), zipAll f (as.map g) bs = zipAll (fun a b => f (g a) b) as bs
  | [], [] => rfl
  | [], _ :: _ => rfl
  | _ :: _, [] => rfl
  | a :: as, b :: bs => by simp [zipAll, zipAll_map_left f g as bs]

theorem zipAll_mono {α β : Type} (f g : α → β → Bool) :
    ∀ (as : List α) (bs : List β), (∀ a ∈ as, ∀ b ∈ bs, f a b = true → g a b = true) →
      zipAll f as bs = true → zipAll g as bs = true
  | [], [], _, _ => rfl
  | [], _ :: _, _, h => by simp [zipAll] at h
  | _ :: _, [], _, h => by simp [zipAll] at h
  | a :: as, b :: bs, hm, h => by
      simp only [zipAll, Bool.and_eq_true] at h ⊢
      exact ⟨hm a List.mem_cons_self b List.mem_cons_self h.1,
        zipAll_mono f g as bs (fun x hx y hy => hm x (List.mem_cons_of_mem _ hx) y (List.mem_cons_of_mem _ hy)) h.2⟩

theorem zipAll_singleton {α β : Type} (f : α → β → Bool) (a : α) (b : β) : zipAll f [a] [b] = f a b := by
  simp [zipAll]

/-! ### `analyzeFn` -/

/-- what a successfully analysed function looks like -/
theorem analyzeFn_ok {kind : ReceiverKind} {opts : Opts} {sig : Sig} {tg tg' : TraitGenerics} {tf : TraitFn}
    (h : analyzeFn kind opts sig tg = .ok (tf, tg')) :
    ∃ deps ins tr,
      analyzeFnDeps sig opts tg = .ok (deps, tg') ∧
      generateParams kind deps (sig.inputs.map FnArg.stripAttrs) sig.itrail = .ok (ins, tr) ∧
      tf = { deps := deps, attrs := [],
             sig := { sig with inputs := fixParams sig.ident ins, itrail := tr,
                               generics := removeGenericTypeParams deps sig.generics },
             originallyAsync := sig.async_ } := by
  unfold analyzeFn at h
  cases h1 : analyzeFnDeps sig opts tg with
  | error e => simp [h1] at h
  | ok r =>
    obtain ⟨deps, tg1⟩ := r
    simp only [h1] at h
    unfold convertSig at h
    cases h2 : generateParams kind deps (sig.inputs.map FnArg.stripAttrs) sig.itrail with
    | error e => simp [h2] at h
    | ok r2 =>
      obtain ⟨ins, tr⟩ := r2
      simp [h2] at h
      obtain ⟨rfl, rfl⟩ := h
      exact ⟨deps, ins, tr, rfl, h2, rfl⟩

/-- positional correspondence between the source signatures and the analysed functions -/
theorem analyzeFns_zip (kind : ReceiverKind) (opts : Opts) (Q : Sig → TraitFn → Bool) :
    ∀ (sigs : List Sig) (tg tg' : TraitGenerics) (fns : List TraitFn),
      (∀ s ∈ sigs, ∀ tg tf tg', analyzeFn kind opts s tg = .ok (tf, tg') → Q s tf = true) →
      analyzeFns kind opts sigs tg = .ok (fns, tg') → zipAll Q sigs fns = true
  | [], tg, tg', fns, _, h => by
      simp [analyzeFns] at h
      obtain ⟨rfl, _⟩ := h
      rfl
  | s :: rest, tg, tg', fns, hQ, h => by
      unfold analyzeFns at h
      cases h1 : analyzeFn kind opts s tg with
      | error e => simp [h1] at h
      | ok r =>
        obtain ⟨tf, tg1⟩ := r
        simp only [h1] at h
        cases h2 : analyzeFns kind opts rest tg1 with
        | error e => simp [h2] at h
        | ok r2 =>
          obtain ⟨tfs, tg2⟩ := r2
          simp [h2] at h
          obtain ⟨rfl, rfl⟩ := h
          simp only [zipAll, Bool.and_eq_true]
          exact ⟨hQ s List.mem_cons_self tg tf tg1 h1,
            analyzeFns_zip kind opts Q rest tg1 tg2 tfs (fun x hx => hQ x (List.mem_cons_of_mem _ hx)) h2⟩

theorem analyzeFns_all (kind : ReceiverKind) (opts : Opts) (Q : TraitFn → Prop)
    (hQ : ∀ s tg tf tg', analyzeFn kind opts s tg = .ok (tf, tg') → Q tf) :
    ∀ (sigs : List Sig) (tg tg' : TraitGenerics) (fns : List TraitFn),
      analyzeFns kind opts sigs tg = .ok (fns, tg') → ∀ tf ∈ fns, Q tf
  | [], tg, tg', fns, h => by
      simp [analyzeFns] at h
      obtain ⟨rfl, _⟩ := h
      simp
  | s :: rest, tg, tg', fns, h => by
      unfold analyzeFns at h
      cases h1 : analyzeFn kind opts s tg with
      | error e => simp [h1] at h
      | ok r =>
        obtain ⟨tf, tg1⟩ := r
        simp only [h1] at h
        cases h2 : analyzeFns kind opts rest tg1 with
        | error e => simp [h2] at h
        | ok r2 =>
          obtain ⟨tfs, tg2⟩ := r2
          simp [h2] at h
          obtain ⟨rfl, rfl⟩ := h
          intro x hx
          rcases List.mem_cons.mp hx with rfl | hx
          · exact hQ s tg _ tg1 h1
          · exact analyzeFns_all kind opts Q hQ rest tg1 tg2 tfs h2 x hx

/-! ### dependency analysis -/

theorem analyzeFnDeps_noDeps {sig : Sig} {opts : Opts} {tg tg' : TraitGenerics} {deps : FnDeps}
    (h : analyzeFnDeps sig opts tg = .ok (deps, tg')) (hn : opts.noDepsValue = true) : deps = .noDeps := by
  unfold analyzeFnDeps at h
  simp [hn] at h
  exact h.1.symm

theorem extractDeps_ne_noDeps {g : Generics} {tg tg' : TraitGenerics} {deps : FnDeps} :
    ∀ (ty : Ty), extractDepsFromType g tg ty = .ok (deps, tg') → deps ≠ .noDeps := by
  intro ty
  induction ty with
  | implTrait bs tr => intro h; simp [extractDepsFromType] at h; rw [← h.1]; simp
  | path q l n f t =>
    intro h
    unfold extractDepsFromType at h
    split at h
    · simp at h
    · split at h
      · simp at h
      · split at h
        · simp at h; rw [← h.1]; simp
        · split at h
          · rename_i r hr
            simp at h
            unfold findDepsGenericBounds at hr
            split at hr
            · simp at hr
            · simp at hr
              rw [h] at hr
              simp at hr
              rw [← hr.1]; simp
          · simp at h; rw [← h.1]; simp
  | ref_ lt m e ih => intro h; exact ih (by simpa [extractDepsFromType] using h)
  | paren e ih => intro h; exact ih (by simpa [extractDepsFromType] using h)
  | other t => intro h; simp [extractDepsFromType] at h; rw [← h.1]; simp

/-- with a dependency parameter: it is the first input, typed, and the deps are not `noDeps` -/
theorem analyzeFnDeps_deps {sig : Sig} {opts : Opts} {tg tg' : TraitGenerics} {deps : FnDeps}
    (h : analyzeFnDeps sig opts tg = .ok (deps, tg')) (hn : opts.noDepsValue = false) :
    deps ≠ .noDeps ∧ ∃ a pt ty rest, sig.inputs = .typed a pt ty :: rest := by
  unfold analyzeFnDeps at h
  simp only [hn, Bool.false_eq_true, if_false] at h
  split at h
  · simp at h
  · simp at h
  · rename_i a pt ty rest heq
    exact ⟨extractDeps_ne_noDeps ty h, a, pt, ty, rest, heq⟩

/-! ### generated impl block -/

theorem genImplBlock_ok {opts : Opts} {traitRef : Toks} {ind : ImplIndirection} {tg : TraitGenerics}
    {mode : InputMode} {depMode : DepMode} {subAttrs : List Attr} {fns : List TraitFn} {im : GenImpl}
    (h : genImplBlock opts traitRef ind tg mode depMode subAttrs fns = .ok im) :
    im = { attrs := subAttrs.filter (fun a => a.subKind == .asyncTrait)
           params := implParams depMode (fns.any (fun tf => tf.sig.takesSelfByValue)) tg.params
           traitRef := traitRef ++ genericArgs ind tg.params
           selfTy := implSelfTy depMode ind opts.mockable
           preds := implWherePreds depMode ind fns tg
           members := fns.map fun tf => .fn [] tf.sig (some (delegatingBody mode ind tf)) } := by
  unfold genImplBlock at h
  split at h
  · simp at h
  · injection h with h
    exact h.symm

theorem implsOf_trait_impl (t : GenTrait) (im : GenImpl) (rest : List GenItem) :
    implsOf (.trait t :: .impl im :: rest) = im :: implsOf rest := rfl

/-! ### trait mode -/

def traitFnOf (f : TraitFnItem) : TraitFn :=
  { deps := .noDeps, attrs := f.attrs, sig := f.sig, originallyAsync := f.sig.async_ }

theorem analyzeTraitMembers_ok : ∀ (ms : List TraitMember) (fns : List TraitFn),
    analyzeTraitMembers ms = .ok fns →
      fns = (ms.filterMap TraitMember.fn?).map traitFnOf
  | [], fns, h => by simp [analyzeTraitMembers] at h; subst h; rfl
  | .fn f :: rest, fns, h => by
      unfold analyzeTraitMembers at h
      cases h' : analyzeTraitMembers rest with
      | error e => simp [h'] at h
      | ok r =>
        simp [h'] at h
        subst h
        simp [traitFnOf, TraitMember.fn?, List.filterMap_cons, analyzeTraitMembers_ok rest r h']
  | .type_ t :: rest, fns, h => by
      unfold analyzeTraitMembers at h
      simpa [TraitMember.fn?, List.filterMap_cons] using analyzeTraitMembers_ok rest fns h
  | .other t :: rest, fns, h => by simp [analyzeTraitMembers] at h

/-! ### views -/

theorem implsOf_append (xs ys : List GenItem) : implsOf (xs ++ ys) = implsOf xs ++ implsOf ys := by
  induction xs with
  | nil => rfl
  | cons x rest ih => cases x <;> simp [implsOf, ih]

theorem traitsOf_append (xs ys : List GenItem) : traitsOf (xs ++ ys) = traitsOf xs ++ traitsOf ys := by
  induction xs with
  | nil => rfl
  | cons x rest ih => cases x <;> simp [traitsOf, ih]

theorem mainImpl_last (inherent : Toks) (inside xs : List GenItem) (im : GenImpl) :
    mainImpl? { inherent := inherent, inside := inside, after := xs ++ [GenItem.impl im] } = some im := by
  simp [mainImpl?, View.items, implsOf_append, implsOf]


/-! ### re-applied sub-attributes -/

theorem mem_reappliedSubs {mode : InputMode} {subs : List Attr} {a : Attr} (h : a ∈ reappliedSubs mode subs) : a ∈ subs := by
  unfold reappliedSubs at h
  split at h
  · exact h
  · exact (List.mem_filter.mp h).1

theorem reappliedSubs_async {mode : InputMode} {subs : List Attr} {a : Attr} (ha : a ∈ subs) (hk : a.subKind = .asyncTrait) :
    a ∈ reappliedSubs mode subs := by
  unfold reappliedSubs
  split
  · exact ha
  · exact List.mem_filter.mpr ⟨ha, by simp [hk]⟩

theorem reappliedSubs_rawTrait (subs : List Attr) : reappliedSubs .rawTrait subs = subs := by
  simp [reappliedSubs]

/-! ### impl generics: lifetimes, then the macro's parameter, then the rest -/

theorem filter_lifetimes_not (ps : List GParam) :
    (ps.filter GParam.isLifetime).filter (fun q => !q.isLifetime) = [] := by
  rw [List.filter_filter, List.filter_eq_nil_iff]
  intro q _
  cases q.isLifetime <;> simp

theorem macroParam_generic (bv : Bool) (ps : List GParam) :
    macroParam (implParams .generic bv ps) = some (implTParam bv) := by
  unfold macroParam implParams
  simp only [List.filter_append, filter_lifetimes_not, List.nil_append]
  rfl

end Entrait
