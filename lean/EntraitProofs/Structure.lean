import EntraitProofs.Inversion
import EntraitProofs.Params
/-
  Structural lemmas about the analysis and code generation functions, shared by the property
  theorems: what `analyzeFn` / `analyzeFns` / `genImplBlock` / `genTraitDef` return.
-/
namespace Entrait

/-! ### zipAll -/

theorem zipAll_map_right {α β γ : Type} (f : α → γ → Bool) (g : β → γ) :
    ∀ (as : List α) (bs : List β), zipAll f as (bs.map g) = zipAll (fun a b => f a (g b)) as bs
  | [], [] => rfl
  | [], _ :: _ => rfl
  | _ :: _, [] => rfl
  | a :: as, b :: bs => by simp [zipAll, zipAll_map_right f g as bs]

theorem zipAll_map_left {α β γ : Type} (f : γ → β → Bool) (g : α → γ) :
    ∀ (as : List α) (bs : List β), zipAll f (as.map g) bs = zipAll (fun a b => f (g a) b) as bs
  | [], [] => rfl
  | [], _ :: _ => rfl
  | _ :: _, [] => rfl
  | a :: as, b :: bs => by simp [zipAll, zipAll_map_left f g as bs]

theorem zipAll_mono {α β : Type} (f g : α → β → Bool) :
    ∀ (as : List α) (bs : List β), (∀ a ∈ as, ∀ b ∈ bs, f a b = true → g a b = true) →
      zipAll f as bs = true → zipAll g as bs = true
  | [], [], _, _ => rfl
  | [], _ :: _, _, h => by simp [zipAll] at h
  | _ :: _, [], _, h => by simp [zipAll] at h
  | a :: as, b :: bs, hm, h => by
      simp only [zipAll, Bool.and_eq_true] at h ⊢
      exact ⟨hm a List.mem_cons_self b List.mem_cons_self h.1,
        zipAll_mono f g as bs (fun x hx y hy => hm x (List.mem_cons_of_mem _ hx) y (List.mem_cons_of_mem _ hy)) h.2⟩

theorem zipAll_singleton {α β : Type} (f : α → β → Bool) (a : α) (b : β) : zipAll f [a] [b] = f a b := by
  simp [zipAll]

/-! ### `analyzeFn` -/

/-- what a successfully analysed function looks like -/
theorem analyzeFn_ok {kind : ReceiverKind} {opts : Opts} {sig : Sig} {tg tg' : TraitGenerics} {tf : TraitFn}
    (h : analyzeFn kind opts sig tg = .ok (tf, tg')) :
    ∃ deps ins tr,
      analyzeFnDeps sig opts tg = .ok (deps, tg') ∧
      generateParams kind deps (sig.inputs.map FnArg.stripAttrs) sig.itrail = .ok (ins, tr) ∧
      tf = { deps := deps, attrs := [],
             sig := { sig with inputs := fixParams sig.ident ins, itrail := tr,
                               generics := removeGenericTypeParams deps sig.generics },
             originallyAsync := sig.async_ } := by
  unfold analyzeFn at h
  cases h1 : analyzeFnDeps sig opts tg with
  | error e => simp [h1] at h
  | ok r =>
    obtain ⟨deps, tg1⟩ := r
    simp only [h1] at h
    unfold convertSig at h
    cases h2 : generateParams kind deps (sig.inputs.map FnArg.stripAttrs) sig.itrail with
    | error e => simp [h2] at h
    | ok r2 =>
      obtain ⟨ins, tr⟩ := r2
      simp [h2] at h
      obtain ⟨rfl, rfl⟩ := h
      exact ⟨deps, ins, tr, rfl, h2, rfl⟩

/-- positional correspondence between the source signatures and the analysed functions -/
theorem analyzeFns_zip (kind : ReceiverKind) (opts : Opts) (Q : Sig → TraitFn → Bool) :
    ∀ (sigs : List Sig) (tg tg' : TraitGenerics) (fns : List TraitFn),
      (∀ s ∈ sigs, ∀ tg tf tg', analyzeFn kind opts s tg = .ok (tf, tg') → Q s tf = true) →
      analyzeFns kind opts sigs tg = .ok (fns, tg') → zipAll Q sigs fns = true
  | [], tg, tg', fns, _, h => by
      simp [analyzeFns] at h
      obtain ⟨rfl, _⟩ := h
      rfl
  | s :: rest, tg, tg', fns, hQ, h => by
      unfold analyzeFns at h
      cases h1 : analyzeFn kind opts s tg with
      | error e => simp [h1] at h
      | ok r =>
        obtain ⟨tf, tg1⟩ := r
        simp only [h1] at h
        cases h2 : analyzeFns kind opts rest tg1 with
        | error e => simp [h2] at h
        | ok r2 =>
          obtain ⟨tfs, tg2⟩ := r2
          simp [h2] at h
          obtain ⟨rfl, rfl⟩ := h
          simp only [zipAll, Bool.and_eq_true]
          exact ⟨hQ s List.mem_cons_self tg tf tg1 h1,
            analyzeFns_zip kind opts Q rest tg1 tg2 tfs (fun x hx => hQ x (List.mem_cons_of_mem _ hx)) h2⟩

theorem analyzeFns_all (kind : ReceiverKind) (opts : Opts) (Q : TraitFn → Prop)
    (hQ : ∀ s tg tf tg', analyzeFn kind opts s tg = .ok (tf, tg') → Q tf) :
    ∀ (sigs : List Sig) (tg tg' : TraitGenerics) (fns : List TraitFn),
      analyzeFns kind opts sigs tg = .ok (fns, tg') → ∀ tf ∈ fns, Q tf
  | [], tg, tg', fns, h => by
      simp [analyzeFns] at h
      obtain ⟨rfl, _⟩ := h
      simp
  | s :: rest, tg, tg', fns, h => by
      unfold analyzeFns at h
      cases h1 : analyzeFn kind opts s tg with
      | error e => simp [h1] at h
      | ok r =>
        obtain ⟨tf, tg1⟩ := r
        simp only [h1] at h
        cases h2 : analyzeFns kind opts rest tg1 with
        | error e => simp [h2] at h
        | ok r2 =>
          obtain ⟨tfs, tg2⟩ := r2
          simp [h2] at h
          obtain ⟨rfl, rfl⟩ := h
          intro x hx
          rcases List.mem_cons.mp hx with rfl | hx
          · exact hQ s tg _ tg1 h1
          · exact analyzeFns_all kind opts Q hQ rest tg1 tg2 tfs h2 x hx

/-! ### dependency analysis -/

theorem analyzeFnDeps_noDeps {sig : Sig} {opts : Opts} {tg tg' : TraitGenerics} {deps : FnDeps}
    (h : analyzeFnDeps sig opts tg = .ok (deps, tg')) (hn : opts.noDepsValue = true) : deps = .noDeps := by
  unfold analyzeFnDeps at h
  simp [hn] at h
  exact h.1.symm

theorem extractDeps_ne_noDeps {g : Generics} {tg tg' : TraitGenerics} {deps : FnDeps} :
    ∀ (ty : Ty), extractDepsFromType g tg ty = .ok (deps, tg') → deps ≠ .noDeps := by
  intro ty
  induction ty with
  | implTrait bs tr => intro h; simp [extractDepsFromType] at h; rw [← h.1]; simp
  | path q l n f t =>
    intro h
    unfold extractDepsFromType at h
    split at h
    · simp at h
    · split at h
      · simp at h
      · split at h
        · simp at h; rw [← h.1]; simp
        · split at h
          · rename_i r hr
            simp at h
            unfold findDepsGenericBounds at hr
            split at hr
            · simp at hr
            · simp at hr
              rw [h] at hr
              simp at hr
              rw [← hr.1]; simp
          · simp at h; rw [← h.1]; simp
  | ref_ lt m e ih => intro h; exact ih (by simpa [extractDepsFromType] using h)
  | paren e ih => intro h; exact ih (by simpa [extractDepsFromType] using h)
  | other t => intro h; simp [extractDepsFromType] at h; rw [← h.1]; simp

/-- with a dependency parameter: it is the first input, typed, and the deps are not `noDeps` -/
theorem analyzeFnDeps_deps {sig : Sig} {opts : Opts} {tg tg' : TraitGenerics} {deps : FnDeps}
    (h : analyzeFnDeps sig opts tg = .ok (deps, tg')) (hn : opts.noDepsValue = false) :
    deps ≠ .noDeps ∧ ∃ a pt ty rest, sig.inputs = .typed a pt ty :: rest := by
  unfold analyzeFnDeps at h
  simp only [hn, Bool.false_eq_true, if_false] at h
  split at h
  · simp at h
  · simp at h
  · rename_i a pt ty rest heq
    exact ⟨extractDeps_ne_noDeps ty h, a, pt, ty, rest, heq⟩

/-! ### generated impl block -/

theorem genImplBlock_ok {opts : Opts} {traitRef : Toks} {ind : ImplIndirection} {tg : TraitGenerics}
    {mode : InputMode} {depMode : DepMode} {subAttrs : List Attr} {fns : List TraitFn} {im : GenImpl}
    (h : genImplBlock opts traitRef ind tg mode depMode subAttrs fns = .ok im) :
    im = { attrs := subAttrs.filter (fun a => a.subKind == .asyncTrait)
           params := implParams depMode (fns.any (fun tf => tf.sig.takesSelfByValue)) tg.params
           traitRef := traitRef ++ genericArgs ind tg.params
           selfTy := implSelfTy depMode ind opts.mockable
           preds := implWherePreds depMode ind fns tg
           members := fns.map fun tf => .fn tf.attrs tf.sig (some (delegatingBody mode ind tf)) } := by
  unfold genImplBlock at h
  split at h
  · simp at h
  · injection h with h
    exact h.symm

theorem implsOf_trait_impl (t : GenTrait) (im : GenImpl) (rest : List GenItem) :
    implsOf (.trait t :: .impl im :: rest) = im :: implsOf rest := rfl

/-! ### trait mode -/

def traitFnOf (f : TraitFnItem) : TraitFn :=
  { deps := .noDeps, attrs := f.attrs, sig := f.sig, originallyAsync := f.sig.async_ }

theorem analyzeTraitMembers_ok : ∀ (ms : List TraitMember) (fns : List TraitFn),
    analyzeTraitMembers ms = .ok fns →
      fns = (ms.filterMap TraitMember.fn?).map traitFnOf
  | [], fns, h => by simp [analyzeTraitMembers] at h; subst h; rfl
  | .fn f :: rest, fns, h => by
      unfold analyzeTraitMembers at h
      cases h' : analyzeTraitMembers rest with
      | error e => simp [h'] at h
      | ok r =>
        simp [h'] at h
        subst h
        simp [traitFnOf, TraitMember.fn?, List.filterMap_cons, analyzeTraitMembers_ok rest r h']
  | .type_ t :: rest, fns, h => by
      unfold analyzeTraitMembers at h
      simpa [TraitMember.fn?, List.filterMap_cons] using analyzeTraitMembers_ok rest fns h
  | .other t :: rest, fns, h => by simp [analyzeTraitMembers] at h

/-! ### views -/

theorem implsOf_append (xs ys : List GenItem) : implsOf (xs ++ ys) = implsOf xs ++ implsOf ys := by
  induction xs with
  | nil => rfl
  | cons x rest ih => cases x <;> simp [implsOf, ih]

theorem traitsOf_append (xs ys : List GenItem) : traitsOf (xs ++ ys) = traitsOf xs ++ traitsOf ys := by
  induction xs with
  | nil => rfl
  | cons x rest ih => cases x <;> simp [traitsOf, ih]

theorem mainImpl_last (inherent : Toks) (inside xs : List GenItem) (im : GenImpl) :
    mainImpl? { inherent := inherent, inside := inside, after := xs ++ [GenItem.impl im] } = some im := by
  simp [mainImpl?, View.items, implsOf_append, implsOf]


/-! ### re-applied sub-attributes -/

theorem mem_reappliedSubs {mode : InputMode} {subs : List Attr} {a : Attr} (h : a ∈ reappliedSubs mode subs) : a ∈ subs := by
  unfold reappliedSubs at h
  split at h
  · exact h
  · exact (List.mem_filter.mp h).1

theorem reappliedSubs_async {mode : InputMode} {subs : List Attr} {a : Attr} (ha : a ∈ subs) (hk : a.subKind = .asyncTrait) :
    a ∈ reappliedSubs mode subs := by
  unfold reappliedSubs
  split
  · exact ha
  · exact List.mem_filter.mpr ⟨ha, by simp [hk]⟩

theorem reappliedSubs_rawTrait (subs : List Attr) : reappliedSubs .rawTrait subs = subs := by
  simp [reappliedSubs]

/-! ### impl generics: lifetimes, then the macro's parameter, then the rest -/

theorem filter_lifetimes_not (ps : List GParam) :
    (ps.filter GParam.isLifetime).filter (fun q => !q.isLifetime) = [] := by
  rw [List.filter_filter, List.filter_eq_nil_iff]
  intro q _
  cases q.isLifetime <;> simp

theorem macroParam_generic (bv : Bool) (ps : List GParam) :
    macroParam (implParams .generic bv ps) = some (implTParam bv) := by
  unfold macroParam implParams
  simp only [List.filter_append, filter_lifetimes_not, List.nil_append]
  rfl

/-! ### mirroring of `cfg` attributes: `attachCfg` changes nothing but the attributes -/

@[simp] theorem withCfgOf_sig (tf : TraitFn) (a : List Attr) : (tf.withCfgOf a).sig = tf.sig := rfl
@[simp] theorem withCfgOf_deps (tf : TraitFn) (a : List Attr) : (tf.withCfgOf a).deps = tf.deps := rfl
@[simp] theorem withCfgOf_async (tf : TraitFn) (a : List Attr) : (tf.withCfgOf a).originallyAsync = tf.originallyAsync := rfl
@[simp] theorem withCfgOf_attrs (tf : TraitFn) (a : List Attr) : (tf.withCfgOf a).attrs = a.filter Attr.isCfgAttr := rfl

theorem attachCfg_map {β : Type} (g : TraitFn → β) (hg : ∀ tf a, g (tf.withCfgOf a) = g tf) :
    ∀ (as : List (List Attr)) (fns : List TraitFn), (attachCfg as fns).map g = fns.map g
  | [], fns => by cases fns <;> rfl
  | _ :: _, [] => rfl
  | a :: as, tf :: fns => by simp [attachCfg, hg, attachCfg_map g hg as fns]

theorem attachCfg_length : ∀ (as : List (List Attr)) (fns : List TraitFn), (attachCfg as fns).length = fns.length
  | [], fns => by cases fns <;> rfl
  | _ :: _, [] => rfl
  | a :: as, tf :: fns => by simp [attachCfg, attachCfg_length as fns]

/-- a per-function fact that does not look at the attributes survives the mirroring -/
theorem zipAll_attachCfg {α : Type} (f : α → TraitFn → Bool) (hf : ∀ x tf a, f x (tf.withCfgOf a) = f x tf) :
    ∀ (xs : List α) (as : List (List Attr)) (fns : List TraitFn), zipAll f xs (attachCfg as fns) = zipAll f xs fns
  | xs, [], fns => by cases fns <;> rfl
  | xs, _ :: _, [] => rfl
  | [], a :: as, tf :: fns => rfl
  | x :: xs, a :: as, tf :: fns => by simp [attachCfg, zipAll, hf, zipAll_attachCfg f hf xs as fns]

theorem all_attachCfg (Q : TraitFn → Prop) (hQ : ∀ tf a, Q tf → Q (tf.withCfgOf a)) :
    ∀ (as : List (List Attr)) (fns : List TraitFn), (∀ tf ∈ fns, Q tf) → ∀ tf ∈ attachCfg as fns, Q tf
  | [], fns, h => by cases fns <;> exact h
  | _ :: _, [], h => h
  | a :: as, tf :: fns, h => by
      intro x hx
      simp only [attachCfg, List.mem_cons] at hx
      rcases hx with rfl | hx
      · exact hQ tf a (h tf List.mem_cons_self)
      · exact all_attachCfg Q hQ as fns (fun y hy => h y (List.mem_cons_of_mem _ hy)) x hx

theorem any_attachCfg (g : TraitFn → Bool) (hg : ∀ tf a, g (tf.withCfgOf a) = g tf) (as : List (List Attr)) (fns : List TraitFn) :
    (attachCfg as fns).any g = fns.any g := by
  have := attachCfg_map g hg as fns
  have h1 : (attachCfg as fns).any g = ((attachCfg as fns).map g).any id := by simp [List.any_map]
  have h2 : fns.any g = (fns.map g).any id := by simp [List.any_map]
  rw [h1, h2, this]

theorem detectDepMode_attachCfg (mode : InputMode) :
    ∀ (as : List (List Attr)) (fns : List TraitFn), detectDepMode mode (attachCfg as fns) = detectDepMode mode fns
  | [], fns => by cases fns <;> rfl
  | _ :: _, [] => rfl
  | a :: as, tf :: fns => by
      simp only [attachCfg]
      unfold detectDepMode
      simp only [withCfgOf_deps]
      cases tf.deps <;> simp [detectDepMode_attachCfg mode as fns]

/-- the attributes after the mirroring: the `cfg` attributes of the source function, position by position -/
theorem attachCfg_attrs : ∀ (as : List (List Attr)) (fns : List TraitFn), as.length = fns.length →
    (attachCfg as fns).map (·.attrs) = as.map (·.filter Attr.isCfgAttr)
  | [], [], _ => rfl
  | [], _ :: _, h => by simp at h
  | _ :: _, [], h => by simp at h
  | a :: as, tf :: fns, h => by
      simp only [attachCfg, List.map_cons, withCfgOf_attrs, List.cons.injEq, true_and]
      exact attachCfg_attrs as fns (by simpa using h)

/-- `analyzeFns_zip` after the mirroring, for per-function facts that do not look at the attributes -/
theorem analyzeFns_zip_cfg (kind : ReceiverKind) (opts : Opts) (Q : Sig → TraitFn → Bool)
    (hQa : ∀ s tf a, Q s (tf.withCfgOf a) = Q s tf)
    (sigs : List Sig) (tg tg' : TraitGenerics) (fns0 : List TraitFn) (as : List (List Attr))
    (hQ : ∀ s ∈ sigs, ∀ tg tf tg', analyzeFn kind opts s tg = .ok (tf, tg') → Q s tf = true)
    (h : analyzeFns kind opts sigs tg = .ok (fns0, tg')) : zipAll Q sigs (attachCfg as fns0) = true := by
  rw [zipAll_attachCfg Q hQa]
  exact analyzeFns_zip kind opts Q sigs tg tg' fns0 hQ h

/-- `analyzeFns_all` after the mirroring -/
theorem analyzeFns_all_cfg (kind : ReceiverKind) (opts : Opts) (Q : TraitFn → Prop)
    (hQa : ∀ tf a, Q tf → Q (tf.withCfgOf a))
    (hQ : ∀ s tg tf tg', analyzeFn kind opts s tg = .ok (tf, tg') → Q tf)
    (sigs : List Sig) (tg tg' : TraitGenerics) (fns0 : List TraitFn) (as : List (List Attr))
    (h : analyzeFns kind opts sigs tg = .ok (fns0, tg')) : ∀ tf ∈ attachCfg as fns0, Q tf :=
  all_attachCfg Q hQa as fns0 (analyzeFns_all kind opts Q hQ sigs tg tg' fns0 h)

theorem depsBounds_attachCfg : ∀ (as : List (List Attr)) (fns : List TraitFn), depsBounds (attachCfg as fns) = depsBounds fns
  | [], fns => by cases fns <;> rfl
  | _ :: _, [] => rfl
  | a :: as, tf :: fns => by simp [attachCfg, depsBounds, depsBounds_attachCfg as fns]

/-- the impl block generated from the mirrored functions is the one generated from the analysed functions,
    with the `cfg` attributes on its members: header, generics and where clause are the same -/
theorem genImplBlock_attachCfg {opts : Opts} {traitRef : Toks} {ind : ImplIndirection} {tg : TraitGenerics}
    {mode : InputMode} {depMode : DepMode} {subAttrs : List Attr} {fns0 : List TraitFn} {as : List (List Attr)} {im : GenImpl}
    (h : genImplBlock opts traitRef ind tg mode depMode subAttrs (attachCfg as fns0) = .ok im) :
    ∃ im0, genImplBlock opts traitRef ind tg mode depMode subAttrs fns0 = .ok im0 ∧
      im.attrs = im0.attrs ∧ im.params = im0.params ∧ im.traitRef = im0.traitRef ∧ im.selfTy = im0.selfTy ∧
      im.preds = im0.preds := by
  have hany : (attachCfg as fns0).any (fun tf => hasNonIdentParam tf.sig.inputs) = fns0.any (fun tf => hasNonIdentParam tf.sig.inputs) :=
    any_attachCfg _ (fun _ _ => rfl) as fns0
  have hbv : (attachCfg as fns0).any (fun tf => tf.sig.takesSelfByValue) = fns0.any (fun tf => tf.sig.takesSelfByValue) :=
    any_attachCfg _ (fun _ _ => rfl) as fns0
  unfold genImplBlock at h ⊢
  rw [hany] at h
  split at h
  · cases h
  · rename_i hn
    injection h with h
    subst h
    simp only [hn, Bool.false_eq_true, if_false]
    refine ⟨_, rfl, rfl, ?_, rfl, rfl, ?_⟩
    · simp only [hbv]
    · simp only [implWherePreds, depsBounds_attachCfg]

end Entrait
