import EntraitProofs.FnMode
import EntraitProofs.C10
import EntraitProofs.Examples
/-
  C18 — foreign attributes stay where the user put them.

  `T_C18`: in fn / mod / impl-block mode a generated trait carries only attributes entrait owns
  (its mock derivations, the nested entrait attribute of concrete-dependency traits) plus the
  `async_trait` / `automock` attributes of the input that entrait deliberately re-applies; a
  generated impl carries only re-applied `async_trait`; generated methods carry no attributes and
  generated signatures no parameter attributes.  In trait mode every delegating method of
  `Impl<T>` carries exactly the attributes of the source method.
  (The `cfg`-on-a-module-function clause of the property is the listed finding C18.cfgfn.)
-/
namespace Entrait.C18
open Entrait

theorem noParamAttrs_sameShape : ∀ (xs ys : List FnArg), sameShape xs ys → noParamAttrs xs = noParamAttrs ys
  | [], [], _ => rfl
  | [], _ :: _, h => by simp [sameShape] at h
  | _ :: _, [], h => by simp [sameShape] at h
  | .recv .. :: _, .typed .. :: _, h => by simp [sameShape] at h
  | .typed .. :: _, .recv .. :: _, h => by simp [sameShape] at h
  | .recv a r m c :: xs, .recv a' r' m' c' :: ys, h => by
      simp only [sameShape] at h
      obtain ⟨rfl, rfl, rfl, rfl, h⟩ := h
      cases a with
      | nil => simp only [noParamAttrs]; exact noParamAttrs_sameShape xs ys h
      | cons x rest => simp [noParamAttrs]
  | .typed a pt t :: xs, .typed a' pt' t' :: ys, h => by
      simp only [sameShape] at h
      obtain ⟨rfl, rfl, h⟩ := h
      cases a with
      | nil => simp only [noParamAttrs]; exact noParamAttrs_sameShape xs ys h
      | cons x rest => simp [noParamAttrs]

theorem noParamAttrs_strip : ∀ (xs : List FnArg), noParamAttrs (xs.map FnArg.stripAttrs) = true
  | [] => rfl
  | .recv .. :: xs => by simp only [List.map_cons, FnArg.stripAttrs, noParamAttrs]; exact noParamAttrs_strip xs
  | .typed .. :: xs => by simp only [List.map_cons, FnArg.stripAttrs, noParamAttrs]; exact noParamAttrs_strip xs

theorem noParamAttrs_tail {x : FnArg} {xs : List FnArg} (h : noParamAttrs (x :: xs) = true) : noParamAttrs xs = true := by
  cases x with
  | recv a r m c => cases a <;> simp_all [noParamAttrs]
  | typed a pt t => cases a <;> simp_all [noParamAttrs]

theorem noParamAttrs_cons_recv (r) (rest : List FnArg) (kind : ReceiverKind) (h : noParamAttrs rest = true) :
    noParamAttrs (genFirstReceiver kind r :: rest) = true := by
  cases kind <;> simp [genFirstReceiver, selfReceiverArg, implReceiverArg, implReceiverWith, noParamAttrs, h]

theorem noParamAttrs_rewriteFirst {kind : ReceiverKind} {deps : FnDeps} {inputs : List FnArg} {itrail : Bool}
    {ins : List FnArg} {tr : Bool} (hin : noParamAttrs inputs = true)
    (h : rewriteFirst kind deps inputs itrail = .ok (ins, tr)) : noParamAttrs ins = true := by
  unfold rewriteFirst at h
  cases deps with
  | noDeps => simp at h; rw [← h.1]; exact noParamAttrs_cons_recv _ _ _ hin
  | generic q bs =>
    cases inputs with
    | nil => simp at h; rw [h.1]; rfl
    | cons x rest =>
      have hr := noParamAttrs_tail hin
      cases x with
      | recv => simp at h
      | typed a pt ty => cases ty <;> simp at h <;> rw [← h.1] <;> exact noParamAttrs_cons_recv _ _ _ hr
  | concrete cty =>
    cases inputs with
    | nil => simp at h; rw [h.1]; rfl
    | cons x rest =>
      have hr := noParamAttrs_tail hin
      cases x with
      | recv => simp at h
      | typed a pt ty => cases ty <;> simp at h <;> rw [← h.1] <;> exact noParamAttrs_cons_recv _ _ _ hr

theorem noParamAttrs_cons_iff (x : FnArg) (xs : List FnArg) :
    noParamAttrs (x :: xs) = (noParamAttrs [x] && noParamAttrs xs) := by
  cases x with
  | recv a r m c => cases a <;> simp [noParamAttrs]
  | typed a pt t => cases a <;> simp [noParamAttrs]

theorem noParamAttrs_insertImplRecv {kind : ReceiverKind} {ins0 : List FnArg} {tr0 : Bool}
    {ins : List FnArg} {tr : Bool} (hin : noParamAttrs ins0 = true)
    (h : insertImplRecv kind ins0 tr0 = .ok (ins, tr)) : noParamAttrs ins = true := by
  unfold insertImplRecv at h
  cases kind with
  | selfRef => simp at h; rw [← h.1]; exact hin
  | staticImpl => simp at h; rw [← h.1]; exact hin
  | dynamicImpl =>
    match ins0, hin with
    | [], _ => simp at h
    | [x], hx =>
      simp at h; rw [← h.1]
      rw [noParamAttrs_cons_iff]; simp [hx, noParamAttrs, implReceiverArg, implReceiverWith]
    | x :: y :: rest, hx =>
      simp at h; rw [← h.1]
      rw [noParamAttrs_cons_iff] at hx ⊢
      simp only [Bool.and_eq_true] at hx ⊢
      exact ⟨hx.1, by simpa [noParamAttrs, implReceiverArg, implReceiverWith] using hx.2⟩

/-- the receiver rewriting introduces no parameter attributes -/
theorem noParamAttrs_generateParams {kind : ReceiverKind} {deps : FnDeps} {inputs : List FnArg} {itrail : Bool}
    {ins : List FnArg} {tr : Bool} (hin : noParamAttrs inputs = true)
    (h : generateParams kind deps inputs itrail = .ok (ins, tr)) : noParamAttrs ins = true := by
  unfold generateParams at h
  cases h1 : rewriteFirst kind deps inputs itrail with
  | error e => simp [h1] at h
  | ok r =>
    obtain ⟨ins1, tr1⟩ := r
    simp only [h1] at h
    exact noParamAttrs_insertImplRecv (noParamAttrs_rewriteFirst hin h1) h

/-- generated methods have no attributes and no parameter attributes -/
theorem analyzeFn_noAttrs {kind : ReceiverKind} {opts : Opts} {sig : Sig} {tg tg' : TraitGenerics} {tf : TraitFn}
    (h : analyzeFn kind opts sig tg = .ok (tf, tg')) : tf.attrs = [] ∧ noParamAttrs tf.sig.inputs = true := by
  obtain ⟨deps, ins, tr, _, hg, rfl⟩ := analyzeFn_ok h
  refine ⟨rfl, ?_⟩
  have := noParamAttrs_generateParams (noParamAttrs_strip sig.inputs) hg
  rw [← noParamAttrs_sameShape _ _ (sameShape_fixParams sig.ident ins)]
  exact this

/-- attributes of a generated trait: entrait's own, or re-applied ones of the input -/
theorem traitAttrs_ok (opts : Opts) (ind depMode) (itemAttrs : List Attr) (vis ident tg sup fns mode)
    (hmode : mode ≠ .rawTrait) :
    (genTraitDef opts ind depMode itemAttrs vis ident tg sup fns mode).attrs.all
      (fun a => entraitOwned a ||
        (itemAttrs.contains a && (a.subKind == .asyncTrait || a.subKind == .automock))) = true := by
  simp only [genTraitDef, List.all_eq_true, List.mem_append, Bool.or_eq_true, Bool.and_eq_true]
  intro a ha
  rcases ha with ((ha | ha) | ha) | ha
  · left
    unfold unimockAttrOf at ha
    split at ha
    · split at ha
      · rename_i ps hp
        obtain ⟨x, rfl⟩ := C10.unimockParams_shape hp
        simp at ha; subst ha
        simp [entraitOwned, C10.mockKind_gated_unimock]
      · simp at ha
    · simp at ha
  · left
    unfold entraitAttrOf at ha
    split at ha
    · simp at ha; subst ha; simp [entraitOwned]
    · simp at ha
  · left
    unfold mockallAttrOf at ha
    split at ha
    · simp at ha; subst ha; simp [entraitOwned, C10.mockKind_gated_mockall]
    · simp at ha
  · right
    have hb : (mode == InputMode.rawTrait) = false := by cases mode <;> simp_all
    simp only [reappliedSubs, hb, Bool.false_eq_true, if_false] at ha
    have := List.mem_filter.mp ha
    exact ⟨by simpa using this.1, by simpa using this.2⟩

theorem isCfgAttr_eq (a : Attr) : a.isCfgAttr = isPlainCfg a := by
  unfold Attr.isCfgAttr isPlainCfg
  cases hi : a.inner with
  | nil => simp
  | cons t rest =>
    by_cases ht : t = .ident "cfg"
    · subst ht
      cases rest with
      | nil => simp
      | cons u rest' =>
        by_cases hu : u = .punct ':'
        · subst hu; simp
        · simp [hu]
    · simp [ht]

/-- the single function: nothing is mirrored -/
theorem traitMembers_fn_ok (opts : Opts) (itemAttrs : List Attr) (tf : TraitFn)
    (hf : tf.attrs = [] ∧ noParamAttrs tf.sig.inputs = true) :
    memberAttrsOk [[]] ([tf].map fun tf => GenMember.fn tf.attrs (makeTraitFnSig tf.sig itemAttrs opts) none) = true := by
  have : (makeTraitFnSig tf.sig itemAttrs opts).inputs = tf.sig.inputs := by
    unfold makeTraitFnSig; split <;> rfl
  simp [memberAttrsOk, zipAll, hf.1, this, hf.2]

theorem implMembers_fn_ok (mode ind) (tf : TraitFn)
    (hf : tf.attrs = [] ∧ noParamAttrs tf.sig.inputs = true) :
    memberAttrsOk [[]] ([tf].map fun tf => GenMember.fn tf.attrs tf.sig (some (delegatingBody mode ind tf))) = true := by
  simp [memberAttrsOk, zipAll, hf.1, hf.2]

/-- functions of a module / impl block: after the mirroring every analysed function carries exactly the `cfg`
    attributes of its source function, and no parameter attributes -/
theorem attachCfg_spec : ∀ (fs : List FnItem) (fns0 : List TraitFn),
    zipAll (fun (_ : Sig) (tf : TraitFn) => noParamAttrs tf.sig.inputs) (fs.map (·.sig)) fns0 = true →
    zipAll (fun c (tf : TraitFn) => tf.attrs == c && noParamAttrs tf.sig.inputs)
      (fs.map (fun f => f.attrs.filter isPlainCfg)) (attachCfg (fs.map (·.attrs)) fns0) = true
  | [], [], _ => rfl
  | [], _ :: _, h => by simp [zipAll] at h
  | _ :: _, [], h => by simp [zipAll] at h
  | f :: fs, tf :: fns0, h => by
      simp only [List.map_cons, zipAll, Bool.and_eq_true] at h
      simp only [List.map_cons, attachCfg, zipAll, Bool.and_eq_true, withCfgOf_attrs, withCfgOf_sig]
      refine ⟨⟨?_, h.1⟩, attachCfg_spec fs fns0 h.2⟩
      have : List.filter Attr.isCfgAttr f.attrs = List.filter isPlainCfg f.attrs := by
        congr 1; funext a; exact isCfgAttr_eq a
      simp [this]

theorem traitMembers_ok (opts : Opts) (itemAttrs : List Attr) (exp : List (List Attr)) (fns : List TraitFn)
    (hf : zipAll (fun c (tf : TraitFn) => tf.attrs == c && noParamAttrs tf.sig.inputs) exp fns = true) :
    memberAttrsOk exp (fns.map fun tf => GenMember.fn tf.attrs (makeTraitFnSig tf.sig itemAttrs opts) none) = true := by
  unfold memberAttrsOk
  rw [zipAll_map_right]
  refine zipAll_mono _ _ _ _ ?_ hf
  intro c _ tf _ h
  have : (makeTraitFnSig tf.sig itemAttrs opts).inputs = tf.sig.inputs := by
    unfold makeTraitFnSig; split <;> rfl
  simpa [this] using h

theorem implMembers_ok (mode ind) (exp : List (List Attr)) (fns : List TraitFn)
    (hf : zipAll (fun c (tf : TraitFn) => tf.attrs == c && noParamAttrs tf.sig.inputs) exp fns = true) :
    memberAttrsOk exp (fns.map fun tf => GenMember.fn tf.attrs tf.sig (some (delegatingBody mode ind tf))) = true := by
  unfold memberAttrsOk
  rw [zipAll_map_right]
  exact hf

theorem implAttrs_ok (itemAttrs : List Attr) :
    (itemAttrs.filter (fun a => a.subKind == .asyncTrait)).all
      (fun a => itemAttrs.contains a && a.subKind == .asyncTrait) = true := by
  simp only [List.all_eq_true, List.mem_filter, Bool.and_eq_true]
  intro a ha
  exact ⟨by simpa using ha.1, ha.2⟩

theorem T_C18 (v : Variant) (attr : Toks) (item : Item) (out : Out)
    (h : expand v attr item = .ok out) : P_C18 item out.view = true := by
  cases item with
  | fn f =>
    obtain ⟨a, tf, tg, depMode, implBlock, _, h2, _, h4, rfl⟩ := expandFn_ok h
    have him := genImplBlock_ok h4
    have hf := analyzeFn_noAttrs h2
    simp only [P_C18, mirroredAttrs, Out.view, View.items, Out.inside, Out.after, List.nil_append, traitsOf, implsOf, Item.attrs,
      List.all_cons, List.all_nil, Bool.and_true, Bool.and_eq_true]
    refine ⟨⟨traitAttrs_ok _ _ _ _ _ _ _ _ _ _ (by decide), ?_⟩, ?_⟩
    · simp only [genTraitDef]; exact traitMembers_fn_ok _ _ _ hf
    · rw [him]; exact ⟨implAttrs_ok _, implMembers_fn_ok _ _ _ hf⟩
  | mod_ m =>
    simp only [expand] at h
    split at h
    · simp at h
    · obtain ⟨items, a, fns0, fns, tg, depMode, implBlock, h0, _, h2, hfns, _, h4, rfl⟩ := expandMod_ok h
      have him := genImplBlock_ok h4
      have hz := analyzeFns_zip .selfRef (v.apply a.opts) (fun (_ : Sig) tf => noParamAttrs tf.sig.inputs)
        ((items.filterMap BodyItem.fn?).map (·.sig)) {} tg fns0
        (fun s _ tg0 tf tg1 han => (analyzeFn_noAttrs han).2) h2
      have hf := attachCfg_spec _ _ hz
      have hfns' : fns = attachCfg ((items.filterMap BodyItem.fn?).map (·.attrs)) fns0 := hfns
      rw [← hfns'] at hf
      simp only [P_C18, mirroredAttrs, Item.sourceFns, h0, Out.view, View.items, Out.inside, Out.after, List.cons_append,
        List.nil_append, traitsOf, implsOf, Item.attrs, List.all_cons, List.all_nil, Bool.and_true, Bool.and_eq_true]
      refine ⟨⟨traitAttrs_ok _ _ _ _ _ _ _ _ _ _ (by decide), ?_⟩, ?_⟩
      · simp only [genTraitDef]; exact traitMembers_ok _ _ _ _ hf
      · rw [him]; exact ⟨implAttrs_ok _, implMembers_ok _ _ _ _ hf⟩
  | impl m =>
    obtain ⟨items, a, fns0, fns, tg, depMode, implBlock, h0, _, h2, hfns, _, h4, rfl⟩ := expandImpl_ok h
    have him := genImplBlock_ok h4
    have hz := analyzeFns_zip _ (v.apply a.opts) (fun (_ : Sig) tf => noParamAttrs tf.sig.inputs)
      ((items.filterMap BodyItem.fn?).map (·.sig)) {} tg fns0
      (fun s _ tg0 tf tg1 han => (analyzeFn_noAttrs han).2) h2
    have hf := attachCfg_spec _ _ hz
    have hfns' : fns = attachCfg ((items.filterMap BodyItem.fn?).map (·.attrs)) fns0 := hfns
    rw [← hfns'] at hf
    simp only [P_C18, mirroredAttrs, Item.sourceFns, h0, Out.view, View.items, Out.inside, Out.after, List.nil_append, traitsOf, implsOf,
      Item.attrs, List.all_cons, List.all_nil, Bool.and_true, Bool.true_and, Bool.and_eq_true]
    rw [him]; exact ⟨implAttrs_ok _, implMembers_ok _ _ _ _ hf⟩
  | trait t =>
    obtain ⟨a0, fns, delegation, _, h2, h3, rfl⟩ := expandTrait_ok h
    have hf := analyzeTraitMembers_ok _ _ h2
    have himpl := mainImpl_last [] [] ([GenItem.trait (genTraitDef (v.apply a0.opts) .trait .generic t.attrs t.vis t.ident
        (traitTg t) (traitSup t) fns .rawTrait)] ++ delegation) (traitImplBlock { a0 with opts := v.apply a0.opts } t fns)
    simp only [P_C18, Out.view, Out.inside, Out.after, himpl, Bool.and_eq_true]
    constructor
    · simp only [traitImplBlock, zipAll_map_right]
      rw [hf, zipAll_map_right]
      clear himpl hf h2 h h3
      simp only [TraitItem.fns]
      generalize t.members.filterMap TraitMember.fn? = fs
      induction fs with
      | nil => rfl
      | cons f rest ih =>
        simp only [zipAll, Bool.and_eq_true]
        exact ⟨by simp [delegationMethod, traitFnOf, GenMember.attrs], ih⟩
    · -- the re-emitted trait and the delegation-target traits
      have hmain : ∀ (o : Opts) (ind : TraitIndirection) (subs : List Attr) (vis : Toks) (id : String) (tg : TraitGenerics)
          (sup : Supertraits) (g : TraitFn → TraitFn) (hg : ∀ tf, (g tf).attrs = tf.attrs),
          zipAll (fun (srcFn : TraitFnItem) (m : GenMember) => m.attrs == srcFn.attrs) t.fns
            ((genTraitDef o ind .generic subs vis id tg sup (fns.map g) .rawTrait).members.filter GenMember.isFn) = true := by
        intro o ind subs vis id tg sup g hg
        simp only [genTraitDef, List.map_map]
        rw [hf]
        simp only [TraitItem.fns, List.map_map]
        generalize t.members.filterMap TraitMember.fn? = fs
        induction fs with
        | nil => rfl
        | cons f rest ih =>
          simp only [List.map_cons, Function.comp, List.filter_cons, GenMember.isFn, if_true, zipAll, Bool.and_eq_true]
          exact ⟨by simp [GenMember.attrs, hg, traitFnOf], ih⟩
      have hstat : ∀ tf, (staticImplFn tf).attrs = tf.attrs := by
        intro tf; unfold staticImplFn; split <;> rfl
      have hdyn : ∀ tf, (dynamicImplFn tf).attrs = tf.attrs := by
        intro tf; unfold dynamicImplFn; split <;> rfl
      have hid := hmain (v.apply a0.opts) .trait t.attrs t.vis t.ident (traitTg t) (traitSup t) id (fun _ => rfl)
      simp only [List.map_id_fun, id_eq] at hid
      simp only [View.items, List.nil_append, List.cons_append, traitsOf_append, traitsOf, List.append_nil, List.all_cons,
        Bool.and_eq_true, Bool.or_eq_true]
      refine ⟨Or.inr hid, ?_⟩
      -- the delegation items
      unfold genDelegationTraitDefs at h3
      split at h3
      · cases h3; rfl
      · split at h3
        · cases h3
          simp only [traitsOf, List.all_cons, List.all_nil, Bool.and_true, Bool.and_eq_true, Bool.or_eq_true]
          exact ⟨Or.inr (hmain _ _ _ _ _ _ _ staticImplFn hstat), Or.inl rfl⟩
        · cases h3
          simp only [traitsOf, List.all_cons, List.all_nil, Bool.and_true, Bool.or_eq_true]
          exact Or.inr (hmain _ _ _ _ _ _ _ dynamicImplFn hdyn)
        · cases h3

/-- non-vacuity: `mod m { #[cfg(any())] #[inline] pub fn a(d: &impl X) {} pub fn c(d: &impl X) {} }` — the trait
    method and the delegating method of `a` carry `#[cfg(any())]` and not `#[inline]`, those of `c` nothing -/
example :
    (match expand .plain [i "Foo"] (.mod_ Examples.modCfg) with
     | .ok out =>
        (traitsOf out.view.items).map (fun t => t.members.map GenMember.attrs) ++
        (implsOf out.view.items).map (fun m => m.members.map GenMember.attrs)
     | _ => []) =
    [[[⟨[i "cfg", parens [i "any", parens []]]⟩], []], [[⟨[i "cfg", parens [i "any", parens []]]⟩], []]] := by decide +kernel

/-- the recorded defect `C18.cfgattr`, in the model as in the macro: a function disabled through
    `#[cfg_attr(all(), cfg(any()))]` keeps its trait method and delegating method (nothing is mirrored), so the
    full last clause of the property ("cfg-disabled functions .. do not leave a dangling trait method behind")
    fails for it although `P_C18` — which speaks about plain `cfg` attributes — holds -/
theorem C18_cfgattr_witness :
    (match expand .plain [i "Foo"] (.mod_ Examples.modCfgAttr) with
     | .ok out => F_C18_cfgattr (.mod_ Examples.modCfgAttr) out.view && P_C18 (.mod_ Examples.modCfgAttr) out.view
     | _ => false) = true := by decide +kernel

end Entrait.C18
