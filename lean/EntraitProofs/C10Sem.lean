import EntraitProofs.C10
/-
  C10 read semantically: what a build *contains*.  A mock derivation wrapped in `cfg_attr(test, ..)` is
  active only in a test build.  `T_C10_sem`: for a non-exporting invocation (and no mock derivation written
  by the user below entrait), no generated trait carries an active mock derivation in a non-test build;
  in a test build the main trait carries exactly the enabled ones.  An exporting invocation carries the
  enabled ones in every build.
-/
namespace Entrait.C10Sem
open Entrait

/-- is the derivation `(kind, gated)` active in a build with `cfg(test) = test`? -/
def activeIn (test : Bool) (d : MockKind × Bool) : Bool := !d.2 || test

theorem expected_gated (mode : Mode) (o : Opts) : ∀ d ∈ expectedMockKinds mode o, d.2 = !o.exportValue := by
  intro d hd
  unfold expectedMockKinds at hd
  simp only [List.mem_append] at hd
  rcases hd with hd | hd
  · split at hd
    · simp only [List.mem_singleton] at hd; rw [hd]
    · cases hd
  · split at hd
    · simp only [List.mem_singleton] at hd; rw [hd]
    · cases hd

theorem T_C10_sem (v : Variant) (attr : Toks) (item : Item) (out : Out) (h : expand v attr item = .ok out)
    (o : Opts) (ho : effectiveOpts v attr item = some o) (huser : userMockKinds item = [])
    (t : GenTrait) (rest : List GenTrait) (ht : traitsOf out.view.items = t :: rest) (hmode : item.mode ≠ .impl) :
    -- non-test build of a non-exporting invocation: nothing
    (o.exportValue = false → ∀ g ∈ t :: rest, (mockKinds g).filter (activeIn false) = []) ∧
    -- test build, or exporting: exactly the enabled derivations, on the main trait only
    ((mockKinds t).filter (activeIn true) = expectedMockKinds item.mode o) ∧
    (o.exportValue = true → ∀ test, (mockKinds t).filter (activeIn test) = expectedMockKinds item.mode o) := by
  have hp := C10.T_C10 v attr item out h
  unfold P_C10 at hp
  rw [ho, ht] at hp
  have hmain : mockKinds t = expectedMockKinds item.mode o ∧ ∀ d ∈ rest, mockKinds d = [] := by
    cases hm : item.mode with
    | impl => exact absurd hm hmode
    | fn => simpa [hm, huser, List.all_eq_true] using hp
    | mod_ => simpa [hm, huser, List.all_eq_true] using hp
    | trait => simpa [hm, huser, List.all_eq_true] using hp
  obtain ⟨hm1, hm2⟩ := hmain
  refine ⟨?_, ?_, ?_⟩
  · intro hex g hg
    rcases List.mem_cons.mp hg with rfl | hg
    · rw [hm1, List.filter_eq_nil_iff]
      intro d hd
      simp [activeIn, expected_gated _ _ d hd, hex]
    · rw [hm2 g hg]; rfl
  · rw [hm1, List.filter_eq_self]
    intro d _
    simp [activeIn]
  · intro hex test
    rw [hm1, List.filter_eq_self]
    intro d hd
    simp [activeIn, expected_gated _ _ d hd, hex]

end Entrait.C10Sem
