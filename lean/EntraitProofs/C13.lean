import EntraitProofs.Inversion
/-
  C13 — generated traits have exactly the requested visibility.

  fn input: the trait's visibility tokens are the requested ones (none if none), whatever the
  function's own visibility.  mod input: `pub(super)` iff none requested (the trait lives inside
  the module and is re-exported), else the requested tokens.  trait input: the re-emitted trait
  and the delegation-target trait carry the source trait's visibility.
-/
namespace Entrait.C13
open Entrait

theorem genTraitDef_vis (opts ind depMode subAttrs vis ident tg sup fns mode) :
    (genTraitDef opts ind depMode subAttrs vis ident tg sup fns mode).vis = traitVisibility mode vis := by
  simp [genTraitDef]

theorem genTraitDef_ident (opts ind depMode subAttrs vis ident tg sup fns mode) :
    (genTraitDef opts ind depMode subAttrs vis ident tg sup fns mode).ident = ident := by
  simp [genTraitDef]

/-- the model's module-mode visibility is the specified one -/
theorem moduleVis_eq (vis : Toks) :
    (if vis = [] then [i "pub", parens [i "super"]] else rebaseVis vis) = visFromInside vis := by
  by_cases hv : vis = []
  · subst hv; rfl
  · simp only [hv, if_false]
    unfold rebaseVis
    split
    · rfl
    · rfl
    · rfl
    · rfl
    · rename_i h2 h3 h4 h5
      unfold visFromInside
      split
      · exact absurd rfl hv
      · exact absurd rfl h2
      · exact absurd rfl h3
      · rename_i rest; exact absurd rfl (h4 rest)
      · rename_i rest; exact absurd rfl (h5 rest)
      · rfl

theorem T_C13 (v : Variant) (attr : Toks) (item : Item) (out : Out)
    (h : expand v attr item = .ok out) : P_C13 attr item out.view = true := by
  cases item with
  | fn f =>
    obtain ⟨a, tf, tg, depMode, implBlock, h1, _, _, _, rfl⟩ := expandFn_ok h
    simp [P_C13, h1, Out.view, View.items, Out.inside, Out.after, mainTrait?, traitsOf, genTraitDef_vis, traitVisibility]
  | mod_ m =>
    simp only [expand] at h
    split at h
    · simp at h
    · obtain ⟨items, a, fns0, fns, tg, depMode, implBlock, _, h1, _, hfns, _, _, rfl⟩ := expandMod_ok h
      simp [P_C13, h1, Out.view, View.items, Out.inside, Out.after, mainTrait?, traitsOf, genTraitDef_vis, traitVisibility, moduleVis_eq]
  | trait t =>
    obtain ⟨a0, fns, delegation, h1, _, h3, rfl⟩ := expandTrait_ok h
    simp only [P_C13, h1, Out.view, View.items, Out.inside, Out.after, List.nil_append, traitsOf, List.cons_append]
    simp only [genTraitDef_vis, traitVisibility, beq_self_eq_true, Bool.true_and]
    -- the delegation-target trait
    unfold genDelegationTraitDefs at h3
    cases hi : a0.implTrait with
    | none => simp
    | some it =>
      obtain ⟨ivis, implIdent⟩ := it
      simp only [hi] at h3
      cases hd : a0.delegation with
      | none => simp [hd] at h3
      | some d =>
        cases d with
        | bySelf => simp [hd] at h3
        | byRef b =>
          simp only [hd] at h3
          injection h3 with h3
          subst h3
          simp [traitsOf, genTraitDef_vis, genTraitDef_ident, traitVisibility]
        | byTrait dn =>
          simp only [hd] at h3
          injection h3 with h3
          subst h3
          simp [traitsOf, genTraitDef_vis, genTraitDef_ident, traitVisibility]
  | impl m => simp [P_C13]

end Entrait.C13
