import EntraitProofs.Inversion
/-
  C10 — mock derivations are attached only when enabled, and are test-gated unless exported.

  `T_C10`: for every variant, attribute token list and item the model accepts, the mock
  derivations on the generated / re-emitted trait are exactly `expectedMockKinds` (a function of
  the options in force and the input mode only) followed by the ones the user wrote below
  entrait; delegation-target traits and selector traits carry none.
-/
namespace Entrait.C10
open Entrait

theorem mockKind_gated_unimock (e : Bool) (x : Toks) :
    (exportGated e (unimockPath ++ [parens x])).mockKind = some (.unimock, !e) := by
  cases e <;> rfl

theorem mockKind_gated_mockall (e : Bool) :
    (exportGated e mockallPath).mockKind = some (.automock, !e) := by
  cases e <;> rfl

theorem mockKind_entraitAttr : entraitForTraitAttr.mockKind = none := by rfl

/-- what `unimockParams` returns, when it returns something, is the unimock path applied to arguments -/
theorem unimockParams_shape {ind mockApi mode fns ps}
    (h : unimockParams ind mockApi mode fns = some ps) : ∃ x, ps = unimockPath ++ [parens x] := by
  unfold unimockParams at h
  split at h
  · simp at h
  · injection h with h
    exact ⟨_, h.symm⟩

theorem unimockParams_isSome (ind : TraitIndirection) (mockApi : Option String) (mode fns) :
    (unimockParams ind mockApi mode fns).isSome = !(ind == .plain && mockApi.isNone) := by
  cases ind <;> cases mockApi <;> simp [unimockParams]

theorem unimockAttr_kinds (opts : Opts) (ind : TraitIndirection) (mode fns) :
    (unimockAttrOf opts ind mode fns).filterMap Attr.mockKind =
    (if opts.unimockValue && !(ind == .plain && opts.mockApi.isNone) then [(MockKind.unimock, !opts.exportValue)] else []) := by
  unfold unimockAttrOf
  cases hu : opts.unimockValue
  · simp
  · have hs := unimockParams_isSome ind opts.mockApi mode fns
    cases hp : unimockParams ind opts.mockApi mode fns with
    | none => rw [hp] at hs; simp at hs; simp [hs]
    | some ps =>
      obtain ⟨x, rfl⟩ := unimockParams_shape hp
      rw [hp] at hs
      simp at hs
      simp [hs, mockKind_gated_unimock]

theorem entraitAttr_kinds (depMode : DepMode) :
    (entraitAttrOf depMode).filterMap Attr.mockKind = [] := by
  cases depMode <;> simp [entraitAttrOf, mockKind_entraitAttr]

theorem mockallAttr_kinds (opts : Opts) :
    (mockallAttrOf opts).filterMap Attr.mockKind =
    (if opts.mockallValue then [(MockKind.automock, !opts.exportValue)] else []) := by
  unfold mockallAttrOf
  cases opts.mockallValue <;> simp [mockKind_gated_mockall]

/-- the mock derivations `genTraitDef` attaches -/
theorem mockKinds_genTraitDef (opts : Opts) (ind depMode subAttrs vis ident tg sup fns mode) :
    mockKinds (genTraitDef opts ind depMode subAttrs vis ident tg sup fns mode) =
      (if opts.unimockValue && !(ind == .plain && opts.mockApi.isNone) then [(.unimock, !opts.exportValue)] else []) ++
      (if opts.mockallValue then [(.automock, !opts.exportValue)] else []) ++
      (reappliedSubs mode subAttrs).filterMap Attr.mockKind := by
  unfold mockKinds genTraitDef
  simp only [List.filterMap_append, unimockAttr_kinds, entraitAttr_kinds, mockallAttr_kinds, List.append_nil]

theorem expected_fnmod (o : Opts) (mode : Mode) (hm : mode ≠ .trait) :
    expectedMockKinds mode o =
      (if o.unimockValue && !(TraitIndirection.plain == .plain && o.mockApi.isNone) then [(MockKind.unimock, !o.exportValue)] else []) ++
      (if o.mockallValue then [(MockKind.automock, !o.exportValue)] else []) := by
  unfold expectedMockKinds
  have : (mode == Mode.trait) = false := by cases mode <;> simp_all
  cases o.mockApi <;> simp [this]

theorem expected_trait (o : Opts) :
    expectedMockKinds .trait o =
      (if o.unimockValue && !(TraitIndirection.trait == .plain && o.mockApi.isNone) then [(MockKind.unimock, !o.exportValue)] else []) ++
      (if o.mockallValue then [(MockKind.automock, !o.exportValue)] else []) := by
  unfold expectedMockKinds
  simp

/-- an `async_trait` sub-attribute is never one of the macro's mock derivations -/
theorem asyncTrait_not_mock (a : Attr) (h : a.subKind = .asyncTrait) : a.mockKind = none := by
  unfold Attr.subKind at h
  have hl : a.last = some "async_trait" := by
    split at h <;> simp_all
  unfold Attr.mockKind
  split
  · -- `cfg_attr(test, ..)`: its path is `cfg_attr`
    rename_i rest hin
    simp [Attr.last, hin, pathLastSeg] at hl
  · rename_i ts _
    unfold classifyMock
    split
    · rename_i g hs
      -- inner = unimockPath ++ [group]
      unfold stripPrefix at hs
      split at hs
      · rename_i hp
        injection hs with hs
        have : a.inner = unimockPath ++ [TT.group .paren g] := by
          have := List.prefix_iff_eq_append.mp (List.isPrefixOf_iff_prefix.mp hp)
          rw [hs] at this
          exact this.symm
        simp [Attr.last, this, unimockPath, corePath, pathSep, pathLastSeg, p, i] at hl
      · simp at hs
    · split
      · rename_i heq
        have he : a.inner = mockallPath := by simpa using heq
        unfold Attr.last at hl
        rw [he] at hl
        exact absurd hl (by decide)
      · simp

theorem mockKinds_no_mock (opts : Opts) (ho : opts.unimockValue = false) (hm : opts.mockallValue = false)
    (subs : List Attr) (hs : ∀ a ∈ subs, a.subKind = .asyncTrait) (ind depMode vis ident tg sup fns mode) :
    mockKinds (genTraitDef opts ind depMode subs vis ident tg sup fns mode) = [] := by
  rw [mockKinds_genTraitDef]
  have : (reappliedSubs mode subs).filterMap Attr.mockKind = [] := by
    rw [List.filterMap_eq_nil_iff]
    intro a ha
    apply asyncTrait_not_mock a
    apply hs
    unfold reappliedSubs at ha
    split at ha
    · exact ha
    · exact (List.mem_filter.mp ha).1
  simp [ho, hm, this]

theorem T_C10 (v : Variant) (attr : Toks) (item : Item) (out : Out)
    (h : expand v attr item = .ok out) : P_C10 v attr item out.view = true := by
  cases item with
  | fn f =>
    obtain ⟨a, tf, tg, depMode, implBlock, h1, _, _, _, rfl⟩ := expandFn_ok h
    simp only [P_C10, Item.mode, effectiveOpts, h1, Out.view, View.items, Out.inside, Out.after, List.nil_append,
      traitsOf, mockKinds_genTraitDef, expected_fnmod _ Mode.fn (by decide), userMockKinds, Item.attrs, reappliedSubs]
    simp
  | mod_ m =>
    simp only [expand] at h
    split at h
    · simp at h
    · obtain ⟨items, a, fns0, fns, tg, depMode, implBlock, _, h1, _, hfns, _, _, rfl⟩ := expandMod_ok h
      simp only [P_C10, Item.mode, effectiveOpts, h1, Out.view, View.items, Out.inside, Out.after,
        traitsOf, mockKinds_genTraitDef, expected_fnmod _ Mode.mod_ (by decide), userMockKinds, Item.attrs, reappliedSubs,
        List.cons_append, List.nil_append]
      simp
  | trait t =>
    obtain ⟨a0, fns, delegation, h1, _, h3, rfl⟩ := expandTrait_ok h
    simp only [P_C10, Item.mode, effectiveOpts, h1, Out.view, View.items, Out.inside, Out.after, List.nil_append,
      traitsOf, List.cons_append, mockKinds_genTraitDef, expected_trait, userMockKinds, Item.attrs, reappliedSubs]
    simp only [beq_self_eq_true, Bool.true_and]
    -- delegation-target / selector traits carry no mock derivation
    have hsub : ∀ a ∈ traitImplSubAttrs t, a.subKind = .asyncTrait := by
      intro a ha
      have := (List.mem_filter.mp ha).2
      simpa using this
    unfold genDelegationTraitDefs at h3
    cases hi : a0.implTrait with
    | none =>
      simp only [hi] at h3
      injection h3 with h3
      subst h3
      simp [traitsOf, ]
    | some it =>
      obtain ⟨ivis, implIdent⟩ := it
      simp only [hi] at h3
      cases hd : a0.delegation with
      | none => simp [hd] at h3
      | some d =>
        have hnm1 : (noMockOpts (v.apply a0.opts)).unimockValue = false := by simp [noMockOpts, Opts.unimockValue]
        have hnm2 : (noMockOpts (v.apply a0.opts)).mockallValue = false := by simp [noMockOpts, Opts.mockallValue]
        cases d with
        | bySelf => simp [hd] at h3
        | byRef b =>
          simp only [hd] at h3
          injection h3 with h3
          subst h3
          have hk := mockKinds_no_mock _ hnm1 hnm2 (traitImplSubAttrs t) hsub .dynamicImpl .generic t.vis implIdent
            { traitTg t with params := entraitTParam :: (traitTg t).params } staticSup (fns.map dynamicImplFn) .rawTrait
          have hpre : (traitImplSubAttrs t).filterMap Attr.mockKind = [] := by
            rw [List.filterMap_eq_nil_iff]; intro a ha; exact asyncTrait_not_mock a (hsub a ha)
          unfold mockKinds at hk
          simp [traitsOf, mockKinds, List.filterMap_append, hk, hpre]
        | byTrait dn =>
          simp only [hd] at h3
          injection h3 with h3
          subst h3
          have hk := mockKinds_no_mock _ hnm1 hnm2 (traitImplSubAttrs t) hsub .staticImpl .generic t.vis implIdent
            { traitTg t with params := entraitTParam :: (traitTg t).params } staticSup (fns.map staticImplFn) .rawTrait
          have hpre : (traitImplSubAttrs t).filterMap Attr.mockKind = [] := by
            rw [List.filterMap_eq_nil_iff]; intro a ha; exact asyncTrait_not_mock a (hsub a ha)
          unfold mockKinds at hk
          simp [traitsOf, mockKinds, List.filterMap_append, hk, hpre]
  | impl m =>
    obtain ⟨items, a, fns0, fns, tg, depMode, implBlock, _, _, _, hfns, _, _, rfl⟩ := expandImpl_ok h
    simp [P_C10, Item.mode, Out.view, View.items, Out.inside, Out.after, traitsOf]

/-- non-vacuity: an exporting unimock invocation is accepted and carries an ungated unimock derivation -/
example :
    (match expand .export_ [i "Foo", p ',', i "mock_api", p '=', i "M", p ',', i "unimock"]
        (.fn { sig := { ident := "foo", inputs := [.typed [] (.ident false false "d" none)
                (.ref_ none false (.implTrait [[i "A"]] false))] } }) with
     | .ok out => (traitsOf out.view.items).map mockKinds
     | _ => []) = [[(.unimock, false)]] := by decide +kernel

end Entrait.C10
