import EntraitProofs.Params
/-
  C20 — expansion is a pure function of (attribute, item).

  The model's `expand : Variant → Toks → Item → Outcome` is a total Lean function: it has no
  other input, so on the model side there is nothing to prove about processes, environment or
  earlier invocations — that the *implementation* agrees with this function, in fresh processes,
  with different thread counts, shuffled invocation order and perturbed environment, is what the
  correspondence check of C20 establishes on every run.

  What can depend on a hash seed in the implementation is one thing only: the `HashSet<String>` of
  reserved names in `fn_params.rs::fix_fn_param_idents`.  `T_C20_set_irrelevant` proves that the
  generated parameter names depend on that set **only through membership**: replacing the model's
  list by any other list with the same members — any iteration order, any duplication, hence any
  hash seed — yields the same parameters; and the fuel that bounds the model's search loops is
  irrelevant as soon as it exceeds the size of the set (`firstFree_least`), so the bounded model
  loop is the implementation's unbounded `loop`.
-/
namespace Entrait.C20
open Entrait

/-- with enough fuel the search returns the **least** candidate at or after `n` that is free -/
theorem firstFree_least (c : Nat → String) (hinj : ∀ a b, c a = c b → a = b) (taken : List String) :
    ∀ (fuel n : Nat) (L : List String), (∀ k, n ≤ k → c k ∈ taken → c k ∈ L) → L.length < fuel →
      ∃ k, n ≤ k ∧ firstFree c taken fuel n = c k ∧ c k ∉ taken ∧ ∀ j, n ≤ j → j < k → c j ∈ taken := by
  intro fuel
  induction fuel with
  | zero => intro n L _ hlen; omega
  | succ f ih =>
    intro n L hL hlen
    unfold firstFree
    split
    · rename_i hc
      have hmem : c n ∈ taken := by simpa using hc
      have hmemL : c n ∈ L := hL n (Nat.le_refl _) hmem
      obtain ⟨k, hk, he, hfree, hbelow⟩ := ih (n + 1) (L.erase (c n))
        (by
          intro k hk hkt
          have : c k ∈ L := hL k (by omega) hkt
          have hne : c k ≠ c n := by
            intro he
            have := hinj _ _ he
            omega
          exact (List.mem_erase_of_ne hne).mpr this)
        (by
          rw [List.length_erase_of_mem hmemL]
          have : 0 < L.length := List.length_pos_of_mem hmemL
          omega)
      refine ⟨k, by omega, he, hfree, ?_⟩
      intro j hj hjk
      by_cases hjn : j = n
      · subst hjn; exact hmem
      · exact hbelow j (by omega) hjk
    · rename_i hc
      exact ⟨n, Nat.le_refl _, rfl, by simpa using hc, fun j hj hjn => by omega⟩

/-- the result depends on the set of taken names only through membership — not on its order,
    duplicates, or (beyond sufficiency) the fuel -/
theorem firstFree_set_irrelevant (c : Nat → String) (hinj : ∀ a b, c a = c b → a = b) (t1 t2 : List String)
    (hm : ∀ x, x ∈ t1 ↔ x ∈ t2) (f1 f2 n : Nat) (h1 : t1.length < f1) (h2 : t2.length < f2) :
    firstFree c t1 f1 n = firstFree c t2 f2 n := by
  obtain ⟨k1, hk1, e1, hfree1, hb1⟩ := firstFree_least c hinj t1 f1 n t1 (fun _ _ h => h) h1
  obtain ⟨k2, hk2, e2, hfree2, hb2⟩ := firstFree_least c hinj t2 f2 n t2 (fun _ _ h => h) h2
  rw [e1, e2]
  have : k1 = k2 := by
    rcases Nat.lt_trichotomy k1 k2 with h | h | h
    · exact absurd ((hm _).mpr (hb2 k1 hk1 h)) hfree1
    · exact h
    · exact absurd ((hm _).mp (hb1 k2 hk2 h)) hfree2
  rw [this]

theorem genIdent_set (index : Nat) (t1 t2 : List String) (hm : ∀ x, x ∈ t1 ↔ x ∈ t2) :
    genIdent index t1 (t1.length + 1) 0 = genIdent index t2 (t2.length + 1) 0 := by
  rw [genIdent_eq, genIdent_eq]
  exact firstFree_set_irrelevant _ (genCand_inj index) t1 t2 hm _ _ 0 (Nat.lt_succ_self _) (Nat.lt_succ_self _)

theorem renameIdent_set (base : String) (t1 t2 : List String) (hm : ∀ x, x ∈ t1 ↔ x ∈ t2) :
    renameIdent base t1 (t1.length + 1) 1 = renameIdent base t2 (t2.length + 1) 1 := by
  rw [renameIdent_eq, renameIdent_eq]
  exact firstFree_set_irrelevant _ (renCand_inj base) t1 t2 hm _ _ 1 (Nat.lt_succ_self _) (Nat.lt_succ_self _)

theorem mem_cons_congr {a : String} {t1 t2 : List String} (hm : ∀ x, x ∈ t1 ↔ x ∈ t2) :
    ∀ x, x ∈ a :: t1 ↔ x ∈ a :: t2 := by
  intro x; simp [hm x]

/-- **the reserved-name set is used through membership only**: the third loop of
    `fix_fn_param_idents` produces the same parameters for any two representations of the set -/
theorem T_C20_set_irrelevant (fnName : String) : ∀ (args : List FnArg) (idx : Nat) (t1 t2 : List String),
    (∀ x, x ∈ t1 ↔ x ∈ t2) → nameArgs fnName idx t1 args = nameArgs fnName idx t2 args
  | [], _, _, _, _ => by simp [nameArgs]
  | .recv a r m c :: rest, idx, t1, t2, hm => by
      simp only [nameArgs]
      rw [T_C20_set_irrelevant fnName rest idx t1 t2 hm]
  | .typed attrs (.ident r m name sub) ty :: rest, idx, t1, t2, hm => by
      simp only [nameArgs]
      split
      · have hn := renameIdent_set fnName t1 t2 hm
        rw [hn]
        rw [T_C20_set_irrelevant fnName rest (idx + 1) _ _ (mem_cons_congr hm)]
      · rw [T_C20_set_irrelevant fnName rest (idx + 1) t1 t2 hm]
  | .typed attrs (.other toks bs) ty :: rest, idx, t1, t2, hm => by
      simp only [nameArgs]
      have hn := genIdent_set idx t1 t2 hm
      rw [hn]
      rw [T_C20_set_irrelevant fnName rest (idx + 1) _ _ (mem_cons_congr hm)]

/-- in particular every enumeration of the reserved set (a permutation, with or without repeats)
    gives the parameters `fixParams` computes -/
theorem T_C20_fixParams_any_order (fnIdent : String) (inputs : List FnArg) (set' : List String)
    (hm : ∀ x, x ∈ set' ↔ x ∈ unraw fnIdent :: keptIdents (unraw fnIdent) (inputs.map FnArg.liftPat)) :
    nameArgs (unraw fnIdent) 0 set' (inputs.map FnArg.liftPat) = fixParams fnIdent inputs := by
  unfold fixParams
  exact T_C20_set_irrelevant _ _ 0 _ _ hm

/-- non-vacuity: two different enumerations of the same set -/
example :
    nameArgs "foo" 0 ["b", "foo", "a", "b"]
      [.typed [] (.ident false false "foo" none) (.other []), .typed [] (.other [] []) (.other [])] =
    nameArgs "foo" 0 ["foo", "a", "b"]
      [.typed [] (.ident false false "foo" none) (.other []), .typed [] (.other [] []) (.other [])] :=
  T_C20_set_irrelevant "foo" _ 0 _ _ (by
    intro x
    simp only [List.mem_cons, List.mem_nil_iff, or_false]
    constructor
    · rintro (h | h | h | h) <;> simp [h]
    · rintro (h | h | h) <;> simp [h])

end Entrait.C20
