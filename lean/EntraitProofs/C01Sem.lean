import EntraitProofs.C01
/-
  C01, read semantically.

  `T_C01` pins the *tokens* of a delegating body: `f([self,] p₁, …, pₙ)[.await]` with the method's own
  parameter identifiers.  This file adds the small step from tokens to meaning that does not need
  rustc: in an environment that binds the method's parameters `p₁ … pₙ` to the caller's argument
  values `v₁ … vₙ` (and `self` to the receiver), evaluating the argument list of that call yields
  exactly `[receiver,] v₁, …, vₙ` — each identifier resolves to its own parameter, in declared
  order, because the names are pairwise distinct (two parameters are the same variable iff their
  names agree after removing `r#`).  So the original function `f` receives the receiver as its
  dependency and the caller's arguments in order.  (That rustc resolves identifiers this way —
  hygiene included — is sampled by the compile-and-run probe `p_c01_hygiene`.)
-/
namespace Entrait.C01
open Entrait

/-- values bound to the method's parameters, by (raw-insensitive) name; first binding wins -/
def lookupVar : List (String × Nat) → String → Option Nat
  | [], _ => none
  | (k, v) :: rest, x => if unraw k == unraw x then some v else lookupVar rest x

/-- value of one argument expression of a delegating call -/
def evalArg (recv : Nat) (env : List (String × Nat)) (a : String) : Option Nat :=
  if a == "self" then some recv else lookupVar env a

def evalArgs (recv : Nat) (env : List (String × Nat)) : List String → Option (List Nat)
  | [] => some []
  | a :: rest =>
      match evalArg recv env a, evalArgs recv env rest with
      | some v, some vs => some (v :: vs)
      | _, _ => none

theorem lookup_zip_self (p : String) (v : Nat) (ps : List String) (vs : List Nat) :
    lookupVar ((p, v) :: ps.zip vs) p = some v := by simp [lookupVar]

theorem lookup_skip (k : String) (v : Nat) (env : List (String × Nat)) (x : String) (h : unraw k ≠ unraw x) :
    lookupVar ((k, v) :: env) x = lookupVar env x := by
  simp [lookupVar, h]

/-- with pairwise distinct names every parameter identifier evaluates to its own argument value -/
theorem evalParams (recv : Nat) : ∀ (ps : List String) (vs : List Nat) (pre : List (String × Nat)),
    ps.length = vs.length → (ps.map unraw).Nodup → (∀ p ∈ ps, p ≠ "self") →
    (∀ k ∈ pre, ∀ p ∈ ps, unraw k.1 ≠ unraw p) →
    evalArgs recv (pre ++ ps.zip vs) ps = some vs
  | [], [], _, _, _, _, _ => rfl
  | [], _ :: _, _, h, _, _, _ => by simp at h
  | _ :: _, [], _, h, _, _, _ => by simp at h
  | p :: ps, v :: vs, pre, hl, hnd, hself, hpre => by
      simp only [List.map_cons, List.nodup_cons] at hnd
      have hp : evalArg recv (pre ++ (p :: ps).zip (v :: vs)) p = some v := by
        unfold evalArg
        have : (p == "self") = false := by simpa using hself p List.mem_cons_self
        simp only [this, Bool.false_eq_true, if_false, List.zip_cons_cons]
        induction pre with
        | nil => exact lookup_zip_self p v ps vs
        | cons kv pre' ih =>
          obtain ⟨k, w⟩ := kv
          have hne : unraw k ≠ unraw p := hpre (k, w) List.mem_cons_self p List.mem_cons_self
          simp only [List.cons_append]
          rw [lookup_skip k w _ p hne]
          exact ih (fun k' hk' q hq => hpre k' (List.mem_cons_of_mem _ hk') q hq)
      have hrest := evalParams recv ps vs (pre ++ [(p, v)]) (by simpa using hl) hnd.2
        (fun q hq => hself q (List.mem_cons_of_mem _ hq))
        (by
          intro k hk q hq
          rcases List.mem_append.mp hk with hk | hk
          · exact hpre k hk q (List.mem_cons_of_mem _ hq)
          · simp only [List.mem_singleton] at hk
            subst hk
            intro he
            exact hnd.1 (by rw [he]; exact List.mem_map.mpr ⟨q, hq, rfl⟩))
      simp only [evalArgs, hp]
      have : pre ++ (p :: ps).zip (v :: vs) = (pre ++ [(p, v)]) ++ ps.zip vs := by simp
      rw [this, hrest]

/-- **C01, semantically**: evaluating the arguments of the generated call, with the method's
    parameters bound to the caller's values, gives the receiver followed by those values in
    declared order -/
theorem T_C01_sem (recv : Nat) (f : String) (ps : List String) (vs : List Nat) (withSelf : Bool) (aw : Bool)
    (hl : ps.length = vs.length) (hnd : nodup (ps.map unraw) = true) (hself : ∀ p ∈ ps, p ≠ "self") :
    evalArgs recv (ps.zip vs)
      ({ selfScope := false, callee := f, args := (if withSelf then ["self"] else []) ++ ps, await := aw } : Call).args
      = some ((if withSelf then [recv] else []) ++ vs) := by
  have hnd' := (nodup_iff _).mp hnd
  have h := evalParams recv ps vs [] hl hnd' hself (by simp)
  simp only [List.nil_append] at h
  cases withSelf
  · simpa using h
  · simp only [if_true, List.singleton_append, evalArgs, evalArg, beq_self_eq_true, h]

/-- non-vacuity -/
example : evalArgs 7 (["a", "r#b", "c"].zip [1, 2, 3]) ["self", "a", "r#b", "c"] = some [7, 1, 2, 3] := by
  decide +kernel

end Entrait.C01
