import EntraitModel.Obs
/-
  The equivalences the correspondence is taken up to (`EntraitModel/Obs.lean`) are applied to the *real* expansion
  only, to bring it to the model's spelling.  These lemmas say that they do nothing to an expansion that already has
  the model's spelling — on the unchanged tree the comparison is the plain one.
-/
namespace Entrait.ObsLemmas
open Entrait Entrait.Obs

theorem sameMultiset_refl (a : List Toks) : sameMultiset a a = true := by
  simp [sameMultiset]

/-- splitting of where-predicates: nothing is merged where the real predicates are the model's -/
theorem mergeToward_self : ∀ ps : List WherePred, mergeToward ps ps = ps
  | [] => rfl
  | .ty l t bs bt :: ms => by
      have h : takeMerged l t bs [] (WherePred.ty l t bs bt :: ms) = some (bs, ms) := by
        simp [takeMerged, sameMultiset_refl]
      simp only [mergeToward, h, mergeToward_self ms]
  | .other ts :: ms => by
      simp only [mergeToward, mergeToward_self ms]

theorem find_self_of_distinct : ∀ (m : List GenItem), distinctKeys (m.map itemKey) = true →
    ∀ x ∈ m, m.find? (fun r => itemKey r == itemKey x) = some x
  | [], _, x, hx => by cases hx
  | a :: rest, hd, x, hx => by
      simp only [List.map_cons, distinctKeys, Bool.and_eq_true, Bool.not_eq_true'] at hd
      obtain ⟨hnc, hrest⟩ := hd
      by_cases hk : itemKey a = itemKey x
      · have hax : a = x := by
          rcases List.mem_cons.mp hx with h | h
          · exact h.symm
          · exfalso
            have : itemKey a ∈ rest.map itemKey := by rw [hk]; exact List.mem_map_of_mem h
            have : (rest.map itemKey).contains (itemKey a) = true := by simpa using this
            rw [hnc] at this; cases this
        subst hax
        simp
      · have hne : (itemKey a == itemKey x) = false := by simpa using hk
        have hxr : x ∈ rest := by
          rcases List.mem_cons.mp hx with h | h
          · exact absurd (by rw [h]) hk
          · exact h
        rw [List.find?_cons, hne]
        exact find_self_of_distinct rest hrest x hxr

/-- order of sibling items: nothing is moved where the real items are the model's -/
theorem permuteToward_self (m : List GenItem) : permuteToward m m = m := by
  unfold permuteToward
  simp only []
  split
  · rename_i h
    simp only [Bool.and_eq_true] at h
    have hd := h.1.2
    have hgen : ∀ (l : List GenItem), (∀ x ∈ l, x ∈ m) →
        l.filterMap (fun x => m.find? (fun r => itemKey r == itemKey x)) = l := by
      intro l
      induction l with
      | nil => intro _; rfl
      | cons y ys ih =>
        intro hl
        rw [List.filterMap_cons, find_self_of_distinct m hd y (hl y List.mem_cons_self)]
        simp only []
        rw [ih (fun x hx => hl x (List.mem_cons_of_mem _ hx))]
    exact hgen m (fun _ h => h)
  · rfl

/-- order of bounds, fully qualified glue calls: identity on the model's spelling -/
theorem alignPred_self (q : WherePred) : alignPred q q = q := by
  cases q with
  | ty l t bs bt => simp [alignPred, sameMultiset_refl]
  | other ts => rfl

theorem alignParam_self (q : GParam) : alignParam q q = q := by
  cases q <;> simp [alignParam, sameMultiset_refl]

theorem alignMember_self (tr : Toks) (g : GenMember) : alignMember tr g g = g := by
  cases g with
  | fn a s b => cases b <;> simp [alignMember]
  | raw ts => rfl

theorem zipAlign_self {α : Type} (f : α → α → α) (hf : ∀ x, f x x = x) : ∀ xs : List α, zipAlign f xs xs = xs
  | [] => rfl
  | x :: xs => by simp [zipAlign, hf, zipAlign_self f hf xs]

/-- all the alignments together do nothing to an item that is spelled as the model spells it -/
theorem alignItem_self (x : GenItem) : alignItem x x = x := by
  cases x with
  | impl im =>
    simp only [alignItem, mergeToward_self, zipAlign_self _ alignParam_self, zipAlign_self _ alignPred_self,
      zipAlign_self _ (alignMember_self im.traitRef)]
  | trait t => rfl
  | raw ts => rfl

/-- names of the macro's own binders: nothing is renamed where the real item has the model's binders -/
theorem binderAt_self (n : String) : ∀ ps : List GParam, binderAt n ps ps = none
  | [] => rfl
  | .ty a m bs bt d :: ps => by
      by_cases h : m = n
      · simp [binderAt, h]
      · have : (m == n) = false := by simpa using h
        simp [binderAt, this, binderAt_self n ps]
  | .lt a m bs bt :: ps => by simp [binderAt, binderAt_self n ps]
  | .const_ a m t d :: ps => by simp [binderAt, binderAt_self n ps]

theorem argBinderAt_self (n : String) : ∀ xs : List FnArg, argBinderAt n xs xs = none
  | [] => rfl
  | .recv a r m c :: xs => by simp [argBinderAt, argBinderAt_self n xs]
  | .typed a (.ident r m nm sub) ty :: xs => by
      by_cases h : nm = n
      · simp [argBinderAt, h]
      · have : (nm == n) = false := by simpa using h
        simp [argBinderAt, this, argBinderAt_self n xs]
  | .typed a (.other ts bs) ty :: xs => by simp [argBinderAt, argBinderAt_self n xs]

theorem renameMemberToward_self (g : GenMember) : renameMemberToward g g = g := by
  cases g with
  | fn a s b => simp [renameMemberToward, argBinderAt_self]
  | raw ts => rfl

theorem renameItemToward_self (x : GenItem) : renameItemToward x x = x := by
  cases x with
  | impl im => simp [renameItemToward, renameImplToward, binderAt_self, zipAlign_self _ renameMemberToward_self]
  | trait t => simp [renameItemToward, renameTraitToward, binderAt_self, zipAlign_self _ renameMemberToward_self]
  | raw ts => rfl

/-- the macro's own inert attributes: nothing is removed when none is owned (every run on the unchanged tree) -/
theorem stripOwned_nil (r : Wire.Real) : stripOwned [] r = r := by
  simp [stripOwned]

theorem stripOwnedToward_nil (mi ma : List GenItem) (r : Wire.Real) : stripOwnedToward [] mi ma r = r := by
  simp [stripOwnedToward]

end Entrait.ObsLemmas
