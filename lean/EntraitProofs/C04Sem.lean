import EntraitProofs.C04
/-
  C04 read semantically: "implemented iff the deps are satisfied".

  The trait solver is abstracted as two relations: `satT b` — the application type `T` satisfies
  the bound `b`; `satSelf b` — the type the impl is for (`Impl<T>`, or `T` itself when nothing is
  mocked) satisfies `b`.  An impl *applies* to the application iff every bound its header writes on
  its own type parameter and on the dependency predicate holds.  `T_C04_iff`: for every header that
  satisfies `fnImplHeaderOk` — which `T_C04` shows of every expansion — the impl applies iff the
  application satisfies exactly the bounds declared on the dependency parameters of the source
  functions, plus the fixed `Sync [+ Send] + 'static`.  Nothing declared is dropped, nothing else is
  required (user where-predicates about other parameters aside: they do not speak about the
  application type).
-/
namespace Entrait.C04Sem
open Entrait

/-- same multiset (as computed by `sameMultiset`) means: a permutation -/
theorem perm_of_sameMultiset : ∀ (a b : List Toks), sameMultiset a b = true → a.Perm b
  | [], b, h => by
      simp only [sameMultiset, List.length_nil, List.all_nil, Bool.and_true, beq_iff_eq] at h
      have : b = [] := List.eq_nil_of_length_eq_zero h.symm
      subst this
      exact List.Perm.nil
  | x :: a, b, h => by
      simp only [sameMultiset, Bool.and_eq_true, beq_iff_eq, List.all_eq_true] at h
      obtain ⟨hlen, hcnt⟩ := h
      have hx : (x :: a).count x = b.count x := hcnt x List.mem_cons_self
      have hxb : x ∈ b := by
        apply List.count_pos_iff.mp
        rw [← hx]
        simp
      have hperm : b.Perm (x :: b.erase x) := List.perm_cons_erase hxb
      have hrec : sameMultiset a (b.erase x) = true := by
        simp only [sameMultiset, Bool.and_eq_true, beq_iff_eq, List.all_eq_true]
        constructor
        · rw [List.length_erase_of_mem hxb, ← hlen]; simp
        · intro y hy
          have hy' := hcnt y (List.mem_cons_of_mem _ hy)
          rw [List.count_erase]
          by_cases hxy : x = y
          · subst hxy
            simp only [List.count_cons_self] at hy'
            simp only [beq_self_eq_true, if_true]
            omega
          · have hne : (x == y) = false := by simpa using hxy
            rw [List.count_cons_of_ne (by simpa using hxy)] at hy'
            simp only [hne, Bool.false_eq_true, if_false]
            omega
      exact (List.Perm.cons x (perm_of_sameMultiset a (b.erase x) hrec)).trans hperm.symm

theorem mem_iff_of_sameMultiset {a b : List Toks} (h : sameMultiset a b = true) (x : Toks) : x ∈ a ↔ x ∈ b :=
  (perm_of_sameMultiset a b h).mem_iff

/-- the bounds the impl header writes on the macro's own type parameter -/
def tBounds (im : GenImpl) : List Toks :=
  match macroParam im.params with
  | some (.ty _ _ bs _ _) => bs
  | _ => []

/-- the bounds the impl header writes on the dependency predicate (`Self: ..`), if it has one -/
def selfBounds (im : GenImpl) : List Toks :=
  match im.preds with
  | .ty [] bt bs false :: _ => if bt == selfTy_ then bs else []
  | _ => []

/-- the impl applies to an application type: the solver grants every bound the header writes about it -/
def Applies (satT satSelf : Toks → Prop) (im : GenImpl) : Prop :=
  (∀ b ∈ tBounds im, satT b) ∧ (∀ b ∈ selfBounds im, satSelf b)

/-- entrait's fixed requirement -/
def fixedBounds (byValue : Bool) : List Toks := [syncToks] ++ (if byValue then [sendToks] else []) ++ [staticToks]

/-- **implemented iff the deps are satisfied**: a header that passes `fnImplHeaderOk` applies to an
    application exactly when the application meets the fixed thread-safety requirement and every
    bound declared on the dependency parameter by any of the source functions -/
theorem T_C04_iff (satT satSelf : Toks → Prop) (o : Opts) (srcs : List Sig) (im : GenImpl)
    (hnd : o.noDepsValue = false) (hnc : srcs.any Sig.depIsConcrete = false)
    (hself : ∀ q ∈ srcs.flatMap (·.generics.preds), isSelfPred q = false)   -- free functions cannot say `Self`
    (h : fnImplHeaderOk o srcs im = true) :
    Applies satT satSelf im ↔
      (∀ b ∈ fixedBounds (srcs.any Sig.depByValue), satT b) ∧
      (∀ b ∈ srcs.flatMap Sig.declaredDepBounds, satSelf b) := by
  unfold fnImplHeaderOk at h
  simp only [hnd, hnc, Bool.false_eq_true, if_false, Bool.and_eq_true] at h
  obtain ⟨⟨hT, _⟩, hW⟩ := h
  -- the macro's parameter
  have hTb : ∀ x, x ∈ tBounds im ↔ x ∈ fixedBounds (srcs.any Sig.depByValue) := by
    intro x
    unfold implTParamOk at hT
    unfold tBounds
    split at hT
    · rename_i bs hmp
      simp only [hmp]
      exact mem_iff_of_sameMultiset hT x
    · cases hT
  -- the dependency predicate
  have hSb : ∀ x, x ∈ selfBounds im ↔ x ∈ srcs.flatMap Sig.declaredDepBounds := by
    intro x
    unfold wherePredsOk at hW
    unfold selfBounds
    split at hW
    · -- nothing declared: no `Self:` predicate with bounds the user did not write
      rename_i hemp
      have hnil : srcs.flatMap Sig.declaredDepBounds = [] := by simpa using hemp
      rw [hnil]
      constructor
      · intro hx
        exfalso
        split at hx
        · rename_i bt bs rest hp
          split at hx
          · rename_i hbt
            -- a predicate on `Self` here would be one the user wrote: excluded
            rw [hp] at hW
            simp only [List.all_cons, Bool.and_eq_true] at hW
            have hmem : WherePred.ty [] bt bs false ∈ srcs.flatMap (·.generics.preds) := by
              simpa using hW.1
            have := hself _ hmem
            have hbt' : bt = selfTy_ := by simpa using hbt
            subst hbt'
            simp [isSelfPred, selfTy_] at this
          · cases hx
        · cases hx
      · intro hx; cases hx
    · split at hW
      · rename_i bt bs rest hp
        simp only [Bool.and_eq_true, beq_iff_eq] at hW
        obtain ⟨⟨hbt, hms⟩, _⟩ := hW
        rw [hp]
        simp only [hbt, beq_self_eq_true, if_true]
        exact mem_iff_of_sameMultiset hms x
      · cases hW
  unfold Applies
  constructor
  · rintro ⟨h1, h2⟩
    exact ⟨fun b hb => h1 b ((hTb b).mpr hb), fun b hb => h2 b ((hSb b).mpr hb)⟩
  · rintro ⟨h1, h2⟩
    exact ⟨fun b hb => h1 b ((hTb b).mp hb), fun b hb => h2 b ((hSb b).mp hb)⟩

/-- the same for every expansion of a function or module the model produces -/
theorem T_C04_sem (satT satSelf : Toks → Prop) (v : Variant) (attr : Toks) (item : Item) (out : Out)
    (h : expand v attr item = .ok out) (hmode : item.mode = .fn ∨ item.mode = .mod_)
    (o : Opts) (ho : effectiveOpts v attr item = some o) (im : GenImpl) (him : mainImpl? out.view = some im)
    (hnd : o.noDepsValue = false) (hnc : (item.sourceFns.map (·.sig)).any Sig.depIsConcrete = false)
    (hself : ∀ q ∈ (item.sourceFns.map (·.sig)).flatMap (·.generics.preds), isSelfPred q = false) :
    Applies satT satSelf im ↔
      (∀ b ∈ fixedBounds ((item.sourceFns.map (·.sig)).any Sig.depByValue), satT b) ∧
      (∀ b ∈ (item.sourceFns.map (·.sig)).flatMap Sig.declaredDepBounds, satSelf b) := by
  have hp := C04.T_C04 v attr item out h
  have hhdr : fnImplHeaderOk o (item.sourceFns.map (·.sig)) im = true := by
    cases item with
    | fn f => simpa [P_C04, ho, him] using hp
    | mod_ m => simpa [P_C04, ho, him] using hp
    | trait t => rcases hmode with hm | hm <;> cases hm
    | impl m => rcases hmode with hm | hm <;> cases hm
  exact T_C04_iff satT satSelf o _ im hnd hnc hself hhdr

end Entrait.C04Sem
