import EntraitProofs.C10
import EntraitProofs.C04
import EntraitProofs.Examples
/-
  C11 — unimock wiring.

  `T_C11`: whenever the macro attaches its unimock derivation to the generated / re-emitted trait,
  it attaches exactly one, and its arguments are exactly
      prefix = ::entrait::__unimock
      [, api = [Name]]          -- single fn: the mock function itself
      [, api = Name]            -- module / trait: a module of per-method mock functions
      [, unmock_with = [e₁, …, eₙ]]   -- fn / mod only, one entry per method, in method order
  where `Name` is the `mock_api` option and entry `eᵢ` is `fᵢ` for a generic dependency (the
  original function, called with the mock object as dependency and the same arguments),
  `fᵢ(p₁, …, pₖ)` for `no_deps` (the original called with the method's own parameters in order)
  and `_` (not un-mockable) for a concrete dependency; an entraited trait gets no `unmock_with`.
  What unimock does with these arguments (pairing entry i with method i, argument order of the
  mock function) is unimock's contract, read from its documentation and not modelled.
-/
namespace Entrait.C11
open Entrait

theorem unimockArgs_gated (e : Bool) (x : Toks) :
    (exportGated e (unimockPath ++ [parens x])).unimockArgs = some (unimockPath ++ [parens x]) := by
  cases e <;> rfl

theorem unimockArgs_gated_mockall (e : Bool) : (exportGated e mockallPath).unimockArgs = none := by
  cases e <;> rfl

theorem unimockArgs_entraitAttr : entraitForTraitAttr.unimockArgs = none := by rfl

/-- an attribute that is the unimock derivation is not one of the re-applied sub-attributes -/
theorem unimockArgs_subKind (a : Attr) (ps : Toks) (h : a.unimockArgs = some ps) : a.subKind = .other := by
  have hm : ∃ g, a.mockKind = some (.unimock, g) := by
    unfold Attr.unimockArgs at h
    unfold Attr.mockKind
    split at h
    · rename_i rest hin
      split at h
      · rename_i hc
        simp only [beq_iff_eq] at hc
        exact ⟨true, by simp [hc]⟩
      · simp at h
    · rename_i ts hnot
      split at h
      · rename_i hc
        simp only [beq_iff_eq] at hc
        exact ⟨false, by simp [hc]⟩
      · simp at h
  obtain ⟨g, hg⟩ := hm
  cases hs : a.subKind with
  | other => rfl
  | asyncTrait => rw [C10.asyncTrait_not_mock a hs] at hg; simp at hg
  | automock =>
    exfalso
    -- the path of the unimock derivation ends in `unimock` (or is `cfg_attr`), not `automock`
    unfold Attr.subKind at hs
    have hl : a.last = some "automock" := by
      split at hs <;> simp_all
    unfold Attr.mockKind at hg
    split at hg
    · rename_i rest hin
      simp [Attr.last, hin, pathLastSeg] at hl
    · unfold classifyMock at hg
      split at hg
      · rename_i gr hsx
        unfold stripPrefix at hsx
        split at hsx
        · rename_i hp
          injection hsx with hsx
          have : a.inner = unimockPath ++ [TT.group .paren gr] := by
            have := List.prefix_iff_eq_append.mp (List.isPrefixOf_iff_prefix.mp hp)
            rw [hsx] at this
            exact this.symm
          simp [Attr.last, this, unimockPath, corePath, pathSep, pathLastSeg, p, i] at hl
        · simp at hsx
      · split at hg <;> simp at hg

/-- the attributes re-applied from a fn / mod are never the unimock derivation -/
theorem reapplied_noUnimock (mode : InputMode) (hmode : mode ≠ .rawTrait) (subAttrs : List Attr) :
    (reappliedSubs mode subAttrs).filterMap Attr.unimockArgs = [] := by
  have hb : (mode == InputMode.rawTrait) = false := by cases mode <;> simp_all
  simp only [reappliedSubs, hb, Bool.false_eq_true, if_false]
  rw [List.filterMap_eq_nil_iff]
  intro a ha
  have hk := (List.mem_filter.mp ha).2
  cases hu : a.unimockArgs with
  | none => rfl
  | some ps =>
    have := unimockArgs_subKind a ps hu
    rw [this] at hk
    simp at hk

theorem found_genTraitDef (opts : Opts) (ind depMode subAttrs vis ident tg sup fns mode)
    (hR : (reappliedSubs mode subAttrs).filterMap Attr.unimockArgs = []) :
    (genTraitDef opts ind depMode subAttrs vis ident tg sup fns mode).attrs.filterMap Attr.unimockArgs =
      if opts.unimockValue then (unimockParams ind opts.mockApi mode fns).toList else [] := by
  have hE : (entraitAttrOf depMode).filterMap Attr.unimockArgs = [] := by
    cases depMode <;> simp [entraitAttrOf, unimockArgs_entraitAttr]
  have hM : (mockallAttrOf opts).filterMap Attr.unimockArgs = [] := by
    unfold mockallAttrOf
    cases opts.mockallValue <;> simp [unimockArgs_gated_mockall]
  simp only [genTraitDef, List.filterMap_append, hR, hE, hM, List.append_nil]
  unfold unimockAttrOf
  cases hu : opts.unimockValue
  · simp
  · simp only [if_true]
    cases hp : unimockParams ind opts.mockApi mode fns with
    | none => rfl
    | some ps =>
      obtain ⟨x, rfl⟩ := C10.unimockParams_shape hp
      simp [unimockArgs_gated]

/-- per function: the model's `unmock_with` entry is the documented one -/
def entryMatch (nd : Bool) (s : Sig) (tf : TraitFn) : Bool :=
  decide (unmockEntry tf = depKindEntry nd s tf.sig)

theorem entryMatch_of_analyzeFn {opts : Opts} {s : Sig} {tg tg' : TraitGenerics} {tf : TraitFn}
    (h : analyzeFn .selfRef opts s tg = .ok (tf, tg')) : entryMatch opts.noDepsValue s tf = true := by
  have hs := fnModeSpec h
  unfold entryMatch unmockEntry depKindEntry
  simp only [decide_eq_true_eq]
  cases hn : opts.noDepsValue
  · have hm := C04.depsMatch_of_analyzeFn hn h
    unfold C04.depsMatch at hm
    cases hd : tf.deps with
    | generic q bs =>
      rw [hd] at hm
      simp only [Bool.and_eq_true, decide_eq_true_eq, Bool.not_eq_true'] at hm
      simp [hm.2]
    | concrete c => rw [hd] at hm; simp [hm]
    | noDeps => rw [hd] at hm; simp at hm
  · have := hs.depsNoDeps.mpr hn
    simp [this]

theorem entries_of_zip (nd : Bool) : ∀ (srcs : List FnItem) (fns : List TraitFn),
    zipAll (entryMatch nd) (srcs.map (·.sig)) fns = true →
      fns.map unmockEntry = (srcs.zip (fns.map (·.sig))).map (fun sg => depKindEntry nd sg.1.sig sg.2)
  | [], [], _ => rfl
  | [], _ :: _, h => by simp [zipAll] at h
  | _ :: _, [], h => by simp [zipAll] at h
  | s :: srcs, tf :: fns, h => by
      simp only [List.map_cons, zipAll, Bool.and_eq_true] at h
      have h1 := h.1
      simp only [entryMatch, decide_eq_true_eq] at h1
      simp [h1, entries_of_zip nd srcs fns h.2]

theorem members_sigs (mode : InputMode) (ind : ImplIndirection) (fns : List TraitFn) :
    (fns.map fun tf => GenMember.fn [] tf.sig (some (delegatingBody mode ind tf))).filterMap GenMember.sig? =
      fns.map (·.sig) := by
  induction fns with
  | nil => rfl
  | cons tf rest ih => simp [GenMember.sig?, ih]

theorem members_sigs' (mode : InputMode) (ind : ImplIndirection) (fns : List TraitFn) :
    fns.filterMap (GenMember.sig? ∘ fun tf => GenMember.fn tf.attrs tf.sig (some (delegatingBody mode ind tf))) =
      fns.map (·.sig) := by
  induction fns with
  | nil => rfl
  | cons tf rest ih => simp [GenMember.sig?, ih]

/-- fn / mod: the unimock arguments of the model are the documented ones -/
theorem unimockParams_expected (o : Opts) (mode : InputMode) (hmode : mode = .singleFn ∨ mode = .module)
    (srcs : List FnItem) (fns : List TraitFn) (ps : Toks)
    (hz : zipAll (entryMatch o.noDepsValue) (srcs.map (·.sig)) fns = true)
    (hp : unimockParams .plain o.mockApi mode fns = some ps) :
    ps = unimockSpec o.mockApi (mode == .singleFn)
      (unmockSpec ((srcs.zip (fns.map (·.sig))).map (fun sg => depKindEntry o.noDepsValue sg.1.sig sg.2))) := by
  have he := entries_of_zip o.noDepsValue srcs fns hz
  have hemp : ((srcs.zip (fns.map (·.sig))).map (fun sg => depKindEntry o.noDepsValue sg.1.sig sg.2)).isEmpty = fns.isEmpty := by
    rw [← he]; cases fns <;> rfl
  unfold unimockParams at hp
  split at hp
  · simp at hp
  · injection hp with hp
    rw [← hp]
    unfold unimockSpec unmockSpec
    rw [hemp, ← he]
    rcases hmode with rfl | rfl
    · cases o.mockApi <;> cases fns <;> simp
    · cases o.mockApi <;> cases fns <;> simp

theorem unimockParams_trait (o : Opts) (fns : List TraitFn) :
    unimockParams .trait o.mockApi .rawTrait fns = some (unimockSpec o.mockApi false []) := by
  unfold unimockParams unimockSpec
  cases o.mockApi <;> simp

theorem T_C11 (v : Variant) (attr : Toks) (item : Item) (out : Out)
    (hnu : item.noUserUnimock = true) (h : expand v attr item = .ok out) : P_C11 v attr item out.view = true := by
  cases item with
  | fn f =>
    obtain ⟨a, tf, tg, depMode, implBlock, h1, h2, _, h4, rfl⟩ := expandFn_ok h
    have him := genImplBlock_ok h4
    simp only [P_C11, effectiveOpts, h1, Out.view, View.items, Out.inside, Out.after, mainTrait?, traitsOf,
      List.nil_append, List.append_nil, List.head?_cons]
    rw [found_genTraitDef _ _ _ _ _ _ _ _ _ _ (reapplied_noUnimock .singleFn (by decide) f.attrs)]
    cases hu : (v.apply a.opts).unimockValue
    · simp
    · simp only [if_true]
      cases hp : unimockParams .plain (v.apply a.opts).mockApi .singleFn [tf] with
      | none => simp
      | some ps =>
        have hz : zipAll (entryMatch (v.apply a.opts).noDepsValue) ([f].map (·.sig)) [tf] = true := by
          simp [zipAll, entryMatch_of_analyzeFn h2]
        have := unimockParams_expected (v.apply a.opts) .singleFn (Or.inl rfl) [f] [tf] ps hz hp
        simp only [Option.toList, beq_iff_eq, this]
        simp [expectedUnimock, Item.mode, mainImpl?, View.items, implsOf, unmockEntries, Item.sourceFns, him, GenMember.sig?]
  | mod_ m =>
    simp only [expand] at h
    split at h
    · simp at h
    · obtain ⟨items, a, fns0, fns, tg, depMode, implBlock, h0, h1, h2, hfns, _, h4, rfl⟩ := expandMod_ok h
      have hz0 := analyzeFns_zip_cfg .selfRef (v.apply a.opts) (entryMatch (v.apply a.opts).noDepsValue) (fun _ _ _ => rfl)
        ((items.filterMap BodyItem.fn?).map (·.sig)) {} tg fns0 (bodyFnAttrs items)
        (fun s _ tg0 tf tg1 han => entryMatch_of_analyzeFn han) h2
      rw [← hfns] at hz0
      clear hfns h2
      have him := genImplBlock_ok h4
      simp only [P_C11, effectiveOpts, h1, Out.view, View.items, Out.inside, Out.after, mainTrait?, traitsOf,
        List.cons_append, List.nil_append, List.head?_cons]
      rw [found_genTraitDef _ _ _ _ _ _ _ _ _ _ (reapplied_noUnimock .module (by decide) m.attrs)]
      cases hu : (v.apply a.opts).unimockValue
      · simp
      · simp only [if_true]
        cases hp : unimockParams .plain (v.apply a.opts).mockApi .module fns with
        | none => simp
        | some ps =>
          have hz := hz0
          have := unimockParams_expected (v.apply a.opts) .module (Or.inr rfl) (items.filterMap BodyItem.fn?) fns ps hz hp
          simp only [Option.toList, beq_iff_eq, this]
          simp [expectedUnimock, Item.mode, mainImpl?, View.items, implsOf, unmockEntries, Item.sourceFns, h0, him, members_sigs',
            (by decide : (InputMode.module == InputMode.singleFn) = false), (by decide : (Mode.mod_ == Mode.fn) = false)]
  | trait t =>
    obtain ⟨a0, fns, delegation, h1, h2, _, rfl⟩ := expandTrait_ok h
    simp only [P_C11, effectiveOpts, h1, Out.view, View.items, Out.inside, Out.after, mainTrait?, traitsOf,
      List.cons_append, List.nil_append, List.append_nil, List.head?_cons]
    have hR : (reappliedSubs .rawTrait t.attrs).filterMap Attr.unimockArgs = [] := by
      rw [reappliedSubs_rawTrait, List.filterMap_eq_nil_iff]
      intro a ha
      have hall : t.attrs.all (fun a => a.unimockArgs.isNone) = true := hnu
      have := List.all_eq_true.mp hall a ha
      simpa using this
    rw [found_genTraitDef _ _ _ _ _ _ _ _ _ _ hR, unimockParams_trait]
    cases hu : (v.apply a0.opts).unimockValue
    · simp
    · simp [expectedUnimock, Item.mode, (by decide : (Mode.trait == Mode.fn) = false)]
  | impl m =>
    obtain ⟨items, a, fns0, fns, tg, depMode, implBlock, h0, h1, h2, hfns, _, h4, rfl⟩ := expandImpl_ok h
    simp [P_C11, effectiveOpts, h1, Out.view, View.items, Out.inside, Out.after, mainTrait?, traitsOf, Item.mode]

/-- non-vacuity: the README-style invocation `#[entrait(pub Foo, mock_api = M, unimock)] fn foo(..)` -/
example :
    (match expand .plain [i "pub", i "Foo", p ',', i "mock_api", p '=', i "M", p ',', i "unimock"] (.fn Examples.fnFoo) with
     | .ok out => (traitsOf out.view.items).map (fun t => (t.attrs.filterMap Attr.unimockArgs).length)
     | _ => []) = [1] := by decide +kernel

end Entrait.C11
