import EntraitProofs.C05
import EntraitProofs.C06Sem
/-
  C05 read semantically: the leaf trait of a concrete-dependency function is implemented "for `Impl<T>`
  for every `T` that implements the trait" — and for no other `T`.

  `T_C05_sem`: take any function the model expands, its generated trait `g`, hand it (as the compiler
  does) to the nested invocation under any macro variant: the second stage expands, and in its
  `Impl<T>` impl the bounds on `T` hold of an application type iff that type satisfies `Trait<..>` itself
  (given entrait's fixed requirement).  So `Impl<C>` has the trait because `C` has it (stage 1, `T_C05`),
  a downstream `App` opts in by implementing the trait, and `Impl<X>` for an `X` without the trait does not.
-/
namespace Entrait.C05Sem
open Entrait

theorem T_C05_sem (satT : Toks → Prop) (v v2 : Variant) (attr : Toks) (f : FnItem) (out : Out)
    (h : expand v attr (.fn f) = .ok out) (g : GenTrait) (hg : mainTrait? out.view = some g) (below : List Attr)
    (hfixed : ∀ e ∈ fixedExtras, satT e) :
    ∃ out2, expand v2 [i "unimock", p '=', i "false", p ',', i "mockall", p '=', i "false"]
        (.trait (C05.leafAsInput g below)) = .ok out2 ∧
      ∀ im, mainImpl? out2.view = some im →
        ((∀ b ∈ C06Sem.headBounds im, satT b) ↔ satT (traitWithArgs (C05.leafAsInput g below))) := by
  obtain ⟨out2, h2, hp, _⟩ := C05.T_C05_two_stage v v2 attr f out h g hg below
  refine ⟨out2, h2, ?_⟩
  intro im him
  have := C06Sem.T_C06_iff satT _ (C05.leafAsInput g below) out2.view _ im C05.nestedAttr_parse rfl him hp hfixed
  simpa [C06Sem.providerOf] using this

end Entrait.C05Sem
