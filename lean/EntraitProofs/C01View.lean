import EntraitProofs.C01Sem
/-
  C01, semantically, *on the observed expansion*.

  `C01Sem.T_C01_sem` evaluates an abstract call shape.  This file connects it to expansions: on every view on
  which `P_C01` holds — the model's output by `T_C01`, and the real macro's output on every case where the driver
  evaluated `P_C01` to 1 — every generated method of a fn / module input
    * has a body that *is* a call whose callee is spelled like the source function, and that spelling is not
      captured by any of the method's parameters (`calleeIsItem`: a parameter named like the function would make
      `f(..)` call the parameter), so the callee denotes the function item;
    * and, when the method's parameter names are pairwise distinct, evaluating the call's arguments with the
      parameters bound to the caller's values `v₁ … vₙ` yields `[receiver,] v₁, …, vₙ` in declared order
      (no receiver under `no_deps`): the original function receives exactly what the caller passed, once each.
-/
namespace Entrait.C01
open Entrait

/-- the callee of `f(..)` inside a method with parameters `ps` denotes the item `f`, not a parameter -/
def calleeIsItem (ps : List String) (f : String) : Bool := !(ps.map unraw).contains (unraw f)

/-- all pairs of a `zipAll` -/
theorem zipAll_forall {α β : Type} (f : α → β → Bool) : ∀ (as : List α) (bs : List β), zipAll f as bs = true →
    ∀ ab ∈ as.zip bs, f ab.1 ab.2 = true
  | [], [], _ => by simp
  | [], _ :: _, h => by simp [zipAll] at h
  | _ :: _, [], h => by simp [zipAll] at h
  | a :: as, b :: bs, h => by
      simp only [zipAll, Bool.and_eq_true] at h
      intro ab hab
      simp only [List.zip_cons_cons, List.mem_cons] at hab
      rcases hab with rfl | hab
      · exact h.1
      · exact zipAll_forall f as bs h.2 ab hab

/-- one method -/
theorem method_sem (noDeps : Bool) (src : FnItem) (m : GenMember) (hm : methodCallsFn noDeps false src m = true) :
    ∃ attrs g body c, m = .fn attrs g (some body) ∧ parseCall body = some c ∧
      g.ident = src.sig.ident ∧ c.callee = src.sig.ident ∧ c.selfScope = false ∧ c.await = src.sig.async_ ∧
      calleeIsItem (paramIdents g.inputs) c.callee = true ∧
      (nodup ((paramIdents g.inputs).map unraw) = true → (∀ q ∈ paramIdents g.inputs, q ≠ "self") →
        ∀ (recv : Nat) (vs : List Nat), (paramIdents g.inputs).length = vs.length →
          evalArgs recv ((paramIdents g.inputs).zip vs) c.args = some ((if noDeps then [] else [recv]) ++ vs)) := by
  cases m with
  | raw ts => simp [methodCallsFn] at hm
  | fn attrs g body =>
    cases body with
    | none => simp [methodCallsFn] at hm
    | some b =>
      simp only [methodCallsFn] at hm
      cases hpc : parseCall b with
      | none => simp [hpc] at hm
      | some c =>
        simp only [hpc, Bool.and_eq_true, beq_iff_eq, Bool.false_eq_true, if_false] at hm
        obtain ⟨⟨⟨⟨⟨⟨⟨⟨hid, hcallee⟩, hss⟩, haw⟩, hargs⟩, _⟩, hnc⟩, _⟩, _⟩ := hm
        refine ⟨attrs, g, b, c, rfl, hpc, hid, by rw [hcallee, hid], hss, haw, ?_, ?_⟩
        · unfold calleeIsItem; rw [hcallee]; exact hnc
        · intro hnd hself recv vs hl
          have h := T_C01_sem recv g.ident (paramIdents g.inputs) vs (!noDeps) c.await hl hnd hself
          simp only at h
          rw [hargs]
          cases noDeps
          · simpa using h
          · simpa using h

/-- **C01, semantically, for any view on which `P_C01` holds** (fn and module inputs) -/
theorem T_C01_view (v : Variant) (attr : Toks) (item : Item) (view : View) (h : P_C01 v attr item view = true)
    (hmode : (∃ f, item = .fn f) ∨ (∃ m, item = .mod_ m)) (im : GenImpl) (him : mainImpl? view = some im) :
    ∀ sm ∈ item.sourceFns.zip im.members,
      ∃ attrs g body c, sm.2 = .fn attrs g (some body) ∧ parseCall body = some c ∧
        g.ident = sm.1.sig.ident ∧ c.callee = sm.1.sig.ident ∧ c.selfScope = false ∧ c.await = sm.1.sig.async_ ∧
        calleeIsItem (paramIdents g.inputs) c.callee = true ∧
        (nodup ((paramIdents g.inputs).map unraw) = true → (∀ q ∈ paramIdents g.inputs, q ≠ "self") →
          ∀ (recv : Nat) (vs : List Nat), (paramIdents g.inputs).length = vs.length →
            evalArgs recv ((paramIdents g.inputs).zip vs) c.args =
              some ((if optsNoDeps (effectiveOpts v attr item) then [] else [recv]) ++ vs)) := by
  intro sm hsm
  have hz : zipAll (fun src m => methodCallsFn (optsNoDeps (effectiveOpts v attr item)) false src m)
      item.sourceFns im.members = true := by
    rcases hmode with ⟨f, rfl⟩ | ⟨m, rfl⟩
    · simpa [P_C01, him] using h
    · simpa [P_C01, him] using h
  exact method_sem _ sm.1 sm.2 (zipAll_forall _ _ _ hz sm hsm)

/-- **the same for the model's expansion** -/
theorem T_C01_sem_expand (v : Variant) (attr : Toks) (item : Item) (out : Out)
    (hid : item.identsOk = true) (h : expand v attr item = .ok out)
    (hmode : (∃ f, item = .fn f) ∨ (∃ m, item = .mod_ m)) (im : GenImpl) (him : mainImpl? out.view = some im) :
    ∀ sm ∈ item.sourceFns.zip im.members,
      ∃ attrs g body c, sm.2 = .fn attrs g (some body) ∧ parseCall body = some c ∧
        g.ident = sm.1.sig.ident ∧ c.callee = sm.1.sig.ident ∧ c.selfScope = false ∧ c.await = sm.1.sig.async_ ∧
        calleeIsItem (paramIdents g.inputs) c.callee = true ∧
        (nodup ((paramIdents g.inputs).map unraw) = true → (∀ q ∈ paramIdents g.inputs, q ≠ "self") →
          ∀ (recv : Nat) (vs : List Nat), (paramIdents g.inputs).length = vs.length →
            evalArgs recv ((paramIdents g.inputs).zip vs) c.args =
              some ((if optsNoDeps (effectiveOpts v attr item) then [] else [recv]) ++ vs)) :=
  T_C01_view v attr item out.view (T_C01 v attr item out hid h) hmode im him

/-- non-vacuity: a parameter spelled like the function captures the callee; a raw spelling does too -/
example : calleeIsItem ["a", "b"] "f" = true ∧ calleeIsItem ["a", "f"] "f" = false ∧ calleeIsItem ["r#f"] "f" = false := by
  decide +kernel

end Entrait.C01
