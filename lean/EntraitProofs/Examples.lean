import EntraitModel.Props
/-
  Concrete, non-trivial inputs on which the model expands successfully: they witness that the
  hypotheses of the property theorems (`expand .. = .ok out`) are satisfiable in every mode.
-/
namespace Entrait.Examples
open Entrait

def tyPath (n : String) : Ty := .path false false 1 n [i n]

/-- `pub fn foo<D: A>(deps: &D, (a, b): (u8, u8), mut c: u8) -> u8 where D: B { a }` -/
def fnFoo : FnItem :=
  { vis := [i "pub"]
    sig := { ident := "foo"
             generics := { params := [.ty [] "D" [[i "A"]] false none],
                           preds := [.ty [] (tyPath "D") [[i "B"]] false] }
             inputs := [.typed [] (.ident false false "deps" none) (.ref_ none false (tyPath "D")),
                        .typed [] (.other [parens [i "a", p ',', i "b"]] ["a", "b"]) (.other [parens [i "u8", p ',', i "u8"]]),
                        .typed [] (.ident false true "c" none) (tyPath "u8")]
             output := some [i "u8"] }
    body := [braces [i "a"]] }

/-- `async fn bar(app: &App, x: u8)` — a concrete dependency -/
def fnBar : FnItem :=
  { sig := { ident := "bar", async_ := true
             inputs := [.typed [] (.ident false false "app" none) (.ref_ none false (tyPath "App")),
                        .typed [] (.ident false false "x" none) (tyPath "u8")] }
    body := [braces []] }

def sigA : Sig :=
  { ident := "a", inputs := [.typed [] (.ident false false "d" none) (.ref_ none false (.implTrait [[i "X"]] false))] }

/-- `mod m { pub fn a(d: &impl X) {} fn b() {} struct S; }` -/
def modM : ModItemIn :=
  { ident := "m"
    body := [i "pub", i "fn", i "a", parens [i "d", p ':', p '&', i "impl", i "X"], braces [],
             i "fn", i "b", parens [], braces [], i "struct", i "S", p ';']
    oracle := [{ remaining := 11, consumed := 3, sig := sigA },
               { remaining := 7, consumed := 3, sig := { ident := "b" } }] }

/-- `mod m { #[cfg(any())] #[inline] pub fn a(d: &impl X) {} pub fn c(d: &impl X) {} }` -/
def modCfg : ModItemIn :=
  { ident := "m"
    body := [p '#', brackets [i "cfg", parens [i "any", parens []]], p '#', brackets [i "inline"],
             i "pub", i "fn", i "a", parens [i "d", p ':', p '&', i "impl", i "X"], braces [],
             i "pub", i "fn", i "c", parens [i "d", p ':', p '&', i "impl", i "X"], braces []]
    oracle := [{ remaining := 9, consumed := 3, sig := sigA },
               { remaining := 4, consumed := 3, sig := { sigA with ident := "c" } }] }

/-- `mod m { #[cfg_attr(all(), cfg(any()))] pub fn a(d: &impl X) {} pub fn c(d: &impl X) {} }` -/
def modCfgAttr : ModItemIn :=
  { ident := "m"
    body := [p '#', brackets [i "cfg_attr", parens [i "all", parens [], p ',', i "cfg", parens [i "any", parens []]]],
             i "pub", i "fn", i "a", parens [i "d", p ':', p '&', i "impl", i "X"], braces [],
             i "pub", i "fn", i "c", parens [i "d", p ':', p '&', i "impl", i "X"], braces []]
    oracle := [{ remaining := 9, consumed := 3, sig := sigA },
               { remaining := 4, consumed := 3, sig := { sigA with ident := "c" } }] }

/-- `pub trait Tr<T> { async fn m(&self, _: T) -> T; }` -/
def traitTr : TraitItem :=
  { vis := [i "pub"], ident := "Tr"
    generics := { params := [.ty [] "T" [] false none] }
    members := [.fn { sig := { ident := "m", async_ := true
                               inputs := [.recv [] (some none) false none,
                                          .typed [] (.other [i "_"] []) (tyPath "T")]
                               output := some [i "T"] } }] }

/-- `pub trait Cf { #[cfg(any())] fn gone(&self); fn here(&self); }` -/
def traitCfg : TraitItem :=
  { vis := [i "pub"], ident := "Cf"
    members := [.fn { attrs := [⟨[i "cfg", parens [i "any", parens []]]⟩],
                      sig := { ident := "gone", inputs := [.recv [] (some none) false none] } },
                .fn { sig := { ident := "here", inputs := [.recv [] (some none) false none] } }] }

/-- `impl TrImpl for X { fn m(d: &impl Y, a: u8) {} }` -/
def implX : ImplItemIn :=
  { traitPath := [i "TrImpl"], selfTy := [i "X"]
    body := [i "fn", i "m", parens [i "d", p ':', p '&', i "impl", i "Y", p ',', i "a", p ':', i "u8"], braces []]
    oracle := [{ remaining := 4, consumed := 3
                 sig := { ident := "m"
                          inputs := [.typed [] (.ident false false "d" none) (.ref_ none false (.implTrait [[i "Y"]] false)),
                                     .typed [] (.ident false false "a" none) (tyPath "u8")] } }] }

def isOk : Outcome → Bool
  | .ok _ => true
  | _ => false

theorem fnFoo_expands : isOk (expand .plain [i "pub", i "Foo", p ',', i "mock_api", p '=', i "M", p ',', i "unimock"] (.fn fnFoo)) = true := by decide +kernel
theorem fnBar_expands : isOk (expand .unimock [i "Bar"] (.fn fnBar)) = true := by decide +kernel
theorem modM_expands : isOk (expand .export_ [i "pub", parens [i "crate"], i "Foo"] (.mod_ modM)) = true := by decide
theorem modCfg_expands : isOk (expand .plain [i "Foo"] (.mod_ modCfg)) = true := by decide +kernel
theorem traitTr_expands : isOk (expand .plain [i "TrImpl", p ',', i "delegate_by", p '=', i "ref"] (.trait traitTr)) = true := by decide
theorem traitCfg_expands : isOk (expand .plain [i "CfImpl", p ',', i "delegate_by", p '=', i "ref"] (.trait traitCfg)) = true := by decide +kernel
theorem traitTr_leaf_expands : isOk (expand .unimock [] (.trait traitTr)) = true := by decide
theorem implX_expands : isOk (expand .plain [i "ref"] (.impl implX)) = true := by decide +kernel

end Entrait.Examples
