import EntraitProofs.C04
import EntraitProofs.C10
import EntraitProofs.C15
import EntraitProofs.C12
/-
  C05 — concrete-dependency functions yield a leaf trait any application can adopt.

  Stage 1 (`T_C05`): for a function whose dependency is a concrete type `C` (after stripping
  references and parentheses) the generated trait carries exactly one nested
  `#[::entrait::entrait(unimock = false, mockall = false)]`, and the generated impl is for `C`
  itself — not a blanket impl: its only parameters are the function's own lifted generics, and its
  where clause holds only predicates the user wrote.  The delegating bodies are those of C01.

  Stage 2: the compiler then expands the nested attribute in trait mode.  `nestedAttr_parse`
  shows how its arguments parse; `T_C05_nested_no_mock` shows that under **every** macro variant
  (i.e. both settings of the `unimock` cargo feature) that expansion adds no mock derivation, and
  `C06.T_C06` (trait mode, no delegation-target trait) gives the `Impl<T>` forwarding impl
  `where T: Trait + Sync`.
-/
namespace Entrait.C05
open Entrait

theorem count_entraitAttr (opts : Opts) (ind mode fns) (hmode : mode ≠ .rawTrait) (cty : Ty) (subAttrs : List Attr) :
    (unimockAttrOf opts ind mode fns ++ entraitAttrOf (.concrete cty) ++ mockallAttrOf opts ++
      reappliedSubs mode subAttrs).count entraitForTraitAttr = 1 := by
  have h1 : (unimockAttrOf opts ind mode fns).count entraitForTraitAttr = 0 := by
    rw [List.count_eq_zero]
    intro hmem
    unfold unimockAttrOf at hmem
    split at hmem
    · split at hmem
      · rename_i ps hp
        obtain ⟨x, rfl⟩ := C10.unimockParams_shape hp
        simp at hmem
        have := congrArg Attr.mockKind hmem
        rw [C10.mockKind_gated_unimock, C10.mockKind_entraitAttr] at this
        simp at this
      · simp at hmem
    · simp at hmem
  have h2 : (mockallAttrOf opts).count entraitForTraitAttr = 0 := by
    rw [List.count_eq_zero]
    intro hmem
    unfold mockallAttrOf at hmem
    split at hmem
    · simp at hmem
      have := congrArg Attr.mockKind hmem
      rw [C10.mockKind_gated_mockall, C10.mockKind_entraitAttr] at this
      simp at this
    · simp at hmem
  have h3 : (reappliedSubs mode subAttrs).count entraitForTraitAttr = 0 := by
    rw [List.count_eq_zero]
    intro hmem
    have hb : (mode == InputMode.rawTrait) = false := by cases mode <;> simp_all
    simp only [reappliedSubs, hb, Bool.false_eq_true, if_false] at hmem
    have := (List.mem_filter.mp hmem).2
    revert this
    decide
  simp [List.count_append, h1, h2, h3, entraitAttrOf]

theorem T_C05 (v : Variant) (attr : Toks) (item : Item) (out : Out)
    (h : expand v attr item = .ok out) : P_C05 v attr item out.view = true := by
  cases item with
  | mod_ m => simp [P_C05]
  | trait t => simp [P_C05]
  | impl m => simp [P_C05]
  | fn f =>
    obtain ⟨a, tf, tg, depMode, implBlock, h1, h2, h3, h4, rfl⟩ := expandFn_ok h
    simp only [P_C05, effectiveOpts, h1, optsNoDeps]
    cases hn : (v.apply a.opts).noDepsValue
    · cases hc : f.sig.depIsConcrete
      · simp
      · simp only [Bool.false_or, Bool.not_true, Bool.false_eq_true, if_false]
        obtain ⟨deps, ins, tr, hd, hg, rfl⟩ := analyzeFn_ok h2
        obtain ⟨s1, s2, s3⟩ := analyzeFnDeps_spec hd hn
        -- the dependency is concrete
        cases hdd : deps with
        | noDeps => exact absurd hdd (analyzeFnDeps_deps hd hn).1
        | generic q bs => have := (s1 q bs hdd).2; rw [hc] at this; simp at this
        | concrete cty =>
          obtain ⟨_, a0, pt0, t0, rest0, hin, rfl⟩ := s2 cty hdd
          subst hdd
          simp only [detectDepMode] at h3
          injection h3 with h3
          subst h3
          have him := genImplBlock_ok h4
          simp only [hin, Out.view, View.items, Out.inside, Out.after, List.nil_append, mainTrait?, mainImpl?, traitsOf,
            implsOf, List.head?_cons, List.getLast?_singleton]
          rw [him]
          simp only [genTraitDef, count_entraitAttr _ _ _ _ (by decide : InputMode.singleFn ≠ .rawTrait), implSelfTy,
            implParams, List.nil_append, implWherePreds, beq_self_eq_true, Bool.true_and, Bool.and_eq_true]
          -- lifted parameters and predicates come from `deps_with_generics`
          have htg : tg.params = liftedParams false f.sig ∧ ∀ q ∈ tg.preds, q ∈ f.sig.generics.preds := by
            unfold analyzeFnDeps at hd
            simp only [hn, Bool.false_eq_true, if_false, hin] at hd
            rw [extractDeps_stripRefs] at hd
            have hdc : f.sig.depGenericName = none := by
              unfold Sig.depGenericName
              rw [hin]
              simp only
              unfold Sig.depIsConcrete at hc
              rw [hin] at hc
              simp only at hc
              cases hst : t0.stripRefs with
              | implTrait => simp
              | ref_ => simp
              | paren => simp
              | other => simp
              | path q l n fst toks =>
                rw [hst] at hc
                cases q
                · cases l
                  · by_cases hn1 : n = 1
                    · subst hn1
                      simp only [Ty.specConcrete, Bool.not_eq_true'] at hc
                      simp [hc]
                    · split
                      · rename_i heq; simp at heq; exact absurd heq.1 hn1
                      · rfl
                  · simp
                · simp
            -- every successful branch for a concrete dependency is `deps_with_generics`
            have : tg = depsWithGenerics f.sig.generics {} := by
              cases hst : t0.stripRefs with
              | implTrait bs trl => rw [hst] at hd; simp [extractDepsFromType] at hd
              | ref_ lt m e => exact absurd hst ((stripRefs_not_ref t0).1 lt m e)
              | paren e => exact absurd hst ((stripRefs_not_ref t0).2 e)
              | other toks => rw [hst] at hd; simp [extractDepsFromType] at hd; first | exact hd.2.symm | exact hd.symm
              | path q l n fst toks =>
                rw [hst] at hd
                unfold extractDepsFromType at hd
                split at hd
                · simp at hd
                · split at hd
                  · simp at hd
                  · split at hd
                    · simp at hd; first | exact hd.2.symm | exact hd.symm
                    · split at hd
                      · rename_i r hr
                        simp at hd
                        unfold findDepsGenericBounds at hr
                        split at hr
                        · simp at hr
                        · simp at hr; rw [← hr] at hd; simp at hd
                      · simp at hd; first | exact hd.2.symm | exact hd.symm
            subst this
            constructor
            · simp [depsWithGenerics, liftedParams, hdc]
            · intro q hq; simp [depsWithGenerics] at hq; exact hq.1
          have hl : ∀ q ∈ liftedParams false f.sig, q.isLifetime = false := by
            intro q hq
            simp only [liftedParams, List.mem_filter, Bool.and_eq_true, Bool.not_eq_true'] at hq
            exact hq.2.1
          have hf1 : (liftedParams false f.sig).filter GParam.isLifetime = [] :=
            List.filter_eq_nil_iff.mpr (fun q hq => by simp [hl q hq])
          have hf2 : (liftedParams false f.sig).filter (fun q => !q.isLifetime) = liftedParams false f.sig :=
            List.filter_eq_self.mpr (fun q hq => by simp [hl q hq])
          refine ⟨by rw [htg.1, hf1, hf2]; simp, ?_⟩
          simp only [wherePredsOk, List.isEmpty_nil, if_true]
          simpa [List.all_eq_true] using htg.2
    · simp

/-- how the nested attribute's arguments parse -/
theorem nestedAttr_parse :
    parseTraitAttr [i "unimock", p '=', i "false", p ',', i "mockall", p '=', i "false"] =
      .ok { opts := { unimock := some false, mockall := some false } } := by rfl

/-- stage 2 never mocks: an explicit `false` beats the fallback of every macro variant -/
theorem T_C05_nested_no_mock (v : Variant) (t : TraitItem) (out : Out)
    (h : expand v [i "unimock", p '=', i "false", p ',', i "mockall", p '=', i "false"] (.trait t) = .ok out) :
    ∀ g ∈ traitsOf out.view.items, mockKinds g = t.attrs.filterMap Attr.mockKind := by
  have h' : expandTrait v [i "unimock", p '=', i "false", p ',', i "mockall", p '=', i "false"] t = .ok out := h
  obtain ⟨a0, fns, delegation, h1, _, h3, rfl⟩ := expandTrait_ok h'
  rw [nestedAttr_parse] at h1
  injection h1 with h1
  subst h1
  simp only [genDelegationTraitDefs] at h3
  injection h3 with h3
  subst h3
  intro g hg
  simp only [Out.view, View.items, Out.inside, Out.after, List.nil_append, List.append_nil, traitsOf, List.cons_append,
    List.mem_singleton] at hg
  subst hg
  rw [C10.mockKinds_genTraitDef]
  have hu : (v.apply { unimock := some false, mockall := some false }).unimockValue = false := by cases v <;> rfl
  have hm : (v.apply { unimock := some false, mockall := some false }).mockallValue = false := by cases v <;> rfl
  simp [hu, hm, reappliedSubs]


/-- C05 with the clause that the leaf trait is final (its async methods are what C12 prescribes) -/
theorem T_C05_full (v : Variant) (attr : Toks) (item : Item) (out : Out)
    (h : expand v attr item = .ok out) : P_C05_full v attr item out.view = true := by
  unfold P_C05_full
  rw [T_C05 v attr item out h, Bool.true_and]
  cases item with
  | fn f => simp only [C12.T_C12 v attr (.fn f) out h, Bool.or_true]
  | mod_ m => rfl
  | trait t => rfl
  | impl m => rfl

/-! ### the two stages composed, inside the model -/

/-- a generated trait member read back as a trait member of the input syntax -/
def memberAsInput : GenMember → TraitMember
  | .fn as sig _ => .fn { attrs := as, sig := sig }
  | .raw ts => .other ts

/-- the leaf trait as the compiler hands it to the nested `#[::entrait::entrait(unimock = false, mockall = false)]`:
    the nested attribute itself (and what stands above it) is consumed, the attributes below it stay -/
def leafAsInput (g : GenTrait) (below : List Attr) : TraitItem :=
  { attrs := below, vis := g.vis, ident := g.ident
    generics := { params := g.params, preds := g.preds, wtrail := g.wtrail }
    colon := g.colon, supertraits := g.supertraits, strail := g.strail
    members := g.members.map memberAsInput }

theorem noOther_members (fns : List TraitFn) (f : TraitFn → GenMember) (hf : ∀ tf, ∃ as sig b, f tf = .fn as sig b) :
    ((fns.map f).map memberAsInput).any TraitMember.isOther = false := by
  rw [List.any_eq_false]
  intro m hm
  simp only [List.mem_map] at hm
  obtain ⟨g, ⟨tf, _, rfl⟩, rfl⟩ := hm
  obtain ⟨as, sig, b, h⟩ := hf tf
  rw [h]; simp [memberAsInput, TraitMember.isOther]

/-- **C05 end to end**: for a concrete-dependency fn the model accepts, the generated leaf trait —
    handed to the nested entrait invocation the first stage wrote on it — expands (under every macro
    variant, i.e. with or without the `unimock` feature), derives no mock, and its `Impl<T>` impl
    forwards every method to `T: Trait` (`P_C06`): any application can adopt the trait by implementing
    it for its own type. -/
theorem T_C05_two_stage (v v2 : Variant) (attr : Toks) (f : FnItem) (out : Out)
    (h : expand v attr (.fn f) = .ok out) (g : GenTrait) (hg : mainTrait? out.view = some g) (below : List Attr) :
    ∃ out2,
      expand v2 [i "unimock", p '=', i "false", p ',', i "mockall", p '=', i "false"] (.trait (leafAsInput g below)) = .ok out2 ∧
      P_C06 [i "unimock", p '=', i "false", p ',', i "mockall", p '=', i "false"] (.trait (leafAsInput g below)) out2.view = true ∧
      ∀ g2 ∈ traitsOf out2.view.items, mockKinds g2 = below.filterMap Attr.mockKind := by
  obtain ⟨a, tf, tg, depMode, implBlock, h1, h2, h3, h4, rfl⟩ := expandFn_ok h
  simp only [Out.view, View.items, Out.inside, Out.after, List.nil_append, mainTrait?, traitsOf,
    List.head?_cons, Option.some.injEq] at hg
  subst hg
  have hmis : specMisuses [i "unimock", p '=', i "false", p ',', i "mockall", p '=', i "false"]
      (.trait (leafAsInput (genTraitDef (v.apply a.opts) .plain depMode f.attrs a.traitVis a.traitIdent tg {} [tf] .singleFn) below)) = some [] := by
    have hno : (leafAsInput (genTraitDef (v.apply a.opts) .plain depMode f.attrs a.traitVis a.traitIdent tg {} [tf] .singleFn) below).members.any
        TraitMember.isOther = false :=
      noOther_members [tf] (fun tf => GenMember.fn tf.attrs (makeTraitFnSig tf.sig f.attrs (v.apply a.opts)) none)
        (fun tf => ⟨_, _, _, rfl⟩)
    simp only [specMisuses, nestedAttr_parse, delegationMisuses, hno, Bool.false_eq_true, if_false, List.append_nil]
  obtain ⟨out2, hout2⟩ := C15.T_C15_accepts v2 _ _ hmis
  exact ⟨out2, hout2, C06.T_C06 v2 _ _ out2 hout2, T_C05_nested_no_mock v2 _ out2 hout2⟩

end Entrait.C05
