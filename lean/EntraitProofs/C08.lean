import EntraitProofs.FnMode
import EntraitProofs.Split
import EntraitProofs.Examples
import EntraitProofs.C13
/-
  C08 — module mode: the trait's methods are exactly the module's non-private functions.

  `T_C08`: for an entraited module the generated trait (and the delegating impl) has exactly one
  method per entry the splitter classifies as a function, named like it and in source order, and
  nothing else; the trait is named as requested, is `pub(super)` unless a visibility was
  requested, and the only thing emitted after the module is `vis use m::Trait;`.
  `classify_fn`: an entry of the module body is classified as a function **iff** — after its
  outer attributes — it carries a non-empty visibility qualifier, the tokens that follow look
  like a function header (`peek_fn`), a signature parses there, and the signature is not
  followed by `;`.  Entries are contiguous slices of the *top-level* token trees of the body
  (`splitBody_print`: their concatenation is the body), so anything inside a delimited group —
  a nested impl / submodule / extern block / macro invocation — is never looked at.
-/
namespace Entrait.C08
open Entrait

theorem methodNames_map {α : Type} (f : α → GenMember) (g : α → String) (h : ∀ a, (f a).sig?.map (·.ident) = some (g a)) :
    ∀ xs : List α, methodNames (xs.map f) = xs.map g
  | [] => rfl
  | x :: xs => by
      have ih := methodNames_map f g h xs
      simp only [methodNames] at ih ⊢
      simp only [List.map_cons, List.filterMap_cons, h x, ih]

theorem makeTraitFnSig_ident (s : Sig) (subs : List Attr) (o : Opts) : (makeTraitFnSig s subs o).ident = s.ident := by
  unfold makeTraitFnSig; split <;> rfl

theorem idents_of_zip : ∀ (sigs : List Sig) (fns : List TraitFn),
    zipAll (fun (s : Sig) (tf : TraitFn) => decide (tf.sig.ident = s.ident)) sigs fns = true →
      fns.map (·.sig.ident) = sigs.map (·.ident)
  | [], [], _ => rfl
  | [], _ :: _, h => by simp [zipAll] at h
  | _ :: _, [], h => by simp [zipAll] at h
  | s :: sigs, tf :: fns, h => by
      simp only [zipAll, Bool.and_eq_true, decide_eq_true_eq] at h
      simp [h.1, idents_of_zip sigs fns h.2]

theorem T_C08 (v : Variant) (attr : Toks) (item : Item) (out : Out)
    (h : expand v attr item = .ok out) : P_C08 attr item none out.view = true := by
  cases item with
  | fn f => rfl
  | trait t => rfl
  | impl m => rfl
  | mod_ m =>
    simp only [expand] at h
    split at h
    · simp at h
    · obtain ⟨items, a, fns0, fns, tg, depMode, implBlock, h0, h1, h2, hfns, _, h4, rfl⟩ := expandMod_ok h
      subst hfns
      have him := genImplBlock_ok h4
      have hz := analyzeFns_zip_cfg .selfRef (v.apply a.opts) (fun s tf => decide (tf.sig.ident = s.ident)) (fun _ _ _ => rfl)
        ((items.filterMap BodyItem.fn?).map (·.sig)) {} tg fns0 (bodyFnAttrs items)
        (fun s _ tg0 tf tg1 han => by simpa using (fnModeSpec han).ident) h2
      have hid := idents_of_zip _ _ hz
      generalize attachCfg (bodyFnAttrs items) fns0 = fns at *
      have hn1 : methodNames (genTraitDef (v.apply a.opts) .plain depMode m.attrs a.traitVis a.traitIdent tg {} fns .module).members
          = fns.map (·.sig.ident) := by
        simp only [genTraitDef]
        apply methodNames_map
        intro tf
        simp only [GenMember.sig?, Option.map_some, makeTraitFnSig_ident]
      have hn2 : methodNames implBlock.members = fns.map (·.sig.ident) := by
        rw [him]
        apply methodNames_map
        intro tf; rfl
      simp only [P_C08, h1, Out.view, Out.inside, Out.after, traitsOf, implsOf, Item.sourceFns, h0, hn1, hn2, hid,
        List.map_map, Function.comp_def, beq_self_eq_true, Bool.true_and, Bool.and_true]
      have hlen : fns.length = (items.filterMap BodyItem.fn?).length := by
        simpa using congrArg List.length hid
      simp [genTraitDef, traitVisibility, useItem, hlen, C13.moduleVis_eq]

/-! ### which entries are functions -/

theorem classify_fn (o : SigOracle) (ts : Toks) (item : BodyItem) (rest : Toks)
    (h : parseBodyItem false o ts = .ok (item, rest)) :
    ∃ attrs r1 vis r2, parseOuterAttrs ts = .ok (attrs, r1) ∧ parseVis r1 = .ok (vis, r2) ∧
      (item.fn?.isSome = true ↔
        (vis ≠ [] ∧ peekFn r2 = true ∧ ∃ k sig, o.at r2.length = some (k, sig) ∧ (r2.drop k).head? ≠ some (p ';'))) := by
  unfold parseBodyItem at h
  cases ha : parseOuterAttrs ts with
  | error e => simp [ha] at h
  | ok r =>
    obtain ⟨attrs, r1⟩ := r
    simp only [ha] at h
    cases hv : parseVis r1 with
    | error e => simp [hv] at h
    | ok r' =>
      obtain ⟨vis, r2⟩ := r'
      simp only [hv, Bool.false_or] at h
      refine ⟨attrs, r1, vis, r2, rfl, hv, ?_⟩
      split at h
      · rename_i hc
        simp only [Bool.and_eq_true, Bool.not_eq_true', List.isEmpty_eq_false_iff] at hc
        cases hor : o.at r2.length with
        | none => simp [hor] at h
        | some ks =>
          obtain ⟨k, sig⟩ := ks
          simp only [hor] at h
          split at h
          · rename_i rest4 hd
            injection h with h
            simp only [Prod.mk.injEq] at h
            rw [← h.1]
            simp only [BodyItem.fn?, Option.isSome_none, Bool.false_eq_true, false_iff]
            intro ⟨_, _, k', sig', hk, hne⟩
            simp only [Option.some.injEq, Prod.mk.injEq] at hk
            obtain ⟨rfl, rfl⟩ := hk
            apply hne
            rw [hd]; rfl
          · rename_i hnot
            cases hm : matchedBracesOrSemi (r2.drop k) with
            | error e => simp [hm] at h
            | ok br =>
              simp only [hm] at h
              injection h with h
              simp only [Prod.mk.injEq] at h
              rw [← h.1]
              simp only [BodyItem.fn?, Option.isSome_some, true_iff]
              refine ⟨hc.1, hc.2, k, sig, rfl, ?_⟩
              intro hh
              cases hdr : r2.drop k with
              | nil => rw [hdr] at hh; simp at hh
              | cons x xs =>
                rw [hdr] at hh
                simp only [List.head?_cons, Option.some.injEq] at hh
                exact hnot xs (by rw [hdr, hh]; rfl)
      · rename_i hc
        cases hm : matchedBracesOrSemi r2 with
        | error e => simp [hm] at h
        | ok br =>
          simp only [hm] at h
          injection h with h
          simp only [Prod.mk.injEq] at h
          rw [← h.1]
          simp only [BodyItem.fn?, Option.isSome_none, Bool.false_eq_true, false_iff]
          intro ⟨hv1, hp, _⟩
          apply hc
          simp [hv1, hp]

/-- non-vacuity: the example module has one public function and the trait one method -/
example :
    (match expand .plain [i "pub", i "Tr"] (.mod_ Examples.modM) with
     | .ok out => (traitsOf out.view.inside).map (fun t => methodNames t.members)
     | _ => []) = [(Item.mod_ Examples.modM).sourceFns.map (·.sig.ident)] := by decide +kernel

end Entrait.C08
