import EntraitProofs.FnMode
import EntraitProofs.ImplMode
import EntraitProofs.Examples
/-
  C16 — generated parameter names are usable for every parameter pattern list.

  The core is `paramNamesOk_fixParams` (EntraitProofs/Params.lean): for **every** list of typed
  parameters and every function name, the names chosen by the model of `fix_fn_param_idents` are
  plain identifiers, never the function's own name, pairwise distinct whenever the source bindings
  are, and a binding that a pattern provides (a plain / `mut` / `ref` binding, or the single
  lower-case binding of a destructuring pattern) keeps its name unless it is the function's name.
  `T_C16` lifts this to every generated method of every input mode.
-/
namespace Entrait.C16
open Entrait

/-- `paramNamesOk` reads the signature only through its parameter identifiers and plainness -/
theorem paramNamesOk_congr (f : String) (us : List FnArg) (s1 s2 : Sig) (res : List String)
    (h1 : paramIdents s1.inputs = paramIdents s2.inputs) (h2 : allPlain s1.inputs = allPlain s2.inputs) :
    paramNamesOk f us s1 res = paramNamesOk f us s2 res := by
  unfold paramNamesOk
  simp only [h1, h2]

theorem allPlain_typedArgs : ∀ xs : List FnArg, allPlain (typedArgs xs) = allPlain xs := by
  intro xs
  induction xs with
  | nil => rfl
  | cons a rest ih => cases a with
    | recv => simpa [allPlain] using ih
    | typed a pt t => cases pt with
      | ident rr mm nn ss => cases rr <;> cases mm <;> cases ss <;> simp [allPlain, ih]
      | other => simp [allPlain]

/-- fn / mod: the method generated for one source function -/
theorem fnMode_namesOk (opts : Opts) (src : Sig) (tf : TraitFn) (sig' : Sig)
    (hs : FnModeSpec opts src tf) (hid : identOk src.ident = true) (hin' : sig'.inputs = tf.sig.inputs) :
    paramNamesOk src.ident (typedArgs (src.userParams opts.noDepsValue))
      { sig' with inputs := (typedArgs sig'.inputs).drop 0 } [] = true := by
  obtain ⟨r, hin⟩ := hs.inputs
  have hnr : NotRaw (unraw src.ident) := by
    intro rest hr; unfold identOk at hid; rw [hr] at hid; simp at hid
  let us := (typedArgs (src.userParams opts.noDepsValue)).map FnArg.stripAttrs
  have hty : ∀ u ∈ us, u.isRecv = false := by
    intro u hu
    obtain ⟨w, hw, rfl⟩ := List.mem_map.mp hu
    rw [stripAttrs_isRecv]
    simpa using (List.mem_filter.mp hw).2
  have htyped : typedArgs sig'.inputs = fixParams src.ident us := by
    rw [hin', hin, typedArgs_cons_recv, typedArgs_fixParams, typedArgs_map_strip]
  have hok := paramNamesOk_fixParams src.ident hnr us hty sig'
  rw [paramNamesOk_strip] at hok
  simp only [List.drop_zero]
  rw [htyped]
  exact hok

theorem T_C16_fn (v : Variant) (attr : Toks) (f : FnItem) (out : Out)
    (hid : (Item.fn f).identsOk = true) (h : expand v attr (.fn f) = .ok out) :
    P_C16 v attr (.fn f) out.view = true := by
  obtain ⟨a, tf, tg, depMode, implBlock, h1, h2, _, h4, rfl⟩ := expandFn_ok h
  have hs := fnModeSpec h2
  have him := genImplBlock_ok h4
  have hidf : identOk f.sig.ident = true := by simpa [Item.identsOk, Item.sourceFns] using hid
  simp only [P_C16, Out.view, View.items, Out.inside, Out.after, List.nil_append, mainImpl?, mainTrait?, implsOf, traitsOf,
    List.getLast?_singleton, List.head?_cons, Item.sourceFns, effectiveOpts, h1, optsNoDeps, Item.mode]
  rw [him]
  simp only [genTraitDef, List.map_cons, List.map_nil, zipAll_singleton, GenMember.sig?, Bool.and_eq_true]
  constructor
  · exact fnMode_namesOk (v.apply a.opts) f.sig tf _ hs hidf (by simp [makeTraitFnSig]; split <;> rfl)
  · exact fnMode_namesOk (v.apply a.opts) f.sig tf _ hs hidf rfl

theorem T_C16_mod (v : Variant) (attr : Toks) (m : ModItemIn) (out : Out)
    (hid : (Item.mod_ m).identsOk = true) (h : expand v attr (.mod_ m) = .ok out) :
    P_C16 v attr (.mod_ m) out.view = true := by
  simp only [expand] at h
  split at h
  · simp at h
  · obtain ⟨items, a, fns0, fns, tg, depMode, implBlock, h0, h1, h2, hfns, _, h4, rfl⟩ := expandMod_ok h
    subst hfns
    have him := genImplBlock_ok h4
    have hids : ∀ f ∈ items.filterMap BodyItem.fn?, identOk f.sig.ident = true := by
      have hid' : (items.filterMap BodyItem.fn?).all (fun f => identOk f.sig.ident) = true := by
        simpa only [Item.identsOk, Item.sourceFns, h0] using hid
      exact fun f hf => List.all_eq_true.mp hid' f hf
    simp only [P_C16, Out.view, View.items, Out.inside, Out.after, mainImpl?, mainTrait?, implsOf, traitsOf,
      List.cons_append, List.nil_append, List.getLast?_singleton, List.head?_cons, Item.sourceFns, h0,
      effectiveOpts, h1, optsNoDeps, Item.mode]
    rw [him]
    simp only [genTraitDef, zipAll_map_right, GenMember.sig?, Bool.and_eq_true]
    have key : ∀ (g : TraitFn → Sig), (∀ tf, (g tf).inputs = tf.sig.inputs) → (∀ tf a, g (tf.withCfgOf a) = g tf) →
        zipAll (fun (src : FnItem) tf =>
          paramNamesOk src.sig.ident (typedArgs (src.sig.userParams (v.apply a.opts).noDepsValue))
            { g tf with inputs := (typedArgs (g tf).inputs).drop 0 } []) (items.filterMap BodyItem.fn?)
          (attachCfg (bodyFnAttrs items) fns0) = true := by
      intro g hg hgc
      rw [zipAll_attachCfg _ (by intro x tf a; simp only [hgc])]
      have := analyzeFns_zip .selfRef (v.apply a.opts)
        (fun s tf => paramNamesOk s.ident (typedArgs (s.userParams (v.apply a.opts).noDepsValue))
            { g tf with inputs := (typedArgs (g tf).inputs).drop 0 } [])
        ((items.filterMap BodyItem.fn?).map (·.sig)) {} tg fns0
        (by
          intro s hs tg0 tf tg1 han
          obtain ⟨f, hf, rfl⟩ := List.mem_map.mp hs
          exact fnMode_namesOk (v.apply a.opts) f.sig tf (g tf) (fnModeSpec han) (hids f hf) (hg tf))
        h2
      rw [zipAll_map_left] at this
      exact this
    constructor
    · have := key (fun tf => makeTraitFnSig tf.sig m.attrs (v.apply a.opts))
        (by intro tf; simp [makeTraitFnSig]; split <;> rfl) (fun _ _ => rfl)
      simpa using this
    · have := key (fun tf => tf.sig) (fun _ => rfl) (fun _ _ => rfl)
      simpa using this

/-- trait mode: the delegating method of `Impl<T>` for one trait method -/
theorem traitMode_namesOk (f : TraitFnItem) (hid : identOk f.sig.ident = true) :
    paramNamesOk f.sig.ident (typedArgs f.sig.inputs)
      { f.sig with inputs := fixParams f.sig.ident f.sig.inputs } [] = true := by
  have hnr : NotRaw (unraw f.sig.ident) := by
    intro rest hr; unfold identOk at hid; rw [hr] at hid; simp at hid
  have hty : ∀ u ∈ typedArgs f.sig.inputs, u.isRecv = false := by
    intro u hu; simpa using (List.mem_filter.mp hu).2
  have hok := paramNamesOk_fixParams f.sig.ident hnr (typedArgs f.sig.inputs) hty f.sig
  rw [← hok]
  apply paramNamesOk_congr
  · simp only [← typedArgs_fixParams, paramIdents_typedArgs]
  · simp only [← typedArgs_fixParams, allPlain_typedArgs]

theorem T_C16_trait (v : Variant) (attr : Toks) (t : TraitItem) (out : Out)
    (hid : (Item.trait t).identsOk = true) (h : expand v attr (.trait t) = .ok out) :
    P_C16 v attr (.trait t) out.view = true := by
  obtain ⟨a0, fns, delegation, h1, h2, h3, rfl⟩ := expandTrait_ok h
  have hf := analyzeTraitMembers_ok _ _ h2
  have himpl := mainImpl_last [] [] ([GenItem.trait (genTraitDef (v.apply a0.opts) .trait .generic t.attrs t.vis t.ident
      (traitTg t) (traitSup t) fns .rawTrait)] ++ delegation) (traitImplBlock { a0 with opts := v.apply a0.opts } t fns)
  simp only [P_C16, Out.view, Out.inside, Out.after, himpl]
  simp only [traitImplBlock, zipAll_map_right]
  rw [hf, zipAll_map_right]
  -- both lists are the trait's methods: a diagonal zip
  have hids : ∀ f ∈ t.members.filterMap TraitMember.fn?,
      identOk f.sig.ident = true := by
    intro f hf'
    obtain ⟨mm, hmm, hsome⟩ := List.mem_filterMap.mp hf'
    have := List.all_eq_true.mp (by simpa only [Item.identsOk] using hid) mm hmm
    cases mm <;> simp_all [TraitMember.fn?]
  simp only [TraitItem.fns]
  generalize t.members.filterMap TraitMember.fn? = fs at hids
  induction fs with
  | nil => rfl
  | cons f rest ih =>
    simp only [zipAll, Bool.and_eq_true]
    refine ⟨?_, ih (fun g hg => hids g (List.mem_cons_of_mem _ hg))⟩
    simp only [delegationMethod, traitFnOf, GenMember.sig?]
    exact traitMode_namesOk f (hids f List.mem_cons_self)

/-! ### impl blocks: `__impl` is the macro's own first parameter -/

theorem paramIdents_cons_plain (a : List Attr) (n : String) (t : Ty) (xs : List FnArg) :
    paramIdents (.typed a (.ident false false n none) t :: xs) = n :: paramIdents xs := rfl

/-- names of the user parameters of an impl-block function, after the macro's `__impl` -/
theorem implMode_namesOk (f : String) (hid : identOk f = true) (lt : Option String) (us : List FnArg)
    (hty : ∀ u ∈ us, u.isRecv = false) (sig : Sig) :
    paramNamesOk f us
      { sig with inputs := (fixParams f (implReceiverWith lt :: us.map FnArg.stripAttrs)).drop 1 } ["__impl"] = true := by
  have hnr : NotRaw (unraw f) := by
    intro rest hr; unfold identOk at hid; rw [hr] at hid; simp at hid
  let L := implReceiverWith lt :: us.map FnArg.stripAttrs
  have htyL : ∀ u ∈ L, u.isRecv = false := by
    intro u hu
    rcases List.mem_cons.mp hu with rfl | hu
    · rfl
    · obtain ⟨w, hw, rfl⟩ := List.mem_map.mp hu
      rw [stripAttrs_isRecv]; exact hty w hw
  have hok := paramNamesOk_fixParams f hnr L htyL sig
  -- shape of the result: one typed plain parameter per element of L
  have hshape := sameShape_fixParams f L
  have hplain := allPlain_fixParams f L
  match hX : fixParams f L with
  | [] => rw [hX] at hshape; simp [L, sameShape, implReceiverWith] at hshape
  | .recv .. :: _ => rw [hX] at hshape; simp [L, sameShape, implReceiverWith] at hshape
  | .typed a0 (.other _ _) t0 :: rest => rw [hX] at hplain; simp [allPlain] at hplain
  | .typed a0 (.ident r0 m0 n0 s0) t0 :: rest =>
    rw [hX] at hplain hok
    have hr0 : r0 = false ∧ m0 = false ∧ s0 = none := by
      cases r0 <;> cases m0 <;> cases s0 <;> simp [allPlain] at hplain ⊢
    obtain ⟨rfl, rfl, rfl⟩ := hr0
    unfold paramNamesOk at hok ⊢
    simp only [Bool.and_eq_true, List.nil_append, paramIdents_cons_plain, allPlain, List.map_cons,
      List.drop_succ_cons, List.drop_zero] at hok ⊢
    obtain ⟨⟨hp, hnf⟩, hrest⟩ := hok
    have hprov : (L.filterMap FnArg.providedName).map unraw =
        "__impl" :: (us.filterMap FnArg.providedName).map unraw := by
      have h1 : (us.map FnArg.stripAttrs).filterMap FnArg.providedName = us.filterMap FnArg.providedName := by
        rw [List.filterMap_map]; congr 1; funext a; exact providedName_strip a
      simp only [L, implReceiverWith, List.filterMap_cons, FnArg.providedName, Pat.providedName, h1, List.map_cons]
      congr 1
    refine ⟨⟨hp, ?_⟩, ?_⟩
    · simp only [List.contains_cons, Bool.not_or, Bool.and_eq_true] at hnf
      exact hnf.2
    · rw [hprov] at hrest
      simp only [List.singleton_append]
      by_cases hG : nodup ("__impl" :: (us.filterMap FnArg.providedName).map unraw) = true
      · rw [if_pos hG] at hrest ⊢
        have hnk : namesKept (unraw f) L (n0 :: paramIdents rest) = true := by
          simp only [Bool.and_eq_true] at hrest; exact hrest.2
        have hnd : nodup (unraw n0 :: (paramIdents rest).map unraw) = true := by
          simp only [Bool.and_eq_true] at hrest; exact hrest.1
        simp only [Bool.and_eq_true]
        constructor
        · simp only [nodup, Bool.and_eq_true] at hnd; exact hnd.2
        · simp only [L, namesKept, Bool.and_eq_true, namesKept_strip] at hnk; exact hnk.2
      · rw [if_neg hG] at hrest ⊢
        simp only [List.length_cons, L, List.length_map, beq_iff_eq] at hrest ⊢
        omega

theorem T_C16_impl (v : Variant) (attr : Toks) (m : ImplItemIn) (out : Out)
    (hid : (Item.impl m).identsOk = true) (h : expand v attr (.impl m) = .ok out) :
    P_C16 v attr (.impl m) out.view = true := by
  obtain ⟨items, a, fns0, fns, tg, depMode, implBlock, h0, h1, h2, hfns, _, h4, rfl⟩ := expandImpl_ok h
  subst hfns
  have him := genImplBlock_ok h4
  have hnd : (v.apply a.opts).noDepsValue = false := by
    rw [apply_noDepsValue]; simp [Opts.noDepsValue, implAttr_noDeps h1]
  have hids : ∀ f ∈ items.filterMap BodyItem.fn?, identOk f.sig.ident = true := by
    have hid' : (items.filterMap BodyItem.fn?).all (fun f => identOk f.sig.ident && unraw f.sig.ident != "__impl") = true := by
      simpa only [Item.identsOk, Item.sourceFns, h0] using hid
    intro f hf
    have := List.all_eq_true.mp hid' f hf
    simp only [Bool.and_eq_true] at this
    exact this.1
  simp only [P_C16, Out.view, View.items, Out.inside, Out.after, mainImpl?, implsOf, List.nil_append,
    List.getLast?_singleton, Item.sourceFns, h0, effectiveOpts, h1, optsNoDeps, Item.mode, hnd, Bool.true_and]
  rw [him]
  simp only [zipAll_map_right, GenMember.sig?]
  have := analyzeFns_zip_cfg (if a.dynRef then .dynamicImpl else .staticImpl) (v.apply a.opts)
    (fun s tf => paramNamesOk s.ident (typedArgs (s.userParams false))
        { tf.sig with inputs := (typedArgs tf.sig.inputs).drop 1 } ["__impl"])
    (fun _ _ _ => rfl)
    ((items.filterMap BodyItem.fn?).map (·.sig)) {} tg fns0 (bodyFnAttrs items)
    (by
      intro s hs tg0 tf tg1 han
      obtain ⟨f, hf, rfl⟩ := List.mem_map.mp hs
      have spec := implModeSpec hnd han
      rw [spec.typed]
      simp only [Sig.userParams, Bool.false_eq_true, if_false]
      have hty : ∀ u ∈ typedArgs (f.sig.inputs.drop 1), u.isRecv = false := by
        intro u hu; simpa using (List.mem_filter.mp hu).2
      obtain ⟨lt, hlt⟩ : ∃ lt, implRecvOf a.dynRef f.sig = implReceiverWith lt := by
        unfold implRecvOf; split <;> exact ⟨_, rfl⟩
      rw [hlt]
      exact implMode_namesOk f.sig.ident (hids f hf) lt _ hty tf.sig)
    h2
  rw [zipAll_map_left] at this
  simpa using this

/-- C16 for every input mode -/
theorem T_C16 (v : Variant) (attr : Toks) (item : Item) (out : Out)
    (hid : item.identsOk = true) (h : expand v attr item = .ok out) :
    P_C16 v attr item out.view = true := by
  cases item with
  | fn f => exact T_C16_fn v attr f out hid h
  | mod_ m => exact T_C16_mod v attr m out hid h
  | trait t => exact T_C16_trait v attr t out hid h
  | impl m => exact T_C16_impl v attr m out hid h

/-- the `HashSet` of the implementation is only asked for membership: the model's set is a list,
    and replacing it by any list with the same members gives the same names -/
theorem genIdent_set_irrelevant (index : Nat) (t1 t2 : List String) (hm : ∀ x, x ∈ t1 ↔ x ∈ t2) (fuel n : Nat) :
    genIdent index t1 fuel n = genIdent index t2 fuel n := by
  induction fuel generalizing n with
  | zero => rfl
  | succ k ih =>
    simp [genIdent, ih, hm]

/-- non-vacuity and a concrete instance: `fn foo(deps, foo, foo_, N(foo__), _, mut a)` -/
example :
    paramIdents (fixParams "foo"
      [.typed [] (.ident false false "foo" none) (.other [i "u8"]),
       .typed [] (.ident false false "foo_" none) (.other [i "u8"]),
       .typed [] (.other [i "N", parens [i "foo__"]] ["foo__"]) (.other [i "N"]),
       .typed [] (.other [i "_"] []) (.other [i "u8"]),
       .typed [] (.ident false true "a" none) (.other [i "u8"])]) = ["foo___", "foo_", "foo__", "arg3", "a"] := by
  decide +kernel

end Entrait.C16
