import EntraitProofs.C03
/-
  C03, lifetimes: no where-predicate that talks about a lifetime parameter of a function is lifted to
  the generated trait (where that lifetime is not in scope), so the trait's where clause is closed; and
  the impl adds nothing but the predicate with the dependency bounds.
-/
namespace Entrait.C03Closed
open Entrait

/-- a predicate that is closed over its function's lifetimes and does not mention any of them is closed -/
theorem closed_of_liftable (g : Generics) (q : WherePred)
    (hc : closedOver g.lifetimeNames q = true) (hl : liftable g q = true) : closedOver [] q = true := by
  unfold closedOver at hc ⊢
  unfold liftable at hl
  rw [List.all_eq_true] at hc ⊢
  intro n hn
  have h1 := hc n hn
  have h2 : g.lifetimeNames.contains n = false := by
    cases hcn : g.lifetimeNames.contains n with
    | false => rfl
    | true =>
      exfalso
      have : (lifetimesIn q.print).any (fun n => g.lifetimeNames.contains n) = true :=
        List.any_eq_true.mpr ⟨n, hn, hcn⟩
      rw [this] at hl
      simp at hl
  have h2' : ¬ n ∈ g.lifetimeNames := by
    intro hmem
    rw [List.contains_iff_mem.mpr hmem] at h2
    cases h2
  simp only [Bool.or_eq_true, beq_iff_eq, List.contains_iff_mem] at h1 ⊢
  rcases h1 with (h1 | h1) | h1
  · exact Or.inl (Or.inl h1)
  · exact absurd h1 h2'
  · exact Or.inr h1

theorem closedOver_mono (L : List String) (q : WherePred) (h : closedOver [] q = true) : closedOver L q = true := by
  unfold closedOver at h ⊢
  rw [List.all_eq_true] at h ⊢
  intro n hn
  have := h n hn
  simp only [Bool.or_eq_true] at this ⊢
  rcases this with (h1 | h2) | h3
  · exact Or.inl (Or.inl h1)
  · simp at h2
  · exact Or.inr h3

/-- provenance of the trait's where-predicates through the dependency analysis of one type -/
theorem extractDeps_liftable (g : Generics) : ∀ (ty : Ty) (tg tg' : TraitGenerics) (deps : FnDeps),
    extractDepsFromType g tg ty = .ok (deps, tg') →
      ∀ q ∈ tg'.preds, q ∈ tg.preds ∨ (q ∈ g.preds ∧ liftable g q = true)
  | .ref_ _ _ e, tg, tg', deps, h => by
      unfold extractDepsFromType at h
      exact extractDeps_liftable g e tg tg' deps h
  | .paren e, tg, tg', deps, h => by
      unfold extractDepsFromType at h
      exact extractDeps_liftable g e tg tg' deps h
  | .implTrait bs tr, tg, tg', deps, h => by
      unfold extractDepsFromType at h
      injection h with h
      injection h with _ h2
      subst h2
      intro q hq
      simpa [depsWithGenerics, List.mem_filter] using hq
  | .other ts, tg, tg', deps, h => by
      unfold extractDepsFromType at h
      injection h with h
      injection h with _ h2
      subst h2
      intro q hq
      simpa [depsWithGenerics, List.mem_filter] using hq
  | .path qself leading nseg first toks, tg, tg', deps, h => by
      unfold extractDepsFromType at h
      have hdw : ∀ q ∈ (depsWithGenerics g tg).preds, q ∈ tg.preds ∨ (q ∈ g.preds ∧ liftable g q = true) := by
        intro q hq
        simpa [depsWithGenerics, List.mem_filter] using hq
      split at h
      · cases h
      · split at h
        · cases h
        · split at h
          · injection h with h
            injection h with _ h2
            subst h2
            exact hdw
          · split at h
            · rename_i r hr
              injection h with h
              subst h
              unfold findDepsGenericBounds at hr
              split at hr
              · cases hr
              · injection hr with hr
                injection hr with _ h2
                subst h2
                intro q hq
                simp only [List.mem_append, List.mem_filter] at hq
                rcases hq with hq | ⟨hq, hl⟩
                · exact Or.inl hq
                · exact Or.inr ⟨walkWhere_snd_subset first g.preds q hq, hl⟩
            · injection h with h
              injection h with _ h2
              subst h2
              exact hdw

theorem analyzeFn_liftable {kind : ReceiverKind} {opts : Opts} {s : Sig} {tg tg' : TraitGenerics} {tf : TraitFn}
    (h : analyzeFn kind opts s tg = .ok (tf, tg')) :
    ∀ q ∈ tg'.preds, q ∈ tg.preds ∨ (q ∈ s.generics.preds ∧ liftable s.generics q = true) := by
  obtain ⟨deps, ins, tr, hd, _, _⟩ := analyzeFn_ok h
  unfold analyzeFnDeps at hd
  split at hd
  · injection hd with hd
    injection hd with _ h2
    subst h2
    intro q hq
    simpa [depsWithGenerics, List.mem_filter] using hq
  · split at hd
    · cases hd
    · cases hd
    · exact extractDeps_liftable s.generics _ tg tg' deps hd

theorem analyzeFns_liftable (kind : ReceiverKind) (opts : Opts) :
    ∀ (sigs : List Sig) (tg tg' : TraitGenerics) (fns : List TraitFn),
      analyzeFns kind opts sigs tg = .ok (fns, tg') →
        ∀ q ∈ tg'.preds, q ∈ tg.preds ∨ ∃ s ∈ sigs, q ∈ s.generics.preds ∧ liftable s.generics q = true
  | [], tg, tg', fns, h => by
      simp [analyzeFns] at h
      obtain ⟨_, rfl⟩ := h
      intro q hq; exact Or.inl hq
  | s :: rest, tg, tg', fns, h => by
      unfold analyzeFns at h
      cases h1 : analyzeFn kind opts s tg with
      | error e => simp [h1] at h
      | ok r =>
        obtain ⟨tf, tg1⟩ := r
        simp only [h1] at h
        cases h2 : analyzeFns kind opts rest tg1 with
        | error e => simp [h2] at h
        | ok r2 =>
          obtain ⟨tfs, tg2⟩ := r2
          simp only [h2] at h
          injection h with h
          injection h with _ h4
          subst h4
          intro q hq
          rcases analyzeFns_liftable kind opts rest tg1 tg2 tfs h2 q hq with hq1 | ⟨s', hs', hq', hl'⟩
          · rcases analyzeFn_liftable h1 q hq1 with hq0 | ⟨hq0, hl0⟩
            · exact Or.inl hq0
            · exact Or.inr ⟨s, List.mem_cons_self, hq0, hl0⟩
          · exact Or.inr ⟨s', List.mem_cons_of_mem _ hs', hq', hl'⟩

/-- the shared part: trait and impl where clauses built from an analysis of the source signatures -/
theorem closed_of_analysis (kind : ReceiverKind) (opts : Opts) (sigs : List Sig) (fns : List TraitFn) (tg : TraitGenerics)
    (han : analyzeFns kind opts sigs {} = .ok (fns, tg))
    (hlt : ∀ s ∈ sigs, s.generics.preds.all (closedOver s.generics.lifetimeNames) = true)
    (L : List String) (depMode : DepMode) :
    tg.preds.all (closedOver L) = true ∧
    (implWherePreds depMode .none fns tg).all (fun q => isDepPred q || tg.preds.contains q) = true := by
  constructor
  · rw [List.all_eq_true]
    intro q hq
    apply closedOver_mono
    rcases analyzeFns_liftable kind opts sigs {} tg fns han q hq with h0 | ⟨s, hs, hq', hl⟩
    · simp at h0
    · exact closed_of_liftable s.generics q (List.all_eq_true.mp (hlt s hs) q hq') hl
  · rw [List.all_eq_true]
    intro q hq
    unfold implWherePreds at hq
    simp only [List.mem_append] at hq
    rcases hq with hq | hq
    · cases depMode with
      | concrete ty => simp at hq
      | generic =>
        simp only at hq
        split at hq
        · simp at hq
        · simp only [List.mem_singleton] at hq
          subst hq
          simp [isDepPred, ImplIndirection.isNone]
    · simp only [Bool.or_eq_true, List.contains_iff_mem]; exact Or.inr hq

theorem T_C03_closed (v : Variant) (attr : Toks) (item : Item) (out : Out)
    (hlt : item.lifetimesOk = true) (h : expand v attr item = .ok out) : P_C03_closed item out.view = true := by
  cases item with
  | trait t => rfl
  | impl m => rfl
  | fn f =>
    obtain ⟨a, tf, tg, depMode, implBlock, h1, h2, _, h4, rfl⟩ := expandFn_ok h
    have him := genImplBlock_ok h4
    have han : analyzeFns .selfRef (v.apply a.opts) [f.sig] {} = .ok ([tf], tg) := by simp [analyzeFns, h2]
    have hl : ∀ s ∈ [f.sig], s.generics.preds.all (closedOver s.generics.lifetimeNames) = true := by
      simpa [Item.lifetimesOk, Item.sourceFns] using hlt
    obtain ⟨c1, c2⟩ := closed_of_analysis .selfRef (v.apply a.opts) [f.sig] [tf] tg han hl
      (genTraitDef (v.apply a.opts) .plain depMode f.attrs a.traitVis a.traitIdent tg {} [tf] .singleFn).lifetimeNames depMode
    simp only [P_C03_closed, Out.view, View.items, Out.inside, Out.after, List.nil_append, mainImpl?, mainTrait?, implsOf, traitsOf,
      List.getLast?_singleton, List.head?_cons, Bool.and_eq_true]
    rw [him]
    exact ⟨c1, c2⟩
  | mod_ m =>
    simp only [expand] at h
    split at h
    · simp at h
    · obtain ⟨items, a, fns0, fns, tg, depMode, implBlock, h0, h1, h2, hfns, _, h4, rfl⟩ := expandMod_ok h
      have him := genImplBlock_ok h4
      have hl : ∀ s ∈ (items.filterMap BodyItem.fn?).map (·.sig), s.generics.preds.all (closedOver s.generics.lifetimeNames) = true := by
        intro s hs
        obtain ⟨f, hf, rfl⟩ := List.mem_map.mp hs
        have : (items.filterMap BodyItem.fn?).all (fun f => f.sig.generics.preds.all (closedOver f.sig.generics.lifetimeNames)) = true := by
          simpa only [Item.lifetimesOk, Item.sourceFns, h0] using hlt
        exact List.all_eq_true.mp this f hf
      obtain ⟨c1, c2⟩ := closed_of_analysis .selfRef (v.apply a.opts) _ fns0 tg h2 hl
        (genTraitDef (v.apply a.opts) .plain depMode m.attrs a.traitVis a.traitIdent tg {} fns .module).lifetimeNames depMode
      have hiw : implWherePreds depMode .none fns tg = implWherePreds depMode .none fns0 tg := by
        subst hfns; unfold implWherePreds; rw [depsBounds_attachCfg]
      rw [← hiw] at c2
      simp only [P_C03_closed, Out.view, View.items, Out.inside, Out.after, mainImpl?, mainTrait?, implsOf, traitsOf,
        List.cons_append, List.nil_append, List.getLast?_singleton, List.head?_cons, Bool.and_eq_true]
      rw [him]
      exact ⟨c1, c2⟩

/-- C03 with the lifetime clause -/
theorem T_C03_full (v : Variant) (attr : Toks) (item : Item) (out : Out)
    (hid : item.identsOk = true) (hgen : item.genericsOk = true) (hlt : item.lifetimesOk = true)
    (h : expand v attr item = .ok out) : P_C03_full v attr item out.view = true := by
  unfold P_C03_full
  rw [C03.T_C03 v attr item out hid hgen h, T_C03_closed v attr item out hlt h]
  rfl

/-- non-vacuity: `fn f<'a, T>(d: &impl Bar, x: &'a T) -> &'a T where T: 'a` — the predicate stays off the trait -/
example : liftable { params := [.lt [] "a" [] false, .ty [] "T" [] false none],
                     preds := [.ty [] (.path false false 1 "T" [i "T"]) [lifetimeToks "a"] false] }
    (.ty [] (.path false false 1 "T" [i "T"]) [lifetimeToks "a"] false) = false := by
  simp [liftable, lifetimesIn, WherePred.print, Ty.print, printBounds, joinSep, lifetimeToks, Generics.lifetimeNames,
    GParam.lifetimeName?, p, i]

/-- the recorded defect `C03.ltbound`, in the model as in the macro: for
    `fn f<'a, D, T: 'a>(d: &D, x: &'a T)` the type parameter is lifted to the trait with its inline
    bound `T: 'a`, and the trait does not declare `'a` -/
theorem C03_ltbound_witness :
    let s : Sig :=
      { ident := "f",
        generics := { params := [.lt [] "a" [] false, .ty [] "D" [] false none, .ty [] "T" [lifetimeToks "a"] false none] },
        inputs := [.typed [] (.ident false false "d" none) (.ref_ none false (.path false false 1 "D" [i "D"])),
                   .typed [] (.ident false false "x" none) (.ref_ (some "a") false (.path false false 1 "T" [i "T"]))] }
    (match analyzeFns .selfRef {} [s] {} with
     | .ok (_, tg) => tg.params.map GParam.boundToks
     | .error _ => []) = [[lifetimeToks "a"]] := by decide +kernel

end Entrait.C03Closed
