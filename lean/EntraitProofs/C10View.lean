import EntraitProofs.C10Sem
/-
  `C10Sem.T_C10_sem`, stated for *any view on which `P_C10` holds*: the conclusion about what a build contains
  (no active mock derivation in a non-test build of a non-exporting invocation; exactly the enabled ones in a test
  build, and in every build when exporting) transfers to the real macro's output on every case where the driver
  evaluated `P_C10` to 1.
-/
namespace Entrait.C10Sem
open Entrait

theorem T_C10_view (v : Variant) (attr : Toks) (item : Item) (view : View) (hp : P_C10 v attr item view = true)
    (o : Opts) (ho : effectiveOpts v attr item = some o) (huser : userMockKinds item = [])
    (t : GenTrait) (rest : List GenTrait) (ht : traitsOf view.items = t :: rest) (hmode : item.mode ≠ .impl) :
    -- non-test build of a non-exporting invocation: nothing
    (o.exportValue = false → ∀ g ∈ t :: rest, (mockKinds g).filter (activeIn false) = []) ∧
    -- test build, or exporting: exactly the enabled derivations, on the main trait only
    ((mockKinds t).filter (activeIn true) = expectedMockKinds item.mode o) ∧
    (o.exportValue = true → ∀ test, (mockKinds t).filter (activeIn test) = expectedMockKinds item.mode o) := by
  unfold P_C10 at hp
  rw [ho, ht] at hp
  have hmain : mockKinds t = expectedMockKinds item.mode o ∧ ∀ d ∈ rest, mockKinds d = [] := by
    cases hm : item.mode with
    | impl => exact absurd hm hmode
    | fn => simpa [hm, huser, List.all_eq_true] using hp
    | mod_ => simpa [hm, huser, List.all_eq_true] using hp
    | trait => simpa [hm, huser, List.all_eq_true] using hp
  obtain ⟨hm1, hm2⟩ := hmain
  refine ⟨?_, ?_, ?_⟩
  · intro hex g hg
    rcases List.mem_cons.mp hg with rfl | hg
    · rw [hm1, List.filter_eq_nil_iff]
      intro d hd
      simp [activeIn, expected_gated _ _ d hd, hex]
    · rw [hm2 g hg]; rfl
  · rw [hm1, List.filter_eq_self]
    intro d _
    simp [activeIn]
  · intro hex test
    rw [hm1, List.filter_eq_self]
    intro d hd
    simp [activeIn, expected_gated _ _ d hd, hex]

end Entrait.C10Sem
