import EntraitProofs.C19
/-
  C19 read semantically: *no name capture*.

  `T_C19` pins the spelling: every requirement the macro itself writes is an absolute path (`::core::..`,
  `::entrait::..`) or a lifetime.  This file adds the step from spelling to meaning that does not need rustc.
  A path is resolved through its *head*: a bare first segment is looked up in the scope of the invocation
  site (`scope`: items, `use` declarations, the prelude — everything a user can put there, including a local
  `mod core`, `trait Sync`, `struct Impl`), a path with a leading `::` is looked up in the crate graph
  (`root`: the extern prelude), which nothing at the invocation site can change.

  * `resolveHead_absolute`: an absolute path resolves identically under any two scopes.
  * `T_C19_view`: on every view on which `P_C19` holds — the model's output by `T_C19`, and the real macro's
    output on every case where the driver evaluated `P_C19` to 1 — every bound the macro writes on its own
    parameter `EntraitT` resolves independently of the scope; in trait mode every requirement on `T`
    resolves identically under any two scopes that agree on the names the *user* chose (the trait's own
    name, the delegation-target trait, the custom delegation trait).
  * `T_C19_sem`: the same for `expand`'s output.
  * `T_C19_future`: the rewritten return type of an async method resolves its `Future` (and `Send`)
    independently of the scope.

  That rustc resolves paths this way is sampled by the probe `p_c19_capture` (a crate that shadows `core`,
  `std`, `Sync`, `Send`, `Future`, `Impl`, `entrait` at the invocation site).
-/
namespace Entrait.C19Sem
open Entrait

/-- what names denote: `scope` at the invocation site, `root` in the crate graph -/
structure Env where
  scope : String → Option Nat
  root  : String → Option Nat

/-- resolution of the head of a path (a lifetime is not looked up in the item namespace) -/
def resolveHead (e : Env) : Toks → Option Nat
  | .punct ':' :: .punct ':' :: .ident s :: _ => e.root s
  | .punct ':' :: .punct ':' :: _ => none
  | [.punct '\'', .ident _] => some 0
  | .ident s :: _ => e.scope s
  | _ => none

/-- an absolute path means the same whatever is in scope -/
theorem resolveHead_absolute (r : String → Option Nat) (s1 s2 : String → Option Nat) (b : Toks)
    (h : absolute b = true) : resolveHead ⟨s1, r⟩ b = resolveHead ⟨s2, r⟩ b := by
  unfold absolute at h
  split at h
  · rename_i rest
    cases rest with
    | nil => rfl
    | cons t rest' => cases t <;> rfl
  · rfl
  · cases h

/-- a bare path whose head the two scopes agree on means the same in both -/
theorem resolveHead_user (r : String → Option Nat) (s1 s2 : String → Option Nat) (names : List String)
    (hag : ∀ n ∈ names, s1 n = s2 n) (b : Toks) (h : traitBoundOk names b = true) :
    resolveHead ⟨s1, r⟩ b = resolveHead ⟨s2, r⟩ b := by
  unfold traitBoundOk at h
  cases ha : absolute b
  · rw [ha, Bool.false_or] at h
    cases b with
    | nil => cases h
    | cons t rest =>
      cases t with
      | ident s =>
        have hs : s ∈ names := by simpa using h
        simp only [resolveHead]
        exact hag s hs
      | punct c => cases h
      | lit l => cases h
      | group d ts => cases h
  · exact resolveHead_absolute r s1 s2 b ha

/-- the bounds of a generic parameter -/
def boundsOf : GParam → List Toks
  | .ty _ _ bs _ _ => bs
  | .lt _ _ bs _ => bs
  | .const_ .. => []

/-- the requirements a where-predicate states -/
def predBounds : WherePred → List Toks
  | .ty _ _ bs _ => bs
  | .other _ => []

/-- **C19, semantically, for any view on which `P_C19` holds** -/
theorem T_C19_view (attr : Toks) (item : Item) (view : View) (h : P_C19 attr item view = true)
    (r : String → Option Nat) (s1 s2 : String → Option Nat) :
    ∀ im ∈ implsOf view.items,
      -- the macro's own parameter: scope-independent
      (concreteFn item = false → ∀ p, macroParam im.params = some p → ∀ b ∈ boundsOf p,
          resolveHead ⟨s1, r⟩ b = resolveHead ⟨s2, r⟩ b) ∧
      -- trait mode: what is required of `T` depends on the scope only through the user's own names
      (∀ t, item = .trait t → (∀ n ∈ userTraitNames attr t, s1 n = s2 n) →
          ∀ q, im.preds.head? = some q → ∀ b ∈ predBounds q, resolveHead ⟨s1, r⟩ b = resolveHead ⟨s2, r⟩ b) := by
  intro im him
  unfold P_C19 at h
  simp only [Bool.and_eq_true, List.all_eq_true] at h
  have hi := h.1 im him
  unfold implAbsoluteOk at hi
  simp only [Bool.and_eq_true] at hi
  obtain ⟨⟨_, hpred⟩, hhead⟩ := hi
  refine ⟨?_, ?_⟩
  · intro hc p hp b hb
    rw [hc, Bool.false_or, Bool.and_eq_true] at hhead
    have hm := hhead.1
    unfold macroHeadAbsolute at hm
    rw [hp] at hm
    cases p with
    | ty a n bs bt d =>
      split at hm
      · rename_i heq
        injection heq with heq
        injection heq with _ _ hbs _ _
        subst hbs
        simp only [List.all_eq_true] at hm
        exact resolveHead_absolute r s1 s2 b (hm b hb)
      · cases hm
    | lt a n bs bt =>
      split at hm
      · rename_i heq; injection heq with heq; cases heq
      · cases hm
    | const_ a n ty d => cases hb
  · intro t ht hag q hq b hb
    subst ht
    rw [hq] at hpred
    unfold traitPredOk at hpred
    cases q with
    | ty lts bd bs bt =>
      simp only [List.all_eq_true] at hpred
      exact resolveHead_user r s1 s2 _ hag b (hpred b hb)
    | other ts => cases hb

/-- **C19, semantically, for the model's expansion** -/
theorem T_C19_sem (v : Variant) (attr : Toks) (item : Item) (out : Out) (h : expand v attr item = .ok out)
    (r : String → Option Nat) (s1 s2 : String → Option Nat) :
    ∀ im ∈ implsOf out.view.items,
      (concreteFn item = false → ∀ p, macroParam im.params = some p → ∀ b ∈ boundsOf p,
          resolveHead ⟨s1, r⟩ b = resolveHead ⟨s2, r⟩ b) ∧
      (∀ t, item = .trait t → (∀ n ∈ userTraitNames attr t, s1 n = s2 n) →
          ∀ q, im.preds.head? = some q → ∀ b ∈ predBounds q, resolveHead ⟨s1, r⟩ b = resolveHead ⟨s2, r⟩ b) :=
  T_C19_view attr item out.view (C19.T_C19 v attr item out h) r s1 s2

/-- the rewritten return type of an async method: `impl ::core::future::Future<..> [+ ::core::marker::Send]`;
    after the `impl` keyword and after the `+` the paths are absolute -/
theorem T_C19_future (o : Option Toks) (send : Bool) :
    ∃ rest, futureWrapper o send = .ident "impl" :: rest ∧ absolute rest = true ∧
      (send = true → ∃ pre, rest = pre ++ (.punct '+' :: sendToks) ∧ absolute sendToks = true) := by
  refine ⟨(futureWrapper o send).tail, ?_, ?_, ?_⟩
  · simp [futureWrapper, i]
  · simp [futureWrapper, futurePath, corePath, pathSep, absolute, p, i]
  · intro hs
    subst hs
    refine ⟨futurePath ++ [p '<', i "Output", p '='] ++ o.getD [parens []] ++ [p '>'], ?_, C19.absolute_send⟩
    simp [futureWrapper, p]

/-- non-vacuity: a scope that shadows `core`, `Sync` and `Impl` does not change what the macro's bounds mean,
    while it does change what a bare `Sync` would have meant -/
example :
    let shadow : String → Option Nat := fun n => if n == "core" || n == "Sync" || n == "Impl" then some 99 else none
    let plain : String → Option Nat := fun _ => none
    let root : String → Option Nat := fun n => if n == "core" then some 1 else if n == "entrait" then some 2 else none
    resolveHead ⟨shadow, root⟩ syncToks = some 1 ∧ resolveHead ⟨plain, root⟩ syncToks = some 1 ∧
    resolveHead ⟨shadow, root⟩ implPathToks = some 2 ∧
    resolveHead ⟨shadow, root⟩ [.ident "Sync"] = some 99 ∧ resolveHead ⟨plain, root⟩ [.ident "Sync"] = none := by
  decide +kernel

end Entrait.C19Sem
