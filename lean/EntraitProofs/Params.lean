import EntraitModel.Props
/-
  Theory of `fixParams` (`fn_params.rs::fix_fn_param_idents`): the generated parameter names are
  plain identifiers, fresh with respect to everything that is kept, never the function's own
  name, and positional.  The `HashSet` of the implementation is a list here and is only ever
  asked for membership, so nothing depends on an iteration order.
-/
namespace Entrait

/-! ### first free candidate -/

/-- generic form of `generate_ident` / `rename_ident` -/
def firstFree (c : Nat → String) (taken : List String) : Nat → Nat → String
  | 0, n => c n
  | fuel + 1, n => if taken.contains (c n) then firstFree c taken fuel (n + 1) else c n

def genCand (index : Nat) (n : Nat) : String := underscores n ++ "arg" ++ toString index
def renCand (base : String) (n : Nat) : String := base ++ underscores n

theorem genIdent_eq (index : Nat) (taken : List String) (fuel n : Nat) :
    genIdent index taken fuel n = firstFree (genCand index) taken fuel n := by
  induction fuel generalizing n with
  | zero => rfl
  | succ k ih => simp [genIdent, firstFree, genCand, ih]

theorem renameIdent_eq (base : String) (taken : List String) (fuel n : Nat) :
    renameIdent base taken fuel n = firstFree (renCand base) taken fuel n := by
  induction fuel generalizing n with
  | zero => rfl
  | succ k ih => simp [renameIdent, firstFree, renCand, ih]

/-- the result is one of the candidates at or after the start -/
theorem firstFree_is_cand (c : Nat → String) (taken : List String) (fuel n : Nat) :
    ∃ k, n ≤ k ∧ firstFree c taken fuel n = c k := by
  induction fuel generalizing n with
  | zero => exact ⟨n, Nat.le_refl _, rfl⟩
  | succ f ih =>
    unfold firstFree
    split
    · obtain ⟨k, hk, he⟩ := ih (n + 1)
      exact ⟨k, by omega, he⟩
    · exact ⟨n, Nat.le_refl _, rfl⟩

/-- with more fuel than there are taken names, the result is not taken -/
theorem firstFree_fresh (c : Nat → String) (hinj : ∀ a b, c a = c b → a = b) (taken : List String) :
    ∀ (fuel n : Nat) (L : List String), (∀ k, n ≤ k → c k ∈ taken → c k ∈ L) → L.length < fuel →
      firstFree c taken fuel n ∉ taken := by
  intro fuel
  induction fuel with
  | zero => intro n L _ hlen; omega
  | succ f ih =>
    intro n L hL hlen
    unfold firstFree
    split
    · rename_i hc
      have hmem : c n ∈ taken := by simpa using hc
      have hmemL : c n ∈ L := hL n (Nat.le_refl _) hmem
      apply ih (n + 1) (L.erase (c n))
      · intro k hk hkt
        have : c k ∈ L := hL k (by omega) hkt
        have hne : c k ≠ c n := by
          intro he
          have := hinj _ _ he
          omega
        exact (List.mem_erase_of_ne hne).mpr this
      · rw [List.length_erase_of_mem hmemL]
        have : 0 < L.length := List.length_pos_of_mem hmemL
        omega
    · rename_i hc
      simpa using hc

theorem underscores_length (n : Nat) : (underscores n).length = n := by
  simp [underscores]

theorem genCand_inj (index : Nat) (a b : Nat) (h : genCand index a = genCand index b) : a = b := by
  have := congrArg String.length h
  simp [genCand, String.length_append, underscores_length] at this
  omega

theorem renCand_inj (base : String) (a b : Nat) (h : renCand base a = renCand base b) : a = b := by
  have := congrArg String.length h
  simp [renCand, String.length_append, underscores_length] at this
  omega

theorem genIdent_fresh (index : Nat) (taken : List String) :
    genIdent index taken (taken.length + 1) 0 ∉ taken := by
  rw [genIdent_eq]
  exact firstFree_fresh _ (genCand_inj index) taken _ 0 taken (fun _ _ h => h) (Nat.lt_succ_self _)

theorem renameIdent_fresh (base : String) (taken : List String) :
    renameIdent base taken (taken.length + 1) 1 ∉ taken := by
  rw [renameIdent_eq]
  exact firstFree_fresh _ (renCand_inj base) taken _ 1 taken (fun _ _ h => h) (Nat.lt_succ_self _)

/-! ### raw identifiers -/

/-- the string does not begin with `r#` -/
def NotRaw (s : String) : Prop := ∀ rest, s.toList ≠ 'r' :: '#' :: rest

theorem unraw_of_notRaw (s : String) (h : NotRaw s) : unraw s = s := by
  unfold unraw
  split
  · rename_i rest heq
    exact absurd heq (h rest)
  · rfl

theorem genCand_toList (index n : Nat) :
    (genCand index n).toList = List.replicate n '_' ++ ['a', 'r', 'g'] ++ (toString index).toList := by
  simp [genCand, underscores, String.toList_append]

theorem genCand_notRaw (index n : Nat) : NotRaw (genCand index n) := by
  intro rest h
  rw [genCand_toList] at h
  cases n with
  | zero => simp at h
  | succ k => simp [List.replicate_succ] at h

theorem renCand_notRaw (base : String) (hb : NotRaw base) (n : Nat) (hn : 1 ≤ n) : NotRaw (renCand base n) := by
  intro rest h
  have ht : (renCand base n).toList = base.toList ++ List.replicate n '_' := by
    simp [renCand, underscores, String.toList_append]
  rw [ht] at h
  obtain ⟨k, rfl⟩ : ∃ k, n = k + 1 := ⟨n - 1, by omega⟩
  match hbl : base.toList with
  | [] => rw [hbl] at h; simp [List.replicate_succ] at h
  | [c] =>
    rw [hbl] at h
    simp [List.replicate_succ] at h
  | c :: d :: tl =>
    rw [hbl] at h
    simp at h
    obtain ⟨rfl, rfl, _⟩ := h
    exact hb tl hbl

theorem renCand_ne_base (base : String) (n : Nat) (hn : 1 ≤ n) : renCand base n ≠ base := by
  intro h
  have := congrArg String.length h
  simp [renCand, String.length_append, underscores_length] at this
  omega

/-- what `genIdent` returns is a `_*argN` name -/
theorem genIdent_is_cand (index : Nat) (taken : List String) (fuel n : Nat) :
    ∃ k, genIdent index taken fuel n = genCand index k := by
  rw [genIdent_eq]
  obtain ⟨k, _, h⟩ := firstFree_is_cand (genCand index) taken fuel n
  exact ⟨k, h⟩

theorem renameIdent_is_cand (base : String) (taken : List String) (fuel n : Nat) (hn : 1 ≤ n) :
    ∃ k, 1 ≤ k ∧ renameIdent base taken fuel n = renCand base k := by
  rw [renameIdent_eq]
  obtain ⟨k, hk, h⟩ := firstFree_is_cand (renCand base) taken fuel n
  exact ⟨k, by omega, h⟩

/-! ### `nameArgs` -/

theorem allPlain_nameArgs (fnName : String) : ∀ (args : List FnArg) (idx : Nat) (taken : List String),
    (∀ a ∈ args, match a with
      | .typed _ (.ident r m _ s) _ => r = false ∧ m = false ∧ s = none
      | _ => True) →
    allPlain (nameArgs fnName idx taken args) = true
  | [], _, _, _ => by simp [nameArgs, allPlain]
  | .recv a r m c :: rest, idx, taken, h => by
      simp only [nameArgs, allPlain]
      exact allPlain_nameArgs fnName rest idx taken (fun a ha => h a (List.mem_cons_of_mem _ ha))
  | .typed attrs (.other t b) ty :: rest, idx, taken, h => by
      simp only [nameArgs, allPlain, plainPat]
      exact allPlain_nameArgs fnName rest _ _ (fun a ha => h a (List.mem_cons_of_mem _ ha))
  | .typed attrs (.ident r m name sub) ty :: rest, idx, taken, h => by
      have h0 := h _ (List.mem_cons_self)
      simp only at h0
      obtain ⟨rfl, rfl, rfl⟩ := h0
      simp only [nameArgs]
      split
      · simp only [allPlain, plainPat]
        exact allPlain_nameArgs fnName rest _ _ (fun a ha => h a (List.mem_cons_of_mem _ ha))
      · simp only [allPlain]
        exact allPlain_nameArgs fnName rest _ _ (fun a ha => h a (List.mem_cons_of_mem _ ha))

theorem liftPat_plain (a : FnArg) :
    match a.liftPat with
    | .typed _ (.ident r m _ s) _ => r = false ∧ m = false ∧ s = none
    | _ => True := by
  cases a with
  | recv => simp [FnArg.liftPat]
  | typed attrs pat ty =>
    cases pat with
    | ident r m n s => simp [FnArg.liftPat, liftPat, plainPat]
    | other t b =>
      simp only [FnArg.liftPat, liftPat]
      match List.filter lowerFirst b with
      | [] => simp
      | [x] => simp [plainPat]
      | x :: y :: tl => simp

/-- (A) every typed parameter of the result is a plain identifier -/
theorem allPlain_fixParams (fnIdent : String) (inputs : List FnArg) :
    allPlain (fixParams fnIdent inputs) = true := by
  unfold fixParams
  apply allPlain_nameArgs
  intro a ha
  obtain ⟨b, _, rfl⟩ := List.mem_map.mp ha
  exact liftPat_plain b

/-- all `Pat::Ident` parameters are plain (true after the lifting loop) -/
def ArgsPlain (args : List FnArg) : Prop :=
  ∀ a ∈ args, match a with
    | .typed _ (.ident r m _ s) _ => r = false ∧ m = false ∧ s = none
    | _ => True

theorem ArgsPlain.tail {a : FnArg} {args : List FnArg} (h : ArgsPlain (a :: args)) : ArgsPlain args :=
  fun b hb => h b (List.mem_cons_of_mem _ hb)

theorem unraw_renamed (fnName : String) (hf : NotRaw fnName) (taken : List String) :
    let n := renameIdent fnName taken (taken.length + 1) 1
    unraw n = n ∧ n ≠ fnName ∧ n ∉ taken := by
  obtain ⟨k, hk, he⟩ := renameIdent_is_cand fnName taken (taken.length + 1) 1 (Nat.le_refl _)
  refine ⟨?_, ?_, renameIdent_fresh fnName taken⟩
  · simp only [he]; exact unraw_of_notRaw _ (renCand_notRaw fnName hf k hk)
  · simp only [he]; exact renCand_ne_base fnName k hk

theorem unraw_generated (idx : Nat) (taken : List String) :
    let n := genIdent idx taken (taken.length + 1) 0
    unraw n = n ∧ n ∉ taken := by
  obtain ⟨k, he⟩ := genIdent_is_cand idx taken (taken.length + 1) 0
  refine ⟨?_, genIdent_fresh idx taken⟩
  simp only [he]; exact unraw_of_notRaw _ (genCand_notRaw idx k)

/-- the invariant-carrying specification of the naming loop -/
theorem nameArgs_spec (fnName : String) (hf : NotRaw fnName) :
    ∀ (args : List FnArg) (idx : Nat) (taken : List String),
      fnName ∈ taken →
      (∀ k ∈ keptIdents fnName args, k ∈ taken) →
      (keptIdents fnName args).Nodup →
      (∀ n ∈ paramIdents (nameArgs fnName idx taken args), unraw n ≠ fnName) ∧
      ((paramIdents (nameArgs fnName idx taken args)).map unraw).Nodup ∧
      (∀ n ∈ paramIdents (nameArgs fnName idx taken args), unraw n ∈ taken → unraw n ∈ keptIdents fnName args)
  | [], idx, taken, _, _, _ => by simp [nameArgs, paramIdents]
  | .recv a r m c :: rest, idx, taken, h1, h2, h3 => by
      simp only [nameArgs, paramIdents, keptIdents] at h2 h3 ⊢
      exact nameArgs_spec fnName hf rest idx taken h1 h2 h3
  | .typed attrs (.other t b) ty :: rest, idx, taken, h1, h2, h3 => by
      simp only [keptIdents] at h2 h3
      obtain ⟨hu, hfresh⟩ := unraw_generated idx taken
      have ih := nameArgs_spec fnName hf rest (idx + 1) (genIdent idx taken (taken.length + 1) 0 :: taken)
        (List.mem_cons_of_mem _ h1) (fun k hk => List.mem_cons_of_mem _ (h2 k hk)) h3
      obtain ⟨i1, i2, i3⟩ := ih
      simp only [nameArgs, plainPat, paramIdents, keptIdents, List.map_cons, List.nodup_cons, List.mem_cons,
        forall_eq_or_imp, List.mem_map]
      refine ⟨⟨?_, i1⟩, ⟨?_, i2⟩, ?_, ?_⟩
      · rw [hu]; intro he; exact hfresh (he ▸ h1)
      · rintro ⟨m, hm, hme⟩
        have := i3 m hm (by rw [hme, hu]; exact List.mem_cons_self)
        rw [hme, hu] at this
        exact hfresh (h2 _ this)
      · intro ht; rw [hu] at ht; exact absurd ht hfresh
      · intro m hm ht
        exact i3 m hm (List.mem_cons_of_mem _ ht)
  | .typed attrs (.ident r m name sub) ty :: rest, idx, taken, h1, h2, h3 => by
      by_cases hc : (unraw name == fnName) = true
      · -- named like the function: renamed
        simp only [keptIdents, hc, if_true] at h2 h3
        obtain ⟨hu, hne, hfresh⟩ := unraw_renamed fnName hf taken
        have ih := nameArgs_spec fnName hf rest (idx + 1) (renameIdent fnName taken (taken.length + 1) 1 :: taken)
          (List.mem_cons_of_mem _ h1) (fun k hk => List.mem_cons_of_mem _ (h2 k hk)) h3
        obtain ⟨i1, i2, i3⟩ := ih
        simp only [nameArgs, hc, if_true, plainPat, paramIdents, keptIdents, List.map_cons, List.nodup_cons,
          List.mem_cons, forall_eq_or_imp, List.mem_map]
        refine ⟨⟨?_, i1⟩, ⟨?_, i2⟩, ?_, ?_⟩
        · rw [hu]; exact hne
        · rintro ⟨m', hm, hme⟩
          have := i3 m' hm (by rw [hme, hu]; exact List.mem_cons_self)
          rw [hme, hu] at this
          exact hfresh (h2 _ this)
        · intro ht; rw [hu] at ht; exact absurd ht hfresh
        · intro m' hm ht
          exact i3 m' hm (List.mem_cons_of_mem _ ht)
      · -- kept as written
        have hc' : (unraw name == fnName) = false := by simpa using hc
        simp only [keptIdents, hc', Bool.false_eq_true, if_false] at h2 h3
        have h3' := List.nodup_cons.mp h3
        have ih := nameArgs_spec fnName hf rest (idx + 1) taken h1
          (fun k hk => h2 k (List.mem_cons_of_mem _ hk)) h3'.2
        obtain ⟨i1, i2, i3⟩ := ih
        simp only [nameArgs, hc', Bool.false_eq_true, if_false, paramIdents, keptIdents, List.map_cons,
          List.nodup_cons, List.mem_cons, forall_eq_or_imp, List.mem_map]
        refine ⟨⟨?_, i1⟩, ⟨?_, i2⟩, ?_, ?_⟩
        · intro he; simp [he] at hc
        · rintro ⟨m', hm, hme⟩
          have := i3 m' hm (by rw [hme]; exact h2 _ List.mem_cons_self)
          rw [hme] at this
          exact h3'.1 this
        · intro _; exact Or.inl trivial
        · intro m' hm ht
          exact Or.inr (i3 m' hm ht)

/-! ### positions -/

@[simp] theorem typedArgs_nil : typedArgs [] = [] := rfl
@[simp] theorem typedArgs_cons_recv (a r m c) (rest : List FnArg) :
    typedArgs (.recv a r m c :: rest) = typedArgs rest := rfl
@[simp] theorem typedArgs_cons_typed (a pt t) (rest : List FnArg) :
    typedArgs (.typed a pt t :: rest) = .typed a pt t :: typedArgs rest := rfl

theorem paramIdents_nameArgs_length (fnName : String) : ∀ (args : List FnArg) (idx : Nat) (taken : List String),
    (paramIdents (nameArgs fnName idx taken args)).length = (typedArgs args).length
  | [], _, _ => by simp [nameArgs, paramIdents]
  | .recv a r m c :: rest, idx, taken => by
      simp only [nameArgs, paramIdents, typedArgs_cons_recv]
      exact paramIdents_nameArgs_length fnName rest idx taken
  | .typed attrs (.other t b) ty :: rest, idx, taken => by
      simp only [nameArgs, plainPat, paramIdents, typedArgs_cons_typed, List.length_cons]
      rw [paramIdents_nameArgs_length fnName rest]
  | .typed attrs (.ident r m name sub) ty :: rest, idx, taken => by
      simp only [nameArgs]
      split
      · simp only [plainPat, paramIdents, typedArgs_cons_typed, List.length_cons]
        rw [paramIdents_nameArgs_length fnName rest]
      · simp only [paramIdents, typedArgs_cons_typed, List.length_cons]
        rw [paramIdents_nameArgs_length fnName rest]

theorem typedArgs_map_liftPat (args : List FnArg) :
    (typedArgs (args.map FnArg.liftPat)).length = (typedArgs args).length := by
  induction args with
  | nil => rfl
  | cons a rest ih =>
    cases a with
    | recv => simpa [FnArg.liftPat] using ih
    | typed attrs pat ty => simp [FnArg.liftPat, ih]

/-- (E) one name per typed parameter -/
theorem paramIdents_fixParams_length (fnIdent : String) (inputs : List FnArg) :
    (paramIdents (fixParams fnIdent inputs)).length = (typedArgs inputs).length := by
  unfold fixParams
  rw [paramIdents_nameArgs_length, typedArgs_map_liftPat]

/-- receivers and parameter types are untouched, position by position -/
def sameShape : List FnArg → List FnArg → Prop
  | [], [] => True
  | .recv a r m c :: xs, .recv a' r' m' c' :: ys => a = a' ∧ r = r' ∧ m = m' ∧ c = c' ∧ sameShape xs ys
  | .typed a _ t :: xs, .typed a' _ t' :: ys => a = a' ∧ t = t' ∧ sameShape xs ys
  | _, _ => False

theorem sameShape_nameArgs (fnName : String) : ∀ (args : List FnArg) (idx : Nat) (taken : List String),
    sameShape args (nameArgs fnName idx taken args)
  | [], _, _ => by simp [nameArgs, sameShape]
  | .recv a r m c :: rest, idx, taken => by
      simp only [nameArgs, sameShape, true_and]
      exact sameShape_nameArgs fnName rest idx taken
  | .typed attrs (.other t b) ty :: rest, idx, taken => by
      simp only [nameArgs, sameShape, true_and]
      exact sameShape_nameArgs fnName rest _ _
  | .typed attrs (.ident r m name sub) ty :: rest, idx, taken => by
      simp only [nameArgs]
      split
      · simp only [sameShape, true_and]; exact sameShape_nameArgs fnName rest _ _
      · simp only [sameShape, true_and]; exact sameShape_nameArgs fnName rest _ _

theorem sameShape_map_liftPat : ∀ (args : List FnArg), sameShape args (args.map FnArg.liftPat)
  | [] => by simp [sameShape]
  | .recv a r m c :: rest => by
      simp only [List.map_cons, FnArg.liftPat, sameShape, true_and]; exact sameShape_map_liftPat rest
  | .typed attrs pat ty :: rest => by
      simp only [List.map_cons, FnArg.liftPat, sameShape, true_and]; exact sameShape_map_liftPat rest

theorem sameShape_trans : ∀ (a b c : List FnArg), sameShape a b → sameShape b c → sameShape a c
  | [], [], [], _, _ => by simp [sameShape]
  | .recv .. :: xs, .recv .. :: ys, .recv .. :: zs, h1, h2 => by
      simp only [sameShape] at h1 h2 ⊢
      obtain ⟨rfl, rfl, rfl, rfl, h1⟩ := h1
      obtain ⟨rfl, rfl, rfl, rfl, h2⟩ := h2
      exact ⟨rfl, rfl, rfl, rfl, sameShape_trans xs ys zs h1 h2⟩
  | .typed .. :: xs, .typed .. :: ys, .typed .. :: zs, h1, h2 => by
      simp only [sameShape] at h1 h2 ⊢
      obtain ⟨rfl, rfl, h1⟩ := h1
      obtain ⟨rfl, rfl, h2⟩ := h2
      exact ⟨rfl, rfl, sameShape_trans xs ys zs h1 h2⟩
  | [], [], _ :: _, _, h2 => by simp [sameShape] at h2
  | [], _ :: _, _, h1, _ => by simp [sameShape] at h1
  | _ :: _, [], _, h1, _ => by simp [sameShape] at h1
  | .recv .. :: _, .typed .. :: _, _, h1, _ => by simp [sameShape] at h1
  | .typed .. :: _, .recv .. :: _, _, h1, _ => by simp [sameShape] at h1
  | .recv .. :: _, .recv .. :: _, [], _, h2 => by simp [sameShape] at h2
  | .recv .. :: _, .recv .. :: _, .typed .. :: _, _, h2 => by simp [sameShape] at h2
  | .typed .. :: _, .typed .. :: _, [], _, h2 => by simp [sameShape] at h2
  | .typed .. :: _, .typed .. :: _, .recv .. :: _, _, h2 => by simp [sameShape] at h2

/-- (E') `fixParams` changes nothing but the patterns of typed parameters -/
theorem sameShape_fixParams (fnIdent : String) (inputs : List FnArg) :
    sameShape inputs (fixParams fnIdent inputs) := by
  unfold fixParams
  exact sameShape_trans _ _ _ (sameShape_map_liftPat inputs) (sameShape_nameArgs _ _ _ _)

/-! ### receivers are transparent to the naming -/

theorem typedArgs_nameArgs (fnName : String) : ∀ (args : List FnArg) (idx : Nat) (taken : List String),
    typedArgs (nameArgs fnName idx taken args) = nameArgs fnName idx taken (typedArgs args)
  | [], _, _ => by simp [nameArgs]
  | .recv a r m c :: rest, idx, taken => by
      simp only [nameArgs, typedArgs_cons_recv]; exact typedArgs_nameArgs fnName rest idx taken
  | .typed attrs (.other t b) ty :: rest, idx, taken => by
      simp only [nameArgs, typedArgs_cons_typed]; rw [typedArgs_nameArgs fnName rest]
  | .typed attrs (.ident r m name sub) ty :: rest, idx, taken => by
      simp only [nameArgs, typedArgs_cons_typed]
      split
      · simp only [typedArgs_cons_typed]; rw [typedArgs_nameArgs fnName rest]
      · simp only [typedArgs_cons_typed]; rw [typedArgs_nameArgs fnName rest]

theorem typedArgs_map_lift (args : List FnArg) :
    typedArgs (args.map FnArg.liftPat) = (typedArgs args).map FnArg.liftPat := by
  induction args with
  | nil => rfl
  | cons a rest ih => cases a <;> simp [FnArg.liftPat, ih]

theorem keptIdents_typedArgs (fnName : String) (args : List FnArg) :
    keptIdents fnName (typedArgs args) = keptIdents fnName args := by
  induction args with
  | nil => rfl
  | cons a rest ih =>
    cases a with
    | recv => simpa [keptIdents] using ih
    | typed attrs pat ty =>
      cases pat with
      | ident r m n s => simp only [typedArgs_cons_typed, keptIdents, ih]
      | other t b => simp only [typedArgs_cons_typed, keptIdents, ih]

theorem typedArgs_fixParams (fnIdent : String) (inputs : List FnArg) :
    typedArgs (fixParams fnIdent inputs) = fixParams fnIdent (typedArgs inputs) := by
  unfold fixParams
  rw [typedArgs_nameArgs, typedArgs_map_lift, ← keptIdents_typedArgs _ (inputs.map _), typedArgs_map_lift]

theorem paramIdents_typedArgs (args : List FnArg) : paramIdents (typedArgs args) = paramIdents args := by
  induction args with
  | nil => rfl
  | cons a rest ih =>
    cases a with
    | recv => simpa [paramIdents] using ih
    | typed attrs pat ty => cases pat <;> simp [paramIdents, ih]

/-! ### names that are kept -/

/-- the name a (lifted) parameter carries -/
theorem providedName_lift (a : FnArg) :
    a.providedName = (match a.liftPat with
      | .typed _ (.ident _ _ n _) _ => some n
      | _ => none) := by
  cases a with
  | recv => simp [FnArg.providedName, FnArg.liftPat]
  | typed attrs pat ty =>
    cases pat with
    | ident r m n s => simp [FnArg.providedName, Pat.providedName, FnArg.liftPat, liftPat, plainPat]
    | other t b =>
      simp only [FnArg.providedName, Pat.providedName, FnArg.liftPat, liftPat]
      match List.filter lowerFirst b with
      | [] => simp
      | [x] => simp [plainPat]
      | x :: y :: tl => simp

theorem keptIdents_lift (fnName : String) (us : List FnArg) :
    keptIdents fnName (us.map FnArg.liftPat) =
      ((us.filterMap FnArg.providedName).map unraw).filter (fun k => !(k == fnName)) := by
  induction us with
  | nil => rfl
  | cons a rest ih =>
    have hp := providedName_lift a
    cases hl : a.liftPat with
    | recv ra rr rm rc =>
      rw [hl] at hp
      simp [keptIdents, hl, hp, ih]
    | typed attrs pat ty =>
      rw [hl] at hp
      cases pat with
      | other t b => simp [keptIdents, hl, hp, ih]
      | ident r m n s =>
        simp only at hp
        simp only [List.map_cons, hl, keptIdents, List.filterMap_cons, hp, List.map_cons, List.filter_cons, ih]
        by_cases hc : (unraw n == fnName) = true
        · simp [hc]
        · have hc' : (unraw n == fnName) = false := by simpa using hc
          simp [hc']

theorem namesKept_nameArgs (fnName : String) : ∀ (us : List FnArg) (idx : Nat) (taken : List String),
    (∀ u ∈ us, u.isRecv = false) →
    namesKept fnName us (paramIdents (nameArgs fnName idx taken (us.map FnArg.liftPat))) = true
  | [], _, _, _ => by simp [nameArgs, paramIdents, namesKept]
  | u :: rest, idx, taken, hty => by
      have hp := providedName_lift u
      have hrest : ∀ u ∈ rest, u.isRecv = false := fun x hx => hty x (List.mem_cons_of_mem _ hx)
      cases hl : u.liftPat with
      | recv ra rr rm rc =>
        -- a typed parameter stays typed
        cases u with
        | recv => have := hty _ List.mem_cons_self; simp [FnArg.isRecv] at this
        | typed => simp [FnArg.liftPat] at hl
      | typed attrs pat ty =>
        rw [hl] at hp
        cases pat with
        | other t b =>
          simp only at hp
          simp only [List.map_cons, hl, nameArgs, plainPat, paramIdents, namesKept, hp, Bool.true_and]
          exact namesKept_nameArgs fnName rest _ _ hrest
        | ident r m n s =>
          simp only at hp
          simp only [List.map_cons, hl, nameArgs]
          split
          · rename_i hc
            simp only [plainPat, paramIdents, namesKept, hp, hc, if_true, Bool.true_and]
            exact namesKept_nameArgs fnName rest _ _ hrest
          · rename_i hc
            have hc' : (unraw n == fnName) = false := by simpa using hc
            simp only [paramIdents, namesKept, hp, hc', Bool.false_eq_true, if_false, beq_self_eq_true, Bool.true_and]
            exact namesKept_nameArgs fnName rest _ _ hrest

theorem nameArgs_notFn (fnName : String) (hf : NotRaw fnName) :
    ∀ (args : List FnArg) (idx : Nat) (taken : List String), fnName ∈ taken →
      ∀ n ∈ paramIdents (nameArgs fnName idx taken args), unraw n ≠ fnName
  | [], _, _, _ => by simp [nameArgs, paramIdents]
  | .recv a r m c :: rest, idx, taken, h1 => by
      simp only [nameArgs, paramIdents]; exact nameArgs_notFn fnName hf rest idx taken h1
  | .typed attrs (.other t b) ty :: rest, idx, taken, h1 => by
      obtain ⟨hu, hfresh⟩ := unraw_generated idx taken
      simp only [nameArgs, plainPat, paramIdents, List.mem_cons, forall_eq_or_imp]
      refine ⟨?_, nameArgs_notFn fnName hf rest _ _ (List.mem_cons_of_mem _ h1)⟩
      rw [hu]; intro he; exact hfresh (he ▸ h1)
  | .typed attrs (.ident r m name sub) ty :: rest, idx, taken, h1 => by
      simp only [nameArgs]
      split
      · obtain ⟨hu, hne, _⟩ := unraw_renamed fnName hf taken
        simp only [plainPat, paramIdents, List.mem_cons, forall_eq_or_imp]
        refine ⟨?_, nameArgs_notFn fnName hf rest _ _ (List.mem_cons_of_mem _ h1)⟩
        rw [hu]; exact hne
      · rename_i hc
        simp only [paramIdents, List.mem_cons, forall_eq_or_imp]
        refine ⟨?_, nameArgs_notFn fnName hf rest _ _ h1⟩
        intro he; simp [he] at hc

theorem typedArgs_of_allTyped : ∀ (us : List FnArg), (∀ u ∈ us, u.isRecv = false) → typedArgs us = us
  | [], _ => rfl
  | .recv a r m c :: rest, h => by have := h _ List.mem_cons_self; simp [FnArg.isRecv] at this
  | .typed a pt t :: rest, h => by
      simp [typedArgs_of_allTyped rest (fun x hx => h x (List.mem_cons_of_mem _ hx))]

theorem nodup_iff (l : List String) : nodup l = true ↔ l.Nodup := by
  induction l with
  | nil => simp [nodup]
  | cons x xs ih => simp [nodup, ih, List.nodup_cons]

/-- all four naming guarantees for a list of typed parameters -/
theorem paramNamesOk_fixParams (fnIdent : String) (hf : NotRaw (unraw fnIdent)) (us : List FnArg)
    (hty : ∀ u ∈ us, u.isRecv = false) (sig : Sig) :
    paramNamesOk fnIdent us { sig with inputs := fixParams fnIdent us } = true := by
  unfold paramNamesOk
  simp only [Bool.and_eq_true, List.nil_append]
  refine ⟨⟨allPlain_fixParams fnIdent us, ?_⟩, ?_⟩
  · -- never the function's own name
    simp only [Bool.not_eq_true', ← Bool.not_eq_true]
    intro hcontra
    have hmem : unraw fnIdent ∈ (paramIdents (fixParams fnIdent us)).map unraw := by simpa using hcontra
    obtain ⟨n, hn, hne⟩ := List.mem_map.mp hmem
    exact nameArgs_notFn (unraw fnIdent) hf (us.map FnArg.liftPat) 0
      (unraw fnIdent :: keptIdents (unraw fnIdent) (us.map FnArg.liftPat)) List.mem_cons_self n
      (by simpa [fixParams] using hn) hne
  · split
    · rename_i hnd
      have hnd' : ((us.filterMap FnArg.providedName).map unraw).Nodup := (nodup_iff _).mp hnd
      have hk : (keptIdents (unraw fnIdent) (us.map FnArg.liftPat)).Nodup := by
        rw [keptIdents_lift]; exact List.Nodup.sublist List.filter_sublist hnd'
      have spec := nameArgs_spec (unraw fnIdent) hf (us.map FnArg.liftPat) 0
        (unraw fnIdent :: keptIdents (unraw fnIdent) (us.map FnArg.liftPat))
        List.mem_cons_self (fun k hk => List.mem_cons_of_mem _ hk) hk
      simp only [Bool.and_eq_true]
      exact ⟨(nodup_iff _).mpr (by simpa [fixParams] using spec.2.1),
             by simpa [fixParams] using namesKept_nameArgs (unraw fnIdent) us 0 _ hty⟩
    · simp only [beq_iff_eq]
      rw [paramIdents_fixParams_length]
      have : typedArgs us = us := typedArgs_of_allTyped us hty
      rw [this]

theorem sameShape_noRecv : ∀ (xs ys : List FnArg), sameShape xs ys → (∀ u ∈ xs, u.isRecv = false) →
    ∀ u ∈ ys, u.isRecv = false
  | [], [], _, _ => by simp
  | [], _ :: _, h, _ => by simp [sameShape] at h
  | _ :: _, [], h, _ => by simp [sameShape] at h
  | .recv .. :: _, .typed .. :: _, h, _ => by simp [sameShape] at h
  | .typed .. :: _, .recv .. :: _, h, _ => by simp [sameShape] at h
  | .recv .. :: _, .recv .. :: _, _, hx => by have := hx _ List.mem_cons_self; simp [FnArg.isRecv] at this
  | .typed .. :: xs, .typed .. :: ys, h, hx => by
      simp only [sameShape] at h
      intro u hu
      rcases List.mem_cons.mp hu with rfl | hu
      · rfl
      · exact sameShape_noRecv xs ys h.2.2 (fun w hw => hx w (List.mem_cons_of_mem _ hw)) u hu

end Entrait
