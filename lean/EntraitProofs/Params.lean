import EntraitModel.Props
/-
  Theory of `fixParams` (`fn_params.rs::fix_fn_param_idents`): the generated parameter names are
  plain identifiers, fresh with respect to everything that is kept, never the function's own
  name, and positional.  The `HashSet` of the implementation is a list here and is only ever
  asked for membership, so nothing depends on an iteration order.
-/
namespace Entrait

/-! ### first free candidate -/

/-- generic form of `generate_ident` / `rename_ident` -/
def firstFree (c : Nat → String) (taken : List String) : Nat → Nat → String
  | 0, n => c n
  | fuel + 1, n => if taken.contains (c n) then firstFree c taken fuel (n + 1) else c n

def genCand (index : Nat) (n : Nat) : String := underscores n ++ "arg" ++ toString index
def renCand (base : String) (n : Nat) : String := base ++ underscores n

theorem genIdent_eq (index : Nat) (taken : List String) (fuel n : Nat) :
    genIdent index taken fuel n = firstFree (genCand index) taken fuel n := by
  induction fuel generalizing n with
  | zero => rfl
  | succ k ih => simp [genIdent, firstFree, genCand, ih]

theorem renameIdent_eq (base : String) (taken : List String) (fuel n : Nat) :
    renameIdent base taken fuel n = firstFree (renCand base) taken fuel n := by
  induction fuel generalizing n with
  | zero => rfl
  | succ k ih => simp [renameIdent, firstFree, renCand, ih]

/-- the result is one of the candidates at or after the start -/
theorem firstFree_is_cand (c : Nat → String) (taken : List String) (fuel n : Nat) :
    ∃ k, n ≤ k ∧ firstFree c taken fuel n = c k := by
  induction fuel generalizing n with
  | zero => exact ⟨n, Nat.le_refl _, rfl⟩
  | succ f ih =>
    unfold firstFree
    split
    · obtain ⟨k, hk, he⟩ := ih (n + 1)
      exact ⟨k, by omega, he⟩
    · exact ⟨n, Nat.le_refl _, rfl⟩

/-- with more fuel than there are taken names, the result is not taken -/
theorem firstFree_fresh (c : Nat → String) (hinj : ∀ a b, c a = c b → a = b) (taken : List String) :
    ∀ (fuel n : Nat) (L : List String), (∀ k, n ≤ k → c k ∈ taken → c k ∈ L) → L.length < fuel →
      firstFree c taken fuel n ∉ taken := by
  intro fuel
  induction fuel with
  | zero => intro n L _ hlen; omega
  | succ f ih =>
    intro n L hL hlen
    unfold firstFree
    split
    · rename_i hc
      have hmem : c n ∈ taken := by simpa using hc
      have hmemL : c n ∈ L := hL n (Nat.le_refl _) hmem
      apply ih (n + 1) (L.erase (c n))
      · intro k hk hkt
        have : c k ∈ L := hL k (by omega) hkt
        have hne : c k ≠ c n := by
          intro he
          have := hinj _ _ he
          omega
        exact (List.mem_erase_of_ne hne).mpr this
      · rw [List.length_erase_of_mem hmemL]
        have : 0 < L.length := List.length_pos_of_mem hmemL
        omega
    · rename_i hc
      simpa using hc

theorem underscores_length (n : Nat) : (underscores n).length = n := by
  simp [underscores]

theorem genCand_inj (index : Nat) (a b : Nat) (h : genCand index a = genCand index b) : a = b := by
  have := congrArg String.length h
  simp [genCand, String.length_append, underscores_length] at this
  omega

theorem renCand_inj (base : String) (a b : Nat) (h : renCand base a = renCand base b) : a = b := by
  have := congrArg String.length h
  simp [renCand, String.length_append, underscores_length] at this
  omega

theorem genIdent_fresh (index : Nat) (taken : List String) :
    genIdent index taken (taken.length + 1) 0 ∉ taken := by
  rw [genIdent_eq]
  exact firstFree_fresh _ (genCand_inj index) taken _ 0 taken (fun _ _ h => h) (Nat.lt_succ_self _)

theorem renameIdent_fresh (base : String) (taken : List String) :
    renameIdent base taken (taken.length + 1) 1 ∉ taken := by
  rw [renameIdent_eq]
  exact firstFree_fresh _ (renCand_inj base) taken _ 1 taken (fun _ _ h => h) (Nat.lt_succ_self _)

/-! ### raw identifiers -/

/-- the string does not begin with `r#` -/
def NotRaw (s : String) : Prop := ∀ rest, s.toList ≠ 'r' :: '#' :: rest

theorem unraw_of_notRaw (s : String) (h : NotRaw s) : unraw s = s := by
  unfold unraw
  split
  · rename_i rest heq
    exact absurd heq (h rest)
  · rfl

theorem genCand_toList (index n : Nat) :
    (genCand index n).toList = List.replicate n '_' ++ ['a', 'r', 'g'] ++ (toString index).toList := by
  simp [genCand, underscores, String.toList_append]

theorem genCand_notRaw (index n : Nat) : NotRaw (genCand index n) := by
  intro rest h
  rw [genCand_toList] at h
  cases n with
  | zero => simp at h
  | succ k => simp [List.replicate_succ] at h

theorem renCand_notRaw (base : String) (hb : NotRaw base) (n : Nat) (hn : 1 ≤ n) : NotRaw (renCand base n) := by
  intro rest h
  have ht : (renCand base n).toList = base.toList ++ List.replicate n '_' := by
    simp [renCand, underscores, String.toList_append]
  rw [ht] at h
  obtain ⟨k, rfl⟩ : ∃ k, n = k + 1 := ⟨n - 1, by omega⟩
  match hbl : base.toList with
  | [] => rw [hbl] at h; simp [List.replicate_succ] at h
  | [c] =>
    rw [hbl] at h
    simp [List.replicate_succ] at h
  | c :: d :: tl =>
    rw [hbl] at h
    simp at h
    obtain ⟨rfl, rfl, _⟩ := h
    exact hb tl hbl

theorem renCand_ne_base (base : String) (n : Nat) (hn : 1 ≤ n) : renCand base n ≠ base := by
  intro h
  have := congrArg String.length h
  simp [renCand, String.length_append, underscores_length] at this
  omega

/-- what `genIdent` returns is a `_*argN` name -/
theorem genIdent_is_cand (index : Nat) (taken : List String) (fuel n : Nat) :
    ∃ k, genIdent index taken fuel n = genCand index k := by
  rw [genIdent_eq]
  obtain ⟨k, _, h⟩ := firstFree_is_cand (genCand index) taken fuel n
  exact ⟨k, h⟩

theorem renameIdent_is_cand (base : String) (taken : List String) (fuel n : Nat) (hn : 1 ≤ n) :
    ∃ k, 1 ≤ k ∧ renameIdent base taken fuel n = renCand base k := by
  rw [renameIdent_eq]
  obtain ⟨k, hk, h⟩ := firstFree_is_cand (renCand base) taken fuel n
  exact ⟨k, by omega, h⟩

end Entrait
