import EntraitProofs.Structure
/-
  The dependency analysis (`analyze_fn_deps`, `extract_deps_from_type`, `find_deps_generic_bounds`)
  agrees with the specification-side reading of a signature used by the property predicates:
  which bounds are declared on the dependency parameter, whether the dependency is concrete.
-/
namespace Entrait

theorem extractDeps_stripRefs (g : Generics) (tg : TraitGenerics) :
    ∀ ty : Ty, extractDepsFromType g tg ty = extractDepsFromType g tg ty.stripRefs := by
  intro ty
  induction ty with
  | implTrait => rfl
  | path => rfl
  | ref_ lt m e ih => simp only [extractDepsFromType, Ty.stripRefs]; exact ih
  | paren e ih => simp only [extractDepsFromType, Ty.stripRefs]; exact ih
  | other => rfl

/-- `findTypeParam` finds the first type parameter of that name -/
theorem findTypeParam_spec (ident : String) : ∀ (ps : List GParam) (k idx : Nat) (direct : List Toks),
    findTypeParam ident ps k = some (idx, direct) →
      ∃ a bt d, ps.find? (fun q => q.isType && q.name == ident) = some (.ty a ident direct bt d)
  | [], k, idx, direct, h => by simp [findTypeParam] at h
  | .ty a name bs bt d :: rest, k, idx, direct, h => by
      unfold findTypeParam at h
      split at h
      · rename_i hn
        have hn' : name = ident := by simpa using hn
        simp at h
        subst hn'
        exact ⟨a, bt, d, by simp [GParam.isType, GParam.name, h.2]⟩
      · rename_i hn
        obtain ⟨a', bt', d', ih⟩ := findTypeParam_spec ident rest (k + 1) idx direct h
        refine ⟨a', bt', d', ?_⟩
        rw [List.find?_cons_of_neg (by simpa [GParam.isType, GParam.name] using hn)]
        exact ih
  | .lt a n b t :: rest, k, idx, direct, h => by
      unfold findTypeParam at h
      obtain ⟨a', bt', d', ih⟩ := findTypeParam_spec ident rest (k + 1) idx direct h
      exact ⟨a', bt', d', by rw [List.find?_cons_of_neg (by simp [GParam.isType])]; exact ih⟩
  | .const_ a n t d :: rest, k, idx, direct, h => by
      unfold findTypeParam at h
      obtain ⟨a', bt', d', ih⟩ := findTypeParam_spec ident rest (k + 1) idx direct h
      exact ⟨a', bt', d', by rw [List.find?_cons_of_neg (by simp [GParam.isType])]; exact ih⟩

theorem findTypeParam_none (ident : String) : ∀ (ps : List GParam) (k : Nat),
    findTypeParam ident ps k = none → ps.any (fun q => q.isType && q.name == ident) = false
  | [], _, _ => rfl
  | .ty a name bs bt d :: rest, k, h => by
      unfold findTypeParam at h
      split at h
      · simp at h
      · rename_i hn
        have ih := findTypeParam_none ident rest (k + 1) h
        have : ((GParam.ty a name bs bt d).isType && (GParam.ty a name bs bt d).name == ident) = false := by
          simpa [GParam.isType, GParam.name] using hn
        simp [List.any_cons, this, ih]
  | .lt a n b t :: rest, k, h => by
      unfold findTypeParam at h
      have ih := findTypeParam_none ident rest (k + 1) h
      rw [List.any_cons, ih]; simp [GParam.isType]
  | .const_ a n t d :: rest, k, h => by
      unfold findTypeParam at h
      have ih := findTypeParam_none ident rest (k + 1) h
      rw [List.any_cons, ih]; simp [GParam.isType]

/-- one step of the where-clause walk -/
theorem walkWhere_cons (dep : String) (pred : WherePred) (rest : List WherePred) :
    (walkWhere dep (pred :: rest)).1 = depPredBounds dep pred ++ (walkWhere dep rest).1 := by
  cases pred with
  | other t => simp [walkWhere, depPredBounds]
  | ty lts bounded bounds bt =>
    cases bounded with
    | implTrait => simp [walkWhere, depPredBounds]
    | ref_ => simp [walkWhere, depPredBounds]
    | paren => simp [walkWhere, depPredBounds]
    | other => simp [walkWhere, depPredBounds]
    | path q l n f t =>
      cases q
      · cases l
        · by_cases hn : n = 1
          · subst hn
            by_cases hf : (f == dep) = true
            · simp [walkWhere, depPredBounds, hf]
            · have hf' : (f == dep) = false := by simpa using hf
              simp [walkWhere, depPredBounds, hf']
          · have hn' : (n != 1) = true := by simpa using hn
            have : depPredBounds dep (WherePred.ty lts (Ty.path false false n f t) bounds bt) = [] := by
              unfold depPredBounds
              split
              · rename_i heq; simp at heq; exact absurd heq.2.1.1 hn
              · rfl
            simp [walkWhere, hn', this]
        · simp [walkWhere, depPredBounds]
      · simp [walkWhere, depPredBounds]

/-- the where-clause walk collects exactly the bounds of predicates on the dependency identifier -/
theorem walkWhere_fst (dep : String) (preds : List WherePred) :
    (walkWhere dep preds).1 = preds.flatMap (depPredBounds dep) := by
  induction preds with
  | nil => rfl
  | cons pred rest ih => rw [walkWhere_cons, ih]; simp

/-- what the walk lifts to the trait are predicates of the function -/
theorem walkWhere_snd_subset (dep : String) : ∀ (preds : List WherePred), ∀ q ∈ (walkWhere dep preds).2, q ∈ preds
  | [], q, h => by simp [walkWhere] at h
  | pred :: rest, q, h => by
      have ih := walkWhere_snd_subset dep rest
      unfold walkWhere at h
      cases pred with
      | other t =>
        simp at h
        rcases h with rfl | h
        · exact List.mem_cons_self
        · exact List.mem_cons_of_mem _ (ih q h)
      | ty lts bounded bounds bt =>
        cases bounded with
        | path qs l n f t =>
          simp only at h
          split at h
          · simp at h
            rcases h with rfl | h
            · exact List.mem_cons_self
            · exact List.mem_cons_of_mem _ (ih q h)
          · split at h
            · simp at h
              rcases h with rfl | h
              · exact List.mem_cons_self
              · exact List.mem_cons_of_mem _ (ih q h)
            · split at h
              · exact List.mem_cons_of_mem _ (ih q h)
              · exact List.mem_cons_of_mem _ (ih q h)
        | implTrait =>
          simp at h
          rcases h with rfl | h
          · exact List.mem_cons_self
          · exact List.mem_cons_of_mem _ (ih q h)
        | ref_ =>
          simp at h
          rcases h with rfl | h
          · exact List.mem_cons_self
          · exact List.mem_cons_of_mem _ (ih q h)
        | paren =>
          simp at h
          rcases h with rfl | h
          · exact List.mem_cons_self
          · exact List.mem_cons_of_mem _ (ih q h)
        | other =>
          simp at h
          rcases h with rfl | h
          · exact List.mem_cons_self
          · exact List.mem_cons_of_mem _ (ih q h)

theorem depsWithGenerics_preds (g : Generics) (tg : TraitGenerics) :
    ∀ q ∈ (depsWithGenerics g tg).preds, q ∈ tg.preds ∨ q ∈ g.preds := by
  intro q hq
  simp only [depsWithGenerics, List.mem_append, List.mem_filter] at hq
  exact hq.imp id And.left

/-- result of the analysis on a type that is neither a reference nor parenthesised -/
theorem extractDeps_core {g : Generics} {tg tg' : TraitGenerics} {deps : FnDeps} {ty : Ty}
    (hty : ∀ lt m e, ty ≠ .ref_ lt m e) (hty2 : ∀ e, ty ≠ .paren e)
    (h : extractDepsFromType g tg ty = .ok (deps, tg')) :
    (∀ q bs, deps = .generic q bs → bs = ty.specDepBounds g ∧ ty.specConcrete g = false) ∧
    (∀ cty, deps = .concrete cty → cty = ty ∧ ty.specConcrete g = true) ∧
    (∀ q ∈ tg'.preds, q ∈ tg.preds ∨ q ∈ g.preds) := by
  cases ty with
  | ref_ lt m e => exact absurd rfl (hty lt m e)
  | paren e => exact absurd rfl (hty2 e)
  | implTrait bs tr =>
    simp [extractDepsFromType] at h
    obtain ⟨rfl, rfl⟩ := h
    refine ⟨?_, ?_, depsWithGenerics_preds g tg⟩
    · intro q b hq; injection hq with _ hb; subst hb; simp [Ty.specDepBounds, Ty.specConcrete]
    · intro c hc; cases hc
  | other t =>
    simp [extractDepsFromType] at h
    obtain ⟨rfl, rfl⟩ := h
    refine ⟨?_, ?_, depsWithGenerics_preds g tg⟩
    · intro q b hq; cases hq
    · intro c hc; injection hc with hc; subst hc; simp [Ty.specConcrete]
  | path qs l n f t =>
    unfold extractDepsFromType at h
    cases qs
    · cases l
      · simp only [Bool.false_eq_true, if_false] at h
        by_cases hn : n = 1
        · subst hn
          simp only [bne_self_eq_false, Bool.false_eq_true, if_false] at h
          cases hfd : findDepsGenericBounds g f tg with
          | none =>
            simp [hfd] at h
            obtain ⟨rfl, rfl⟩ := h
            have hnone : findTypeParam f g.params 0 = none := by
              unfold findDepsGenericBounds at hfd
              cases hft : findTypeParam f g.params 0 with
              | none => rfl
              | some r => simp [hft] at hfd
            have hany := findTypeParam_none f g.params 0 hnone
            refine ⟨?_, ?_, depsWithGenerics_preds g tg⟩
            · intro q b hq; cases hq
            · intro c hc; injection hc with hc; subst hc; simp [Ty.specConcrete, hany]
          | some r =>
            simp [hfd] at h
            subst h
            unfold findDepsGenericBounds at hfd
            cases hft : findTypeParam f g.params 0 with
            | none => simp [hft] at hfd
            | some ir =>
              obtain ⟨idx, direct⟩ := ir
              simp [hft] at hfd
              obtain ⟨rfl, rfl⟩ := hfd
              obtain ⟨a', bt', d', hfind⟩ := findTypeParam_spec f g.params 0 idx direct hft
              refine ⟨?_, ?_, ?_⟩
              · intro q b hq
                injection hq with _ hb
                subst hb
                have hany : g.params.any (fun p => p.isType && p.name == f) = true := by
                  rw [List.any_eq_true]
                  exact ⟨_, List.mem_of_find?_eq_some hfind, by simp [GParam.isType, GParam.name]⟩
                simp [Ty.specDepBounds, Ty.specConcrete, hfind, walkWhere_fst, hany]
              · intro c hc; cases hc
              · intro q hq
                simp at hq
                rcases hq with hq | hq
                · exact Or.inl hq
                · exact Or.inr (walkWhere_snd_subset f g.preds q hq.1)
        · have hn' : (n != 1) = true := by simpa using hn
          simp [hn'] at h
          obtain ⟨rfl, rfl⟩ := h
          refine ⟨?_, ?_, depsWithGenerics_preds g tg⟩
          · intro q b hq; cases hq
          · intro c hc; injection hc with hc; subst hc
            refine ⟨rfl, ?_⟩
            unfold Ty.specConcrete
            split
            · rename_i heq; simp at heq
            · rename_i heq; simp at heq; exact absurd heq.1 hn
            · rfl
      · simp at h
    · simp at h

theorem stripRefs_not_ref (ty : Ty) : (∀ lt m e, ty.stripRefs ≠ .ref_ lt m e) ∧ (∀ e, ty.stripRefs ≠ .paren e) := by
  induction ty with
  | implTrait => simp [Ty.stripRefs]
  | path => simp [Ty.stripRefs]
  | ref_ lt m e ih => simpa [Ty.stripRefs] using ih
  | paren e ih => simpa [Ty.stripRefs] using ih
  | other => simp [Ty.stripRefs]

/-- the dependency analysis agrees with the specification-side reading of the signature -/
theorem analyzeFnDeps_spec {sig : Sig} {opts : Opts} {tg tg' : TraitGenerics} {deps : FnDeps}
    (h : analyzeFnDeps sig opts tg = .ok (deps, tg')) (hn : opts.noDepsValue = false) :
    (∀ q bs, deps = .generic q bs → bs = sig.declaredDepBounds ∧ sig.depIsConcrete = false) ∧
    (∀ cty, deps = .concrete cty → sig.depIsConcrete = true ∧
        ∃ a pt t0 rest, sig.inputs = .typed a pt t0 :: rest ∧ cty = t0.stripRefs) ∧
    (∀ q ∈ tg'.preds, q ∈ tg.preds ∨ q ∈ sig.generics.preds) := by
  unfold analyzeFnDeps at h
  simp only [hn, Bool.false_eq_true, if_false] at h
  split at h
  · simp at h
  · simp at h
  · rename_i a pt ty rest heq
    rw [extractDeps_stripRefs] at h
    obtain ⟨h1, h2, h3⟩ := extractDeps_core (stripRefs_not_ref ty).1 (stripRefs_not_ref ty).2 h
    refine ⟨?_, ?_, h3⟩
    · intro q bs hq
      have := h1 q bs hq
      simp only [Sig.declaredDepBounds, Sig.depIsConcrete, heq]
      exact this
    · intro cty hc
      have := h2 cty hc
      simp only [Sig.depIsConcrete, heq]
      exact ⟨this.2, a, pt, ty, rest, rfl, this.1⟩

end Entrait
