import EntraitProofs.C12
import EntraitProofs.C10
/-
  C09 — an entraited trait definition is preserved.

  `T_C09_partial`: the trait that results from `#[entrait] trait T` has the user's name,
  visibility, generic parameters, supertraits and where clause (token for token, including
  trailing punctuation); every attribute on it is either one the user wrote or a mock derivation
  the macro owns; and its methods are, in order, the user's methods with their attributes and
  their signature — identical, except for the one documented rewrite of an `async fn` declaration
  (no `async_trait` in force) into `fn -> impl ::core::future::Future<Output = R> [+ Send]`.

  Every attribute of the trait is kept (`attrs_kept`, since fix 58615e0).
  The property as stated also demands `unsafe`ness, default method bodies and associated types.
  The macro does **not** preserve these: `C09_unsafe_dropped`, `C09_default_dropped`, `C09_assoc_dropped` prove it
  of the model on concrete witnesses (the same witnesses are replayed on the real macro by the
  check and recorded as known findings).  Hence `_partial`.
-/
namespace Entrait.C09
open Entrait

theorem mem_mockKind_of_kinds {as : List Attr} {a : Attr} (ha : a ∈ as)
    (hk : ∀ x ∈ as, x.mockKind.isSome = true) : a.mockKind.isSome = true := hk a ha

theorem unimockAttr_mock (opts : Opts) (ind : TraitIndirection) (mode fns) :
    ∀ a ∈ unimockAttrOf opts ind mode fns, a.mockKind.isSome = true := by
  unfold unimockAttrOf
  intro a ha
  cases hu : opts.unimockValue
  · simp [hu] at ha
  · simp only [hu, if_true] at ha
    cases hp : unimockParams ind opts.mockApi mode fns with
    | none => simp [hp] at ha
    | some ps =>
      obtain ⟨x, rfl⟩ := C10.unimockParams_shape hp
      simp only [hp, List.mem_singleton] at ha
      subst ha
      simp [C10.mockKind_gated_unimock]

theorem mockallAttr_mock (opts : Opts) : ∀ a ∈ mockallAttrOf opts, a.mockKind.isSome = true := by
  unfold mockallAttrOf
  intro a ha
  cases hm : opts.mockallValue
  · simp [hm] at ha
  · simp only [hm, if_true, List.mem_singleton] at ha
    subst ha
    simp [C10.mockKind_gated_mockall]

theorem declRewritten_eq (t : TraitItem) (o : Opts) (s : Sig) :
    makeTraitFnSig s t.attrs o = declRewritten (containsAsyncTrait t.attrs) o.futureSendValue s := by
  unfold makeTraitFnSig declRewritten
  cases ha : s.async_ <;> cases hc : containsAsyncTrait t.attrs <;>
    cases hs : o.futureSendValue <;> simp [futureWrapper, joinSep]

theorem members_ok (t : TraitItem) (o : Opts) (fs : List TraitFnItem) :
    zipAll (declMemberOk (containsAsyncTrait t.attrs) o.futureSendValue) fs
      (((fs.map traitFnOf).map fun tf => GenMember.fn tf.attrs (makeTraitFnSig tf.sig t.attrs o) none).filter
        (fun m => m.sig?.isSome)) = true := by
  induction fs with
  | nil => rfl
  | cons f rest ih =>
    simp only [List.map_cons, List.filter_cons, GenMember.sig?, Option.isSome_some, if_true, zipAll, Bool.and_eq_true]
    exact ⟨by simp [declMemberOk, traitFnOf, declRewritten_eq], ih⟩

/-- since fix 58615e0 every attribute of the entraited trait is kept, in order, after the macro's own -/
theorem attrs_kept (opts : Opts) (t : TraitItem) (vis ident tg sup fns) :
    t.attrs.isSublist (genTraitDef opts .trait .generic t.attrs vis ident tg sup fns .rawTrait).attrs = true := by
  simp only [genTraitDef, reappliedSubs_rawTrait]
  rw [List.isSublist_iff_sublist]
  exact List.sublist_append_of_sublist_right (List.Sublist.refl _)

theorem T_C09_partial (v : Variant) (attr : Toks) (item : Item) (out : Out)
    (h : expand v attr item = .ok out) : P_C09 v attr item out.view = true := by
  cases item with
  | fn f => rfl
  | mod_ m => rfl
  | impl m => rfl
  | trait t =>
    obtain ⟨a0, fns, delegation, h1, h2, _, rfl⟩ := expandTrait_ok h
    have hf := analyzeTraitMembers_ok _ _ h2
    subst hf
    simp only [P_C09, effectiveOpts, h1, Out.view, View.items, Out.inside, Out.after, mainTrait?, List.nil_append,
      List.cons_append, traitsOf, List.head?_cons, List.append_nil]
    have hm := members_ok t (v.apply a0.opts) t.fns
    simp only [Bool.and_eq_true]
    refine ⟨⟨⟨?_, ?_⟩, attrs_kept _ t _ _ _ _ _⟩, ?_⟩
    · simp [genTraitDef, traitVisibility, traitTg, traitSup]
    · simp only [genTraitDef, entraitAttrOf, List.append_nil, List.all_eq_true, List.mem_append, Bool.or_eq_true]
      intro a ha
      rcases ha with (ha | ha) | ha
      · exact Or.inr (unimockAttr_mock _ _ _ _ a ha)
      · exact Or.inr (mockallAttr_mock _ a ha)
      · left
        simpa using mem_reappliedSubs ha
    · simpa [genTraitDef, TraitItem.fns] using hm

/-! ### what the unchanged macro does not preserve (negations, by evaluation) -/

def witnessOut (t : TraitItem) : Option GenTrait :=
  match expand .plain [] (.trait t) with
  | .ok out => mainTrait? out.view
  | _ => none

def wMethod : TraitFnItem := { sig := { ident := "m", inputs := [.recv [] (some none) false none] } }

/-- `unsafe trait Tr { fn m(&self); }` is re-emitted without `unsafe` (a `GenTrait` has no such field:
    the printed trait starts with its visibility and `trait`) -/
theorem C09_unsafe_dropped :
    ((witnessOut { ident := "Tr", unsafe_ := true, members := [.fn wMethod] }).map (fun g => (g.print.take 2))) =
      some [i "trait", i "Tr"] := by decide +kernel

/-- `trait Tr { fn m(&self) { } }`: the default body is dropped -/
theorem C09_default_dropped :
    F_C09_default (.trait { ident := "Tr", members := [.fn { wMethod with default := some [] }] })
      (match expand .plain [] (.trait { ident := "Tr", members := [.fn { wMethod with default := some [] }] }) with
       | .ok out => out.view | _ => {}) = true := by decide +kernel

/-- `trait Tr { type Out; fn m(&self); }`: the associated type is dropped -/
theorem C09_assoc_dropped :
    F_C09_assoc (.trait { ident := "Tr", members := [.type_ [i "type", i "Out", p ';'], .fn wMethod] })
      (match expand .plain [] (.trait { ident := "Tr", members := [.type_ [i "type", i "Out", p ';'], .fn wMethod] }) with
       | .ok out => out.view | _ => {}) = true := by decide +kernel

end Entrait.C09
