import EntraitProofs.C12
/-
  C12 read semantically: *`Send` by default, opt-out honoured*.

  `T_C12` pins the tokens of an async method's declaration: `fn m(..) -> impl ::core::future::Future<Output = R>
  [+ ::core::marker::Send]`.  This file adds the step from those tokens to the obligation they create, which
  does not need rustc.  Whether the future of an implementing `async fn` *is* `Send` is rustc's inference over
  the body (`futSend`, abstract here).  An implementation of a method declared with return type `ret` is
  accepted iff the declaration does not demand `Send` or the future has it; a caller of the trait method may
  rely on `Send` iff the declaration demands it.

  * `requiresSend_wrapper`: the rewritten return type demands `Send` iff `send`.
  * `T_C12_view` / `T_C12_sem`: for every generated trait that re-declares the source methods (on any view on
    which `P_C12` holds / on `expand`'s output), when `async_trait` is not in use, every async source method
    is declared non-async with a return type that demands `Send` **iff** `?Send` was not given, and whose
    `Output` is the source's return type (`()` when omitted).
  * `optOut_accepts_everything`: under `?Send` every implementation is accepted whatever its future is;
    `default_accepts_iff_send`: by default exactly those whose future is `Send`, and callers may rely on it.
-/
namespace Entrait.C12Sem
open Entrait

/-- does a declared return type demand `Send` of the future?  (the bound list of `impl Future<..> + ..` ends in it) -/
def requiresSend (ret : Toks) : Bool := ret.getLast? == some (.ident "Send")

/-- an implementing `async fn` whose future is `Send` iff `futSend` is accepted for the declaration `ret` -/
def implAccepted (ret : Toks) (futSend : Bool) : Bool := !requiresSend ret || futSend

/-- a caller may spawn the returned future onto a multi-threaded executor -/
def callerMayAssumeSend (ret : Toks) : Bool := requiresSend ret

theorem requiresSend_wrapper (o : Option Toks) (send : Bool) : requiresSend (futureWrapper o send) = send := by
  have key : ∀ (xs : Toks) (y : TT), (xs ++ [y]).getLast? = some y := by simp
  cases send
  · have e : futureWrapper o false =
        (i "impl" :: (futurePath ++ [p '<', i "Output", p '='] ++ o.getD [parens []])) ++ [p '>'] := by
      simp [futureWrapper]
    rw [requiresSend, e, key]; rfl
  · have e : futureWrapper o true =
        (i "impl" :: (futurePath ++ [p '<', i "Output", p '='] ++ o.getD [parens []] ++
          [p '>', p '+', p ':', p ':', i "core", p ':', p ':', i "marker", p ':', p ':'])) ++ [TT.ident "Send"] := by
      simp [futureWrapper, sendToks, corePath, pathSep, i, p]
    rw [requiresSend, e, key]; rfl

theorem optOut_accepts_everything (o : Option Toks) (futSend : Bool) :
    implAccepted (futureWrapper o false) futSend = true := by
  simp [implAccepted, requiresSend_wrapper]

theorem default_accepts_iff_send (o : Option Toks) (futSend : Bool) :
    implAccepted (futureWrapper o true) futSend = futSend ∧ callerMayAssumeSend (futureWrapper o true) = true := by
  simp [implAccepted, callerMayAssumeSend, requiresSend_wrapper]

/-- all pairs of a `zipAll` -/
theorem zipAll_forall {α β : Type} (f : α → β → Bool) : ∀ (as : List α) (bs : List β), zipAll f as bs = true →
    ∀ ab ∈ as.zip bs, f ab.1 ab.2 = true
  | [], [], _ => by simp
  | [], _ :: _, h => by simp [zipAll] at h
  | _ :: _, [], h => by simp [zipAll] at h
  | a :: as, b :: bs, h => by
      simp only [zipAll, Bool.and_eq_true] at h
      intro ab hab
      simp only [List.zip_cons_cons, List.mem_cons] at hab
      rcases hab with rfl | hab
      · exact h.1
      · exact zipAll_forall f as bs h.2 ab hab

/-- **C12, semantically, for any view on which `P_C12` holds** -/
theorem T_C12_view (v : Variant) (attr : Toks) (item : Item) (view : View) (h : P_C12 v attr item view = true)
    (o : Opts) (ho : effectiveOpts v attr item = some o) (hat : containsAsyncTrait item.attrs = false) :
    ∀ t ∈ traitsOf view.items, (isSelectorLike t && t.attrs.isEmpty) = false →
      ∀ sm ∈ item.srcSigs.zip (t.members.filter (fun m => m.sig?.isSome)), sm.1.async_ = true →
        ∃ g, sm.2.sig? = some g ∧ g.async_ = false ∧
          g.output = some (futureWrapper sm.1.output o.futureSendValue) ∧
          requiresSend (futureWrapper sm.1.output o.futureSendValue) = o.futureSendValue ∧
          (∀ futSend, implAccepted (futureWrapper sm.1.output o.futureSendValue) futSend
              = (!o.futureSendValue || futSend)) := by
  intro t ht hsel sm hsm hasync
  unfold P_C12 at h
  rw [ho] at h
  simp only [Bool.and_eq_true, List.all_eq_true] at h
  have h1 := h.1 t ht
  rw [hsel, Bool.false_or, Bool.and_eq_true] at h1
  have hp := zipAll_forall _ _ _ h1.1 sm hsm
  unfold asyncDeclOkM at hp
  cases hg : sm.2.sig? with
  | none => simp [hg] at hp
  | some g =>
    simp only [hg, asyncDeclOk, hasync, hat, Bool.and_false, Bool.not_false, Bool.and_true, Bool.and_eq_true,
      beq_iff_eq, if_true] at hp
    refine ⟨g, rfl, hp.1, hp.2, requiresSend_wrapper _ _, ?_⟩
    intro fs
    simp [implAccepted, requiresSend_wrapper]

/-- **C12, semantically, for the model's expansion** -/
theorem T_C12_sem (v : Variant) (attr : Toks) (item : Item) (out : Out) (h : expand v attr item = .ok out)
    (o : Opts) (ho : effectiveOpts v attr item = some o) (hat : containsAsyncTrait item.attrs = false) :
    ∀ t ∈ traitsOf out.view.items, (isSelectorLike t && t.attrs.isEmpty) = false →
      ∀ sm ∈ item.srcSigs.zip (t.members.filter (fun m => m.sig?.isSome)), sm.1.async_ = true →
        ∃ g, sm.2.sig? = some g ∧ g.async_ = false ∧
          g.output = some (futureWrapper sm.1.output o.futureSendValue) ∧
          requiresSend (futureWrapper sm.1.output o.futureSendValue) = o.futureSendValue ∧
          (∀ futSend, implAccepted (futureWrapper sm.1.output o.futureSendValue) futSend
              = (!o.futureSendValue || futSend)) :=
  T_C12_view v attr item out.view (C12.T_C12 v attr item out h) o ho hat

/-- non-vacuity: the two declarations -/
example : requiresSend (futureWrapper (some [i "u8"]) true) = true ∧ requiresSend (futureWrapper none false) = false ∧
    implAccepted (futureWrapper none false) false = true ∧ implAccepted (futureWrapper none true) false = false := by
  decide +kernel

end Entrait.C12Sem
