import EntraitProofs.FnMode
import EntraitProofs.ImplMode
import EntraitProofs.Examples
/-
  C12 — async methods: exact Output type, Send by default, opt-out honoured.

  `T_C12`: without an `async_trait` sub-attribute every async source method is *declared* (in the
  generated / re-emitted trait and in the delegation-target trait) as a non-async fn returning
      impl ::core::future::Future<Output = R> [+ ::core::marker::Send]
  with `R` the declared return type (`()` if omitted) and the `Send` bound present iff `?Send` was
  not given, while the delegating impl keeps `async fn … -> R` and its body ends in `.await`;
  non-async methods are untouched.  With `async_trait` present the signatures are unchanged and
  that attribute is re-applied to the generated trait(s) and impl, and nowhere else.
-/
namespace Entrait.C12
open Entrait

/-- the declaration rewrite is exactly the documented one -/
theorem makeTraitFnSig_spec (sig : Sig) (subAttrs : List Attr) (opts : Opts) :
    (makeTraitFnSig sig subAttrs opts).async_ = (sig.async_ && containsAsyncTrait subAttrs) ∧
    (makeTraitFnSig sig subAttrs opts).output =
      (if sig.async_ && !containsAsyncTrait subAttrs then some (futureWrapper sig.output opts.futureSendValue) else sig.output) := by
  unfold makeTraitFnSig
  cases ha : sig.async_ <;> cases hc : containsAsyncTrait subAttrs <;>
    cases hs : opts.futureSendValue <;> simp [futureWrapper, joinSep, ha]

theorem body_await (pre : Toks) (f : String) (args : Toks) (isAsync : Bool) :
    ((pre ++ [i f, parens args] ++ (if isAsync then [p '.', i "await"] else [])).drop
      ((pre ++ [i f, parens args] ++ (if isAsync then [p '.', i "await"] else [])).length - 2)
        == [p '.', i "await"]) = isAsync := by
  cases isAsync
  · simp [i, p, parens]
  · simp

/-! ### attributes -/

theorem subKind_gated_unimock (e : Bool) (x : Toks) :
    (exportGated e (unimockPath ++ [parens x])).subKind ≠ .asyncTrait := by
  have h : (exportGated e (unimockPath ++ [parens x])).subKind = .other := by cases e <;> rfl
  rw [h]; decide

theorem subKind_gated_mockall (e : Bool) : (exportGated e mockallPath).subKind ≠ .asyncTrait := by cases e <;> decide

theorem subKind_entraitAttr : entraitForTraitAttr.subKind ≠ .asyncTrait := by decide

theorem unimockParams_shape' {ind mockApi mode fns ps}
    (h : unimockParams ind mockApi mode fns = some ps) : ∃ x, ps = unimockPath ++ [parens x] := by
  unfold unimockParams at h
  split at h
  · simp at h
  · injection h with h
    exact ⟨_, h.symm⟩

theorem generated_attrs_not_asyncTrait (opts : Opts) (ind : TraitIndirection) (mode : InputMode) (fns : List TraitFn)
    (depMode : DepMode) :
    ∀ a ∈ unimockAttrOf opts ind mode fns ++ entraitAttrOf depMode ++ mockallAttrOf opts, a.subKind ≠ .asyncTrait := by
  intro a ha
  simp only [List.mem_append] at ha
  rcases ha with (ha | ha) | ha
  · unfold unimockAttrOf at ha
    split at ha
    · split at ha
      · rename_i ps hp
        obtain ⟨x, rfl⟩ := unimockParams_shape' hp
        simp at ha; subst ha; exact subKind_gated_unimock _ _
      · simp at ha
    · simp at ha
  · unfold entraitAttrOf at ha
    split at ha
    · simp at ha; subst ha; exact subKind_entraitAttr
    · simp at ha
  · unfold mockallAttrOf at ha
    split at ha
    · simp at ha; subst ha; exact subKind_gated_mockall _
    · simp at ha

theorem asyncAttrsOk_append (itemAttrs gen subs : List Attr)
    (hgen : ∀ a ∈ gen, a.subKind ≠ .asyncTrait)
    (hsubs1 : ∀ a ∈ itemAttrs, a.subKind = .asyncTrait → a ∈ subs)
    (hsubs2 : ∀ a ∈ subs, a ∈ itemAttrs) :
    asyncAttrsOk itemAttrs (gen ++ subs) = true := by
  unfold asyncAttrsOk
  simp only [Bool.and_eq_true, List.all_eq_true, List.mem_filter, List.contains_iff_mem, List.mem_append,
    Bool.or_eq_true, bne_iff_ne, beq_iff_eq, and_imp]
  constructor
  · intro a ha hk; exact Or.inr (hsubs1 a ha hk)
  · intro a ha
    rcases ha with ha | ha
    · left; exact hgen a ha
    · right; exact hsubs2 a ha

theorem asyncAttrsOk_genTraitDef (opts ind depMode vis ident tg sup fns mode) (itemAttrs : List Attr) :
    asyncAttrsOk itemAttrs (genTraitDef opts ind depMode itemAttrs vis ident tg sup fns mode).attrs = true := by
  simp only [genTraitDef]
  apply asyncAttrsOk_append
  · exact generated_attrs_not_asyncTrait opts ind mode fns depMode
  · intro a ha hk
    exact reappliedSubs_async ha hk
  · intro a ha
    exact mem_reappliedSubs ha

theorem asyncAttrsOk_filter (itemAttrs : List Attr) :
    asyncAttrsOk itemAttrs (itemAttrs.filter (fun a => a.subKind == .asyncTrait)) = true := by
  have := asyncAttrsOk_append itemAttrs [] (itemAttrs.filter (fun a => a.subKind == .asyncTrait))
    (by simp) (by intro a ha hk; simp [ha, hk]) (by intro a ha; exact (List.mem_filter.mp ha).1)
  simpa using this

/-! ### per method -/

theorem asyncImplOk_delegating (mode : InputMode) (ind : ImplIndirection) (src : Sig) (tf : TraitFn)
    (h1 : tf.sig.async_ = src.async_) (h2 : tf.sig.output = src.output) (h3 : tf.originallyAsync = src.async_) (as : List Attr := []) :
    asyncImplOk src (.fn as tf.sig (some (delegatingBody mode ind tf))) = true := by
  unfold asyncImplOk delegatingBody
  simp only [h1, h2, h3, beq_self_eq_true, Bool.true_and]
  have := body_await (if (mode == InputMode.implBlock) = true then [i "Self"] ++ pathSep else []) tf.sig.ident
    (selfCommaOf ind tf ++ joinSep [p ','] ((paramIdents tf.sig.inputs).map fun a => [i a])) src.async_
  simpa using this

theorem asyncDeclOk_make (itemAttrs : List Attr) (opts : Opts) (src : Sig) (tf : TraitFn)
    (h1 : tf.sig.async_ = src.async_) (h2 : tf.sig.output = src.output) :
    asyncDeclOk (containsAsyncTrait itemAttrs) opts.futureSendValue src (makeTraitFnSig tf.sig itemAttrs opts) = true := by
  obtain ⟨ha, ho⟩ := makeTraitFnSig_spec tf.sig itemAttrs opts
  unfold asyncDeclOk
  rw [ha, ho, h1, h2]
  simp

/-! ### the theorem -/

theorem filter_sig_all (fns : List TraitFn) (g : TraitFn → GenMember) (hg : ∀ tf, (g tf).sig?.isSome = true) :
    (fns.map g).filter (fun m => m.sig?.isSome) = fns.map g := by
  apply List.filter_eq_self.mpr
  intro m hm
  obtain ⟨tf, _, rfl⟩ := List.mem_map.mp hm
  exact hg tf

theorem T_C12_fn (v : Variant) (attr : Toks) (f : FnItem) (out : Out)
    (h : expand v attr (.fn f) = .ok out) : P_C12 v attr (.fn f) out.view = true := by
  obtain ⟨a, tf, tg, depMode, implBlock, h1, h2, _, h4, rfl⟩ := expandFn_ok h
  have hs := fnModeSpec h2
  have him := genImplBlock_ok h4
  simp only [P_C12, effectiveOpts, h1, Out.view, View.items, Out.inside, Out.after, List.nil_append, traitsOf, implsOf,
    mainImpl?, List.getLast?_singleton, Item.srcSigs, Item.sourceFns, Item.attrs, List.all_cons, List.all_nil,
    Bool.and_true, Bool.and_eq_true, List.map_cons, List.map_nil]
  constructor
  · rw [Bool.or_eq_true]; right
    rw [Bool.and_eq_true]
    refine ⟨?_, asyncAttrsOk_genTraitDef ..⟩
    simp only [genTraitDef, List.map_cons, List.map_nil, List.filter_cons, GenMember.sig?, Option.isSome_some, if_true,
      List.filter_nil, zipAll_singleton, asyncDeclOkM]
    exact asyncDeclOk_make f.attrs (v.apply a.opts) f.sig tf hs.async_ hs.output
  · rw [him]
    simp only [List.map_cons, List.map_nil, zipAll_singleton]
    exact ⟨asyncImplOk_delegating _ _ f.sig tf hs.async_ hs.output hs.origAsync, asyncAttrsOk_filter _⟩

theorem T_C12_mod (v : Variant) (attr : Toks) (m : ModItemIn) (out : Out)
    (h : expand v attr (.mod_ m) = .ok out) : P_C12 v attr (.mod_ m) out.view = true := by
  simp only [expand] at h
  split at h
  · simp at h
  · obtain ⟨items, a, fns0, fns, tg, depMode, implBlock, h0, h1, h2, hfns, _, h4, rfl⟩ := expandMod_ok h
    subst hfns
    have him := genImplBlock_ok h4
    simp only [P_C12, effectiveOpts, h1, Out.view, View.items, Out.inside, Out.after, traitsOf, implsOf, List.cons_append,
      List.nil_append, mainImpl?, List.getLast?_singleton, Item.srcSigs, Item.sourceFns, h0, Item.attrs, List.all_cons,
      List.all_nil, Bool.and_true, Bool.and_eq_true]
    constructor
    · rw [Bool.or_eq_true]; right
      rw [Bool.and_eq_true]
      refine ⟨?_, asyncAttrsOk_genTraitDef ..⟩
      simp only [genTraitDef]
      rw [filter_sig_all _ _ (fun _ => rfl), zipAll_map_right]
      simp only [asyncDeclOkM, GenMember.sig?]
      exact analyzeFns_zip_cfg .selfRef (v.apply a.opts)
        (fun s tf => asyncDeclOk (containsAsyncTrait m.attrs) (v.apply a.opts).futureSendValue s
          (makeTraitFnSig tf.sig m.attrs (v.apply a.opts))) (fun _ _ _ => rfl) _ {} tg fns0 _
        (by
          intro s _ tg0 tf tg1 han
          have hs := fnModeSpec han
          exact asyncDeclOk_make m.attrs (v.apply a.opts) s tf hs.async_ hs.output) h2
    · rw [him]
      simp only [zipAll_map_right]
      exact ⟨analyzeFns_zip_cfg .selfRef (v.apply a.opts)
        (fun s tf => asyncImplOk s (.fn tf.attrs tf.sig (some (delegatingBody .module .none tf)))) (fun _ _ _ => rfl) _ {} tg fns0 _
        (by
          intro s _ tg0 tf tg1 han
          have hs := fnModeSpec han
          exact asyncImplOk_delegating _ _ s tf hs.async_ hs.output hs.origAsync tf.attrs) h2, asyncAttrsOk_filter _⟩

theorem T_C12_impl (v : Variant) (attr : Toks) (m : ImplItemIn) (out : Out)
    (h : expand v attr (.impl m) = .ok out) : P_C12 v attr (.impl m) out.view = true := by
  obtain ⟨items, a, fns0, fns, tg, depMode, implBlock, h0, h1, h2, hfns, _, h4, rfl⟩ := expandImpl_ok h
  subst hfns
  have him := genImplBlock_ok h4
  have hnd : (v.apply a.opts).noDepsValue = false := impl_noDepsValue h1
  simp only [P_C12, effectiveOpts, h1, Out.view, View.items, Out.inside, Out.after, traitsOf, implsOf,
    List.nil_append, mainImpl?, List.getLast?_singleton, Item.srcSigs, Item.sourceFns, h0, Item.attrs,
    List.all_nil, Bool.true_and, Bool.and_eq_true]
  rw [him]
  simp only [zipAll_map_right]
  exact ⟨analyzeFns_zip_cfg _ (v.apply a.opts)
    (fun s tf => asyncImplOk s (.fn tf.attrs tf.sig (some (delegatingBody .implBlock
      (if a.dynRef then .dynamic m.selfTy else .static_ m.selfTy) tf)))) (fun _ _ _ => rfl) _ {} tg fns0 _
    (by
      intro s _ tg0 tf tg1 han
      have hs := implModeSpec hnd han
      exact asyncImplOk_delegating _ _ s tf hs.async_ hs.output hs.origAsync tf.attrs) h2, asyncAttrsOk_filter _⟩

/-! ### trait mode -/

theorem containsAsyncTrait_filter (as : List Attr) :
    containsAsyncTrait (as.filter (fun a => a.subKind == .asyncTrait)) = containsAsyncTrait as := by
  unfold containsAsyncTrait
  induction as with
  | nil => rfl
  | cons a rest ih =>
    by_cases h : (a.subKind == SubKind.asyncTrait) = true
    · simp [List.filter_cons, h, ih]
    · have h' : (a.subKind == SubKind.asyncTrait) = false := by simpa using h
      simp only [List.filter_cons, h', List.any_cons, Bool.false_or]
      simpa using ih

/-- declarations of the methods of an entraited trait, possibly with rewritten receivers -/
theorem traitDecls_ok (opts : Opts) (itemAttrs subAttrs : List Attr)
    (hAT : containsAsyncTrait subAttrs = containsAsyncTrait itemAttrs) (send : Bool) (hsend : opts.futureSendValue = send)
    (g : TraitFn → TraitFn) (hg : ∀ tf, (g tf).sig.async_ = tf.sig.async_ ∧ (g tf).sig.output = tf.sig.output) :
    ∀ (fs : List TraitFnItem),
      zipAll (asyncDeclOkM (containsAsyncTrait itemAttrs) send)
        (fs.map (·.sig))
        ((((fs.map traitFnOf).map g).map fun tf => GenMember.fn tf.attrs (makeTraitFnSig tf.sig subAttrs opts) none).filter
          (fun m => m.sig?.isSome)) = true
  | [] => rfl
  | f :: rest => by
      simp only [List.map_cons, List.filter_cons, GenMember.sig?, Option.isSome_some, if_true, zipAll, Bool.and_eq_true,
        asyncDeclOkM]
      refine ⟨?_, traitDecls_ok opts itemAttrs subAttrs hAT send hsend g hg rest⟩
      have := asyncDeclOk_make subAttrs opts f.sig (g (traitFnOf f)) (hg _).1 (hg _).2
      rw [hAT, hsend] at this
      exact this

theorem delegationCall_tail (attr : TraitAttr) (ca : Bool) (f : String) (args : List String) :
    ∃ pre a, delegationCall attr ca f args = pre ++ [i f, parens a] := by
  unfold delegationCall
  split
  · rename_i x1 x2 fst implIdent ident _ _
    exact ⟨[p '<', i entraitT] ++ pathSep ++ [i "Target", i "as", i implIdent, p '<', i entraitT, p '>', p '>'] ++ pathSep,
      [i "self", p ','] ++ argList args, by simp [List.append_assoc]⟩
  · rename_i x1 x2 fst implIdent borrow _ _
    exact ⟨[p '<', i entraitT, i "as"] ++ (if borrow then borrowPath else asRefPath) ++ [p '<'] ++
      dynTarget implIdent ca ++ [p '>', p '>'] ++ pathSep ++
      [i (if borrow then "borrow" else "as_ref"), parens [p '&', p '*', i "self"], p '.'],
      [i "self", p ','] ++ argList args, by simp [List.append_assoc]⟩
  · exact ⟨[i "self", p '.', i "as_ref", parens [], p '.', i "as_ref", parens [], p '.'], _, rfl⟩
  · exact ⟨[i "self", p '.', i "as_ref", parens [], p '.', i "borrow", parens [], p '.'], _, rfl⟩
  · exact ⟨[i "self", p '.', i "as_ref", parens [], p '.'], _, rfl⟩

theorem asyncImplOk_delegationMethod (attr : TraitAttr) (ca : Bool) (tf : TraitFn) (src : Sig)
    (h1 : tf.sig.async_ = src.async_) (h2 : tf.sig.output = src.output) (h3 : tf.originallyAsync = src.async_) :
    asyncImplOk src (delegationMethod attr ca tf) = true := by
  obtain ⟨pre, a, hc⟩ := delegationCall_tail attr ca tf.sig.ident
    (paramIdents (fixParams tf.sig.ident tf.sig.inputs))
  have hb := body_await pre tf.sig.ident a tf.originallyAsync
  unfold delegationMethod asyncImplOk
  simp only
  rw [hc, hb]
  simp [h1, h2, h3]

theorem asyncAttrsOk_of (itemAttrs L : List Attr)
    (h1 : ∀ a ∈ itemAttrs, a.subKind = .asyncTrait → a ∈ L)
    (h2 : ∀ a ∈ L, a.subKind ≠ .asyncTrait ∨ a ∈ itemAttrs) : asyncAttrsOk itemAttrs L = true := by
  unfold asyncAttrsOk
  simp only [Bool.and_eq_true, List.all_eq_true, List.mem_filter, List.contains_iff_mem,
    Bool.or_eq_true, bne_iff_ne, beq_iff_eq, and_imp]
  exact ⟨fun a ha hk => h1 a ha hk, fun a ha => h2 a ha⟩

theorem noMock_futureSend (o : Opts) : (noMockOpts o).futureSendValue = o.futureSendValue := rfl

/-- the delegation-target trait of an entraited trait -/
theorem delegTrait_ok (opts : Opts) (ind : TraitIndirection) (t : TraitItem)
    (g : TraitFn → TraitFn) (hg : ∀ tf, (g tf).sig.async_ = tf.sig.async_ ∧ (g tf).sig.output = tf.sig.output)
    (fs : List TraitFnItem) (members : List GenMember) (attrs : List Attr)
    (hm : members = ((fs.map traitFnOf).map g).map
      (fun tf => GenMember.fn tf.attrs (makeTraitFnSig tf.sig (traitImplSubAttrs t) (noMockOpts opts)) none))
    (ha : attrs = traitImplSubAttrs t ++
      (unimockAttrOf (noMockOpts opts) ind .rawTrait ((fs.map traitFnOf).map g) ++ entraitAttrOf .generic ++
        mockallAttrOf (noMockOpts opts) ++ reappliedSubs .rawTrait (traitImplSubAttrs t))) :
    (zipAll (asyncDeclOkM (containsAsyncTrait t.attrs) opts.futureSendValue) (fs.map (·.sig))
        (members.filter (fun m => m.sig?.isSome)) &&
      asyncAttrsOk t.attrs attrs) = true := by
  rw [Bool.and_eq_true]
  constructor
  · rw [hm]
    exact traitDecls_ok (noMockOpts opts) t.attrs (traitImplSubAttrs t)
      (containsAsyncTrait_filter t.attrs) opts.futureSendValue (noMock_futureSend opts) g hg fs
  · rw [ha]
    apply asyncAttrsOk_of
    · intro a ha hk
      simp only [List.mem_append]
      left
      simp [traitImplSubAttrs, ha, hk]
    · intro a ha
      simp only [List.mem_append] at ha
      rcases ha with ha | ha
      · right; exact (List.mem_filter.mp ha).1
      · rcases ha with ha | ha
        · left
          exact generated_attrs_not_asyncTrait (noMockOpts opts) ind .rawTrait ((fs.map traitFnOf).map g) .generic a
            (by simpa [List.mem_append, or_assoc] using ha)
        · right
          have := mem_reappliedSubs ha
          exact (List.mem_filter.mp this).1

theorem staticImplFn_sig (tf : TraitFn) :
    (staticImplFn tf).sig.async_ = tf.sig.async_ ∧ (staticImplFn tf).sig.output = tf.sig.output := by
  unfold staticImplFn
  split <;> simp

theorem dynamicImplFn_sig (tf : TraitFn) :
    (dynamicImplFn tf).sig.async_ = tf.sig.async_ ∧ (dynamicImplFn tf).sig.output = tf.sig.output := by
  unfold dynamicImplFn
  split <;> simp

theorem T_C12_trait (v : Variant) (attr : Toks) (t : TraitItem) (out : Out)
    (h : expand v attr (.trait t) = .ok out) : P_C12 v attr (.trait t) out.view = true := by
  obtain ⟨a0, fns, delegation, h1, h2, h3, rfl⟩ := expandTrait_ok h
  have hf := analyzeTraitMembers_ok _ _ h2
  have himpl := mainImpl_last [] [] ([GenItem.trait (genTraitDef (v.apply a0.opts) .trait .generic t.attrs t.vis t.ident
      (traitTg t) (traitSup t) fns .rawTrait)] ++ delegation) (traitImplBlock { a0 with opts := v.apply a0.opts } t fns)
  simp only [P_C12, effectiveOpts, h1, Out.view, Out.inside, Out.after, himpl, Item.srcSigs, Item.attrs,
    Bool.and_eq_true]
  simp only [TraitItem.fns] at hf ⊢
  generalize t.members.filterMap TraitMember.fn? = fs at hf ⊢
  subst hf
  refine ⟨?_, ?_, ?_⟩
  · -- every generated trait
    simp only [View.items, List.nil_append, traitsOf_append, traitsOf, List.append_nil, List.cons_append,
      List.all_cons, Bool.and_eq_true]
    constructor
    · -- the re-emitted trait
      rw [Bool.or_eq_true]; right
      rw [Bool.and_eq_true]
      refine ⟨?_, asyncAttrsOk_genTraitDef ..⟩
      simp only [genTraitDef]
      have := traitDecls_ok (v.apply a0.opts) t.attrs t.attrs rfl (v.apply a0.opts).futureSendValue rfl id
        (fun _ => ⟨rfl, rfl⟩) fs
      simpa using this
    · -- delegation-target and selector traits
      unfold genDelegationTraitDefs at h3
      cases hi : a0.implTrait with
      | none =>
        simp only [hi] at h3
        injection h3 with h3
        subst h3
        simp [traitsOf]
      | some it =>
        obtain ⟨ivis, implIdent⟩ := it
        simp only [hi] at h3
        cases hd : a0.delegation with
        | none => simp [hd] at h3
        | some d =>
          cases d with
          | bySelf => simp [hd] at h3
          | byRef b =>
            simp only [hd] at h3
            injection h3 with h3
            subst h3
            simp only [traitsOf, List.all_cons, List.all_nil, Bool.and_true]
            rw [Bool.or_eq_true]; right
            refine delegTrait_ok (v.apply a0.opts) .dynamicImpl t dynamicImplFn dynamicImplFn_sig fs _ _ ?_ ?_
            · simp [genTraitDef]
            · simp [genTraitDef]
          | byTrait dn =>
            simp only [hd] at h3
            injection h3 with h3
            subst h3
            simp only [traitsOf, List.all_cons, List.all_nil, Bool.and_true, Bool.and_eq_true]
            constructor
            · rw [Bool.or_eq_true]; right
              refine delegTrait_ok (v.apply a0.opts) .staticImpl t staticImplFn staticImplFn_sig fs _ _ ?_ ?_
              · simp [genTraitDef]
              · simp [genTraitDef]
            · rw [Bool.or_eq_true]; left
              simp [isSelectorLike, GenMember.sig?]
  · -- the delegating impl
    simp only [traitImplBlock, zipAll_map_right, zipAll_map_left]
    clear himpl h2 h3 h
    induction fs with
    | nil => rfl
    | cons f rest ih =>
      simp only [zipAll, Bool.and_eq_true]
      exact ⟨asyncImplOk_delegationMethod _ _ (traitFnOf f) f.sig rfl rfl rfl, ih⟩
  · simp only [traitImplBlock]
    exact asyncAttrsOk_filter t.attrs

theorem T_C12 (v : Variant) (attr : Toks) (item : Item) (out : Out)
    (h : expand v attr item = .ok out) : P_C12 v attr item out.view = true := by
  cases item with
  | fn f => exact T_C12_fn v attr f out h
  | mod_ m => exact T_C12_mod v attr m out h
  | trait t => exact T_C12_trait v attr t out h
  | impl m => exact T_C12_impl v attr m out h

/-- non-vacuity: the example async trait with a delegation-target trait, by evaluation -/
example :
    (match expand .plain [i "TrImpl", p ',', i "delegate_by", p '=', i "ref"] (.trait Examples.traitTr) with
     | .ok out => P_C12 .plain [i "TrImpl", p ',', i "delegate_by", p '=', i "ref"] (.trait Examples.traitTr) out.view
     | _ => false) = true := by decide +kernel

end Entrait.C12
