import EntraitProofs.C14
import EntraitProofs.C12
/-
  C19 — generated code is self-contained: no imports, no std, no name capture.

  `T_C19`: in every expansion
  * the bounds on the macro's own type parameter `EntraitT` are absolute paths (`::core::marker::Sync`,
    `::core::marker::Send`) or the lifetime `'static`;
  * the impl is for `EntraitT`, for `::entrait::Impl<EntraitT>`, or for the type the user wrote;
  * what the macro requires of `T` in trait mode is an absolute path (`::core::convert::AsRef<..>`,
    `::core::borrow::Borrow<..>`, `::core::marker::*`, `'static`) or one of the user's own trait names;
  * every delegating body is one of the recognised call shapes, which refer to nothing but the
    callee, the method's own parameters, `self` / `Self` / `__impl` / `EntraitT`, and absolute
    `::core::..` paths;
  * a return type in a generated trait is the user's own or the absolute
    `impl ::core::future::Future<Output = R> [+ ::core::marker::Send]` form (from `T_C12`).
  Name *resolution* itself (that an absolute path cannot be captured) is rustc's; the reserved
  names are `EntraitT` and `__impl`.  Partial in that sense.
-/
namespace Entrait.C19
open Entrait

theorem absolute_sync : absolute syncToks = true := rfl
theorem absolute_send : absolute sendToks = true := rfl
theorem absolute_static : absolute staticToks = true := rfl
theorem absolute_asRef (x : Toks) : absolute (asRefPath ++ x) = true := rfl
theorem absolute_borrow (x : Toks) : absolute (borrowPath ++ x) = true := rfl

theorem macroHeadAbs_implParams (bv : Bool) (ps : List GParam) : macroHeadAbsolute (implParams .generic bv ps) = true := by
  unfold macroHeadAbsolute
  rw [macroParam_generic]
  cases bv <;> simp [implTParam, entraitT, absolute_sync, absolute_send, absolute_static]

theorem bodyShape_of_static (attr : Toks) (item : Item) (hi : ∀ t, item ≠ .trait t) (m : GenMember)
    (h : staticBodyOk attr item m = true) : bodyShapeOk attr item m = true := by
  unfold staticBodyOk at h
  unfold bodyShapeOk
  cases m with
  | raw ts => rfl
  | fn as sig body =>
    cases body with
    | none => rfl
    | some b =>
      cases item with
      | trait t => exact absurd rfl (hi t)
      | fn f => exact h
      | mod_ mm => exact h
      | impl mm => exact h

/-- the return types of generated traits, from the async theorem -/
theorem outputOk_of_asyncDecl (hasAT send : Bool) (src : Sig) (m : GenMember)
    (h : asyncDeclOkM hasAT send src m = true) : outputOk src m = true := by
  unfold asyncDeclOkM at h
  unfold outputOk
  cases hs : m.sig? with
  | none => rw [hs] at h; simp at h
  | some g =>
    rw [hs] at h
    simp only [asyncDeclOk, Bool.and_eq_true, beq_iff_eq] at h
    simp only [h.2]
    cases src.async_ <;> cases hasAT <;> cases send <;> simp

theorem zipAll_mono {α β : Type} (f g : α → β → Bool) (hfg : ∀ a b, f a b = true → g a b = true) :
    ∀ (as : List α) (bs : List β), zipAll f as bs = true → zipAll g as bs = true
  | [], [], _ => rfl
  | [], _ :: _, h => by simp [zipAll] at h
  | _ :: _, [], h => by simp [zipAll] at h
  | a :: as, b :: bs, h => by
      simp only [zipAll, Bool.and_eq_true] at h ⊢
      exact ⟨hfg a b h.1, zipAll_mono f g hfg as bs h.2⟩

theorem traits_of_C12 (v : Variant) (attr : Toks) (item : Item) (view : View)
    (h : P_C12 v attr item view = true) : (traitsOf view.items).all (traitAbsoluteOk item) = true := by
  unfold P_C12 at h
  cases ho : effectiveOpts v attr item with
  | none => rw [ho] at h; simp at h
  | some o =>
    rw [ho] at h
    simp only [Bool.and_eq_true, List.all_eq_true] at h ⊢
    intro t ht
    have := h.1 t ht
    simp only [Bool.or_eq_true, Bool.and_eq_true] at this
    unfold traitAbsoluteOk
    rcases this with ⟨hsel, _⟩ | ⟨hz, _⟩
    · simp only [isSelectorLike, Bool.and_eq_true] at hsel
      simp [hsel.1]
    · simp only [Bool.or_eq_true]
      right
      exact zipAll_mono _ _ (outputOk_of_asyncDecl _ _) _ _ hz

theorem implsOf_delegation {attr : TraitAttr} {vis : Toks} {tg : TraitGenerics} {fns : List TraitFn} {subs : List Attr}
    {delegation : List GenItem} (h3 : genDelegationTraitDefs attr vis tg fns subs = .ok delegation) :
    implsOf delegation = [] := by
  unfold genDelegationTraitDefs at h3
  cases hi : attr.implTrait with
  | none => simp only [hi] at h3; injection h3 with h3; subst h3; rfl
  | some it =>
    obtain ⟨ivis, iid⟩ := it
    simp only [hi] at h3
    cases hd : attr.delegation with
    | none => simp [hd] at h3
    | some d =>
      cases d with
      | bySelf => simp [hd] at h3
      | byRef b => simp only [hd] at h3; injection h3 with h3; subst h3; rfl
      | byTrait dn => simp only [hd] at h3; injection h3 with h3; subst h3; rfl

theorem T_C19 (v : Variant) (attr : Toks) (item : Item) (out : Out)
    (h : expand v attr item = .ok out) : P_C19 attr item out.view = true := by
  unfold P_C19
  rw [traits_of_C12 v attr item out.view (C12.T_C12 v attr item out h), Bool.and_true]
  cases item with
  | fn f =>
    obtain ⟨a, tf, tg, depMode, implBlock, h1, h2, h3, h4, rfl⟩ := expandFn_ok h
    have him := genImplBlock_ok h4
    simp only [Out.view, View.items, Out.inside, Out.after, List.nil_append, List.append_nil, implsOf, List.all_cons,
      List.all_nil, Bool.and_true]
    unfold implAbsoluteOk
    have hb : implBlock.members.all (bodyShapeOk attr (.fn f)) = true := by
      rw [him]
      have := C14.bodies_fn attr (.fn f) (by intro t; simp) .singleFn (by decide) [tf]
      simp only [List.all_eq_true] at this ⊢
      exact fun m hm => bodyShape_of_static attr (.fn f) (by intro t; simp) m (this m hm)
    rw [hb]
    simp only [traitPredOk, Bool.true_and, concreteFn]
    cases hc : f.sig.depIsConcrete
    · have hg : depMode = .generic := by
        cases depMode with
        | generic => rfl
        | concrete ty =>
          exfalso
          obtain ⟨_, x, hx, hxd⟩ := C14.detectDepMode_concrete_inv .singleFn [tf] ty h3
          simp only [List.mem_singleton] at hx
          subst hx
          obtain ⟨deps, ins, tr, hd, _, rfl⟩ := analyzeFn_ok h2
          simp only at hxd
          cases hn : (v.apply a.opts).noDepsValue
          · have := ((analyzeFnDeps_spec hd hn).2.1 ty hxd).1
            rw [hc] at this; simp at this
          · have := analyzeFnDeps_noDeps hd hn
            rw [this] at hxd; simp at hxd
      subst hg
      rw [him]
      simp only [Bool.false_or, macroHeadAbs_implParams, Bool.true_and, implSelfTy]
      cases (v.apply a.opts).mockable <;> simp
    · simp
  | mod_ m =>
    simp only [expand] at h
    split at h
    · simp at h
    · obtain ⟨items, a, fns0, fns, tg, depMode, implBlock, h0, h1, h2, hfns, h3, h4, rfl⟩ := expandMod_ok h
      have him := genImplBlock_ok h4
      have hg : depMode = .generic := by
        cases depMode with
        | generic => rfl
        | concrete ty => have := (C14.detectDepMode_concrete_inv .module fns ty h3).1; simp at this
      subst hg
      simp only [Out.view, View.items, Out.inside, Out.after, List.cons_append, List.nil_append, implsOf, List.all_cons,
        List.all_nil, Bool.and_true]
      unfold implAbsoluteOk
      have hb : implBlock.members.all (bodyShapeOk attr (.mod_ m)) = true := by
        rw [him]
        have := C14.bodies_fn attr (.mod_ m) (by intro t; simp) .module (by decide) fns
        simp only [List.all_eq_true] at this ⊢
        exact fun mm hm => bodyShape_of_static attr (.mod_ m) (by intro t; simp) mm (this mm hm)
      rw [hb, him]
      simp only [traitPredOk, Bool.true_and, concreteFn, Bool.false_or, macroHeadAbs_implParams, implSelfTy]
      cases (v.apply a.opts).mockable <;> simp
  | impl m =>
    obtain ⟨items, a, fns0, fns, tg, depMode, implBlock, h0, h1, h2, hfns, h3, h4, rfl⟩ := expandImpl_ok h
    have him := genImplBlock_ok h4
    obtain ⟨hg, _⟩ := C07.detectDepMode_impl fns depMode h3
    subst hg
    have hind : (if a.dynRef then ImplIndirection.dynamic m.selfTy else .static_ m.selfTy).isNone = false := by
      cases a.dynRef <;> rfl
    simp only [Out.view, View.items, Out.inside, Out.after, List.nil_append, List.append_nil, implsOf, List.all_cons,
      List.all_nil, Bool.and_true]
    unfold implAbsoluteOk
    have hb : implBlock.members.all (bodyShapeOk attr (.impl m)) = true := by
      rw [him]
      have := C14.bodies_impl attr m _ hind fns
      simp only [List.all_eq_true] at this ⊢
      exact fun mm hm => bodyShape_of_static attr (.impl m) (by intro t; simp) mm (this mm hm)
    rw [hb, him]
    simp only [traitPredOk, Bool.true_and, concreteFn, Bool.false_or, macroHeadAbs_implParams]
    cases a.dynRef <;> simp [implSelfTy]
  | trait t =>
    obtain ⟨a0, fns, delegation, h1, h2, h3, rfl⟩ := expandTrait_ok h
    have hdel := implsOf_delegation h3
    simp only [Out.view, View.items, Out.inside, Out.after, List.append_nil, List.cons_append, List.nil_append,
      implsOf, implsOf_append, hdel, List.all_cons, List.all_nil, Bool.and_true]
    unfold implAbsoluteOk
    have hbodies : (traitImplBlock { a0 with opts := v.apply a0.opts } t fns).members.all (bodyShapeOk attr (.trait t)) = true := by
      simp only [traitImplBlock, List.all_map, List.all_eq_true]
      intro tf _
      simp only [Function.comp, C06.delegationMethod_eq, bodyShapeOk, h1]
      have he : ∀ ca, expectedShape { a0 with opts := v.apply a0.opts } ca = expectedShape a0 ca := fun _ => rfl
      rw [he]
      have hmem : expectedShape a0 (traitContainsAsync t) ∈ allShapes a0 := by
        unfold expectedShape allShapes
        cases hi : a0.implTrait with
        | none =>
          cases hd : a0.delegation with
          | none => simp
          | some d => cases d with
            | bySelf => simp
            | byTrait dn => simp
            | byRef b => cases b <;> simp
        | some it =>
          cases hd : a0.delegation with
          | none => simp
          | some d => cases d with
            | bySelf => simp
            | byTrait dn => simp
            | byRef b => cases b <;> cases traitContainsAsync t <;> simp
      rw [List.any_eq_true]
      refine ⟨_, hmem, ?_⟩
      cases tf.originallyAsync <;> simp
    have hpred : traitPredOk attr (.trait t) (traitImplBlock { a0 with opts := v.apply a0.opts } t fns).preds.head? = true := by
      simp only [traitImplBlock, List.head?_cons, traitPredOk, userTraitNames, h1, traitImplTBounds]
      cases hi : a0.implTrait with
      | none =>
        cases hd : a0.delegation with
        | none => cases traitContainsAsync t <;> simp [traitBoundOk, absolute_sync, absolute_static, absolute_send, i]
        | some d => cases d with
          | bySelf => cases traitContainsAsync t <;> simp [traitBoundOk, absolute_sync, absolute_static, absolute_send, i]
          | byTrait dn => cases traitContainsAsync t <;> simp [traitBoundOk, absolute_sync, absolute_static, absolute_send, i]
          | byRef b =>
            cases b <;> cases traitContainsAsync t <;>
              simp [traitBoundOk, absolute_sync, absolute_static, absolute_send, absolute_asRef, absolute_borrow]
      | some it =>
        obtain ⟨ivis, iid⟩ := it
        cases hd : a0.delegation with
        | none => cases traitContainsAsync t <;> simp [traitBoundOk, absolute_sync, absolute_static, absolute_send, i]
        | some d => cases d with
          | bySelf => cases traitContainsAsync t <;> simp [traitBoundOk, absolute_sync, absolute_static, absolute_send, i]
          | byTrait dn => simp [traitBoundOk, absolute_sync, absolute_static, absolute_send, i]
          | byRef b =>
            cases b <;> cases traitContainsAsync t <;>
              simp [traitBoundOk, absolute_sync, absolute_static, absolute_send, absolute_asRef, absolute_borrow]
    rw [hbodies, hpred]
    simp [traitImplBlock, concreteFn, macroHeadAbs_implParams]


/-- non-vacuity: an async generic trait delegated by reference — `AsRef<dyn Tr<..> + Sync>` is absolute -/
example :
    (match expand .plain [i "delegate_by", p '=', i "ref"] (.trait Examples.traitTr) with
     | .ok out => ((implsOf out.view.items).length, P_C19 [i "delegate_by", p '=', i "ref"] (.trait Examples.traitTr) out.view)
     | _ => (0, false)) = (1, true) := by decide +kernel

end Entrait.C19
