import EntraitProofs.C07Sem
import EntraitProofs.C01Sem
/-
  C07, the impl-block side, *on the observed expansion*.

  On every view on which `P_C07` holds for an `#[entrait] impl TraitImpl for Type { fn .. }` block — the model's
  output by `T_C07`, the real macro's output wherever the driver evaluated `P_C07` to 1 — every method of the
  generated `impl TraitImpl<EntraitT> for Type`
    * has a body that is a call *through `Self::`* of the function of the same name: the callee is the inherent
      function of the user's type (a path, which no parameter can capture),
    * passes `__impl` (its own first parameter, the `&Impl<EntraitT>` it was given) as the dependency, followed by
      its remaining parameters in declared order: with pairwise distinct names, evaluating the argument list with
      the parameters bound to the caller's values yields exactly those values, in order.
-/
namespace Entrait.C07Sem
open Entrait

/-- one method of the generated impl of an impl block -/
theorem implMethod_sem (src : FnItem) (m : GenMember) (hm : methodCallsFn false true src m = true) :
    ∃ attrs g body c, m = .fn attrs g (some body) ∧ parseCall body = some c ∧
      g.ident = src.sig.ident ∧ c.callee = src.sig.ident ∧ c.selfScope = true ∧ c.await = src.sig.async_ ∧
      c.args = "__impl" :: (paramIdents g.inputs).drop 1 ∧
      (∀ rest, paramIdents g.inputs = "__impl" :: rest → nodup ((paramIdents g.inputs).map unraw) = true →
        (∀ q ∈ paramIdents g.inputs, q ≠ "self") →
        ∀ (recv : Nat) (vs : List Nat), (paramIdents g.inputs).length = vs.length →
          C01.evalArgs recv ((paramIdents g.inputs).zip vs) c.args = some vs) := by
  cases m with
  | raw ts => simp [methodCallsFn] at hm
  | fn attrs g body =>
    cases body with
    | none => simp [methodCallsFn] at hm
    | some b =>
      simp only [methodCallsFn] at hm
      cases hpc : parseCall b with
      | none => simp [hpc] at hm
      | some c =>
        simp only [hpc, Bool.and_eq_true, beq_iff_eq, Bool.false_eq_true, if_false, if_true] at hm
        obtain ⟨⟨⟨⟨⟨⟨⟨⟨hid, hcallee⟩, hss⟩, haw⟩, hargs⟩, _⟩, _⟩, _⟩, _⟩ := hm
        have hargs' : c.args = "__impl" :: (paramIdents g.inputs).drop 1 := by simpa using hargs
        refine ⟨attrs, g, b, c, rfl, hpc, hid, by rw [hcallee, hid], hss, haw, hargs', ?_⟩
        intro rest hps hnd hself recv vs hl
        have h := C01.evalParams recv (paramIdents g.inputs) vs [] hl ((nodup_iff _).mp hnd) hself (by simp)
        simp only [List.nil_append] at h
        rw [hargs', hps] at *
        simpa using h

/-- **C07, impl-block side, for any view on which `P_C07` holds** -/
theorem T_C07_impl_view (attr : Toks) (m : ImplItemIn) (view : View) (h : P_C07 attr (.impl m) view = true)
    (im : GenImpl) (him : mainImpl? view = some im) :
    im.selfTy = m.selfTy ∧
    ∀ sm ∈ (Item.impl m).sourceFns.zip im.members,
      ∃ attrs g body c, sm.2 = .fn attrs g (some body) ∧ parseCall body = some c ∧
        g.ident = sm.1.sig.ident ∧ c.callee = sm.1.sig.ident ∧ c.selfScope = true ∧ c.await = sm.1.sig.async_ ∧
        c.args = "__impl" :: (paramIdents g.inputs).drop 1 ∧
        (∀ rest, paramIdents g.inputs = "__impl" :: rest → nodup ((paramIdents g.inputs).map unraw) = true →
          (∀ q ∈ paramIdents g.inputs, q ≠ "self") →
          ∀ (recv : Nat) (vs : List Nat), (paramIdents g.inputs).length = vs.length →
            C01.evalArgs recv ((paramIdents g.inputs).zip vs) c.args = some vs) := by
  unfold P_C07 at h
  cases hp : parseImplAttr attr with
  | error e => simp [hp] at h
  | ok a =>
    simp only [hp, him, P_C07_impl, Bool.and_eq_true, beq_iff_eq] at h
    obtain ⟨⟨⟨⟨hz, hself⟩, _⟩, _⟩, _⟩ := h
    refine ⟨hself, ?_⟩
    intro sm hsm
    exact implMethod_sem sm.1 sm.2 (zipAll_forall _ _ _ hz sm hsm)

end Entrait.C07Sem
