import EntraitProofs.Split
/-
  Leaf positions.  `At ts off node`: the token list `node` occupies the leaves
  `[off, off + flatLen node)` of the flattened `ts`.  The offset calculators of
  `EntraitModel/Locus.lean` (`Sig.identOff`, `Sig.arg0Off`, `Sig.depTypeAt`, `sigBases`, …) are
  proved to point at what they are named after, so that a `Locus` is a statement about tokens of
  the input and not just a number the model and the harness happen to agree on.
-/
namespace Entrait

theorem flattenList_append : ∀ (a b : Toks), TT.flattenList (a ++ b) = TT.flattenList a ++ TT.flattenList b
  | [], b => by simp [TT.flattenList]
  | t :: a, b => by simp [TT.flattenList, flattenList_append a b, List.append_assoc]

@[simp] theorem flatLen_nil : flatLen [] = 0 := by simp [flatLen, TT.flattenList]

@[simp] theorem flatLen_append (a b : Toks) : flatLen (a ++ b) = flatLen a + flatLen b := by
  simp [flatLen, flattenList_append]

theorem flatLen_cons (t : TT) (ts : Toks) : flatLen (t :: ts) = (TT.flatten t).length + flatLen ts := by
  simp [flatLen, TT.flattenList]

@[simp] theorem flatLen_cons_ident (s : String) (ts : Toks) : flatLen (.ident s :: ts) = 1 + flatLen ts := by
  simp [flatLen_cons, TT.flatten]

@[simp] theorem flatLen_cons_punct (c : Char) (ts : Toks) : flatLen (.punct c :: ts) = 1 + flatLen ts := by
  simp [flatLen_cons, TT.flatten]

@[simp] theorem flatLen_cons_i (s : String) (ts : Toks) : flatLen (i s :: ts) = 1 + flatLen ts := flatLen_cons_ident s ts
@[simp] theorem flatLen_cons_p (c : Char) (ts : Toks) : flatLen (p c :: ts) = 1 + flatLen ts := flatLen_cons_punct c ts

/-- `node` occupies the leaves `[off, off + flatLen node)` of `ts` -/
def At (ts : Toks) (off : Nat) (node : Toks) : Prop :=
  ∃ pre post : List Leaf, TT.flattenList ts = pre ++ TT.flattenList node ++ post ∧ pre.length = off

theorem At.of_eq {ts node : Toks} {off off' : Nat} (h : At ts off node) (e : off = off') : At ts off' node := e ▸ h

theorem At.mid (a node b : Toks) : At (a ++ node ++ b) (flatLen a) node :=
  ⟨TT.flattenList a, TT.flattenList b, by simp [flattenList_append], rfl⟩

theorem At.here (node b : Toks) : At (node ++ b) 0 node :=
  ⟨[], TT.flattenList b, by simp [flattenList_append], rfl⟩

theorem At.self (node : Toks) : At node 0 node := ⟨[], [], by simp, rfl⟩

theorem At.append_left {b node : Toks} {off : Nat} (a : Toks) (h : At b off node) : At (a ++ b) (flatLen a + off) node := by
  obtain ⟨pre, post, e, hl⟩ := h
  exact ⟨TT.flattenList a ++ pre, post, by simp [flattenList_append, e, List.append_assoc], by simp [flatLen, hl]⟩

theorem At.append_right {a node : Toks} {off : Nat} (b : Toks) (h : At a off node) : At (a ++ b) off node := by
  obtain ⟨pre, post, e, hl⟩ := h
  exact ⟨pre, post ++ TT.flattenList b, by simp [flattenList_append, e, List.append_assoc], hl⟩

theorem At.group {inner node : Toks} {off : Nat} (d : Delim) (h : At inner off node) :
    At [.group d inner] (off + 1) node := by
  obtain ⟨pre, post, e, hl⟩ := h
  refine ⟨.open_ d :: pre, post ++ [.close d], ?_, by simp [hl]⟩
  simp [TT.flattenList, TT.flatten, e, List.append_assoc]

/-- the meaning of a locus: slicing the flattened input at it gives exactly the node's leaves -/
theorem At.slice {ts node : Toks} {off : Nat} (h : At ts off node) :
    ((TT.flattenList ts).drop off).take (flatLen node) = TT.flattenList node := by
  obtain ⟨pre, post, e, hl⟩ := h
  subst hl
  rw [e, List.append_assoc, List.drop_left, flatLen, List.take_left]

/-! ### positions inside a signature -/

def Sig.argsToks (s : Sig) : Toks :=
  commaSep (s.inputs.map FnArg.print) s.itrail ++
    (match s.variadic with
     | some v => (if s.inputs.isEmpty || s.itrail then [] else [p ',']) ++ v
     | none => [])

def Sig.tailToks (s : Sig) : Toks :=
  (match s.output with | some t => arrow ++ t | none => []) ++ s.generics.printWhere

theorem Sig.print_split (s : Sig) :
    s.print = (s.headToks ++ [i s.ident] ++ s.generics.printParams) ++ [parens s.argsToks] ++ s.tailToks := by
  obtain ⟨c, a, u, abi, id, g, ins, it, var, out⟩ := s
  cases var <;> cases out <;>
    simp [Sig.print, Sig.headToks, Sig.argsToks, Sig.tailToks, List.append_assoc]

/-- `Sig.identOff` points at the function's name -/
theorem Sig.ident_at (s : Sig) : At s.print s.identOff [i s.ident] := by
  rw [Sig.print_split]
  have := At.mid s.headToks [i s.ident] (s.generics.printParams ++ [parens s.argsToks] ++ s.tailToks)
  simpa [Sig.identOff, List.append_assoc] using this

theorem joinSep_cons (sep x : Toks) (xs : List Toks) : ∃ more, joinSep sep (x :: xs) = x ++ more := by
  cases xs with
  | nil => exact ⟨[], by simp [joinSep]⟩
  | cons y ys => exact ⟨sep ++ joinSep sep (y :: ys), by simp [joinSep]⟩

/-- `Sig.arg0Off` points at the first parameter, whole -/
theorem Sig.arg0_at (s : Sig) (a : FnArg) (rest : List FnArg) (h : s.inputs = a :: rest) :
    At s.print s.arg0Off a.print := by
  rw [Sig.print_split]
  obtain ⟨more, hm⟩ := joinSep_cons [p ','] a.print (rest.map FnArg.print)
  have hargs : ∃ more', s.argsToks = a.print ++ more' := by
    simp only [Sig.argsToks, commaSep, h, List.map_cons, hm, List.append_assoc]
    exact ⟨_, rfl⟩
  obtain ⟨more', hm'⟩ := hargs
  rw [hm']
  have h1 : At (a.print ++ more') 0 a.print := At.here _ _
  have h2 := At.group .paren h1
  have h3 := At.append_left (s.headToks ++ [i s.ident] ++ s.generics.printParams) h2
  exact At.append_right s.tailToks (h3.of_eq (by simp [Sig.arg0Off]))

theorem Ty.core_at : ∀ ty : Ty, At ty.print ty.coreOff ty.core.print
  | .ref_ lt m e => by
      have ih := Ty.core_at e
      cases lt with
      | none =>
        cases m with
        | false =>
          have := At.append_left [p '&'] ih
          simpa [Ty.print, Ty.core, Ty.coreOff] using this
        | true =>
          have := At.append_left [p '&', i "mut"] ih
          simpa [Ty.print, Ty.core, Ty.coreOff, Nat.add_assoc] using this
      | some l =>
        cases m with
        | false =>
          have := At.append_left ([p '&'] ++ lifetimeToks l) ih
          simpa [Ty.print, Ty.core, Ty.coreOff, lifetimeToks, Nat.add_assoc] using this
        | true =>
          have := At.append_left ([p '&'] ++ lifetimeToks l ++ [i "mut"]) ih
          simpa [Ty.print, Ty.core, Ty.coreOff, lifetimeToks, Nat.add_assoc] using this
  | .paren e => by
      have ih := Ty.core_at e
      simpa [Ty.print, Ty.core, Ty.coreOff, parens, Nat.add_comm] using At.group .paren ih
  | .implTrait bs tr => by simpa [Ty.core, Ty.coreOff] using At.self _
  | .path q l n f ts => by simpa [Ty.core, Ty.coreOff] using At.self _
  | .other ts => by simpa [Ty.core, Ty.coreOff] using At.self _

/-- `Sig.depTypeAt` points at the dependency type proper (inside any `&`, `&mut`, parentheses) -/
theorem Sig.depType_at (s : Sig) (attrs : List Attr) (pat : Pat) (ty : Ty) (rest : List FnArg)
    (h : s.inputs = .typed attrs pat ty :: rest) :
    ∃ o n, s.depTypeAt = some (o, n) ∧ At s.print o ty.core.print ∧ n = flatLen ty.core.print := by
  refine ⟨s.arg0Off + flatLen (printAttrs attrs ++ pat.print ++ [p ':']) + ty.coreOff, flatLen ty.core.print,
    by simp [Sig.depTypeAt, h], ?_, rfl⟩
  obtain ⟨pre, post, e, hl⟩ := Sig.arg0_at s _ rest h
  obtain ⟨pre2, post2, e2, hl2⟩ :=
    At.append_left (printAttrs attrs ++ pat.print ++ [p ':']) (Ty.core_at ty)
  refine ⟨pre ++ pre2, post2 ++ post, ?_, ?_⟩
  · rw [e]
    have : (FnArg.typed attrs pat ty).print = (printAttrs attrs ++ pat.print ++ [p ':']) ++ ty.print := by
      simp [FnArg.print, List.append_assoc]
    rw [this, e2]
    simp [List.append_assoc]
  · simp [hl, hl2, Nat.add_assoc]

/-! ### positions of the analysed functions inside a body -/

theorem sigBases_at : ∀ (items : List BodyItem) (off : Nat) (b : Nat) (s : Sig), (b, s) ∈ sigBases items off →
    ∃ k, b = off + k ∧ At (items.flatMap BodyItem.print) k s.print
  | [], _, _, _, h => by simp [sigBases] at h
  | .pubFn f :: rest, off, b, s, h => by
      simp only [sigBases, List.mem_cons, Prod.mk.injEq] at h
      rcases h with ⟨rfl, rfl⟩ | h
      · refine ⟨flatLen (printAttrs f.attrs ++ f.vis), rfl, ?_⟩
        have := At.mid (printAttrs f.attrs ++ f.vis) f.sig.print (f.body ++ rest.flatMap BodyItem.print)
        simpa [List.flatMap_cons, BodyItem.print, FnItem.print, List.append_assoc] using this
      · obtain ⟨k, hk, hat⟩ := sigBases_at rest _ b s h
        refine ⟨flatLen f.print + k, by omega, ?_⟩
        simpa [List.flatMap_cons, BodyItem.print] using At.append_left f.print hat
  | .unknown as vis ts :: rest, off, b, s, h => by
      simp only [sigBases] at h
      obtain ⟨k, hk, hat⟩ := sigBases_at rest _ b s h
      refine ⟨flatLen (BodyItem.unknown as vis ts).print + k, by omega, ?_⟩
      simpa [List.flatMap_cons] using At.append_left (BodyItem.unknown as vis ts).print hat

theorem sigBases_sigs : ∀ (items : List BodyItem) (off : Nat),
    (sigBases items off).map (·.2) = (items.filterMap BodyItem.fn?).map (·.sig)
  | [], _ => rfl
  | .pubFn f :: rest, off => by simp [sigBases, BodyItem.fn?, sigBases_sigs rest]
  | .unknown .. :: rest, off => by simp [sigBases, BodyItem.fn?, List.filterMap_cons, sigBases_sigs rest]

end Entrait
