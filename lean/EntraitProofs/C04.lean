import EntraitProofs.FnMode
import EntraitProofs.DepsSpec
import EntraitProofs.Examples
/-
  C04 — dependency bounds bubble up exactly.

  `T_C04`: for an fn / mod input with generic (or `impl Trait`) dependencies, the generated impl
  * is parameterised by `EntraitT: ::core::marker::Sync [+ ::core::marker::Send] + 'static`, with
    `Send` iff some function takes the dependency by value,
  * is for `::entrait::Impl<EntraitT>` iff the invocation is mockable, else for `EntraitT` itself,
  * has, iff at least one bound is declared on a dependency parameter, one predicate
    `Self: B₁ + … + Bₙ` whose bounds are exactly the bounds declared on the dependency parameters
    of all functions — inline, in where clauses and as `impl A + B` — in order, and
  * otherwise only where-predicates the user wrote.
  With `no_deps` there is no `Self:` predicate at all.
-/
namespace Entrait.C04
open Entrait

theorem sameMultiset_refl (l : List Toks) : sameMultiset l l = true := by
  simp [sameMultiset]

/-- per function: the analysed dependency agrees with the declared one -/
def depsMatch (s : Sig) (tf : TraitFn) : Bool :=
  match tf.deps with
  | .generic _ bs => decide (bs = s.declaredDepBounds) && !s.depIsConcrete
  | .concrete _ => s.depIsConcrete
  | .noDeps => false

theorem depsMatch_of_analyzeFn {kind : ReceiverKind} {opts : Opts} {s : Sig} {tg tg' : TraitGenerics} {tf : TraitFn}
    (hn : opts.noDepsValue = false) (h : analyzeFn kind opts s tg = .ok (tf, tg')) :
    depsMatch s tf = true := by
  obtain ⟨deps, ins, tr, hd, _, rfl⟩ := analyzeFn_ok h
  obtain ⟨h1, h2, _⟩ := analyzeFnDeps_spec hd hn
  have hne := (analyzeFnDeps_deps hd hn).1
  unfold depsMatch
  cases hdd : deps with
  | generic q bs => obtain ⟨rfl, hc⟩ := h1 q bs hdd; simp [hc]
  | concrete cty => exact (h2 cty hdd).1
  | noDeps => exact absurd hdd hne

theorem depsBounds_of_zip : ∀ (sigs : List Sig) (fns : List TraitFn),
    zipAll depsMatch sigs fns = true → sigs.any Sig.depIsConcrete = false →
      depsBounds fns = sigs.flatMap Sig.declaredDepBounds ∧ (∀ tf ∈ fns, ∀ ty, tf.deps ≠ .concrete ty)
  | [], [], _, _ => by simp [depsBounds]
  | [], _ :: _, h, _ => by simp [zipAll] at h
  | _ :: _, [], h, _ => by simp [zipAll] at h
  | s :: sigs, tf :: fns, h, hc => by
      simp only [zipAll, Bool.and_eq_true] at h
      simp only [List.any_cons, Bool.or_eq_false_iff] at hc
      obtain ⟨ih1, ih2⟩ := depsBounds_of_zip sigs fns h.2 hc.2
      have hm := h.1
      unfold depsMatch at hm
      cases hd : tf.deps with
      | generic q bs =>
        rw [hd] at hm
        simp only [Bool.and_eq_true, decide_eq_true_eq] at hm
        constructor
        · simp [depsBounds, hd, hm.1, ih1]
        · intro x hx ty
          rcases List.mem_cons.mp hx with rfl | hx
          · rw [hd]; simp
          · exact ih2 x hx ty
      | concrete cty => rw [hd] at hm; rw [hc.1] at hm; simp at hm
      | noDeps => rw [hd] at hm; simp at hm

theorem detectDepMode_generic (mode : InputMode) : ∀ (fns : List TraitFn) (d : DepMode),
    (∀ tf ∈ fns, ∀ ty, tf.deps ≠ .concrete ty) → detectDepMode mode fns = .ok d → d = .generic
  | [], d, _, h => by simp [detectDepMode] at h; exact h.symm
  | tf :: fns, d, hn, h => by
      unfold detectDepMode at h
      split at h
      · rename_i ty hty
        exact absurd hty (hn tf List.mem_cons_self ty)
      · exact detectDepMode_generic mode fns d (fun x hx => hn x (List.mem_cons_of_mem _ hx)) h

/-! ### accumulated trait generics -/

theorem analyzeFn_preds {kind : ReceiverKind} {opts : Opts} {s : Sig} {tg tg' : TraitGenerics} {tf : TraitFn}
    (h : analyzeFn kind opts s tg = .ok (tf, tg')) : ∀ q ∈ tg'.preds, q ∈ tg.preds ∨ q ∈ s.generics.preds := by
  obtain ⟨deps, ins, tr, hd, _, _⟩ := analyzeFn_ok h
  cases hn : opts.noDepsValue
  · exact (analyzeFnDeps_spec hd hn).2.2
  · unfold analyzeFnDeps at hd
    simp [hn] at hd
    rw [← hd.2]
    exact depsWithGenerics_preds _ _

theorem analyzeFns_preds (kind : ReceiverKind) (opts : Opts) :
    ∀ (sigs : List Sig) (tg tg' : TraitGenerics) (fns : List TraitFn),
      analyzeFns kind opts sigs tg = .ok (fns, tg') →
        ∀ q ∈ tg'.preds, q ∈ tg.preds ∨ q ∈ sigs.flatMap (·.generics.preds)
  | [], tg, tg', fns, h => by
      simp [analyzeFns] at h
      obtain ⟨_, rfl⟩ := h
      intro q hq; exact Or.inl hq
  | s :: rest, tg, tg', fns, h => by
      unfold analyzeFns at h
      cases h1 : analyzeFn kind opts s tg with
      | error e => simp [h1] at h
      | ok r =>
        obtain ⟨tf, tg1⟩ := r
        simp only [h1] at h
        cases h2 : analyzeFns kind opts rest tg1 with
        | error e => simp [h2] at h
        | ok r2 =>
          obtain ⟨tfs, tg2⟩ := r2
          simp [h2] at h
          obtain ⟨_, rfl⟩ := h
          intro q hq
          rcases analyzeFns_preds kind opts rest tg1 tg2 tfs h2 q hq with hq | hq
          · rcases analyzeFn_preds h1 q hq with hq | hq
            · exact Or.inl hq
            · exact Or.inr (by simp [hq])
          · exact Or.inr (by simp only [List.flatMap_cons, List.mem_append]; exact Or.inr hq)

/-- per function: receiver by value iff the dependency is taken by value -/
theorem takesSelfByValue_spec {opts : Opts} {s : Sig} {tf : TraitFn} (hs : FnModeSpec opts s tf)
    (hn : opts.noDepsValue = false) : tf.sig.takesSelfByValue = s.depByValue := by
  have hr := hs.recv
  obtain ⟨r, hin⟩ := hs.inputs
  rw [hin] at hr
  simp only [List.head?_cons, expectedReceiver, hn, Bool.false_eq_true, if_false] at hr
  unfold Sig.takesSelfByValue Sig.depByValue
  rw [hin]
  cases hsi : s.inputs with
  | nil => rw [hsi] at hr; simp at hr
  | cons x rest =>
    rw [hsi] at hr
    cases x with
    | recv => simp at hr
    | typed a pt ty =>
      cases ty <;> simp at hr <;> simp [hr]

theorem any_of_zip {α β : Type} (f : α → Bool) (g : β → Bool) :
    ∀ (as : List α) (bs : List β), zipAll (fun a b => f a == g b) as bs = true → as.any f = bs.any g
  | [], [], _ => rfl
  | [], _ :: _, h => by simp [zipAll] at h
  | _ :: _, [], h => by simp [zipAll] at h
  | a :: as, b :: bs, h => by
      simp only [zipAll, Bool.and_eq_true, beq_iff_eq] at h
      simp [List.any_cons, h.1, any_of_zip f g as bs h.2]

theorem zipAll_and {α β : Type} (f g : α → β → Bool) :
    ∀ (as : List α) (bs : List β), zipAll f as bs = true → zipAll g as bs = true →
      zipAll (fun a b => f a b && g a b) as bs = true
  | [], [], _, _ => rfl
  | [], _ :: _, h, _ => by simp [zipAll] at h
  | _ :: _, [], h, _ => by simp [zipAll] at h
  | a :: as, b :: bs, h1, h2 => by
      simp only [zipAll, Bool.and_eq_true] at h1 h2 ⊢
      exact ⟨⟨h1.1, h2.1⟩, zipAll_and f g as bs h1.2 h2.2⟩

/-- the generic core of both modes -/
theorem implHeader_ok (o : Opts) (mode : InputMode) (subAttrs : List Attr) (traitRef : Toks)
    (sigs : List Sig) (fns : List TraitFn) (tg : TraitGenerics) (depMode : DepMode) (im : GenImpl)
    (han : analyzeFns .selfRef o sigs {} = .ok (fns, tg))
    (hdm : detectDepMode mode fns = .ok depMode)
    (him : genImplBlock o traitRef .none tg mode depMode subAttrs fns = .ok im) :
    fnImplHeaderOk o sigs im = true := by
  unfold fnImplHeaderOk
  simp only
  have himk := genImplBlock_ok him
  have hpreds := analyzeFns_preds .selfRef o sigs {} tg fns han
  have hpreds' : ∀ q ∈ tg.preds, q ∈ sigs.flatMap (·.generics.preds) := by
    intro q hq
    rcases hpreds q hq with h | h
    · simp at h
    · exact h
  have hspecs := analyzeFns_all .selfRef o (fun tf => ∃ s, FnModeSpec o s tf)
    (fun s tg0 tf tg1 h => ⟨s, fnModeSpec h⟩) sigs {} tg fns han
  cases hn : o.noDepsValue
  · -- with dependency parameters
    simp only [Bool.false_eq_true, if_false]
    cases hc : sigs.any Sig.depIsConcrete
    · simp only [Bool.false_eq_true, if_false]
      have hz := analyzeFns_zip .selfRef o depsMatch sigs {} tg fns
        (fun s _ tg0 tf tg1 h => depsMatch_of_analyzeFn hn h) han
      obtain ⟨hb, hnc⟩ := depsBounds_of_zip sigs fns hz hc
      have hdg := detectDepMode_generic mode fns depMode hnc hdm
      subst hdg
      have hbv : sigs.any Sig.depByValue = fns.any (fun tf => tf.sig.takesSelfByValue) := by
        apply any_of_zip
        exact analyzeFns_zip .selfRef o (fun s tf => s.depByValue == tf.sig.takesSelfByValue) sigs {} tg fns
          (fun s _ tg0 tf tg1 h => by simp [takesSelfByValue_spec (fnModeSpec h) hn]) han
      rw [himk]
      simp only [implTParamOk, macroParam_generic, implTParam, implSelfTy,
        implWherePreds, hb, hbv, Bool.and_eq_true, ImplIndirection.isNone, if_true, entraitT]
      refine ⟨⟨sameMultiset_refl _, by simp⟩, ?_⟩
      unfold wherePredsOk
      cases hde : (sigs.flatMap Sig.declaredDepBounds).isEmpty
      · simp only [Bool.false_eq_true, if_false, List.cons_append, List.nil_append, Bool.and_eq_true]
        refine ⟨⟨by simp, sameMultiset_refl _⟩, ?_⟩
        simpa [List.all_eq_true] using hpreds'
      · simp only [if_true, List.nil_append]
        simpa [List.all_eq_true] using hpreds'
    · simp
  · -- no_deps
    simp only [if_true]
    have hall : ∀ tf ∈ fns, tf.deps = .noDeps ∧ tf.sig.takesSelfByValue = false := by
      intro tf htf
      obtain ⟨s, hs⟩ := hspecs tf htf
      refine ⟨hs.depsNoDeps.mpr hn, ?_⟩
      have hr := hs.recv
      obtain ⟨r, hin⟩ := hs.inputs
      rw [hin] at hr
      simp [expectedReceiver, hn] at hr
      simp [Sig.takesSelfByValue, hin, hr]
    have hnc : ∀ tf ∈ fns, ∀ ty, tf.deps ≠ .concrete ty := by
      intro tf htf ty; rw [(hall tf htf).1]; simp
    have hdg := detectDepMode_generic mode fns depMode hnc hdm
    subst hdg
    have hbv : fns.any (fun tf => tf.sig.takesSelfByValue) = false := by
      rw [List.any_eq_false]; intro tf htf; simp [(hall tf htf).2]
    have hdb : depsBounds fns = [] := by
      clear himk him hdm han hspecs hnc hbv
      induction fns with
      | nil => rfl
      | cons tf rest ih =>
        simp [depsBounds, (hall tf List.mem_cons_self).1, ih (fun x hx => hall x (List.mem_cons_of_mem _ hx))]
    rw [himk]
    simp only [implTParamOk, macroParam_generic, implTParam, hbv, implSelfTy,
      implWherePreds, hdb, Bool.and_eq_true, Bool.false_eq_true, if_false, List.append_nil, entraitT]
    refine ⟨⟨sameMultiset_refl _, by simp⟩, ?_⟩
    simp only [wherePredsOk, List.isEmpty_nil, if_true, List.nil_append]
    simpa [List.all_eq_true] using hpreds'

theorem T_C04 (v : Variant) (attr : Toks) (item : Item) (out : Out)
    (h : expand v attr item = .ok out) : P_C04 v attr item out.view = true := by
  cases item with
  | fn f =>
    obtain ⟨a, tf, tg, depMode, implBlock, h1, h2, h3, h4, rfl⟩ := expandFn_ok h
    have han : analyzeFns .selfRef (v.apply a.opts) [f.sig] {} = .ok ([tf], tg) := by
      simp [analyzeFns, h2]
    have := implHeader_ok (v.apply a.opts) .singleFn f.attrs [i a.traitIdent] [f.sig] [tf] tg depMode implBlock han h3 h4
    simpa [P_C04, effectiveOpts, h1, Out.view, View.items, Out.inside, Out.after, mainImpl?, implsOf, Item.sourceFns] using this
  | mod_ m =>
    simp only [expand] at h
    split at h
    · simp at h
    · obtain ⟨items, a, fns0, fns, tg, depMode, implBlock, h0, h1, h2, hfns, h3, h4, rfl⟩ := expandMod_ok h
      subst hfns
      rw [detectDepMode_attachCfg] at h3
      obtain ⟨im0, h40, _, hpa, _, hst, hpr⟩ := genImplBlock_attachCfg h4
      have := implHeader_ok (v.apply a.opts) .module m.attrs [i a.traitIdent] _ fns0 tg depMode im0 h2 h3 h40
      have hc : fnImplHeaderOk (v.apply a.opts) ((items.filterMap BodyItem.fn?).map (·.sig)) implBlock =
          fnImplHeaderOk (v.apply a.opts) ((items.filterMap BodyItem.fn?).map (·.sig)) im0 := by
        unfold fnImplHeaderOk; simp only [hpa, hst, hpr]
      rw [← hc] at this
      simpa [P_C04, effectiveOpts, h1, Out.view, View.items, Out.inside, Out.after, mainImpl?, implsOf, Item.sourceFns, h0]
        using this
  | trait t => simp [P_C04]
  | impl m => simp [P_C04]

/-- non-vacuity: bounds declared inline and in a where clause, by evaluation -/
example :
    (match expand .plain [i "Foo"] (.fn Examples.fnFoo) with
     | .ok out => (implsOf out.view.items).map (·.preds)
     | _ => []) = [[.ty [] selfTy_ [[i "A"], [i "B"]] false]] := by decide +kernel

end Entrait.C04
