import EntraitProofs.C13
/-
  C08 / C13, read semantically: what a visibility *means* depends on where it is written.

  `scopeOf vis d` is the scope a visibility qualifier denotes for an item declared in a module at
  nesting depth `d` (the crate root has depth 0): everywhere, the crate, the ancestor module at some
  depth on the path to the item (`pub(self)` / private: `d`; `pub(super)`: `d - 1`;
  `pub(in super::super)`: `d - 2`, possibly continued by a path), or a crate-rooted path.

  The generated trait of an entraited module lives one level *below* the place where the attribute —
  and with it the requested visibility — is written.  `T_C13_scope`: for every requested
  visibility, the visibility the trait is given (`visFromInside`, which `T_C13` / `T_C08` prove the
  model emits, and which the correspondence compares with the real macro) denotes at depth `d + 1`
  exactly the scope the requested one denotes at depth `d`: "as if it had been declared next to the
  module" — never wider, never narrower.  (Before fix c1f44e0 the visibility was copied verbatim:
  `scope_verbatim_differs` shows that this changes the scope.)
-/
namespace Entrait.C13
open Entrait

inductive Scope
  | world
  | crate_
  | upTo (depth : Nat) (thenPath : Toks)     -- the ancestor at `depth` (then, for `pub(in super::x)`, a path)
  | absolute (path : Toks)
  | invalid                                    -- more `super`s than there are ancestors
  deriving DecidableEq, Repr

/-- what follows `self` / `super` in a relative path: `(:: super)*`, then the rest -/
def afterHead : Toks → Nat × Toks
  | .punct ':' :: .punct ':' :: .ident "super" :: rest =>
      ((afterHead rest).1 + 1, (afterHead rest).2)
  | ts => (0, ts)

def upBy (d n : Nat) (rest : Toks) : Scope := if n ≤ d then .upTo (d - n) rest else .invalid

/-- the scope a visibility denotes for an item declared at module depth `d` -/
def scopeOf (vis : Toks) (d : Nat) : Scope :=
  match vis with
  | [] => .upTo d []
  | [.ident "pub"] => .world
  | [.ident "pub", .group .paren [.ident "crate"]] => .crate_
  | [.ident "pub", .group .paren [.ident "self"]] => .upTo d []
  | [.ident "pub", .group .paren [.ident "super"]] => upBy d 1 []
  | [.ident "pub", .group .paren (.ident "in" :: .ident "self" :: rest)] => upBy d (afterHead rest).1 (afterHead rest).2
  | [.ident "pub", .group .paren (.ident "in" :: .ident "super" :: rest)] => upBy d ((afterHead rest).1 + 1) (afterHead rest).2
  | [.ident "pub", .group .paren (.ident "in" :: path)] => .absolute path
  | other => .absolute other

theorem upBy_succ (d n : Nat) (rest : Toks) : upBy (d + 1) (n + 1) rest = upBy d n rest := by
  unfold upBy
  by_cases h : n ≤ d
  · have : n + 1 ≤ d + 1 := by omega
    simp [h, this]
  · have : ¬ (n + 1 ≤ d + 1) := by omega
    simp [h, this]

theorem upBy_zero (d : Nat) (rest : Toks) : upBy d 0 rest = .upTo d rest := by simp [upBy]

theorem afterHead_super (rest : Toks) :
    afterHead (.punct ':' :: .punct ':' :: .ident "super" :: rest) = ((afterHead rest).1 + 1, (afterHead rest).2) := by
  simp [afterHead]

/-- **the trait's visibility means, one level further in, what the requested one means outside** -/
theorem T_C13_scope (vis : Toks) (d : Nat) : scopeOf (visFromInside vis) (d + 1) = scopeOf vis d := by
  unfold visFromInside
  split
  · -- private: `pub(super)` inside
    show upBy (d + 1) 1 [] = Scope.upTo d []
    rw [upBy_succ, upBy_zero]
  · -- pub(self) → pub(in super)
    show upBy (d + 1) ((afterHead []).1 + 1) (afterHead []).2 = Scope.upTo d []
    simp only [afterHead]
    rw [upBy_succ, upBy_zero]
  · -- pub(super) → pub(in super::super)
    show upBy (d + 1) ((afterHead [p ':', p ':', i "super"]).1 + 1) (afterHead [p ':', p ':', i "super"]).2 = upBy d 1 []
    have : afterHead [p ':', p ':', i "super"] = (1, []) := by simp [afterHead, p, i]
    rw [this, upBy_succ]
  · -- pub(in self ..) → pub(in super ..)
    rename_i rest
    show upBy (d + 1) ((afterHead rest).1 + 1) (afterHead rest).2 = upBy d (afterHead rest).1 (afterHead rest).2
    rw [upBy_succ]
  · -- pub(in super ..) → pub(in super::super ..)
    rename_i rest
    show upBy (d + 1) ((afterHead (p ':' :: p ':' :: i "super" :: rest)).1 + 1) (afterHead (p ':' :: p ':' :: i "super" :: rest)).2 =
      upBy d ((afterHead rest).1 + 1) (afterHead rest).2
    have : afterHead (p ':' :: p ':' :: i "super" :: rest) = ((afterHead rest).1 + 1, (afterHead rest).2) := by
      simp [afterHead, p, i]
    rw [this, upBy_succ]
  · -- everything else (`pub`, `pub(crate)`, crate-rooted paths) does not depend on the depth
    rename_i h1 h2 h3 h4 h5
    unfold scopeOf
    split
    · exact absurd rfl h1
    · rfl
    · rfl
    · exact absurd rfl h2
    · exact absurd rfl h3
    · rename_i rest; exact absurd rfl (h4 rest)
    · rename_i rest; exact absurd rfl (h5 rest)
    · rfl
    · rfl

/-- copying a relative visibility verbatim (the behaviour before fix c1f44e0) changes its meaning -/
theorem scope_verbatim_differs :
    scopeOf [i "pub", parens [i "super"]] 2 ≠ scopeOf [i "pub", parens [i "super"]] 1 := by decide +kernel

/-- examples -/
example : scopeOf (visFromInside [i "pub", parens [i "super"]]) 3 = .upTo 1 [] := by decide +kernel
example : scopeOf (visFromInside []) 1 = .upTo 0 [] := by decide +kernel
example : scopeOf (visFromInside [i "pub", parens [i "crate"]]) 5 = .crate_ := by decide +kernel

end Entrait.C13
