import EntraitProofs.C15Locus
import EntraitProofs.C17
/-
  C15, attribute side: the leaf an attribute-side place designates is an identifier of the
  argument list — the very word the "unknown option" message quotes, or the keyword (for
  `mock_api = X` the name, for `?Send` the `Send`) of the option the target does not support.
-/
namespace Entrait.C15LocusAttr
open Entrait Entrait.C17

def unknownMsg (s : String) : String := s!"Unkonwn entrait option \"{s}\""

theorem unknownOpt_eq (s : String) : unknownOpt s = .diag (unknownMsg s) := rfl

theorem flatten_getElem_left (a b : Toks) (k : Nat) (x : Leaf) (h : (TT.flattenList a)[k]? = some x) :
    (TT.flattenList (a ++ b))[k]? = some x := by
  rw [flattenList_append]
  have hlt : k < (TT.flattenList a).length := by
    rcases Nat.lt_or_ge k (TT.flattenList a).length with hk | hk
    · exact hk
    · rw [List.getElem?_eq_none hk] at h; cases h
  rw [List.getElem?_append_left hlt]
  exact h

theorem flatten_getElem_right (a b : Toks) (k : Nat) (x : Leaf) (h : (TT.flattenList b)[k]? = some x) :
    (TT.flattenList (a ++ b))[flatLen a + k]? = some x := by
  rw [flattenList_append, List.getElem?_append_right (by simp [flatLen])]
  simpa [flatLen] using h

theorem parseEqBool_err {r : Toks} {e : PErr} (h : parseEqBool r = .error e) : e = .syn := by
  unfold parseEqBool at h
  split at h <;> first | (cases h; done) | (injection h with h; exact h.symm) | (cases h; rfl)

theorem parseEqDelegate_err {r : Toks} {e : PErr} (h : parseEqDelegate r = .error e) : e = .syn := by
  unfold parseEqDelegate at h
  split at h
  · cases h
  · cases h
  · split at h
    · injection h with h; exact h.symm
    · split at h <;> cases h
  · injection h with h; exact h.symm
  · cases h

theorem map_err {α β : Type} {f : α → β} {x : Except PErr α} {e : PErr} (h : x.map f = .error e) : x = .error e := by
  cases x with
  | error e' => simp [Except.map] at h; rw [h]
  | ok a => simp [Except.map] at h

/-- an unknown option is reported at the identifier the message quotes -/
theorem parseOpt_unknown (seg : Toks) (m : String) (h : parseOpt seg = .error (.diag m)) :
    ∃ x, m = unknownMsg x ∧ (TT.flattenList seg)[unknownOptOff seg]? = some (.ident x) := by
  unfold parseOpt at h
  split at h
  · rename_i s rest
    split at h
    · cases h
    · split at h
      · cases h
      · simp only [unknownOpt_eq, Except.error.injEq, PErr.diag.injEq] at h
        exact ⟨s, h.symm, by simp [unknownOptOff, TT.flattenList, TT.flatten]⟩
  · cases h
  · rename_i s rest
    have hoff : unknownOptOff (.ident s :: rest) = 0 := by
      unfold unknownOptOff
      split
      · rename_i heq; cases heq
      · rfl
    have hleaf : (TT.flattenList (.ident s :: rest))[0]? = some (.ident s) := by simp [TT.flattenList, TT.flatten]
    split at h
    · cases h
    split at h
    · cases parseEqBool_err (map_err h)
    split at h
    · cases parseEqBool_err (map_err h)
    split at h
    · cases parseEqDelegate_err (map_err h)
    split at h
    · cases parseEqBool_err (map_err h)
    split at h
    · split at h
      · split at h <;> cases h
      · cases h
    split at h
    · cases parseEqBool_err (map_err h)
    split at h
    · cases parseEqBool_err (map_err h)
    simp only [unknownOpt_eq, Except.error.injEq, PErr.diag.injEq] at h
    exact ⟨s, h.symm, by rw [hoff]; exact hleaf⟩
  · cases h

/-- an accepted option carries the span of an identifier of its segment -/
theorem parseOpt_span (seg : Toks) (opt : Opt) (rest : Toks) (h : parseOpt seg = .ok (opt, rest)) :
    ∃ x, (TT.flattenList seg)[opt.spanOff]? = some (.ident x) := by
  unfold parseOpt at h
  split at h
  · rename_i s r
    split at h
    · cases h
    · split at h
      · injection h with h
        simp only [Prod.mk.injEq] at h
        rw [← h.1]
        exact ⟨s, by simp [Opt.spanOff, TT.flattenList, TT.flatten]⟩
      · cases h
  · cases h
  · rename_i s r
    have hleaf : (TT.flattenList (.ident s :: r))[0]? = some (.ident s) := by simp [TT.flattenList, TT.flatten]
    have key : ∀ {α : Type} (x : Except PErr (α × Toks)) (g : α → Opt), (∀ a, (g a).spanOff = 0) →
        x.map (fun (q : α × Toks) => (g q.1, q.2)) = .ok (opt, rest) → opt.spanOff = 0 := by
      intro α x g hg hx
      cases x with
      | error e => simp [Except.map] at hx
      | ok q => simp [Except.map] at hx; rw [← hx.1]; exact hg _
    split at h
    · cases h
    split at h
    · exact ⟨s, by rw [key _ Opt.noDeps (fun _ => rfl) h]; exact hleaf⟩
    split at h
    · exact ⟨s, by rw [key _ Opt.debug (fun _ => rfl) h]; exact hleaf⟩
    split at h
    · exact ⟨s, by rw [key _ Opt.delegateBy (fun _ => rfl) h]; exact hleaf⟩
    split at h
    · exact ⟨s, by rw [key _ Opt.export_ (fun _ => rfl) h]; exact hleaf⟩
    split at h
    · split at h
      · rename_i mm r'
        split at h
        · cases h
        · injection h with h
          simp only [Prod.mk.injEq] at h
          rw [← h.1]
          exact ⟨mm, by simp [Opt.spanOff, TT.flattenList, TT.flatten]⟩
      · cases h
    split at h
    · exact ⟨s, by rw [key _ Opt.unimock (fun _ => rfl) h]; exact hleaf⟩
    split at h
    · exact ⟨s, by rw [key _ Opt.mockall (fun _ => rfl) h]; exact hleaf⟩
    cases h
  · cases h

def unsupportedMsg : String := "Unsupported option"

/-- the error of a list of option segments: its place is an identifier leaf of the segments written
    out with commas — the unknown word itself, or the keyword / value of the unsupported option -/
theorem optSegs_where {σ : Type} (set : σ → Opt → Option σ) :
    ∀ (segs : List Toks) (st : σ) (base : Nat) (m : String), parseOptSegs set st segs = .error (.diag m) →
      ∃ k x, optSegsLocus set st segs base = some (.attr (base + k) 1) ∧
        (TT.flattenList (attrOf segs))[k]? = some (.ident x) ∧ (m = unknownMsg x ∨ m = unsupportedMsg)
  | [], st, base, m, h => by simp [parseOptSegs] at h
  | seg :: rest, st, base, m, h => by
      rw [parseOptSegs.eq_2] at h
      unfold optSegsLocus
      obtain ⟨more, hmore⟩ := joinSep_cons [p ','] seg rest
      cases hp : parseOpt seg with
      | error e =>
        simp only [hp] at h
        injection h with h
        subst h
        obtain ⟨x, hm, hleaf⟩ := parseOpt_unknown seg m hp
        refine ⟨unknownOptOff seg, x, rfl, ?_, Or.inl hm⟩
        rw [attrOf, hmore]
        exact flatten_getElem_left _ _ _ _ hleaf
      | ok r =>
        obtain ⟨opt, r'⟩ := r
        simp only [hp] at h ⊢
        cases hs : set st opt with
        | none =>
          simp only [hs] at h ⊢
          obtain ⟨x, hleaf⟩ := parseOpt_span seg opt r' hp
          refine ⟨opt.spanOff, x, rfl, ?_, Or.inr ?_⟩
          · rw [attrOf, hmore]
            exact flatten_getElem_left _ _ _ _ hleaf
          · injection h with h
            injection h with h
            exact h.symm
        | some st' =>
          simp only [hs] at h ⊢
          split at h
          · rename_i hemp
            simp only [hemp, if_true]
            cases rest with
            | nil => simp [parseOptSegs] at h
            | cons y ys =>
              obtain ⟨k, x, hl, hleaf, hm⟩ := optSegs_where set (y :: ys) st' (base + flatLen seg + 1) m h
              refine ⟨flatLen seg + 1 + k, x, ?_, ?_, hm⟩
              · rw [hl]; congr 2; omega
              · have := flatten_getElem_right (seg ++ [p ',']) (attrOf (y :: ys)) k _ hleaf
                simpa [attrOf, joinSep, List.append_assoc, Nat.add_comm, Nat.add_left_comm] using this
          · cases h

theorem attrOf_cons_cons (a : Toks) (y : Toks) (ys : List Toks) :
    attrOf (a :: y :: ys) = a ++ [p ','] ++ attrOf (y :: ys) := by simp [attrOf, joinSep]

theorem attrOf_append_head (a b : Toks) (segs : List Toks) : attrOf ((a ++ b) :: segs) = a ++ attrOf (b :: segs) := by
  cases segs with
  | nil => simp [attrOf, joinSep]
  | cons y ys => simp [attrOf, joinSep, List.append_assoc]

theorem optSegs_err_ne_nil {σ : Type} {set : σ → Opt → Option σ} {st : σ} {segs : List Toks} {e : PErr}
    (h : parseOptSegs set st segs = .error e) : segs ≠ [] := by
  intro hn; subst hn; simp [parseOptSegs] at h

/-- **fn / mod attribute**: the diagnostic of the argument parser points at an identifier of the
    argument list — the unknown word the message quotes, or the keyword of the unsupported option -/
theorem T_C15_attr_where_fn (ts : Toks) (m : String) (h : parseFnAttr ts = .error (.diag m)) :
    ∃ n x, fnAttrLocus ts = some (.attr n 1) ∧ (TT.flattenList ts)[n]? = some (.ident x) ∧
      (m = unknownMsg x ∨ m = unsupportedMsg) := by
  unfold parseFnAttr at h
  unfold fnAttrLocus
  have hts := attrOf_splitCommas ts
  cases hsp : splitCommas ts with
  | nil => rw [hsp] at h; simp [parseFnSegs] at h
  | cons seg0 segs =>
    rw [hsp] at h hts
    rw [parseFnSegs.eq_2] at h
    rw [fnSegsLocus.eq_2]
    cases hv : parseVis seg0 with
    | error e => rw [hv] at h; simp only at h; have := parseVis_err _ _ hv; subst this; cases h
    | ok r =>
      obtain ⟨vis, rest⟩ := r
      rw [hv] at h
      simp only at h ⊢
      split at h
      · rename_i name
        split at h
        · cases h
        · rename_i hk
          simp only [hk, Bool.false_eq_true, if_false]
          cases ho : parseOptSegs Opts.setFn {} segs with
          | ok o => rw [ho] at h; cases h
          | error e =>
            rw [ho] at h
            injection h with h
            subst h
            obtain ⟨k, x, hl, hleaf, hm⟩ := optSegs_where Opts.setFn segs {} (flatLen seg0 + 1) m ho
            refine ⟨flatLen seg0 + 1 + k, x, hl, ?_, hm⟩
            cases segs with
            | nil => exact absurd rfl (optSegs_err_ne_nil ho)
            | cons y ys =>
              rw [← hts, attrOf_cons_cons]
              have := flatten_getElem_right (seg0 ++ [p ',']) (attrOf (y :: ys)) k _ hleaf
              simpa [Nat.add_assoc] using this
      · cases h

/-- **trait attribute** -/
theorem T_C15_attr_where_trait (ts : Toks) (m : String) (h : parseTraitAttr ts = .error (.diag m)) :
    ∃ n x, traitAttrLocus ts = some (.attr n 1) ∧ (TT.flattenList ts)[n]? = some (.ident x) ∧
      (m = unknownMsg x ∨ m = unsupportedMsg) := by
  unfold parseTraitAttr at h
  unfold traitAttrLocus
  split at h
  · cases h
  · rename_i hne
    simp only [hne, Bool.false_eq_true, if_false]
    have hts := attrOf_splitCommas ts
    cases hsp : splitCommas ts with
    | nil => rw [hsp] at h; simp [parseTraitSegs] at h
    | cons seg0 segs =>
      rw [hsp] at h hts
      rw [parseTraitSegs.eq_2] at h
      rw [traitSegsLocus.eq_2]
      cases hp : parseOpt seg0 with
      | ok r =>
        simp only [hp] at h ⊢
        obtain ⟨k, x, hl, hleaf, hm⟩ := optSegs_where TraitAttr.set (seg0 :: segs) {} 0 m h
        rw [hts] at hleaf
        exact ⟨0 + k, x, hl, by simpa using hleaf, hm⟩
      | error e0 =>
        simp only [hp] at h ⊢
        cases hv : parseVis seg0 with
        | error e => rw [hv] at h; simp only at h; have := parseVis_err _ _ hv; subst this; cases h
        | ok r =>
          obtain ⟨vis, rest⟩ := r
          have hprint := parseVis_print seg0 vis rest hv
          rw [hv] at h
          simp only at h ⊢
          split at h
          · rename_i name rest0
            split at h
            · cases h
            · rename_i hk
              simp only [hk, Bool.false_eq_true, if_false]
              split at h
              · -- options follow the target trait without a comma
                rename_i hr0
                simp only [hr0, if_true]
                obtain ⟨k, x, hl, hleaf, hm⟩ := optSegs_where TraitAttr.set (rest0 :: segs)
                  { implTrait := some (vis, name) } (flatLen seg0 - flatLen rest0) m h
                refine ⟨flatLen seg0 - flatLen rest0 + k, x, hl, ?_, hm⟩
                have hseg : seg0 = (vis ++ [TT.ident name]) ++ rest0 := by rw [← hprint]; simp
                rw [← hts, hseg, attrOf_append_head]
                have := flatten_getElem_right (vis ++ [TT.ident name]) (attrOf (rest0 :: segs)) k _ hleaf
                have hidx : flatLen ((vis ++ [TT.ident name]) ++ rest0) - flatLen rest0 + k = flatLen (vis ++ [TT.ident name]) + k := by
                  rw [flatLen_append]; omega
                rw [hidx]
                exact this
              · rename_i hr0
                simp only [hr0, Bool.false_eq_true, if_false]
                split at h
                · simp [parseOptSegs] at h
                · rename_i hs1
                  simp only [hs1, Bool.false_eq_true, if_false]
                  obtain ⟨k, x, hl, hleaf, hm⟩ := optSegs_where TraitAttr.set segs
                    { implTrait := some (vis, name) } (flatLen seg0 + 1) m h
                  refine ⟨flatLen seg0 + 1 + k, x, hl, ?_, hm⟩
                  cases segs with
                  | nil => exact absurd rfl (optSegs_err_ne_nil h)
                  | cons y ys =>
                    rw [← hts, attrOf_cons_cons]
                    have := flatten_getElem_right (seg0 ++ [p ',']) (attrOf (y :: ys)) k _ hleaf
                    simpa [Nat.add_assoc] using this
          · cases h

theorem stripKw_split (k : String) (ts : Toks) :
    ts = (if (stripKw k ts).1 then [TT.ident k] else []) ++ (stripKw k ts).2 := by
  unfold stripKw
  split
  · rename_i s rest
    by_cases hs : (s == k) = true
    · have : s = k := by simpa using hs
      simp [this]
    · simp [hs]
  · simp

/-- **impl-block attribute** -/
theorem T_C15_attr_where_impl (ts : Toks) (m : String) (h : parseImplAttr ts = .error (.diag m)) :
    ∃ n x, implAttrLocus ts = some (.attr n 1) ∧ (TT.flattenList ts)[n]? = some (.ident x) ∧
      (m = unknownMsg x ∨ m = unsupportedMsg) := by
  unfold parseImplAttr parseImplOpts at h
  unfold implAttrLocus
  simp only at h ⊢
  split at h
  · cases h
  · rename_i hne
    simp only [hne, Bool.false_eq_true, if_false]
    obtain ⟨k, x, hl, hleaf, hm⟩ := optSegs_where ImplAttr.set (splitCommas (stripKw "dyn" (stripKw "ref" ts).2).2)
      { dynRef := (stripKw "ref" ts).1 || (stripKw "dyn" (stripKw "ref" ts).2).1 }
      (flatLen ts - flatLen (stripKw "dyn" (stripKw "ref" ts).2).2) m h
    rw [attrOf_splitCommas] at hleaf
    refine ⟨_, x, hl, ?_, hm⟩
    have h1 := stripKw_split "ref" ts
    have h2 := stripKw_split "dyn" (stripKw "ref" ts).2
    have hts : ts = ((if (stripKw "ref" ts).1 then [TT.ident "ref"] else []) ++
        (if (stripKw "dyn" (stripKw "ref" ts).2).1 then [TT.ident "dyn"] else [])) ++
        (stripKw "dyn" (stripKw "ref" ts).2).2 := by
      rw [List.append_assoc, ← h2, ← h1]
    have hlen : flatLen ts - flatLen (stripKw "dyn" (stripKw "ref" ts).2).2 =
        flatLen ((if (stripKw "ref" ts).1 then [TT.ident "ref"] else []) ++
          (if (stripKw "dyn" (stripKw "ref" ts).2).1 then [TT.ident "dyn"] else [])) := by
      conv => lhs; arg 1; rw [hts]
      rw [flatLen_append]; omega
    rw [hlen]
    conv => lhs; arg 1; arg 1; rw [hts]
    exact flatten_getElem_right _ _ k _ hleaf

end Entrait.C15LocusAttr
