import EntraitModel.Expand
import EntraitModel.Locus
/-
  Property predicates.  Each `P_Cxx` is a decidable (Bool) statement about a *view* of an
  expansion — the generated items plus whether the original survived — and about the input.
  The same predicate is (a) proved of the model for all inputs (EntraitProofs/Cxx.lean) and
  (b) evaluated by the driver on the real macro's output, re-parsed by the harness.

  Predicates speak specification vocabulary: they read the input AST and the attribute
  arguments, and the generated items; they never call the model's code generators.
-/
namespace Entrait

structure View where
  origOk : Bool := true       -- the original item region is emitted unchanged
  parsed : Bool := true       -- the generated region parses as Rust items
  inherent : Toks := []       -- impl mode: the inherent impl block
  inside : List GenItem := []
  after : List GenItem := []
  deriving Repr, Inhabited, DecidableEq

def Out.view (o : Out) : View :=
  { inherent := (match o with | .implOut inh _ => inh | _ => []), inside := o.inside, after := o.after }

def View.items (v : View) : List GenItem := v.inside ++ v.after

def traitsOf : List GenItem → List GenTrait
  | [] => []
  | .trait t :: rest => t :: traitsOf rest
  | _ :: rest => traitsOf rest

def implsOf : List GenItem → List GenImpl
  | [] => []
  | .impl m :: rest => m :: implsOf rest
  | _ :: rest => implsOf rest

def GenMember.sig? : GenMember → Option Sig
  | .fn _ s _ => some s
  | .raw _ => none

def GenMember.isFn : GenMember → Bool
  | .fn _ _ _ => true
  | .raw _ => false

def GenMember.attrs : GenMember → List Attr
  | .fn a _ _ => a
  | .raw _ => []

def methodNames (ms : List GenMember) : List String := ms.filterMap (fun m => m.sig?.map (·.ident))

/-! ### reading the input (specification side) -/

inductive Mode | fn | mod_ | trait | impl
  deriving DecidableEq, Repr, Inhabited

def Item.mode : Item → Mode
  | .fn _ => .fn | .mod_ _ => .mod_ | .trait _ => .trait | .impl _ => .impl

/-- the functions an fn / mod / impl input contributes to the trait, in source order -/
def Item.sourceFns : Item → List FnItem
  | .fn f => [f]
  | .mod_ m =>
      match splitBody false m.oracle m.body.length m.body with
      | .ok items => items.filterMap BodyItem.fn?
      | .error _ => []
  | .impl m =>
      match splitBody true m.oracle m.body.length m.body with
      | .ok items => items.filterMap BodyItem.fn?
      | .error _ => []
  | .trait _ => []

/-- attributes "below entrait" on the item itself -/
def Item.attrs : Item → List Attr
  | .fn f => f.attrs | .mod_ m => m.attrs | .trait t => t.attrs | .impl m => m.attrs

/-- the options in force: written ones, then the macro variant's fallbacks -/
def effectiveOpts (v : Variant) (attr : Toks) (item : Item) : Option Opts :=
  match item with
  | .fn _ | .mod_ _ => match parseFnAttr attr with | .ok a => some (v.apply a.opts) | .error _ => none
  | .trait _ => match parseTraitAttr attr with | .ok a => some (v.apply a.opts) | .error _ => none
  | .impl _ => match parseImplAttr attr with | .ok a => some (v.apply a.opts) | .error _ => none

def typedArgs : List FnArg → List FnArg := List.filter (fun a => !a.isRecv)

/-- the parameters after the dependency parameter -/
def Sig.userParams (s : Sig) (noDeps : Bool) : List FnArg := if noDeps then s.inputs else s.inputs.drop 1

def stripPrefix (pre : Toks) (ts : Toks) : Option Toks :=
  if pre.isPrefixOf ts then some (ts.drop pre.length) else none

/-! ### recognisers for generated bodies -/

structure Call where
  selfScope : Bool
  callee : String
  args : List String
  await : Bool
  deriving DecidableEq, Repr, Inhabited

/-- `a, b, c` with an optional trailing comma; every argument a single identifier -/
def parseIdentArgs : Toks → Option (List String)
  | [] => some []
  | [.ident a] => some [a]
  | .ident a :: .punct ',' :: rest => (parseIdentArgs rest).map (a :: ·)
  | _ => none

def parseAwait : Toks → Option Bool
  | [] => some false
  | [.punct '.', .ident "await"] => some true
  | _ => none

/-- `[Self::]f(args)[.await]` -/
def parseCall : Toks → Option Call
  | .ident "Self" :: .punct ':' :: .punct ':' :: .ident f :: .group .paren args :: rest => do
      some { selfScope := true, callee := f, args := ← parseIdentArgs args, await := ← parseAwait rest }
  | .ident f :: .group .paren args :: rest => do
      some { selfScope := false, callee := f, args := ← parseIdentArgs args, await := ← parseAwait rest }
  | _ => none

/-- the delegation shapes of an entraited trait's `Impl<T>` methods -/
inductive DelegShape
  | bySelf                                  -- `self.as_ref().m(..)`
  | byRef (borrow : Bool)                   -- `self.as_ref().as_ref().m(..)` / `.borrow()`
  | staticTarget (implTrait : String)       -- `<EntraitT::Target as I<EntraitT>>::m(self, ..)`
  | dynTarget (implTrait : String) (borrow : Bool) (sync : Bool)
  deriving DecidableEq, Repr, Inhabited

structure DelegCall where
  shape : DelegShape
  callee : String
  args : List String
  await : Bool
  deriving DecidableEq, Repr, Inhabited

def identArgs (names : List String) : Toks := joinSep [p ','] (names.map fun a => [i a])

/-- the documented forwarding expression of a delegating `Impl<T>` method -/
def specDelegBody (shape : DelegShape) (f : String) (args : List String) (aw : Bool) : Toks :=
  (match shape with
   | .bySelf => [i "self", p '.', i "as_ref", parens [], p '.', i f, parens (identArgs args)]
   | .byRef false =>
       [i "self", p '.', i "as_ref", parens [], p '.', i "as_ref", parens [], p '.', i f, parens (identArgs args)]
   | .byRef true =>
       [i "self", p '.', i "as_ref", parens [], p '.', i "borrow", parens [], p '.', i f, parens (identArgs args)]
   | .staticTarget it =>
       [p '<', i "EntraitT"] ++ pathSep ++ [i "Target", i "as", i it, p '<', i "EntraitT", p '>', p '>'] ++ pathSep ++
       [i f, parens ([i "self", p ','] ++ identArgs args)]
   | .dynTarget it borrow sync =>
       [p '<', i "EntraitT", i "as"] ++ (if borrow then borrowPath else asRefPath) ++
       [p '<', i "dyn", i it, p '<', i "EntraitT", p '>'] ++ (if sync then p '+' :: syncToks else []) ++
       [p '>', p '>'] ++ pathSep ++
       [i (if borrow then "borrow" else "as_ref"), parens [p '&', p '*', i "self"], p '.', i f,
        parens ([i "self", p ','] ++ identArgs args)]) ++
  (if aw then [p '.', i "await"] else [])

def parseDeleg (ts : Toks) : Option DelegCall :=
  let selfAsRef : Toks := [i "self", p '.', i "as_ref", parens [], p '.']
  match stripPrefix selfAsRef ts with
  | some rest =>
      let (shape, rest') : DelegShape × Toks :=
        match stripPrefix [i "as_ref", parens [], p '.'] rest with
        | some r => (.byRef false, r)
        | none =>
          match stripPrefix [i "borrow", parens [], p '.'] rest with
          | some r => (.byRef true, r)
          | none => (.bySelf, rest)
      match rest' with
      | .ident f :: .group .paren args :: tail => do
          some { shape := shape, callee := f, args := ← parseIdentArgs args, await := ← parseAwait tail }
      | _ => none
  | none =>
    match ts with
    | .punct '<' :: .ident "EntraitT" :: .punct ':' :: .punct ':' :: .ident "Target" :: .ident "as" ::
        .ident it :: .punct '<' :: .ident "EntraitT" :: .punct '>' :: .punct '>' :: .punct ':' :: .punct ':' ::
        .ident f :: .group .paren args :: tail => do
        some { shape := .staticTarget it, callee := f, args := ← parseIdentArgs args, await := ← parseAwait tail }
    | .punct '<' :: .ident "EntraitT" :: .ident "as" :: rest =>
        -- `::core::convert::AsRef<dyn I<EntraitT> [+ ::core::marker::Sync]>>::as_ref(&*self).m(self, ..)`
        let tryKind (borrow : Bool) : Option DelegCall :=
          let path := if borrow then borrowPath else asRefPath
          match stripPrefix (path ++ [p '<', i "dyn"]) rest with
          | none => none
          | some r1 =>
            match r1 with
            | .ident it :: .punct '<' :: .ident "EntraitT" :: .punct '>' :: r2 =>
                let (sync, r3) : Bool × Toks :=
                  match stripPrefix (p '+' :: syncToks) r2 with
                  | some r => (true, r)
                  | none => (false, r2)
                let meth := if borrow then "borrow" else "as_ref"
                match stripPrefix ([p '>', p '>'] ++ pathSep ++ [i meth, parens [p '&', p '*', i "self"], p '.']) r3 with
                | some (.ident f :: .group .paren args :: tail) => do
                    some { shape := .dynTarget it borrow sync, callee := f, args := ← parseIdentArgs args,
                           await := ← parseAwait tail }
                | _ => none
            | _ => none
        match tryKind false with
        | some c => some c
        | none => tryKind true
    | _ => none

/-! ### small helpers -/

def allPlain : List FnArg → Bool
  | [] => true
  | .typed _ (.ident false false _ none) _ :: rest => allPlain rest
  | .typed .. :: _ => false
  | _ :: rest => allPlain rest

def noParamAttrs : List FnArg → Bool
  | [] => true
  | .typed [] _ _ :: rest => noParamAttrs rest
  | .recv [] _ _ _ :: rest => noParamAttrs rest
  | _ => false

def nodup : List String → Bool
  | [] => true
  | x :: xs => !xs.contains x && nodup xs

def zipAll {α β : Type} (f : α → β → Bool) : List α → List β → Bool
  | [], [] => true
  | a :: as, b :: bs => f a b && zipAll f as bs
  | _, _ => false

def mainTrait? (v : View) : Option GenTrait := (traitsOf v.items).head?
def mainImpl? (v : View) : Option GenImpl := (implsOf v.items).getLast?

def optsNoDeps (o : Option Opts) : Bool := match o with | some o => o.noDepsValue | none => false

/-- the name a source pattern provides, if any -/
def Pat.providedName : Pat → Option String
  | .ident _ _ name _ => some name
  | .other _ bs => match bs.filter lowerFirst with | [b] => some b | _ => none

def FnArg.providedName : FnArg → Option String
  | .typed _ pat _ => pat.providedName
  | _ => none

/-- a lexically valid identifier: after removing one `r#` there is no further `r#`
    (identifiers cannot contain `#`) -/
def identOk (s : String) : Bool :=
  match (unraw s).toList with
  | 'r' :: '#' :: _ => false
  | _ => true

/-- the function names of the input are lexically valid identifiers (and, in an impl block, none
    is the macro's reserved binder `__impl`) -/
def Item.identsOk : Item → Bool
  | .trait t => t.members.all (fun m => match m with | .fn f => identOk f.sig.ident | _ => true)
  | .impl m => (Item.impl m).sourceFns.all (fun f => identOk f.sig.ident && unraw f.sig.ident != "__impl")
  | item => item.sourceFns.all (fun f => identOk f.sig.ident)

/-! ## C01 — a generated method calls its own function, with the receiver and the arguments in order -/

def methodCallsFn (noDeps : Bool) (selfScoped : Bool) (src : FnItem) (m : GenMember) : Bool :=
  match m with
  | .fn _ sig (some body) =>
      match parseCall body with
      | some c =>
          let ps := paramIdents sig.inputs
          sig.ident == src.sig.ident && c.callee == sig.ident && c.selfScope == selfScoped &&
          c.await == src.sig.async_ &&
          c.args == (if noDeps then [] else [if selfScoped then "__impl" else "self"]) ++ (if selfScoped then ps.drop 1 else ps) &&
          allPlain sig.inputs && !(ps.map unraw).contains (unraw sig.ident) &&
          -- (source bindings that collide among themselves, or with the macro's own binder `__impl`,
          --  are not valid input)
          (nodup (ps.map unraw) ||
            !nodup ((if selfScoped then ["__impl"] else []) ++
              ((typedArgs (src.sig.userParams noDeps)).filterMap FnArg.providedName).map unraw)) &&
          (typedArgs sig.inputs).length == (typedArgs (src.sig.userParams noDeps)).length + (if selfScoped then 1 else 0)
      | none => false
  | _ => false

def P_C01 (v : Variant) (attr : Toks) (item : Item) (view : View) : Bool :=
  match item with
  | .fn _ | .mod_ _ =>
      match mainImpl? view with
      | some impl => zipAll (fun src m => methodCallsFn (optsNoDeps (effectiveOpts v attr item)) false src m)
                       item.sourceFns impl.members
      | none => false
  | _ => true

/-! ## C02 — the original is emitted unchanged, generated items only added -/

def expectedInherent (m : ImplItemIn) : Toks :=
  printAttrs (m.attrs.filter (fun a => a.subKind != .asyncTrait)) ++
  (if m.unsafe_ then [i "unsafe"] else []) ++ [i "impl"] ++ m.selfTy ++ [braces m.body]

def P_C02 (item : Item) (view : View) : Bool :=
  match item with
  | .fn _ | .mod_ _ => view.origOk
  | .impl m => decide (view.inherent = expectedInherent m)
  | .trait _ => true

/-! ## C16 — generated parameter names -/

def namesKept (fnName : String) : List FnArg → List String → Bool
  | [], [] => true
  | a :: as, n :: ns =>
      (match a.providedName with
       | some k => if unraw k == fnName then true else n == k
       | none => true) && namesKept fnName as ns
  | _, _ => false

def paramNamesOk (fnIdent : String) (srcParams : List FnArg) (sig : Sig) (reserved : List String := []) : Bool :=
  let names := paramIdents sig.inputs
  let provided := srcParams.filterMap FnArg.providedName
  allPlain sig.inputs && !(names.map unraw).contains (unraw fnIdent) &&
  -- source bindings that collide among themselves (or with the macro's own binder) are not
  -- valid input: no further claim
  (if nodup (reserved ++ provided.map unraw) then nodup (names.map unraw) && namesKept (unraw fnIdent) srcParams names
   else names.length == srcParams.length)

def P_C16 (v : Variant) (attr : Toks) (item : Item) (view : View) : Bool :=
  match item with
  | .fn _ | .mod_ _ | .impl _ =>
      let noDeps := optsNoDeps (effectiveOpts v attr item)
      let skip := if item.mode == .impl then 1 else 0        -- `__impl` is the macro's own binder
      let ok (ms : List GenMember) : Bool :=
        zipAll (fun (src : FnItem) m =>
          match m.sig? with
          | some sig =>
              paramNamesOk src.sig.ident (typedArgs (src.sig.userParams noDeps))
                { sig with inputs := (typedArgs sig.inputs).drop skip } (if skip == 1 then ["__impl"] else [])
          | none => false) item.sourceFns ms
      (match item.mode, mainTrait? view with
       | .impl, _ => true
       | _, some t => ok t.members
       | _, none => false) &&
      (match mainImpl? view with | some m => ok m.members | none => false)
  | .trait t =>
      -- delegating methods of `Impl<T>`: plain, distinct, not the method's own name
      match mainImpl? view with
      | some m =>
          zipAll (fun (src : TraitFnItem) g =>
            match g.sig? with
            | some sig => paramNamesOk src.sig.ident (typedArgs src.sig.inputs) sig
            | none => false)
            t.fns m.members
      | none => false

/-! ## C08 — module mode: one method per non-private function, in order; trait visible to the parent -/

/-- the visibility a trait declared *inside* a module must carry so that it is visible exactly
    where `requested` — written next to the module — says: private means `pub(super)`, `pub` and
    crate-rooted restrictions are unchanged, and a restriction relative to the outer module is one
    `super` further away -/
def visFromInside (requested : Toks) : Toks :=
  match requested with
  | [] => [i "pub", parens [i "super"]]
  | [.ident "pub", .group .paren [.ident "self"]] => [i "pub", parens [i "in", i "super"]]
  | [.ident "pub", .group .paren [.ident "super"]] => [i "pub", parens [i "in", i "super", p ':', p ':', i "super"]]
  | [.ident "pub", .group .paren (.ident "in" :: .ident "self" :: rest)] => [i "pub", parens (i "in" :: i "super" :: rest)]
  | [.ident "pub", .group .paren (.ident "in" :: .ident "super" :: rest)] =>
      [i "pub", parens (i "in" :: i "super" :: p ':' :: p ':' :: i "super" :: rest)]
  | vis => vis

def useItem (traitVis : Toks) (modIdent traitIdent : String) : Toks :=
  traitVis ++ [i "use", i modIdent] ++ pathSep ++ [i traitIdent, p ';']

def P_C08 (attr : Toks) (item : Item) (expected : Option (List String)) (view : View) : Bool :=
  match item with
  | .mod_ m =>
      match parseFnAttr attr, traitsOf view.inside, implsOf view.inside with
      | .ok a, [t], [im] =>
          let names := methodNames t.members
          names == (item.sourceFns.map (·.sig.ident)) &&
          (match expected with | some e => names == e | none => true) &&
          methodNames im.members == names && t.members.length == names.length &&
          t.ident == a.traitIdent &&
          t.vis == visFromInside a.traitVis &&
          view.after == [.raw (useItem a.traitVis m.ident a.traitIdent)]
      | _, _, _ => false
  | _ => true

/-! ## C13 — visibility of generated traits -/

def P_C13 (attr : Toks) (item : Item) (view : View) : Bool :=
  match item with
  | .fn _ =>
      match parseFnAttr attr, mainTrait? view with
      | .ok a, some t => t.vis == a.traitVis
      | _, _ => false
  | .mod_ _ =>
      match parseFnAttr attr, mainTrait? view with
      | .ok a, some t => t.vis == visFromInside a.traitVis
      | _, _ => false
  | .trait src =>
      match parseTraitAttr attr, traitsOf view.items with
      | .ok a, t :: rest =>
          t.vis == src.vis &&
          (match a.implTrait, rest with
           | some (_, implIdent), d :: _ => d.ident == implIdent && d.vis == src.vis
           | some _, [] => false
           | none, _ => true)
      | _, _ => false
  | .impl _ => true

/-! ## C10 — mock derivations only when enabled, test-gated unless exported -/

inductive MockKind | unimock | automock
  deriving DecidableEq, Repr, Inhabited

/-- (kind, wrapped in `cfg_attr(test, ..)`) if the attribute is one of the macro's mock derivations -/
def classifyMock (ts : Toks) : Option MockKind :=
  match stripPrefix unimockPath ts with
  | some [.group .paren _] => some .unimock
  | _ => if ts == mockallPath then some .automock else none

def Attr.mockKind (a : Attr) : Option (MockKind × Bool) :=
  match a.inner with
  | [.ident "cfg_attr", .group .paren (.ident "test" :: .punct ',' :: rest)] => (classifyMock rest).map (·, true)
  | ts => (classifyMock ts).map (·, false)

def mockKinds (t : GenTrait) : List (MockKind × Bool) := t.attrs.filterMap Attr.mockKind

def expectedMockKinds (mode : Mode) (o : Opts) : List (MockKind × Bool) :=
  let gated := !o.exportValue
  (if o.unimockValue && (mode == .trait || o.mockApi.isSome) then [(.unimock, gated)] else []) ++
  (if o.mockallValue then [(.automock, gated)] else [])

/-- mock derivations the user wrote below entrait and which entrait deliberately re-applies -/
def userMockKinds (item : Item) : List (MockKind × Bool) :=
  -- an entraited trait keeps all of its own attributes; from a fn / mod only `async_trait` / `automock` are re-applied
  (if item.mode == .trait then item.attrs
   else item.attrs.filter (fun a => a.subKind == .asyncTrait || a.subKind == .automock)).filterMap Attr.mockKind

def P_C10 (v : Variant) (attr : Toks) (item : Item) (view : View) : Bool :=
  match item.mode, effectiveOpts v attr item, traitsOf view.items with
  | .impl, _, ts => ts.all (fun t => mockKinds t == [])
  | mode, some o, t :: rest =>
      mockKinds t == expectedMockKinds mode o ++ userMockKinds item && rest.all (fun d => mockKinds d == [])
  | _, _, _ => false

/-! ## C18 — foreign attributes stay where the user put them -/

def entraitOwned (a : Attr) : Bool :=
  a.mockKind.isSome || a == entraitForTraitAttr

/-- the attribute's path is the single identifier `cfg` -/
def isPlainCfg (a : Attr) : Bool :=
  a.inner.head? == some (.ident "cfg") && a.inner.tail.head? != some (.punct ':')

/-- what each generated method carries, in source order: nothing for a single function (the function, with all of
    its attributes, is re-emitted once); for the functions of a module / impl block exactly their `cfg`
    attributes, so that a disabled function disables its trait method and delegating method with it -/
def mirroredAttrs (item : Item) : List (List Attr) :=
  match item with
  | .fn _ => [[]]
  | _ => item.sourceFns.map (fun f => f.attrs.filter isPlainCfg)

def memberAttrsOk (exp : List (List Attr)) (ms : List GenMember) : Bool :=
  zipAll (fun c m => match m with | .fn as s _ => as == c && noParamAttrs s.inputs | .raw _ => true) exp ms

def P_C18 (item : Item) (view : View) : Bool :=
  let src := item.attrs
  let reapplied (a : Attr) : Bool := src.contains a && (a.subKind == .asyncTrait || a.subKind == .automock)
  match item with
  | .fn _ | .mod_ _ | .impl _ =>
      (traitsOf view.items).all (fun t =>
        t.attrs.all (fun a => entraitOwned a || reapplied a) &&
        memberAttrsOk (mirroredAttrs item) t.members) &&
      (implsOf view.items).all (fun m =>
        m.attrs.all (fun a => src.contains a && a.subKind == .asyncTrait) &&
        memberAttrsOk (mirroredAttrs item) m.members)
  | .trait t =>
      (match mainImpl? view with
       | some m =>
           zipAll (fun (srcFn : TraitFnItem) g => g.attrs == srcFn.attrs)
             t.fns m.members
       | none => false) &&
      -- every generated trait that declares methods — the re-emitted trait and the delegation-target trait an
      -- impl block is written against — mirrors the attributes of the methods too (a `cfg`-disabled method
      -- must be disabled on all of them, or the impl block and its trait disagree about what exists)
      (traitsOf view.items).all (fun g =>
        let ms := g.members.filter GenMember.isFn
        ms.isEmpty || zipAll (fun (srcFn : TraitFnItem) m => m.attrs == srcFn.attrs) t.fns ms)

/-! ## syn-stable inputs

  entrait re-emits functions through syn's printer.  For almost every input that is the
  identity on tokens; it is not for a handful of syn normalisations (an empty `<>`, `T:` with no
  bounds, lifetimes declared after type parameters).  Verbatim claims are made for inputs on
  which syn's printer is the identity, which is checked per case. -/

def oracleStable (o : SigOracle) (body : Toks) : Bool :=
  o.all (fun e => e.consumed ≤ e.remaining && e.remaining ≤ body.length &&
    decide (e.sig.print = (body.drop (body.length - e.remaining)).take e.consumed))

def synStable (item : Item) (input : Toks) : Bool :=
  decide (item.print = input) &&
  (match item with
   | .mod_ m => oracleStable m.oracle m.body
   | .impl m => oracleStable m.oracle m.body
   | _ => true)

/-! ## C03 — same call type: parameter types, lifetimes, return type, receiver, generic scoping -/

def tyToks : FnArg → Toks
  | .typed _ _ ty => ty.print
  | .recv .. => []

/-- the dependency parameter's generic name, if the dependency is a named generic -/
def Ty.stripRefs : Ty → Ty
  | .ref_ _ _ e => e.stripRefs
  | .paren e => e.stripRefs
  | t => t

def Sig.depGenericName (s : Sig) : Option String :=
  match s.inputs with
  | .typed _ _ ty :: _ =>
      match ty.stripRefs with
      | .path false false 1 first _ =>
          if s.generics.params.any (fun q => q.isType && q.name == first) then some first else none
      | _ => none
  | _ => none

/-- receiver the method must have for the given dependency parameter -/
def expectedReceiver (noDeps : Bool) (s : Sig) : Option FnArg :=
  if noDeps then some (.recv [] (some none) false none)
  else
    match s.inputs with
    | .typed _ _ (.ref_ lt _ _) :: _ => some (.recv [] (some lt) false none)
    | .typed .. :: _ => some (.recv [] none false none)
    | _ => none

def liftedParams (noDeps : Bool) (s : Sig) : List GParam :=
  let dep := if noDeps then none else s.depGenericName
  s.generics.params.filter (fun q => !q.isLifetime && !(q.isType && some q.name == dep))

def sigTypesAgree (noDeps : Bool) (skip : Nat) (src : Sig) (g : Sig) : Bool :=
  ((typedArgs g.inputs).drop skip).map tyToks == (typedArgs (src.userParams noDeps)).map tyToks &&
  g.generics.params == src.generics.params.filter GParam.isLifetime &&
  g.const_ == src.const_ && g.unsafe_ == src.unsafe_ && g.abi == src.abi && g.variadic == src.variadic

/-- a generated trait method declaration has the source function's call type -/
def declSigOk (noDeps : Bool) (src : Sig) (m : GenMember) : Bool :=
  match m.sig? with
  | some g => sigTypesAgree noDeps 0 src g && g.inputs.head? == expectedReceiver noDeps src
  | none => false

/-- .. and so has the delegating method, which also keeps asyncness and the return type -/
def implSigOk (noDeps : Bool) (src : Sig) (m : GenMember) : Bool :=
  match m.sig? with
  | some g => sigTypesAgree noDeps 0 src g && g.inputs.head? == expectedReceiver noDeps src &&
              g.output == src.output && g.async_ == src.async_
  | none => false

/-- the where-predicate bounds the dependency's own type parameter (it becomes a bound on `Self`: C04) -/
def aboutDep (noDeps : Bool) (src : Sig) (q : WherePred) : Bool :=
  match q, (if noDeps then none else src.depGenericName) with
  | .ty _ (.path _ _ 1 f _) _ _, some d => f == d
  | _, _ => false

/-- every where-predicate that is not about the dependency parameter stays in scope: on the
    enclosing trait / impl (`outer`) or on the method -/
def predsInScope (noDeps : Bool) (outer : List WherePred) (src : Sig) (m : GenMember) : Bool :=
  match m.sig? with
  | some g => src.generics.preds.all (fun q => aboutDep noDeps src q || outer.contains q || g.generics.preds.contains q)
  | none => false

/-- generic scoping: every lifted parameter is declared on the trait, nothing else is, and the
    impl names them in order -/
def scopingOk (noDeps : Bool) (srcs : List Sig) (t : GenTrait) (im : GenImpl) : Bool :=
  srcs.all (fun src => (liftedParams noDeps src).all (fun q => t.params.contains q)) &&
  t.params.all (fun q => srcs.any (fun src => (liftedParams noDeps src).contains q)) &&
  im.traitRef == [i t.ident] ++ angle (t.params.map GParam.argToks)

/-- the lifetime written on the dependency reference, if any -/
def Sig.depRefLifetime (s : Sig) : Option String :=
  match s.inputs with
  | .typed _ _ (.ref_ lt _ _) :: _ => lt
  | _ => none

/-- the `__impl` parameter of an impl-block method: for static dispatch it *is* the dependency
    parameter (`&'a impl D` becomes `__impl: &'a ::entrait::Impl<EntraitT>`); for dynamic dispatch the
    dependency parameter becomes `&'a self` and `__impl: &::entrait::Impl<EntraitT>` follows -/
def implRecvOf (dynRef : Bool) (s : Sig) : FnArg :=
  if dynRef then implReceiverArg else implReceiverWith s.depRefLifetime

/-- a delegating method of an impl block: `__impl` first (after `&self` for dynamic dispatch) -/
def implBlockSigOk (dynRef : Bool) (src : Sig) (m : GenMember) : Bool :=
  match m.sig? with
  | some g => sigTypesAgree false 1 src g && g.output == src.output && g.async_ == src.async_ &&
      ((typedArgs g.inputs).head? == some (implRecvOf dynRef src)) &&
      (if dynRef then g.inputs.head? == expectedReceiver false src else g.inputs.head? == some (implRecvOf false src))
  | none => false

def P_C03 (v : Variant) (attr : Toks) (item : Item) (view : View) : Bool :=
  match item with
  | .fn _ | .mod_ _ =>
      let noDeps := optsNoDeps (effectiveOpts v attr item)
      match mainTrait? view, mainImpl? view with
      | some t, some im =>
          let srcs := item.sourceFns.map (·.sig)
          zipAll (declSigOk noDeps) srcs t.members &&
          zipAll (implSigOk noDeps) srcs im.members &&
          zipAll (predsInScope noDeps t.preds) srcs t.members &&
          zipAll (predsInScope noDeps im.preds) srcs im.members &&
          scopingOk noDeps srcs t im
      | _, _ => false
  | .impl m =>
      match parseImplAttr attr, mainImpl? view with
      | .ok a, some im =>
          zipAll (implBlockSigOk a.dynRef) (item.sourceFns.map (·.sig)) im.members &&
          im.selfTy == m.selfTy &&
          (m.traitPath ++ [p '<', i entraitT]).isPrefixOf im.traitRef
      | _, _ => false
  | .trait _ => true

/-! ### lifetimes in lifted where-predicates -/

def untilGt : Toks → Toks
  | [] => []
  | .punct '>' :: _ => []
  | t :: rest => t :: untilGt rest

/-- the lifetimes bound by `for<..>` binders inside a token list -/
def forBound : Toks → List String
  | [] => []
  | .ident "for" :: .punct '<' :: rest => lifetimesIn (untilGt rest) ++ forBound rest
  | .group _ g :: rest => forBound g ++ forBound rest
  | _ :: rest => forBound rest

/-- every lifetime a where-predicate names is `'static`, declared (`declared`), or bound by a `for<..>`
    of the predicate itself -/
def closedOver (declared : List String) (q : WherePred) : Bool :=
  (lifetimesIn q.print).all (fun n => n == "static" || declared.contains n || (forBound q.print).contains n)

def GenTrait.lifetimeNames (t : GenTrait) : List String := t.params.filterMap GParam.lifetimeName?

/-- the predicate of a generated impl that carries the dependency bounds (`Self: ..` / `Impl<EntraitT>: ..`) -/
def isDepPred : WherePred → Bool
  | .ty [] bt _ false => bt == selfTy_ || bt == implPathTy
  | _ => false

/-- C03, lifetimes: the where clause of the generated trait names no lifetime that is not in scope there
    (the function's own lifetime parameters stay on the method, and so must every predicate that talks
    about them), and the impl adds nothing to it but the predicate with the dependency bounds -/
def P_C03_closed (item : Item) (view : View) : Bool :=
  match item with
  | .fn _ | .mod_ _ =>
      match mainTrait? view, mainImpl? view with
      | some t, some im =>
          t.preds.all (closedOver t.lifetimeNames) &&
          im.preds.all (fun q => isDepPred q || t.preds.contains q)
      | _, _ => false
  | _ => true

/-- valid lifetimes in every source function: a where-predicate names only `'static`, lifetime parameters
    of its function and lifetimes it binds itself (anything else is E0261 in the source already) -/
def Item.lifetimesOk (item : Item) : Bool :=
  item.sourceFns.all (fun f => f.sig.generics.preds.all (closedOver f.sig.generics.lifetimeNames))

/-- the type parameters of one signature have pairwise different names (a duplicate is E0403) -/
def Sig.typeParamsDistinct (s : Sig) : Bool :=
  nodup ((s.generics.params.filter GParam.isType).map GParam.name)

/-- valid generics in every source function -/
def Item.genericsOk (item : Item) : Bool := item.sourceFns.all (fun f => f.sig.typeParamsDistinct)

def GParam.boundToks : GParam → List Toks
  | .ty _ _ bs _ _ => bs
  | .lt _ _ bs _ => bs
  | .const_ _ _ cty _ => [cty]

/-- recorded defect class `C03.ltbound`: a bound that names a lifetime parameter of the function — written
    inline on a type parameter that is lifted to the trait, or on the dependency — ends up on the trait /
    impl header, where that lifetime is not in scope (E0261) -/
def F_C03_ltbound (item : Item) (view : View) : Bool :=
  match item with
  | .fn _ | .mod_ _ =>
      let open_ (declared : List String) (ts : Toks) : Bool :=
        (lifetimesIn ts).any (fun n => !(n == "static" || declared.contains n || (forBound ts).contains n))
      (match mainTrait? view with
       | some t => t.params.any (fun q => q.boundToks.any (open_ t.lifetimeNames))
       | none => false) ||
      (match mainImpl? view with
       | some im => im.preds.any (fun q => isDepPred q && open_ (im.params.filterMap GParam.lifetimeName?) q.print)
       | none => false)
  | _ => false

/-- trait-level generic names are unique (a duplicate is E0403) -/
def traitParamsNodup (view : View) : Bool :=
  match mainTrait? view with
  | some t => nodup (t.params.map GParam.name)
  | none => true

/-! ## C04 — dependency bounds bubble up exactly -/

/-- the bounds a where-predicate declares on the type parameter `dep` -/
def depPredBounds (dep : String) : WherePred → List Toks
  | .ty _ (.path false false 1 f _) bs _ => if f == dep then bs else []
  | _ => []

/-- bounds declared on the dependency, for a dependency type that is neither a reference nor
    parenthesised -/
def Ty.specDepBounds (g : Generics) : Ty → List Toks
  | .implTrait bs _ => bs
  | .path false false 1 first _ =>
      match g.params.find? (fun q => q.isType && q.name == first) with
      | some (.ty _ _ inline _ _) => inline ++ g.preds.flatMap (depPredBounds first)
      | _ => []
  | _ => []

/-- the dependency type names neither `impl Trait` nor a type parameter of the function -/
def Ty.specConcrete (g : Generics) : Ty → Bool
  | .implTrait _ _ => false
  | .path false false 1 first _ => !(g.params.any (fun q => q.isType && q.name == first))
  | _ => true

/-- every bound declared on the dependency parameter of one function -/
def Sig.declaredDepBounds (s : Sig) : List Toks :=
  match s.inputs with
  | .typed _ _ ty :: _ => ty.stripRefs.specDepBounds s.generics
  | _ => []

def Sig.depIsConcrete (s : Sig) : Bool :=
  match s.inputs with
  | .typed _ _ ty :: _ => ty.stripRefs.specConcrete s.generics
  | _ => false

def Sig.depByValue (s : Sig) : Bool :=
  match s.inputs with
  | .typed _ _ (.ref_ ..) :: _ => false
  | .typed .. :: _ => true
  | _ => false

def sameMultiset (a b : List Toks) : Bool :=
  a.length == b.length && a.all (fun x => a.count x == b.count x)

def isSelfPred : WherePred → Bool
  | .ty _ (.path false false 1 "Self" _) _ _ => true
  | _ => false

/-- the impl's where clause is: (iff some bound is declared on the dependency) one predicate on
    `target` carrying exactly the declared bounds, followed only by predicates the user wrote -/
def wherePredsOk (target : Ty) (declared : List Toks) (userPreds : List WherePred) (preds : List WherePred) : Bool :=
  if declared.isEmpty then preds.all (fun q => userPreds.contains q)
  else
    match preds with
    | .ty [] bt bs false :: rest => bt == target && sameMultiset bs declared && rest.all (fun q => userPreds.contains q)
    | _ => false

/-- the first type / const parameter of an impl (lifetime parameters come first) -/
def macroParam (ps : List GParam) : Option GParam := (ps.filter (fun q => !q.isLifetime)).head?

/-- the macro's own type parameter: `EntraitT: Sync [+ Send] + 'static` -/
def implTParamOk (byValue : Bool) (ps : List GParam) : Bool :=
  match macroParam ps with
  | some (.ty [] "EntraitT" bs false none) =>
      sameMultiset bs ([syncToks] ++ (if byValue then [sendToks] else []) ++ [staticToks])
  | _ => false

/-- the header of the delegating impl of an fn / mod input, given the source signatures -/
def fnImplHeaderOk (o : Opts) (srcs : List Sig) (im : GenImpl) : Bool :=
  let userPreds := srcs.flatMap (·.generics.preds)
  if o.noDepsValue then
    -- no dependency: nothing but the fixed requirement
    implTParamOk false im.params &&
    im.selfTy == (if o.mockable then implPathToks else [i entraitT]) &&
    wherePredsOk selfTy_ [] userPreds im.preds
  else if srcs.any Sig.depIsConcrete then true   -- concrete dependencies: C05
  else
    implTParamOk (srcs.any Sig.depByValue) im.params &&
    im.selfTy == (if o.mockable then implPathToks else [i entraitT]) &&
    wherePredsOk selfTy_ (srcs.flatMap Sig.declaredDepBounds) userPreds im.preds

def P_C04 (v : Variant) (attr : Toks) (item : Item) (view : View) : Bool :=
  match item with
  | .fn _ | .mod_ _ =>
      match effectiveOpts v attr item, mainImpl? view with
      | some o, some im => fnImplHeaderOk o (item.sourceFns.map (·.sig)) im
      | _, _ => false
  | _ => true

/-! ## C05 — concrete dependency: leaf trait -/

def P_C05 (v : Variant) (attr : Toks) (item : Item) (view : View) : Bool :=
  match item with
  | .fn f =>
      if optsNoDeps (effectiveOpts v attr item) || !f.sig.depIsConcrete then true
      else
        match f.sig.inputs, mainTrait? view, mainImpl? view with
        | .typed _ _ ty :: _, some t, some im =>
            t.attrs.count entraitForTraitAttr == 1 &&
            im.selfTy == ty.stripRefs.print &&
            -- not a blanket impl: parameterised only by the function's own lifted generics
            im.params == (liftedParams false f.sig).map GParam.stripDefault &&
            wherePredsOk selfTy_ [] f.sig.generics.preds im.preds
        | _, _, _ => false
  | _ => true

/-! ## C06 / C07 — entraited traits: forwarding through `Impl<T>` -/


def TraitItem.containsAsync (t : TraitItem) : Bool := t.fns.any (·.sig.async_)

def traitWithArgs (t : TraitItem) : Toks := [i t.ident] ++ angle (t.generics.params.map GParam.argToks)

/-- same signature up to the names of the typed parameters -/
def sigSameModuloNames (a b : Sig) : Bool :=
  a.ident == b.ident && a.const_ == b.const_ && a.async_ == b.async_ && a.unsafe_ == b.unsafe_ && a.abi == b.abi &&
  a.generics == b.generics && a.output == b.output && a.variadic == b.variadic &&
  zipAll (fun x y => match x, y with
    | .recv .., .recv .. => x == y
    | .typed _ _ tx, .typed _ _ ty => tx == ty
    | _, _ => false) a.inputs b.inputs

def expectedShape (a : TraitAttr) (containsAsync : Bool) : DelegShape :=
  match a.implTrait, a.delegation with
  | some (_, it), some (.byTrait _) => .staticTarget it
  | some (_, it), some (.byRef b) => .dynTarget it b containsAsync
  | none, some (.byRef b) => .byRef b
  | _, _ => .bySelf

def forwardsAll (a : TraitAttr) (t : TraitItem) (im : GenImpl) : Bool :=
  zipAll (fun (src : TraitFnItem) g =>
    match g with
    | .fn _ sig (some body) =>
        sigSameModuloNames src.sig sig &&
        -- the forwarding expression of the selected shape: the provider's method of the same name,
        -- (for delegation targets: the same `&Impl<T>` as dependency,) the method's own parameter
        -- identifiers in order, awaited iff async
        body == specDelegBody (expectedShape a t.containsAsync) src.sig.ident (paramIdents sig.inputs) src.sig.async_
    | _ => false) t.fns im.members

def implHeaderOk (t : TraitItem) (im : GenImpl) : Bool :=
  im.selfTy == implPathToks &&
  -- the trait's lifetimes, then the macro's parameter, then the trait's other parameters without defaults
  im.params == t.generics.params.filter GParam.isLifetime ++ [implTParam false] ++
    (t.generics.params.filter (fun q => !q.isLifetime)).map GParam.stripDefault &&
  im.traitRef == traitWithArgs t &&
  im.preds.drop 1 == t.generics.preds

/-- bounds the macro may add on `T` besides the provider -/
def fixedExtras : List Toks := [syncToks, staticToks]

def P_C06 (attr : Toks) (item : Item) (view : View) : Bool :=
  match item with
  | .trait t =>
      match parseTraitAttr attr, mainImpl? view with
      | .ok a, some im =>
          if a.implTrait.isSome then true
          else
            let provider : Toks :=
              match a.delegation with
              | some (.byRef b) => (if b then borrowPath else asRefPath) ++ [p '<', i "dyn"] ++ traitWithArgs t ++ [p '>']
              | _ => traitWithArgs t
            implHeaderOk t im && forwardsAll a t im &&
            (match im.preds.head? with
             | some (.ty [] bounded (first :: extras) false) =>
                 bounded == entraitTTy && first == provider &&
                 -- nothing beyond the fixed requirements (in particular no `Send`)
                 extras.all (fun e => fixedExtras.contains e)
             | _ => false)
      | _, _ => false
  | _ => true

/-- the known extra requirement: `Send` on `T` for async traits delegated by reference -/
def F_C06_send (attr : Toks) (item : Item) (view : View) : Bool :=
  match item, parseTraitAttr attr, mainImpl? view with
  | .trait _, .ok _, some im =>
      (match im.preds.head? with
       | some (.ty _ _ bs _) => bs.contains sendToks
       | _ => false)
  | _, _, _ => false

def implTarget (it : String) : Toks := [i it, p '<', i entraitT, p '>']

/-- a method of the static delegation-target trait: the receiver is replaced by `__impl` -/
def staticTargetMemberOk (src : TraitFnItem) (g : GenMember) : Bool :=
  match g with
  | .fn as sig none =>
      as == src.attrs && sig.ident == src.sig.ident &&
      (match src.sig.inputs, sig.inputs with
       | .recv _ r _ _ :: srest, .typed [] (.ident false false "__impl" none) ty :: grest =>
           ty == (match r with | some lt => Ty.ref_ lt false implPathTy | none => implPathTy) &&
           srest == grest
       | si, gi => !(si.head?.map FnArg.isRecv).getD false && si == gi)
  | _ => false

/-- a method of the dynamic delegation-target trait: `__impl` follows the receiver -/
def dynTargetMemberOk (src : TraitFnItem) (g : GenMember) : Bool :=
  match g with
  | .fn as sig none =>
      as == src.attrs && sig.ident == src.sig.ident &&
      (match src.sig.inputs, sig.inputs with
       | .recv a1 r m c :: srest, g0 :: g1 :: grest =>
           g0 == .recv a1 r m c && g1 == implReceiverArg && srest == grest
       | si, gi => !(si.head?.map FnArg.isRecv).getD false && si == gi)
  | _ => false

def selectorTrait (d it : String) : GenTrait :=
  { vis := [i "pub"], ident := d, params := [.ty [] "T" [] false none],
    members := [.raw [i "type", i "Target", p ':', i it, p '<', i "T", p '>', p ';']] }

/-- header of a delegation-target trait: `it<EntraitT, ..>: 'static` with the trait's predicates -/
def delegTraitHeaderOk (t : TraitItem) (it : String) (dt : GenTrait) : Bool :=
  dt.ident == it && dt.params == entraitTParam :: t.generics.params &&
  dt.colon && dt.supertraits == [staticToks] && dt.preds == t.generics.preds

/-- what `T` must provide for dynamic selection: `AsRef<dyn it<EntraitT> [+ Sync]>` (+ only fixed extras) -/
def dynWherePredOk (b : Bool) (it : String) (t : TraitItem) (q : Option WherePred) : Bool :=
  match q with
  | some (.ty [] bounded (first :: extras) false) =>
      bounded == entraitTTy &&
      first == (if b then borrowPath else asRefPath) ++ [p '<'] ++ dynTarget it t.containsAsync ++ [p '>'] &&
      extras.all (fun e => fixedExtras.contains e)
  | _ => false

/-- trait side of dependency inversion -/
def P_C07_trait (a : TraitAttr) (t : TraitItem) (rest : List GenTrait) (im : GenImpl) : Bool :=
  match a.implTrait, a.delegation with
  | some (_, it), some (.byTrait d) =>
      (match rest with
       | [dt, sel] =>
           delegTraitHeaderOk t it dt && zipAll staticTargetMemberOk t.fns dt.members && sel == selectorTrait d it
       | _ => false) &&
      implHeaderOk t im && forwardsAll a t im &&
      im.preds.head? == some (.ty [] entraitTTy [[i d, p '<', i entraitT, p '>'], syncToks, staticToks] false)
  | some (_, it), some (.byRef b) =>
      (match rest with
       | [dt] => delegTraitHeaderOk t it dt && zipAll dynTargetMemberOk t.fns dt.members
       | _ => false) &&
      implHeaderOk t im && forwardsAll a t im && dynWherePredOk b it t im.preds.head?
  | _, _ => true

/-- impl-block side of dependency inversion -/
def P_C07_impl (dynRef : Bool) (m : ImplItemIn) (srcs : List FnItem) (im : GenImpl) : Bool :=
  zipAll (fun src g => methodCallsFn false true src g) srcs im.members &&
  im.selfTy == m.selfTy &&
  (m.traitPath ++ [p '<', i entraitT]).isPrefixOf im.traitRef &&
  implTParamOk (dynRef && srcs.any (·.sig.depByValue)) im.params &&
  wherePredsOk implPathTy (srcs.flatMap (·.sig.declaredDepBounds)) (srcs.flatMap (·.sig.generics.preds)) im.preds

def P_C07 (attr : Toks) (item : Item) (view : View) : Bool :=
  match item with
  | .trait t =>
      match parseTraitAttr attr, traitsOf view.items, mainImpl? view with
      | .ok a, _main :: rest, some im => P_C07_trait a t rest im
      | _, _, _ => false
  | .impl m =>
      match parseImplAttr attr, mainImpl? view with
      | .ok a, some im => P_C07_impl a.dynRef m item.sourceFns im
      | _, _ => false
  | _ => true

/-! ## C09 — an entraited trait definition is preserved -/

def futureWrapper (out : Option Toks) (send : Bool) : Toks :=
  let r : Toks := out.getD [parens []]
  i "impl" :: (futurePath ++ [p '<', i "Output", p '='] ++ r ++ [p '>'] ++ (if send then p '+' :: sendToks else []))

/-- the one permitted rewrite of a method declaration -/
def declRewritten (asyncTrait send : Bool) (src : Sig) : Sig :=
  if src.async_ && !asyncTrait then { src with async_ := false, output := some (futureWrapper src.output send) } else src

/-- a re-emitted method declaration: the user's attributes and signature, no body added -/
def declMemberOk (hasAT send : Bool) (src : TraitFnItem) (m : GenMember) : Bool :=
  match m with
  | .fn as sig none => as == src.attrs && sig == declRewritten hasAT send src.sig
  | _ => false

def P_C09 (v : Variant) (attr : Toks) (item : Item) (view : View) : Bool :=
  match item with
  | .trait t =>
      match effectiveOpts v attr item, mainTrait? view with
      | some o, some g =>
          let hasAT := containsAsyncTrait t.attrs
          g.ident == t.ident && g.vis == t.vis && g.params == t.generics.params &&
          g.colon == t.colon && g.supertraits == t.supertraits && g.strail == t.strail &&
          g.preds == t.generics.preds && g.wtrail == t.generics.wtrail &&
          -- the macro adds only mock derivations it owns, and every attribute of the trait is kept
          g.attrs.all (fun a => t.attrs.contains a || a.mockKind.isSome) &&
          -- (as a sequence: in the user's order and as often as written — a doc comment is one attribute per line,
          --  and two equal lines are two attributes)
          t.attrs.isSublist g.attrs &&
          zipAll (declMemberOk hasAT o.futureSendValue) t.fns (g.members.filter (fun m => m.sig?.isSome))
      | _, _ => false
  | _ => true

/-- what the unchanged macro is known to drop from an entraited trait -/
def F_C09_attrs (item : Item) (view : View) : Bool :=
  match item, mainTrait? view with
  | .trait t, some g => t.attrs.any (fun a => !g.attrs.contains a)
  | _, _ => false

/-- `#[cfg_attr(pred, .. cfg(..) ..)]`: a `cfg` that only exists in some builds -/
def wrapsCfg (a : Attr) : Bool :=
  a.inner.head? == some (.ident "cfg_attr") && (TT.flattenList a.inner.tail).contains (.ident "cfg")

def isCfgAttrAttr (a : Attr) : Bool := a.inner.head? == some (.ident "cfg_attr")

/-- recorded defect `C18.cfgattr`: a function of a module / impl block is disabled through
    `cfg_attr(pred, cfg(..))`, which is not mirrored: in a build where `pred` holds and the wrapped
    predicate does not, the trait method and the delegating method are left behind -/
def F_C18_cfgattr (item : Item) (view : View) : Bool :=
  match item with
  | .mod_ _ | .impl _ =>
      (match mainImpl? view with
       | some im =>
           (item.sourceFns.zip im.members).any (fun fm => fm.1.attrs.any wrapsCfg && !fm.2.attrs.any isCfgAttrAttr)
       | none => false)
  | _ => false

def F_C09_unsafe (item : Item) : Bool :=
  match item with | .trait t => t.unsafe_ || t.auto_ | _ => false

def F_C09_default (item : Item) (view : View) : Bool :=
  match item, mainTrait? view with
  | .trait t, some g =>
      t.fns.any (fun f => f.default.isSome) &&
      !(g.members.any (fun m => match m with | .fn _ _ (some _) => true | _ => false))
  | _, _ => false

def F_C09_assoc (item : Item) (view : View) : Bool :=
  match item, mainTrait? view with
  | .trait t, some g =>
      t.members.any (fun m => match m with | .type_ ts => !g.members.contains (.raw ts) | _ => false)
  | _, _ => false

/-! ## C11 — unimock wiring -/

def depKindEntry (noDeps : Bool) (src : Sig) (g : Sig) : Toks :=
  if noDeps then [i g.ident, parens (joinSep [p ','] ((paramIdents g.inputs).map fun a => [i a]))]
  else if src.depIsConcrete then [i "_"]
  else [i g.ident]

/-- the unimock derivation `::entrait::__unimock::unimock(args)`, bare or inside `cfg_attr(test, ..)`:
    the whole meta item -/
def Attr.unimockArgs (a : Attr) : Option Toks :=
  match a.inner with
  | [.ident "cfg_attr", .group .paren (.ident "test" :: .punct ',' :: rest)] =>
      if classifyMock rest == some .unimock then some rest else none
  | ts => if classifyMock ts == some .unimock then some ts else none

/-- the `unmock_with` entries: one per method, pairing source function and generated method -/
def unmockEntries (noDeps : Bool) (srcs : List FnItem) (im : GenImpl) : List Toks :=
  (srcs.zip (im.members.filterMap GenMember.sig?)).map (fun sg => depKindEntry noDeps sg.1.sig sg.2)

/-- `unmock_with = [e₁, …, eₙ]`, absent when there is no method -/
def unmockSpec (entries : List Toks) : List Toks :=
  if entries.isEmpty then [] else [[i "unmock_with", p '=', brackets (joinSep [p ','] entries)]]

/-- `::entrait::__unimock::unimock(prefix = ::entrait::__unimock [, api = ..] [, unmock_with = [..]])` -/
def unimockSpec (mockApi : Option String) (single : Bool) (unmock : List Toks) : Toks :=
  let prefix_ : Toks := [i "prefix", p '='] ++ unimockPrefix
  let api : List Toks :=
    match mockApi with
    | some m => [[i "api", p '='] ++ (if single then [brackets [i m]] else [i m])]
    | none => []
  unimockPath ++ [parens (joinSep [p ','] (prefix_ :: api ++ unmock))]

/-- the documented arguments of the unimock derivation -/
def expectedUnimock (o : Opts) (item : Item) (view : View) : Toks :=
  unimockSpec o.mockApi (item.mode == .fn)
    (match item.mode, mainImpl? view with
     | .trait, _ => []
     | _, some im => unmockSpec (unmockEntries o.noDepsValue item.sourceFns im)
     | _, none => [])

/-- the user did not hand-write the unimock derivation on the trait (that would derive twice) -/
def Item.noUserUnimock : Item → Bool
  | .trait t => t.attrs.all (fun a => a.unimockArgs.isNone)
  | _ => true

def P_C11 (v : Variant) (attr : Toks) (item : Item) (view : View) : Bool :=
  match effectiveOpts v attr item, mainTrait? view with
  | some o, some t =>
      match t.attrs.filterMap Attr.unimockArgs with
      | [] => true
      | [ps] => ps == expectedUnimock o item view
      | _ => false
  | _, _ => item.mode == .impl

/-! ## C12 — async methods -/

/-- how an async source method must be declared in a trait -/
def asyncDeclOk (hasAT send : Bool) (src g : Sig) : Bool :=
  g.async_ == (src.async_ && hasAT) &&
  g.output == (if src.async_ && !hasAT then some (futureWrapper src.output send) else src.output)

/-- the delegating method keeps the source's asyncness and return type, and awaits iff async -/
def asyncImplOk (src : Sig) (m : GenMember) : Bool :=
  match m with
  | .fn _ g (some body) =>
      g.async_ == src.async_ && g.output == src.output &&
      (body.drop (body.length - 2) == [p '.', i "await"]) == src.async_
  | _ => false

/-- `async_trait` is re-applied to a generated item iff the user wrote it on the input -/
def asyncAttrsOk (itemAttrs as : List Attr) : Bool :=
  (itemAttrs.filter (fun a => a.subKind == .asyncTrait)).all (fun a => as.contains a) &&
  as.all (fun a => a.subKind != .asyncTrait || itemAttrs.contains a)

def asyncDeclOkM (hasAT send : Bool) (src : Sig) (m : GenMember) : Bool :=
  match m.sig? with
  | some g => asyncDeclOk hasAT send src g
  | none => false

def isSelectorLike (t : GenTrait) : Bool := t.members.all (fun m => m.sig?.isNone) && t.members.length ≤ 1

def Item.srcSigs : Item → List Sig
  | .trait t => t.fns.map (·.sig)
  | item => item.sourceFns.map (·.sig)

def P_C12 (v : Variant) (attr : Toks) (item : Item) (view : View) : Bool :=
  match effectiveOpts v attr item with
  | none => false
  | some o =>
    let hasAT := containsAsyncTrait item.attrs
    let send := o.futureSendValue
    (traitsOf view.items).all (fun t =>
      (isSelectorLike t && t.attrs.isEmpty) ||
      (zipAll (asyncDeclOkM hasAT send) item.srcSigs (t.members.filter (fun m => m.sig?.isSome)) &&
        asyncAttrsOk item.attrs t.attrs)) &&
    (match mainImpl? view with
     | some im => zipAll asyncImplOk item.srcSigs im.members && asyncAttrsOk item.attrs im.attrs
     | none => false)

/-- C03 with the lifetime clause -/
def P_C03_full (v : Variant) (attr : Toks) (item : Item) (view : View) : Bool :=
  P_C03 v attr item view && P_C03_closed item view

/-- C05 in full: the leaf trait of a concrete-dependency function is the *final* trait.  The nested
    invocation written on it knows nothing of the options of the first one (`?Send` in particular), so
    the async methods must already carry the future type and `Send`-ness C12 prescribes; otherwise
    neither the generated `impl Trait for C` nor an application's own impl fits the trait. -/
def P_C05_full (v : Variant) (attr : Toks) (item : Item) (view : View) : Bool :=
  P_C05 v attr item view &&
  (match item with
   | .fn f => optsNoDeps (effectiveOpts v attr item) || !f.sig.depIsConcrete || P_C12 v attr item view
   | _ => true)

/-! ## C14 — static delegation introduces no trait objects and no boxing -/

def mentions (names : List String) : Toks → Bool
  | [] => false
  | .ident s :: rest => names.contains s || mentions names rest
  | .group _ g :: rest => mentions names g || mentions names rest
  | _ :: rest => mentions names rest

def dynamicRequested (attr : Toks) (item : Item) : Bool :=
  containsAsyncTrait item.attrs ||
  (match item with
   | .trait _ => (match parseTraitAttr attr with
                  | .ok a => (match a.delegation with | some (.byRef _) => true | _ => false)
                  | .error _ => false)
   | .impl _ => (match parseImplAttr attr with | .ok a => a.dynRef | .error _ => false)
   | _ => false)

def DelegShape.isStatic : DelegShape → Bool
  | .bySelf => true
  | .staticTarget _ => true
  | _ => false

/-- the body of a statically dispatched delegating method is exactly one direct call, optionally
    awaited: `f(self, a, ..)`, `Self::f(__impl, a, ..)`, `self.as_ref().m(a, ..)` or
    `<EntraitT::Target as I<EntraitT>>::m(self, a, ..)` — nothing is boxed, coerced or allocated -/
def staticBodyOk (attr : Toks) (item : Item) (m : GenMember) : Bool :=
  match m with
  | .fn _ sig (some b) =>
      (match item with
       | .trait t =>
           (match parseTraitAttr attr with
            | .ok a =>
                (expectedShape a t.containsAsync).isStatic &&
                (b == specDelegBody (expectedShape a t.containsAsync) sig.ident (paramIdents sig.inputs) true ||
                 b == specDelegBody (expectedShape a t.containsAsync) sig.ident (paramIdents sig.inputs) false)
            | .error _ => false)
       | _ => (parseCall b).isSome)
  | _ => true

/-- the only bounds the macro writes on its own type parameter -/
def macroBoundOk (b : Toks) : Bool := b == syncToks || b == sendToks || b == staticToks

/-- the macro's own type parameter comes first and carries only the fixed bounds -/
def macroHeadOk (ps : List GParam) : Bool :=
  match macroParam ps with
  | some (.ty _ "EntraitT" bs _ _) => bs.all macroBoundOk
  | _ => false

/-- a single fn with a concrete dependency: the impl is for the user's own type, with the user's generics -/
def concreteFn : Item → Bool
  | .fn f => f.sig.depIsConcrete
  | _ => false

def implStaticOk (attr : Toks) (item : Item) (im : GenImpl) : Bool :=
  im.members.all (staticBodyOk attr item) &&
  (concreteFn item ||
    (macroHeadOk im.params &&
      (im.selfTy == [i entraitT] || im.selfTy == implPathToks ||
        (match item with | .impl m => im.selfTy == m.selfTy | _ => false))))

def P_C14 (attr : Toks) (item : Item) (view : View) : Bool :=
  if dynamicRequested attr item then true
  else (implsOf view.items).all (implStaticOk attr item)

/-- C14 in full: the only type the macro itself writes into a signature is the future type of a desugared
    `async fn`; unless dynamic dispatch was requested it is `impl Future<..>` (C12), never a boxed `dyn Future` -/
def P_C14_full (v : Variant) (attr : Toks) (item : Item) (view : View) : Bool :=
  P_C14 attr item view && (dynamicRequested attr item || P_C12 v attr item view)

/-! ## C19 — generated code refers to everything through absolute paths -/

def absolute (ts : Toks) : Bool :=
  match ts with
  | .punct ':' :: .punct ':' :: _ => true
  | [.punct '\'', .ident _] => true
  | _ => false

/-- a bound on the macro's own type parameter is an absolute path (or a lifetime) -/
def macroHeadAbsolute (ps : List GParam) : Bool :=
  match macroParam ps with
  | some (.ty _ "EntraitT" bs _ _) => bs.all absolute
  | _ => false

/-- trait mode: the names the user chose, which the macro may use bare -/
def userTraitNames (attr : Toks) (t : TraitItem) : List String :=
  t.ident ::
  (match parseTraitAttr attr with
   | .ok a =>
       (match a.implTrait with | some it => [it.2] | none => []) ++
       (match a.delegation with | some (.byTrait d) => [d] | _ => [])
   | .error _ => [])

/-- what the macro requires of `T` in trait mode: absolute paths, or the user's own trait names -/
def traitBoundOk (names : List String) (b : Toks) : Bool :=
  absolute b || (match b with | .ident s :: _ => names.contains s | _ => false)

def traitPredOk (attr : Toks) (item : Item) (q : Option WherePred) : Bool :=
  match item, q with
  | .trait t, some (.ty _ _ bs _) => bs.all (traitBoundOk (userTraitNames attr t))
  | .trait _, _ => false
  | _, _ => true

/-- every delegation shape of the given attribute (they name everything through `::core::..` /
    `::entrait::..` paths, the user's trait names and the method's own parameters) -/
def allShapes (a : TraitAttr) : List DelegShape :=
  let it := (a.implTrait.map (·.2)).getD ""
  [.bySelf, .byRef false, .byRef true, .staticTarget it,
   .dynTarget it false false, .dynTarget it false true, .dynTarget it true false, .dynTarget it true true]

/-- a delegating body is one of the recognised shapes -/
def bodyShapeOk (attr : Toks) (item : Item) (m : GenMember) : Bool :=
  match m with
  | .fn _ sig (some b) =>
      (match item with
       | .trait _ =>
           (match parseTraitAttr attr with
            | .ok a => (allShapes a).any (fun sh =>
                b == specDelegBody sh sig.ident (paramIdents sig.inputs) true ||
                b == specDelegBody sh sig.ident (paramIdents sig.inputs) false)
            | .error _ => false)
       | _ => (parseCall b).isSome)
  | _ => true

def implAbsoluteOk (attr : Toks) (item : Item) (im : GenImpl) : Bool :=
  im.members.all (bodyShapeOk attr item) &&
  traitPredOk attr item im.preds.head? &&
  (concreteFn item ||
    (macroHeadAbsolute im.params &&
      (im.selfTy == [i entraitT] || im.selfTy == implPathToks ||
        (match item with | .impl m => im.selfTy == m.selfTy | _ => false))))

/-- a return type in a generated trait is the user's, or the absolute `impl ::core::future::Future<..>` form -/
def outputOk (src : Sig) (m : GenMember) : Bool :=
  match m.sig? with
  | some g => g.output == src.output || g.output == some (futureWrapper src.output true) ||
              g.output == some (futureWrapper src.output false)
  | none => false

def traitAbsoluteOk (item : Item) (t : GenTrait) : Bool :=
  t.members.all (fun m => m.sig?.isNone) ||
  zipAll outputOk item.srcSigs (t.members.filter (fun m => m.sig?.isSome))

def P_C19 (attr : Toks) (item : Item) (view : View) : Bool :=
  (implsOf view.items).all (implAbsoluteOk attr item) &&
  (traitsOf view.items).all (traitAbsoluteOk item)

/-! ## C15 — misuse yields its diagnostic; never a panic; the output always parses -/

/-- a dependency type the analysis rejects outright -/
def tyMisuse : Ty → Option String
  | .path true _ _ _ _ => some msgNoSelf
  | .path false true _ _ _ => some msgNoLeadingColon
  | _ => none

/-- the misuse of a signature that the dependency analysis itself rejects -/
def depsError (s : Sig) : Option String :=
  match s.inputs with
  | [] => some msgNoReceiver
  | .recv .. :: _ => some msgSelfReceiver
  | .typed _ _ ty :: _ => tyMisuse ty.stripRefs

def concreteMisuse : Mode → List String
  | .mod_ => [msgConcreteInModule]
  | .impl => [msgConcreteInImpl]
  | _ => []

def sigMisuses (noDeps : Bool) (mode : Mode) (s : Sig) : List String :=
  if noDeps then []
  else
    match depsError s with
    | some m => [m]
    | none => if s.depIsConcrete then concreteMisuse mode else []

def delegationMisuses : Option (Toks × String) → Option Delegate → List String
  | none, some (.byTrait _) => [msgCustomWithoutTrait]
  | some _, none => [msgMissingDelegateBy]
  | some _, some .bySelf => [msgMissingDelegateBy]
  | _, _ => []

/-- the documented misuses present in an invocation, each with its specific message;
    `none`: the attribute arguments or the item are malformed at the syn level (no claim about
    which message wins) -/
def specMisuses (attr : Toks) (item : Item) : Option (List String) :=
  match item with
  | .fn f =>
      match parseFnAttr attr with
      | .error .syn => none
      | .error (.diag m) => some [m]
      | .ok a => some (sigMisuses a.opts.noDepsValue .fn f.sig)
  | .mod_ m =>
      if m.unsafe_ then some [msgNotAllowedHere]
      else
        match splitBody false m.oracle m.body.length m.body, parseFnAttr attr with
        | .error _, _ => none
        | _, .error .syn => none
        | _, .error (.diag msg) => some [msg]
        | .ok items, .ok a =>
            some ((items.filterMap BodyItem.fn?).flatMap (fun f => sigMisuses a.opts.noDepsValue .mod_ f.sig))
  | .impl m =>
      match splitBody true m.oracle m.body.length m.body, parseImplAttr attr with
      | .error _, _ => none
      | _, .error .syn => none
      | _, .error (.diag msg) => some [msg]
      | .ok items, .ok _ => some ((items.filterMap BodyItem.fn?).flatMap (fun f => sigMisuses false .impl f.sig))
  | .trait t =>
      match parseTraitAttr attr with
      | .error .syn => none
      | .error (.diag msg) => some [msg]
      | .ok a =>
          some (delegationMisuses a.implTrait a.delegation ++
                (if t.members.any TraitMember.isOther then [msgUnsupportedTraitItem] else []))

/-! ### … and where each documented misuse is to be reported ("at the offending tokens") -/

/-- the misuse of one analysed function (`bs.1`: leaf index at which its signature starts in the
    item) with the tokens to blame: the function's name if it has no parameter at all, the receiver,
    the dependency type proper (inside any `&`) -/
def sigMisusesAt (noDeps : Bool) (mode : Mode) (bs : Nat × Sig) : List (String × Locus) :=
  if noDeps then []
  else
    match depsError bs.2 with
    | some m => (locAt bs.1 bs.2.depsErrorAt).toList.map (fun l => (m, l))
    | none =>
      if bs.2.depIsConcrete then
        (concreteMisuse mode).flatMap (fun m => (locAt bs.1 bs.2.depTypeAt).toList.map (fun l => (m, l)))
      else []

/-- every unsupported member of a trait, as a whole -/
def otherMemberLoci : List TraitMember → Nat → List Locus
  | [], _ => []
  | .other toks :: rest, off => .item off (flatLen toks) :: otherMemberLoci rest (off + flatLen toks)
  | m :: rest, off => otherMemberLoci rest (off + flatLen m.print)

/-- a custom `delegate_by` without target trait is blamed on the `delegate_by` keyword; a target
    trait without usable `delegate_by` has no token to blame: the invocation as a whole -/
def delegationMisusesAt (attr : Toks) : Option (Toks × String) → Option Delegate → List (String × Locus)
  | none, some (.byTrait _) =>
      (lastDelegateAt (splitCommas attr) 0 none).toList.map (fun n => (msgCustomWithoutTrait, Locus.attr n 1))
  | some _, none => [(msgMissingDelegateBy, .callSite)]
  | some _, some .bySelf => [(msgMissingDelegateBy, .callSite)]
  | _, _ => []

/-- `specMisuses` with the place each message has to point at -/
def specMisuseLoci (attr : Toks) (item : Item) : Option (List (String × Locus)) :=
  match item with
  | .fn f =>
      match parseFnAttr attr with
      | .error .syn => none
      | .error (.diag m) => some ((fnAttrLocus attr).toList.map (fun l => (m, l)))
      | .ok a => some (sigMisusesAt a.opts.noDepsValue .fn (f.sigBase, f.sig))
  | .mod_ m =>
      if m.unsafe_ then some [(msgNotAllowedHere, .item (flatLen (printAttrs m.attrs ++ m.vis)) 1)]
      else
        match splitBody false m.oracle m.body.length m.body, parseFnAttr attr with
        | .error _, _ => none
        | _, .error .syn => none
        | _, .error (.diag msg) => some ((fnAttrLocus attr).toList.map (fun l => (msg, l)))
        | .ok items, .ok a =>
            some ((sigBases items (flatLen m.headToks + 1)).flatMap (sigMisusesAt a.opts.noDepsValue .mod_))
  | .impl m =>
      match splitBody true m.oracle m.body.length m.body, parseImplAttr attr with
      | .error _, _ => none
      | _, .error .syn => none
      | _, .error (.diag msg) => some ((implAttrLocus attr).toList.map (fun l => (msg, l)))
      | .ok items, .ok _ => some ((sigBases items (flatLen m.headToks + 1)).flatMap (sigMisusesAt false .impl))
  | .trait t =>
      match parseTraitAttr attr with
      | .error .syn => none
      | .error (.diag msg) => some ((traitAttrLocus attr).toList.map (fun l => (msg, l)))
      | .ok a =>
          some (delegationMisusesAt attr a.implTrait a.delegation ++
                (otherMemberLoci t.members (flatLen t.headToks + 1)).map (fun l => (msgUnsupportedTraitItem, l)))

/-- the diagnostic (message and place) is one of the documented misuses present, at its tokens -/
def P_C15_at (attr : Toks) (item : Item) (diag : Option (String × Option Locus)) : Bool :=
  match specMisuseLoci attr item with
  | some (x :: xs) =>
      (match diag with
       | some (msg, some l) => (x :: xs).contains (msg, l)
       | _ => false)
  | _ => true

/-- `realDiag`: `some msgs` if the macro answered with compile errors; `realPanic`; `realParsed` -/
def P_C15 (attr : Toks) (item : Item) (realPanic : Bool) (realDiag : Option (List String)) (realParsed : Bool) : Bool :=
  !realPanic && realParsed &&
  (match specMisuses attr item with
   | some (m :: ms) =>
       -- the macro may report several independent mistakes at once: the first diagnostic is the one the
       -- property speaks about (further ones are further rejections, not a different answer to this misuse)
       (match realDiag with
        | some (msg :: _) => (m :: ms).contains msg
        | _ => false)
   | _ => true)

end Entrait
