import EntraitModel.Codegen
/-
  The four input modes (`entrait_fn/mod.rs`, `entrait_trait/*`, `entrait_impl/mod.rs`) and
  `lib.rs::invoke` with the macro variants.
-/
namespace Entrait

/-- The four proc-macro entry points of `entrait_macros`. -/
inductive Variant | plain | export_ | unimock | exportUnimock
  deriving DecidableEq, Repr, Inhabited

/-- `set_fallbacks` -/
def Variant.apply (v : Variant) (o : Opts) : Opts :=
  let o := if v == .export_ || v == .exportUnimock then { o with export_ := some (o.export_.getD true) } else o
  if v == .unimock || v == .exportUnimock then { o with unimock := some (o.unimock.getD true) } else o

/-- Structured expansion.  `render` is the token stream the macro returns. -/
inductive Out
  | fnOut (orig : FnItem) (gen : List GenItem)
  | modOut (m : ModItemIn) (items : List BodyItem) (inside after : List GenItem)
  | traitOut (gen : List GenItem)
  | implOut (inherent : Toks) (gen : List GenItem)
  deriving DecidableEq, Repr, Inhabited

def Out.render : Out → Toks
  | .fnOut orig gen => orig.print ++ printGen gen
  | .modOut m items inside after =>
      printAttrs m.attrs ++ m.vis ++ [i "mod", i m.ident,
        braces (items.flatMap BodyItem.print ++ printGen inside)] ++ printGen after
  | .traitOut gen => printGen gen
  | .implOut inherent gen => inherent ++ printGen gen

/-- generated items inside the module braces (module mode only) -/
def Out.inside : Out → List GenItem
  | .modOut _ _ inside _ => inside
  | _ => []

/-- generated items following the original -/
def Out.after : Out → List GenItem
  | .fnOut _ gen => gen
  | .modOut _ _ _ after => after
  | .traitOut gen => gen
  | .implOut _ gen => gen

inductive Outcome
  | ok (out : Out)
  | diag (msg : String)     -- one of entrait's own diagnostics
  | synErr                  -- an error produced by syn (message not modelled)
  | panic (site : String)
  deriving DecidableEq, Repr, Inhabited

def Outcome.ofErr : PErr ⊕ String → Outcome
  | .inl .syn => .synErr
  | .inl (.diag m) => .diag m
  | .inr site => .panic site

def Outcome.ofPErr : PErr → Outcome
  | .syn => .synErr
  | .diag m => .diag m

/-! ### fn -/

def expandFn (v : Variant) (attrToks : Toks) (f : FnItem) : Outcome :=
  match parseFnAttr attrToks with
  | .error e => .ofPErr e
  | .ok attr =>
    let opts := v.apply attr.opts
    match analyzeFn .selfRef opts f.sig {} with
    | .error e => .ofErr e
    | .ok (tf, tg) =>
      match detectDepMode .singleFn [tf] with
      | .error e => .ofErr e
      | .ok depMode =>
        let traitDef := genTraitDef opts .plain depMode f.attrs attr.traitVis attr.traitIdent tg {} [tf] .singleFn
        match genImplBlock opts [i attr.traitIdent] .none tg .singleFn depMode f.attrs [tf] with
        | .error site => .panic site
        | .ok implBlock => .ok (.fnOut f [.trait traitDef, .impl implBlock])

/-- the attribute lists of the functions of a module / impl body that become methods -/
def bodyFnAttrs (items : List BodyItem) : List (List Attr) := (items.filterMap BodyItem.fn?).map (·.attrs)

/-! ### mod -/

def msgNotAllowedHere : String := "Not allowed here"

def expandMod (v : Variant) (attrToks : Toks) (m : ModItemIn) : Outcome :=
  match splitBody false m.oracle m.body.length m.body with
  | .error e => .ofPErr e
  | .ok items =>
    match parseFnAttr attrToks with
    | .error e => .ofPErr e
    | .ok attr =>
      let opts := v.apply attr.opts
      let sigs := (items.filterMap BodyItem.fn?).map (·.sig)
      match analyzeFns .selfRef opts sigs {} with
      | .error e => .ofErr e
      | .ok (fns0, tg) =>
        let fns := attachCfg (bodyFnAttrs items) fns0
        match detectDepMode .module fns with
        | .error e => .ofErr e
        | .ok depMode =>
          let traitDef := genTraitDef opts .plain depMode m.attrs attr.traitVis attr.traitIdent tg {} fns .module
          match genImplBlock opts [i attr.traitIdent] .none tg .module depMode m.attrs fns with
          | .error site => .panic site
          | .ok implBlock =>
            let useItem : Toks :=
              attr.traitVis ++ [i "use", i m.ident] ++ pathSep ++ [i attr.traitIdent, p ';']
            .ok (.modOut m items [.trait traitDef, .impl implBlock] [.raw useItem])

/-! ### trait -/

def msgCustomWithoutTrait : String :=
  "Cannot use a custom delegating trait without a custom trait to delegate to. Use either `#[entrait(TraitImpl, delegate_by = DelegateTrait)]` or `#[entrait(delegate_by = ref)]`"
def msgUnsupportedTraitItem : String := "Entrait does not support this kind of trait item."
def msgMissingDelegateBy : String := "Missing delegate_by"

/-- `analyze_trait`: methods become trait fns, associated types are dropped, anything else is an error -/
def analyzeTraitMembers : List TraitMember → Except PErr (List TraitFn)
  | [] => .ok []
  | .fn f :: rest =>
      match analyzeTraitMembers rest with
      | .error e => .error e
      | .ok fns => .ok ({ deps := .noDeps, attrs := f.attrs, sig := f.sig, originallyAsync := f.sig.async_ } :: fns)
  | .type_ _ :: rest => analyzeTraitMembers rest
  | .other _ :: _ => .error (.diag msgUnsupportedTraitItem)

def entraitTParam : GParam := .ty [] entraitT [] false none
def entraitTTy : Ty := .path false false 1 entraitT [i entraitT]

/-- receiver rewriting of the static delegation-target trait -/
def staticImplFn (tf : TraitFn) : TraitFn :=
  match tf.sig.inputs with
  | .recv _ ref_ _ _ :: rest =>
      let ty : Ty :=
        match ref_ with
        | some lt => .ref_ lt false implPathTy
        | none => implPathTy
      { tf with sig := { tf.sig with inputs := .typed [] (plainPat "__impl") ty :: rest } }
  | _ => tf

/-- `__impl` inserted after the receiver of the dynamic delegation-target trait -/
def dynamicImplFn (tf : TraitFn) : TraitFn :=
  match tf.sig.inputs with
  | [.recv a r m c] => { tf with sig := { tf.sig with inputs := [.recv a r m c, implReceiverArg], itrail := false } }
  | .recv a r m c :: rest => { tf with sig := { tf.sig with inputs := .recv a r m c :: implReceiverArg :: rest } }
  | _ => tf

def noMockOpts (o : Opts) : Opts := { o with mockApi := none, unimock := none, mockall := none }

def staticSup : Supertraits := { colon := true, bounds := [staticToks], trailing := false }

/-- `gen_impl_delegation_trait_defs` -/
def genDelegationTraitDefs (attr : TraitAttr) (vis : Toks) (tg : TraitGenerics) (fns : List TraitFn)
    (implSubAttrs : List Attr) : Except PErr (List GenItem) :=
  match attr.implTrait with
  | none => .ok []
  | some (_, implIdent) =>
    let tg' : TraitGenerics := { tg with params := entraitTParam :: tg.params }
    match attr.delegation with
    | some (.byTrait delegIdent) =>
        let t := genTraitDef (noMockOpts attr.opts) .staticImpl .generic implSubAttrs vis implIdent tg'
                  staticSup (fns.map staticImplFn) .rawTrait
        let selector : GenTrait :=
          { vis := [i "pub"], ident := delegIdent, params := [.ty [] "T" [] false none]
            members := [.raw [i "type", i "Target", p ':', i implIdent, p '<', i "T", p '>', p ';']] }
        .ok [.trait { t with attrs := implSubAttrs ++ t.attrs }, .trait selector]
    | some (.byRef _) =>
        let t := genTraitDef (noMockOpts attr.opts) .dynamicImpl .generic implSubAttrs vis implIdent tg'
                  staticSup (fns.map dynamicImplFn) .rawTrait
        .ok [.trait { t with attrs := implSubAttrs ++ t.attrs }]
    | _ => .error (.diag msgMissingDelegateBy)

def argList (names : List String) : Toks := joinSep [p ','] (names.map fun a => [i a])

def dynTarget (implIdent : String) (plusSync : Bool) : Toks :=
  [i "dyn", i implIdent, p '<', i entraitT, p '>'] ++ (if plusSync then p '+' :: syncToks else [])

def asRefPath : Toks := corePath ["core", "convert", "AsRef"]
def borrowPath : Toks := corePath ["core", "borrow", "Borrow"]

/-- the call expression of `gen_delegation_method` -/
def delegationCall (attr : TraitAttr) (containsAsync : Bool) (fnIdent : String) (args : List String) : Toks :=
  match attr.implTrait, attr.delegation with
  | some (_, implIdent), some (.byTrait _) =>
      [p '<', i entraitT] ++ pathSep ++ [i "Target", i "as", i implIdent, p '<', i entraitT, p '>', p '>'] ++
      pathSep ++ [i fnIdent, parens ([i "self", p ','] ++ argList args)]
  | some (_, implIdent), some (.byRef borrow) =>
      [p '<', i entraitT, i "as"] ++ (if borrow then borrowPath else asRefPath) ++
      [p '<'] ++ dynTarget implIdent containsAsync ++ [p '>', p '>'] ++ pathSep ++
      [i (if borrow then "borrow" else "as_ref"), parens [p '&', p '*', i "self"], p '.', i fnIdent,
       parens ([i "self", p ','] ++ argList args)]
  | none, some (.byRef false) =>
      [i "self", p '.', i "as_ref", parens [], p '.', i "as_ref", parens [], p '.', i fnIdent, parens (argList args)]
  | none, some (.byRef true) =>
      [i "self", p '.', i "as_ref", parens [], p '.', i "borrow", parens [], p '.', i fnIdent, parens (argList args)]
  | _, _ =>
      [i "self", p '.', i "as_ref", parens [], p '.', i fnIdent, parens (argList args)]

/-- `gen_delegation_method` + `DelegatingMethod::to_tokens` -/
def delegationMethod (attr : TraitAttr) (containsAsync : Bool) (tf : TraitFn) : GenMember :=
  let sig := { tf.sig with inputs := fixParams tf.sig.ident tf.sig.inputs }
  let call := delegationCall attr containsAsync sig.ident (paramIdents sig.inputs)
  .fn tf.attrs sig (some (call ++ (if tf.originallyAsync then [p '.', i "await"] else [])))

/-- `ImplWhereClause::push_impl_t_bounds` -/
def traitImplTBounds (attr : TraitAttr) (containsAsync : Bool) (traitIdent : String) (tg : TraitGenerics) : List Toks :=
  let traitWithArgs : Toks := [i traitIdent] ++ genericArgs .none tg.params
  let sendSync : List Toks := if containsAsync then [syncToks] else []
  match attr.implTrait, attr.delegation with
  | some _, some (.byTrait d) => [[i d, p '<', i entraitT, p '>'], syncToks, staticToks]
  | some (_, implIdent), some (.byRef borrow) =>
      [(if borrow then borrowPath else asRefPath) ++ [p '<'] ++ dynTarget implIdent containsAsync ++ [p '>']] ++
      sendSync ++ [staticToks]
  | none, some (.byRef borrow) =>
      [(if borrow then borrowPath else asRefPath) ++ [p '<', i "dyn"] ++ traitWithArgs ++ [p '>']] ++
      sendSync ++ [staticToks]
  | _, _ => [traitWithArgs, syncToks] ++ (if containsAsync then [staticToks] else [])

def expandTrait (v : Variant) (attrToks : Toks) (t : TraitItem) : Outcome :=
  match parseTraitAttr attrToks with
  | .error e => .ofPErr e
  | .ok attr0 =>
    let attr := { attr0 with opts := v.apply attr0.opts }
    match attr.implTrait, attr.delegation with
    | none, some (.byTrait _) => .diag msgCustomWithoutTrait
    | _, _ =>
      let containsAsync := t.members.any (fun m => match m with | .fn f => f.sig.async_ | _ => false)
      match analyzeTraitMembers t.members with
      | .error e => .ofPErr e
      | .ok fns =>
        let tg : TraitGenerics := { params := t.generics.params, preds := t.generics.preds, wtrail := t.generics.wtrail }
        let sup : Supertraits := { colon := t.colon, bounds := t.supertraits, trailing := t.strail }
        let implSubAttrs := t.attrs.filter (fun a => a.subKind == .asyncTrait)
        match genDelegationTraitDefs attr t.vis tg fns implSubAttrs with
        | .error e => .ofPErr e
        | .ok delegation =>
          let traitDef := genTraitDef attr.opts .trait .generic t.attrs t.vis t.ident tg sup fns .rawTrait
          let implBlock : GenImpl :=
            { attrs := implSubAttrs
              params := implParams .generic false tg.params
              traitRef := [i t.ident] ++ genericArgs .none tg.params
              selfTy := implPathToks
              preds := .ty [] entraitTTy (traitImplTBounds attr containsAsync t.ident tg) false :: tg.preds
              members := fns.map (delegationMethod attr containsAsync) }
          .ok (.traitOut ([.trait traitDef] ++ delegation ++ [.impl implBlock]))

/-! ### impl block -/

def expandImpl (v : Variant) (attrToks : Toks) (m : ImplItemIn) : Outcome :=
  match splitBody true m.oracle m.body.length m.body with
  | .error e => .ofPErr e
  | .ok items =>
    match parseImplAttr attrToks with
    | .error e => .ofPErr e
    | .ok attr =>
      let opts := v.apply attr.opts
      let kind : ReceiverKind := if attr.dynRef then .dynamicImpl else .staticImpl
      let sigs := (items.filterMap BodyItem.fn?).map (·.sig)
      match analyzeFns kind opts sigs {} with
      | .error e => .ofErr e
      | .ok (fns0, tg) =>
        let fns := attachCfg (bodyFnAttrs items) fns0
        match detectDepMode .implBlock fns with
        | .error e => .ofErr e
        | .ok depMode =>
          let ind : ImplIndirection := if attr.dynRef then .dynamic m.selfTy else .static_ m.selfTy
          match genImplBlock opts m.traitPath ind tg .implBlock depMode m.attrs fns with
          | .error site => .panic site
          | .ok implBlock =>
            let inherent : Toks :=
              printAttrs (m.attrs.filter (fun a => a.subKind != .asyncTrait)) ++
              (if m.unsafe_ then [i "unsafe"] else []) ++ [i "impl"] ++ m.selfTy ++
              [braces (items.flatMap BodyItem.print)]
            .ok (.implOut inherent [.impl implBlock])

/-! ### entry point -/

def expand (v : Variant) (attrToks : Toks) : Item → Outcome
  | .fn f => expandFn v attrToks f
  | .mod_ m => if m.unsafe_ then .diag msgNotAllowedHere else expandMod v attrToks m
  | .trait t => expandTrait v attrToks t
  | .impl m => expandImpl v attrToks m

end Entrait
