import EntraitModel.Expand
/-
  Where a diagnostic points (C15: "reports an error … at the offending tokens").

  A locus is a range of *leaves* of one of the macro's two inputs: the attribute argument tokens
  or the item tokens, flattened depth first with a group counting as its opening delimiter, its
  content and its closing delimiter (`TT.flattenList`).  The harness computes the same range for
  the real macro from the span syn attaches to the error (`harness/src/main.rs: locus`).

  This file mirrors, error site by error site, which span the macro hands to `syn::Error::new`.
-/
namespace Entrait

inductive Locus
  | callSite                       -- `Span::call_site()`: the invocation as a whole
  | attr (start len : Nat)         -- leaves `[start, start+len)` of the attribute arguments
  | item (start len : Nat)         -- leaves `[start, start+len)` of the item
  deriving DecidableEq, Repr, Inhabited

def flatLen (ts : Toks) : Nat := (TT.flattenList ts).length

/-! ### attribute arguments -/

/-- an unknown option is reported at its identifier (after the `?` of `?Name`) -/
def unknownOptOff : Toks → Nat
  | .punct '?' :: _ => 1
  | _ => 0

/-- `EntraitOpt::span`: the option's keyword; for `mock_api = X` the name `X`; for `?Send` the `Send` -/
def Opt.spanOff : Opt → Nat
  | .mockApi _ => 2
  | .maybeSend => 1
  | _ => 0

/-- the error of `parseOptSegs`, located; `base`: leaf index at which the first segment starts -/
def optSegsLocus {σ : Type} (set : σ → Opt → Option σ) : σ → List Toks → Nat → Option Locus
  | _, [], _ => none
  | st, seg :: segs, base =>
      match parseOpt seg with
      | .error (.diag _) => some (.attr (base + unknownOptOff seg) 1)
      | .error .syn => none
      | .ok (opt, rest) =>
        match set st opt with
        | none => some (.attr (base + opt.spanOff) 1)
        | some st' => if rest.isEmpty then optSegsLocus set st' segs (base + flatLen seg + 1) else none

def fnSegsLocus : List Toks → Option Locus
  | [] => none
  | seg0 :: segs =>
    match parseVis seg0 with
    | .error _ => none
    | .ok (_, rest) =>
      match rest with
      | [.ident name] => if isKeyword name then none else optSegsLocus Opts.setFn {} segs (flatLen seg0 + 1)
      | _ => none

/-- where the error of `parseFnAttr` points -/
def fnAttrLocus (ts : Toks) : Option Locus := fnSegsLocus (splitCommas ts)

def traitSegsLocus : List Toks → Option Locus
  | [] => none
  | seg0 :: segs =>
    match parseOpt seg0 with
    | .ok _ => optSegsLocus TraitAttr.set {} (seg0 :: segs) 0
    | .error _ =>
      match parseVis seg0 with
      | .error _ => none
      | .ok (vis, rest) =>
        match rest with
        | .ident name :: rest0 =>
            if isKeyword name then none
            else
              let st : TraitAttr := { implTrait := some (vis, name) }
              if !rest0.isEmpty then optSegsLocus TraitAttr.set st (rest0 :: segs) (flatLen seg0 - flatLen rest0)
              else if segs == [[]] then none
              else optSegsLocus TraitAttr.set st segs (flatLen seg0 + 1)
        | _ => none

/-- where the error of `parseTraitAttr` points -/
def traitAttrLocus (ts : Toks) : Option Locus :=
  if ts.isEmpty then none else traitSegsLocus (splitCommas ts)

/-- where the error of `parseImplAttr` points -/
def implAttrLocus (ts : Toks) : Option Locus :=
  let r := stripKw "ref" ts
  let d := stripKw "dyn" r.2
  if d.2.isEmpty then none
  else optSegsLocus ImplAttr.set { dynRef := r.1 || d.1 } (splitCommas d.2) (flatLen ts - flatLen d.2)

/-- the span kept with `delegate_by` (the last one written wins): leaf index of its keyword -/
def lastDelegateAt : List Toks → Nat → Option Nat → Option Nat
  | [], _, acc => acc
  | seg :: segs, base, acc =>
      lastDelegateAt segs (base + flatLen seg + 1)
        (match parseOpt seg with
         | .ok (.delegateBy _, _) => some base
         | _ => acc)

/-! ### signatures -/

/-- everything `Sig.print` emits before the function's identifier -/
def Sig.headToks (s : Sig) : Toks :=
  (if s.const_ then [i "const"] else []) ++
  (if s.async_ then [i "async"] else []) ++
  (if s.unsafe_ then [i "unsafe"] else []) ++
  (s.abi.getD []) ++ [i "fn"]

/-- leaf offset of the identifier inside the printed signature -/
def Sig.identOff (s : Sig) : Nat := flatLen s.headToks

/-- leaf offset of the first parameter inside the printed signature -/
def Sig.arg0Off (s : Sig) : Nat := flatLen (s.headToks ++ [i s.ident] ++ s.generics.printParams) + 1

/-- leaf offset, inside a printed type, of the type `extract_deps_from_type` ends up looking at -/
def Ty.coreOff : Ty → Nat
  | .ref_ lt m e => 1 + (match lt with | some l => flatLen (lifetimeToks l) | none => 0) + (if m then 1 else 0) + e.coreOff
  | .paren e => 1 + e.coreOff
  | _ => 0

/-- the type `extract_deps_from_type` ends up looking at -/
def Ty.core : Ty → Ty
  | .ref_ _ _ e => e.core
  | .paren e => e.core
  | t => t

/-- (offset, length) of the dependency type proper, relative to the start of the signature -/
def Sig.depTypeAt (s : Sig) : Option (Nat × Nat) :=
  match s.inputs with
  | .typed attrs pat ty :: _ =>
      some (s.arg0Off + flatLen (printAttrs attrs ++ pat.print ++ [p ':']) + ty.coreOff, flatLen ty.core.print)
  | _ => none

/-- the place `analyze_fn_deps` blames when it rejects the signature (relative to its start) -/
def Sig.depsErrorAt (s : Sig) : Option (Nat × Nat) :=
  match s.inputs with
  | [] => some (s.identOff, 1)
  | .recv a r m c :: _ => some (s.arg0Off, flatLen (FnArg.print (.recv a r m c)))
  | .typed _ _ ty :: _ =>
      match ty.core with
      | .path true _ _ _ _ => s.depTypeAt
      | .path false true _ _ _ => s.depTypeAt
      | _ => none

/-- the analysed functions of a module / impl body with the leaf index at which each signature starts -/
def sigBases : List BodyItem → Nat → List (Nat × Sig)
  | [], _ => []
  | .pubFn f :: rest, off =>
      (off + flatLen (printAttrs f.attrs ++ f.vis), f.sig) :: sigBases rest (off + flatLen f.print)
  | it :: rest, off => sigBases rest (off + flatLen it.print)

def locAt (b : Nat) : Option (Nat × Nat) → Option Locus
  | some (o, n) => some (.item (b + o) n)
  | none => none

/-- first signature the dependency analysis rejects -/
def firstDepsError : List (Nat × Sig) → Option Locus
  | [] => none
  | (b, s) :: rest =>
      match s.depsErrorAt with
      | some r => locAt b (some r)
      | none => firstDepsError rest

/-- first function whose dependency the analysis classified as concrete (module / impl block) -/
def firstConcrete : List TraitFn → List (Nat × Sig) → Option Locus
  | tf :: tfs, (b, s) :: rest =>
      match tf.deps with
      | .concrete _ => locAt b s.depTypeAt
      | _ => firstConcrete tfs rest
  | _, _ => none

/-! ### the four input modes: where the diagnostic of `expand` points -/

def FnItem.sigBase (f : FnItem) : Nat := flatLen (printAttrs f.attrs ++ f.vis)

def fnLocus (v : Variant) (attrToks : Toks) (f : FnItem) : Option Locus :=
  match parseFnAttr attrToks with
  | .error _ => fnAttrLocus attrToks
  | .ok attr => if (v.apply attr.opts).noDepsValue then none else firstDepsError [(f.sigBase, f.sig)]

/-- everything `ModItemIn.print` emits before the body braces -/
def ModItemIn.headToks (m : ModItemIn) : Toks :=
  printAttrs m.attrs ++ m.vis ++ (if m.unsafe_ then [i "unsafe"] else []) ++ [i "mod", i m.ident]

def modLocus (v : Variant) (attrToks : Toks) (m : ModItemIn) : Option Locus :=
  if m.unsafe_ then some (.item (flatLen (printAttrs m.attrs ++ m.vis)) 1)
  else
    match splitBody false m.oracle m.body.length m.body with
    | .error (.diag _) => some .callSite
    | .error .syn => none
    | .ok items =>
      match parseFnAttr attrToks with
      | .error _ => fnAttrLocus attrToks
      | .ok attr =>
        let opts := v.apply attr.opts
        let bases := sigBases items (flatLen m.headToks + 1)
        match analyzeFns .selfRef opts (bases.map (·.2)) {} with
        | .error _ => if opts.noDepsValue then none else firstDepsError bases
        | .ok (fns, _) => firstConcrete fns bases

/-- everything `ImplItemIn.print` emits before the body braces -/
def ImplItemIn.headToks (m : ImplItemIn) : Toks :=
  printAttrs m.attrs ++ (if m.unsafe_ then [i "unsafe"] else []) ++ [i "impl"] ++ m.traitPath ++ [i "for"] ++ m.selfTy

def implLocus (v : Variant) (attrToks : Toks) (m : ImplItemIn) : Option Locus :=
  match splitBody true m.oracle m.body.length m.body with
  | .error (.diag _) => some .callSite
  | .error .syn => none
  | .ok items =>
    match parseImplAttr attrToks with
    | .error _ => implAttrLocus attrToks
    | .ok attr =>
      let opts := v.apply attr.opts
      let kind : ReceiverKind := if attr.dynRef then .dynamicImpl else .staticImpl
      let bases := sigBases items (flatLen m.headToks + 1)
      match analyzeFns kind opts (bases.map (·.2)) {} with
      | .error _ => firstDepsError bases
      | .ok (fns, _) => firstConcrete fns bases

/-- everything `TraitItem.print` emits before the member braces -/
def TraitItem.headToks (t : TraitItem) : Toks :=
  printAttrs t.attrs ++ t.vis ++
  (if t.unsafe_ then [i "unsafe"] else []) ++ (if t.auto_ then [i "auto"] else []) ++
  [i "trait", i t.ident] ++ t.generics.printParams ++
  (if t.colon || !t.supertraits.isEmpty then p ':' :: printBounds t.supertraits t.strail else []) ++
  t.generics.printWhere

/-- the first member `analyze_trait` rejects, as a whole -/
def firstOtherMember : List TraitMember → Nat → Option Locus
  | [], _ => none
  | .other toks :: _, off => some (.item off (flatLen toks))
  | m :: rest, off => firstOtherMember rest (off + flatLen m.print)

def traitLocus (attrToks : Toks) (t : TraitItem) : Option Locus :=
  match parseTraitAttr attrToks with
  | .error _ => traitAttrLocus attrToks
  | .ok attr =>
    match attr.implTrait, attr.delegation with
    | none, some (.byTrait _) =>
        (lastDelegateAt (splitCommas attrToks) 0 none).map (fun n => Locus.attr n 1)
    | _, _ =>
      match firstOtherMember t.members (flatLen t.headToks + 1) with
      | some l => some l
      | none =>
        match attr.implTrait, attr.delegation with
        | some _, some (.byTrait _) => none
        | some _, some (.byRef _) => none
        | some _, _ => some .callSite
        | none, _ => none

/-- where the diagnostic `expand v attrToks item` answers with points (`none`: no diagnostic of
    entrait's own, or a syn error, whose span is syn's business) -/
def diagLocus (v : Variant) (attrToks : Toks) : Item → Option Locus
  | .fn f => fnLocus v attrToks f
  | .mod_ m => modLocus v attrToks m
  | .trait t => traitLocus attrToks t
  | .impl m => implLocus v attrToks m

def Locus.show : Locus → String
  | .callSite => "call"
  | .attr a n => s!"attr:{a}:{n}"
  | .item a n => s!"item:{a}:{n}"

end Entrait
