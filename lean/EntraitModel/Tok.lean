/-
  Token trees: the common currency between the real macro (proc_macro2::TokenStream), the
  encoder in the harness and the model.  Spans and punct spacing are not represented.
  A lifetime `'a` is two trees, `punct '\''` and `ident a`, exactly as proc_macro2 has it.
-/
namespace Entrait

inductive Delim | paren | brace | bracket | none
  deriving DecidableEq, Repr, Inhabited

inductive TT
  | ident (s : String)
  | punct (c : Char)
  | lit (s : String)
  | group (d : Delim) (ts : List TT)
  deriving Repr, Inhabited

abbrev Toks := List TT

mutual
def TT.decEq : (a b : TT) → Decidable (a = b)
  | .ident a, .ident b =>
      if h : a = b then isTrue (by rw [h]) else isFalse (by intro h'; cases h'; exact h rfl)
  | .punct a, .punct b =>
      if h : a = b then isTrue (by rw [h]) else isFalse (by intro h'; cases h'; exact h rfl)
  | .lit a, .lit b =>
      if h : a = b then isTrue (by rw [h]) else isFalse (by intro h'; cases h'; exact h rfl)
  | .group d ts, .group d' ts' =>
      if hd : d = d' then
        match TT.decEqList ts ts' with
        | isTrue h => isTrue (by rw [hd, h])
        | isFalse h => isFalse (by intro h'; cases h'; exact h rfl)
      else isFalse (by intro h'; cases h'; exact hd rfl)
  | .ident _, .punct _ => isFalse (by intro h; cases h)
  | .ident _, .lit _ => isFalse (by intro h; cases h)
  | .ident _, .group _ _ => isFalse (by intro h; cases h)
  | .punct _, .ident _ => isFalse (by intro h; cases h)
  | .punct _, .lit _ => isFalse (by intro h; cases h)
  | .punct _, .group _ _ => isFalse (by intro h; cases h)
  | .lit _, .ident _ => isFalse (by intro h; cases h)
  | .lit _, .punct _ => isFalse (by intro h; cases h)
  | .lit _, .group _ _ => isFalse (by intro h; cases h)
  | .group _ _, .ident _ => isFalse (by intro h; cases h)
  | .group _ _, .punct _ => isFalse (by intro h; cases h)
  | .group _ _, .lit _ => isFalse (by intro h; cases h)
def TT.decEqList : (as bs : List TT) → Decidable (as = bs)
  | [], [] => isTrue rfl
  | [], _ :: _ => isFalse (by intro h; cases h)
  | _ :: _, [] => isFalse (by intro h; cases h)
  | a :: as, b :: bs =>
      match TT.decEq a b with
      | isTrue h =>
        match TT.decEqList as bs with
        | isTrue h' => isTrue (by rw [h, h'])
        | isFalse h' => isFalse (by intro hh; cases hh; exact h' rfl)
      | isFalse h => isFalse (by intro hh; cases hh; exact h rfl)
end

instance : DecidableEq TT := TT.decEq

/-- Shorthands used throughout the model. -/
def i (s : String) : TT := .ident s
def p (c : Char) : TT := .punct c
def parens (ts : Toks) : TT := .group .paren ts
def braces (ts : Toks) : TT := .group .brace ts
def brackets (ts : Toks) : TT := .group .bracket ts

/-- `::` -/
def pathSep : Toks := [p ':', p ':']
/-- `->` -/
def arrow : Toks := [p '-', p '>']
/-- `'name` -/
def lifetimeToks (name : String) : Toks := [p '\'', i name]

def TT.isIdent : TT → String → Bool
  | .ident s, k => s == k
  | _, _ => false

def TT.isPunct : TT → Char → Bool
  | .punct c, k => c == k
  | _, _ => false

def TT.isBraceGroup : TT → Bool
  | .group .brace _ => true
  | _ => false

/-- Join token lists with a separator. -/
def joinSep (sep : Toks) : List Toks → Toks
  | [] => []
  | [x] => x
  | x :: y :: rest => x ++ sep ++ joinSep sep (y :: rest)

/-- Flattening to a leaf sequence (used for comparison and printing). -/
inductive Leaf
  | ident (s : String) | punct (c : Char) | lit (s : String) | open_ (d : Delim) | close (d : Delim)
  deriving DecidableEq, Repr

mutual
def TT.flatten : TT → List Leaf
  | .ident s => [.ident s]
  | .punct c => [.punct c]
  | .lit s => [.lit s]
  | .group d ts => .open_ d :: (TT.flattenList ts ++ [.close d])
def TT.flattenList : List TT → List Leaf
  | [] => []
  | t :: ts => TT.flatten t ++ TT.flattenList ts
end

end Entrait
