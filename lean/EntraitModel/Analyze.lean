import EntraitModel.Input
/-
  `analyze_generics.rs`, `generics.rs` (data part), `signature/converter.rs`,
  `signature/fn_params.rs`, `sub_attributes.rs`.
-/
namespace Entrait

inductive FnDeps
  | generic (param : Option String) (bounds : List Toks)
  | concrete (ty : Ty)
  | noDeps
  deriving DecidableEq, Repr, Inhabited

/-- `TraitGenerics`: both lists are built with `Punctuated::push` (no trailing comma) in
    fn / mod / impl mode; in trait mode they are the user's. -/
structure TraitGenerics where
  params : List GParam := []
  preds : List WherePred := []
  wtrail : Bool := false
  deriving DecidableEq, Repr, Inhabited

structure TraitFn where
  deps : FnDeps
  attrs : List Attr := []
  sig : Sig
  originallyAsync : Bool
  deriving DecidableEq, Repr, Inhabited

inductive InputMode | singleFn | module | implBlock | rawTrait
  deriving DecidableEq, Repr, Inhabited

inductive ReceiverKind | selfRef | staticImpl | dynamicImpl
  deriving DecidableEq, Repr, Inhabited

inductive DepMode
  | generic
  | concrete (ty : Ty)
  deriving DecidableEq, Repr, Inhabited

def msgNoReceiver : String :=
  "Function must have a dependency 'receiver' as its first parameter. Pass `no_deps` to entrait to disable dependency injection."
def msgSelfReceiver : String := "Function cannot have a self receiver"
def msgNoSelf : String := "No self allowed"
def msgNoLeadingColon : String := "No leading colon allowed"
def msgConcreteInModule : String :=
  "Using concrete dependencies in a module is an anti-pattern. Instead, write a trait manually, use the #[entrait] attribute on it, and implement it for your application type"
def msgConcreteInImpl : String := "Cannot (yet) use concrete dependency in an impl block"

/-- the lifetimes written in a token list (`'name`), in order of appearance -/
def lifetimesIn : Toks → List String
  | [] => []
  | .punct '\'' :: .ident n :: rest => n :: lifetimesIn rest
  | .group _ g :: rest => lifetimesIn g ++ lifetimesIn rest
  | _ :: rest => lifetimesIn rest

def GParam.lifetimeName? : GParam → Option String
  | .lt _ n _ _ => some n
  | _ => none

/-- the lifetime parameters a function declares -/
def Generics.lifetimeNames (g : Generics) : List String := g.params.filterMap GParam.lifetimeName?

/-- A where-predicate is lifted to the trait only if it does not talk about a lifetime parameter of
    the function: those parameters stay on the method, and so does the predicate (it is on the method
    in any case; the trait could not name the lifetime). -/
def liftable (g : Generics) (q : WherePred) : Bool :=
  !(lifetimesIn q.print).any (fun n => g.lifetimeNames.contains n)

/-- `deps_with_generics`: all type and const parameters and the liftable where predicates go to the trait. -/
def depsWithGenerics (g : Generics) (tg : TraitGenerics) : TraitGenerics :=
  { tg with
    params := tg.params ++ g.params.filter (fun q => !q.isLifetime)
    preds := tg.preds ++ g.preds.filter (liftable g) }

/-- Where-clause walk of `find_deps_generic_bounds`: returns (extra deps bounds, predicates lifted
    to the trait). -/
def walkWhere (depIdent : String) : List WherePred → List Toks × List WherePred
  | [] => ([], [])
  | pred :: rest =>
      let (bs, lifted) := walkWhere depIdent rest
      match pred with
      | .ty _ (.path qself leading nseg first _) bounds _ =>
          if qself || leading then (bs, pred :: lifted)
          else if nseg != 1 then (bs, pred :: lifted)
          else if first == depIdent then (bounds ++ bs, lifted)
          else (bs, lifted)
      | _ => (bs, pred :: lifted)

/-- index and bounds of the first type parameter named `ident` -/
def findTypeParam (ident : String) : List GParam → Nat → Option (Nat × List Toks)
  | [], _ => none
  | .ty _ name bounds _ _ :: rest, idx =>
      if name == ident then some (idx, bounds) else findTypeParam ident rest (idx + 1)
  | _ :: rest, idx => findTypeParam ident rest (idx + 1)

def dropIdx {α : Type} : List α → Nat → List α
  | [], _ => []
  | _ :: xs, 0 => xs
  | x :: xs, n + 1 => x :: dropIdx xs n

def findDepsGenericBounds (g : Generics) (ident : String) (tg : TraitGenerics) :
    Option (FnDeps × TraitGenerics) :=
  match findTypeParam ident g.params 0 with
  | none => none
  | some (idx, direct) =>
      let others := (dropIdx g.params idx).filter (fun q => !q.isLifetime)
      let (extra, lifted) := walkWhere ident g.preds
      some (.generic (some ident) (direct ++ extra),
            { tg with params := tg.params ++ others, preds := tg.preds ++ lifted.filter (liftable g) })

def extractDepsFromType (g : Generics) (tg : TraitGenerics) : Ty → Except PErr (FnDeps × TraitGenerics)
  | .implTrait bounds _ => .ok (.generic none bounds, depsWithGenerics g tg)
  | .path qself leading nseg first toks =>
      if qself then .error (.diag msgNoSelf)
      else if leading then .error (.diag msgNoLeadingColon)
      else if nseg != 1 then .ok (.concrete (.path qself leading nseg first toks), depsWithGenerics g tg)
      else
        match findDepsGenericBounds g first tg with
        | some r => .ok r
        | none => .ok (.concrete (.path qself leading nseg first toks), depsWithGenerics g tg)
  | .ref_ _ _ elem => extractDepsFromType g tg elem
  | .paren elem => extractDepsFromType g tg elem
  | .other toks => .ok (.concrete (.other toks), depsWithGenerics g tg)

/-- `analyze_fn_deps` -/
def analyzeFnDeps (sig : Sig) (opts : Opts) (tg : TraitGenerics) : Except PErr (FnDeps × TraitGenerics) :=
  if opts.noDepsValue then .ok (.noDeps, depsWithGenerics sig.generics tg)
  else
    match sig.inputs with
    | [] => .error (.diag msgNoReceiver)
    | .recv .. :: _ => .error (.diag msgSelfReceiver)
    | .typed _ _ ty :: _ => extractDepsFromType sig.generics tg ty

/-! ### signature conversion -/

def FnArg.stripAttrs : FnArg → FnArg
  | .recv _ r m c => .recv [] r m c
  | .typed _ pat ty => .typed [] pat ty

/-- `__impl: &::entrait::Impl<EntraitT>` -/
def implPathToks : Toks :=
  pathSep ++ [i "entrait"] ++ pathSep ++ [i "Impl", p '<', i "EntraitT", p '>']

def implPathTy : Ty := .path false true 2 "entrait" implPathToks

def implReceiverWith (lt : Option String) : FnArg :=
  .typed [] (.ident false false "__impl" none) (.ref_ lt false implPathTy)

def implReceiverArg : FnArg := implReceiverWith none

def selfReceiverArg (reference : Option (Option String)) : FnArg := .recv [] reference false none

def genFirstReceiver (kind : ReceiverKind) (reference : Option (Option String)) : FnArg :=
  match kind with
  | .selfRef | .dynamicImpl => selfReceiverArg reference
  -- the static `__impl` receiver stands for the dependency reference and keeps its lifetime
  | .staticImpl => implReceiverWith reference.join

/-- first half of `generate_params`: the dependency parameter becomes the receiver (or one is
    inserted for `no_deps`); inputs and trailing-comma flag -/
def rewriteFirst (kind : ReceiverKind) (deps : FnDeps) (inputs : List FnArg) (itrail : Bool) :
    Except String (List FnArg × Bool) :=
  match deps with
  | .noDeps =>
      -- `Punctuated::insert(0, ..)`: a push when empty
      .ok (genFirstReceiver kind (some none) :: inputs, if inputs.isEmpty then false else itrail)
  | _ =>
      match inputs with
      | [] => .ok ([], itrail)
      | .typed _ _ (.ref_ lt _ _) :: rest => .ok (genFirstReceiver kind (some lt) :: rest, itrail)
      | .typed _ _ _ :: rest => .ok (genFirstReceiver kind none :: rest, itrail)
      | .recv .. :: _ => .error "converter.rs: receiver in Rewrite"

/-- second half: for dynamic dispatch `__impl` is inserted after the receiver -/
def insertImplRecv (kind : ReceiverKind) (ins : List FnArg) (tr : Bool) : Except String (List FnArg × Bool) :=
  match kind with
  | .dynamicImpl =>
      match ins with
      | [] => .error "converter.rs: Punctuated::insert index out of bounds"
      | [x] => .ok ([x, implReceiverArg], false)
      | x :: y :: rest => .ok (x :: implReceiverArg :: y :: rest, tr)
  | _ => .ok (ins, tr)

/-- `generate_params` -/
def generateParams (kind : ReceiverKind) (deps : FnDeps) (inputs : List FnArg) (itrail : Bool) :
    Except String (List FnArg × Bool) :=
  match rewriteFirst kind deps inputs itrail with
  | .error e => .error e
  | .ok (ins, tr) => insertImplRecv kind ins tr

/-- `is_type_eq_ident` -/
def isTypeEqIdent (ty : Ty) (ident : String) : Bool :=
  match ty with
  | .path _ _ nseg first _ => nseg == 1 && first == ident
  | _ => false

/-- `remove_generic_type_params` (after the fix: const parameters go to the trait as well) -/
def removeGenericTypeParams (deps : FnDeps) (g : Generics) : Generics :=
  let depIdent : Option String := match deps with | .generic q _ => q | _ => none
  { params := g.params.filter GParam.isLifetime
    ptrail := false
    preds := g.preds.filter (fun pred =>
      match pred, depIdent with
      | .ty _ bounded _ _, some d => !isTypeEqIdent bounded d
      | _, _ => true)
    wtrail := false }

/-! ### parameter naming (`fn_params.rs`) -/

def lowerFirst (s : String) : Bool :=
  match s.toList with
  | c :: _ => c.isLower
  | [] => false

/-- `IdentExt::unraw`: the identifier without a leading `r#` -/
def unraw (s : String) : String :=
  match s.toList with
  | 'r' :: '#' :: rest => String.ofList rest
  | _ => s

def plainPat (name : String) : Pat := .ident false false name none

/-- first loop: reduce every pattern that provides a name to that plain identifier -/
def liftPat : Pat → Pat
  | .ident _ _ name _ => plainPat name
  | .other toks bindings =>
      match bindings.filter lowerFirst with
      | [b] => plainPat b
      | _ => .other toks bindings

def FnArg.liftPat : FnArg → FnArg
  | .typed attrs pat ty => .typed attrs (Entrait.liftPat pat) ty
  | a => a

def underscores (n : Nat) : String := String.ofList (List.replicate n '_')

/-- `rename_ident`: `name_`, `name__`, .. until free.  Fuel: a free name exists among any
    `taken.length + 1` candidates. -/
def renameIdent (base : String) (taken : List String) : Nat → Nat → String
  | 0, n => base ++ underscores n
  | fuel + 1, n =>
      let cand := base ++ underscores n
      if taken.contains cand then renameIdent base taken fuel (n + 1) else cand

/-- `generate_ident`: `argN`, `_argN`, `__argN`, .. until free -/
def genIdent (index : Nat) (taken : List String) : Nat → Nat → String
  | 0, n => underscores n ++ "arg" ++ toString index
  | fuel + 1, n =>
      let cand := underscores n ++ "arg" ++ toString index
      if taken.contains cand then genIdent index taken fuel (n + 1) else cand

/-- identifiers kept as written (compared without `r#`) -/
def keptIdents (fnName : String) : List FnArg → List String
  | [] => []
  | .typed _ (.ident _ _ name _) _ :: rest =>
      if unraw name == fnName then keptIdents fnName rest else unraw name :: keptIdents fnName rest
  | _ :: rest => keptIdents fnName rest

/-- third loop; `idx` counts typed parameters -/
def nameArgs (fnName : String) : Nat → List String → List FnArg → List FnArg
  | _, _, [] => []
  | idx, taken, .typed attrs (.ident r m name sub) ty :: rest =>
      if unraw name == fnName then
        let n := renameIdent fnName taken (taken.length + 1) 1
        .typed attrs (plainPat n) ty :: nameArgs fnName (idx + 1) (n :: taken) rest
      else .typed attrs (.ident r m name sub) ty :: nameArgs fnName (idx + 1) taken rest
  | idx, taken, .typed attrs (.other _ _) ty :: rest =>
      let n := genIdent idx taken (taken.length + 1) 0
      .typed attrs (plainPat n) ty :: nameArgs fnName (idx + 1) (n :: taken) rest
  | idx, taken, a :: rest => a :: nameArgs fnName idx taken rest

/-- `fix_fn_param_idents` -/
def fixParams (fnIdent : String) (inputs : List FnArg) : List FnArg :=
  let fnName := unraw fnIdent
  let lifted := inputs.map FnArg.liftPat
  nameArgs fnName 0 (fnName :: keptIdents fnName lifted) lifted

/-- `convert_fn_to_trait_fn`; the error is a panic site -/
def convertSig (kind : ReceiverKind) (deps : FnDeps) (sig : Sig) : Except String Sig :=
  match generateParams kind deps (sig.inputs.map FnArg.stripAttrs) sig.itrail with
  | .error e => .error e
  | .ok (ins, tr) =>
      .ok { sig with
        inputs := fixParams sig.ident ins
        itrail := tr
        generics := removeGenericTypeParams deps sig.generics }

/-- `TraitFnAnalyzer::analyze`: `Except.error (Sum.inl ..)` diagnostics, `Sum.inr` panic sites -/
def analyzeFn (kind : ReceiverKind) (opts : Opts) (sig : Sig) (tg : TraitGenerics) :
    Except (PErr ⊕ String) (TraitFn × TraitGenerics) :=
  match analyzeFnDeps sig opts tg with
  | .error e => .error (.inl e)
  | .ok (deps, tg') =>
    match convertSig kind deps sig with
    | .error site => .error (.inr site)
    | .ok s => .ok ({ deps := deps, attrs := [], sig := s, originallyAsync := sig.async_ }, tg')

/-- `attr.path().is_ident("cfg")` -/
def Attr.isCfgAttr (a : Attr) : Bool :=
  match a.inner with
  | .ident "cfg" :: .punct ':' :: _ => false
  | .ident "cfg" :: _ => true
  | _ => false

/-- `TraitFn::with_cfg_attrs_of`: the `cfg` attributes of a function of a module / impl block are mirrored on
    the generated trait method and on the delegating method -/
def TraitFn.withCfgOf (tf : TraitFn) (fnAttrs : List Attr) : TraitFn :=
  { tf with attrs := fnAttrs.filter Attr.isCfgAttr }

def attachCfg : List (List Attr) → List TraitFn → List TraitFn
  | as :: ass, tf :: tfs => tf.withCfgOf as :: attachCfg ass tfs
  | _, tfs => tfs

/-- analysis of all functions of a module / impl block, sharing one generics analyzer -/
def analyzeFns (kind : ReceiverKind) (opts : Opts) : List Sig → TraitGenerics →
    Except (PErr ⊕ String) (List TraitFn × TraitGenerics)
  | [], tg => .ok ([], tg)
  | s :: rest, tg =>
      match analyzeFn kind opts s tg with
      | .error e => .error e
      | .ok (tf, tg') =>
        match analyzeFns kind opts rest tg' with
        | .error e => .error e
        | .ok (tfs, tg'') => .ok (tf :: tfs, tg'')

/-- `detect_trait_dependency_mode` -/
def detectDepMode (mode : InputMode) : List TraitFn → Except (PErr ⊕ String) DepMode
  | [] => .ok .generic
  | tf :: rest =>
      match tf.deps with
      | .concrete ty =>
          match mode with
          | .singleFn => .ok (.concrete ty)
          | .module => .error (.inl (.diag msgConcreteInModule))
          | .implBlock => .error (.inl (.diag msgConcreteInImpl))
          | .rawTrait => .error (.inr "analyze_generics.rs: Should not detect dependencies for this input mode")
      | _ => detectDepMode mode rest

/-! ### sub attributes -/

inductive SubKind | asyncTrait | automock | other
  deriving DecidableEq, Repr, Inhabited

def Attr.subKind (a : Attr) : SubKind :=
  match a.last with
  | some "async_trait" => .asyncTrait
  | some "automock" => .automock
  | _ => .other

def containsAsyncTrait (as : List Attr) : Bool := as.any (fun a => a.subKind == .asyncTrait)

end Entrait
