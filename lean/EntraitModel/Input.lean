import EntraitModel.Opts
/-
  `input.rs`: splitting the body of an entraited module / impl block into items, at token level.
  The only oracle is "`syn::Signature` parses at this position and consumes k token trees"
  (`SigOracle`, supplied by the encoder); every decision of the splitter itself — attribute and
  visibility recognition, the `fn` look-ahead, the first-brace-group-or-`;` scan, the trailing
  `;` loop, `verbatim_between` — is modelled here.
-/
namespace Entrait

/-- `Attribute::parse_outer`: `#[..]` repeated.  `#` followed by anything else is a syn error. -/
def parseOuterAttrs : Toks → Except PErr (List Attr × Toks)
  | .punct '#' :: .group .bracket inner :: rest =>
      match parseOuterAttrs rest with
      | .ok (as, r) => .ok ({ inner := inner } :: as, r)
      | .error e => .error e
  | .punct '#' :: _ => .error .syn
  | ts => .ok ([], ts)

def isStrLit (s : String) : Bool :=
  s.startsWith "\"" || s.startsWith "r\"" || s.startsWith "r#"

/-- the tokens that may precede `fn`: `const`? `async`? `unsafe`? (`extern` string?)? -/
def skipOpt (k : String) : Toks → Toks
  | .ident s :: rest => if s == k then rest else .ident s :: rest
  | ts => ts

def skipAbi : Toks → Toks
  | .ident "extern" :: .lit s :: rest => if isStrLit s then rest else .lit s :: rest
  | .ident "extern" :: rest => rest
  | ts => ts

/-- `peek_fn` -/
def peekFn (ts : Toks) : Bool :=
  match ts with
  | .ident "fn" :: _ => true
  | _ =>
    match skipAbi (skipOpt "unsafe" (skipOpt "async" (skipOpt "const" ts))) with
    | .ident "fn" :: _ => true
    | _ => false

/-- The scan of `parse_matched_braces_or_ending_semi`: everything up to and including the first
    top-level brace group or `;`. -/
def scanBraceOrSemi : Toks → Option (Toks × Toks)
  | [] => none
  | .group .brace g :: rest => some ([.group .brace g], rest)
  | .punct ';' :: rest => some ([p ';'], rest)
  | t :: rest =>
      match scanBraceOrSemi rest with
      | some (taken, r) => some (t :: taken, r)
      | none => none

/-- the `while input.peek(Token![;])` loop -/
def takeSemis : Toks → Toks × Toks
  | .punct ';' :: rest => let (s, r) := takeSemis rest; (p ';' :: s, r)
  | ts => ([], ts)

def readPastTheEnd : PErr := .diag "Read past the end"

def matchedBracesOrSemi (ts : Toks) : Except PErr (Toks × Toks) :=
  match scanBraceOrSemi ts with
  | none => .error readPastTheEnd
  | some (taken, rest) => let (semis, rest') := takeSemis rest; .ok (taken ++ semis, rest')

/-- `ModItem` / `ImplItem` -/
inductive BodyItem
  | pubFn (f : FnItem)
  | unknown (attrs : List Attr) (vis : Toks) (toks : Toks)
  deriving DecidableEq, Repr, Inhabited

def BodyItem.print : BodyItem → Toks
  | .pubFn f => f.print
  | .unknown attrs vis toks => printAttrs attrs ++ vis ++ toks

def BodyItem.fn? : BodyItem → Option FnItem
  | .pubFn f => some f
  | _ => none

/-- `ModItem::parse` (`isImpl = false`: only functions with a visibility are interesting) and
    `ImplItem::parse` (`isImpl = true`). -/
def parseBodyItem (isImpl : Bool) (oracle : SigOracle) (ts : Toks) : Except PErr (BodyItem × Toks) :=
  match parseOuterAttrs ts with
  | .error e => .error e
  | .ok (attrs, rest1) =>
    match parseVis rest1 with
    | .error e => .error e
    | .ok (vis, rest2) =>
      if (isImpl || !vis.isEmpty) && peekFn rest2 then
        match oracle.at rest2.length with
        | none => .error .syn
        | some (k, sig) =>
          match rest2.drop k with
          | .punct ';' :: rest4 => .ok (.unknown attrs vis (rest2.take (k + 1)), rest4)
          | rest3 =>
            match matchedBracesOrSemi rest3 with
            | .error e => .error e
            | .ok (body, rest4) => .ok (.pubFn { attrs := attrs, vis := vis, sig := sig, body := body }, rest4)
      else
        match matchedBracesOrSemi rest2 with
        | .error e => .error e
        | .ok (toks, rest3) => .ok (.unknown attrs vis toks, rest3)

/-- `while !content.is_empty() { items.push(content.parse()?) }`; the fuel is the body length
    (every successful item consumes at least one tree, see `Proofs/Split`). -/
def splitBody (isImpl : Bool) (oracle : SigOracle) : Nat → Toks → Except PErr (List BodyItem)
  | _, [] => .ok []
  | 0, _ :: _ => .error (.diag "model: out of fuel")
  | fuel + 1, ts =>
      match parseBodyItem isImpl oracle ts with
      | .error e => .error e
      | .ok (item, rest) =>
        match splitBody isImpl oracle fuel rest with
        | .error e => .error e
        | .ok items => .ok (item :: items)

end Entrait
