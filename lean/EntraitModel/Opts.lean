import EntraitModel.Syntax
/-
  Attribute-argument parsing, modelled at token level (`opt.rs`, `*/input_attr.rs`).
  Only `syn::Ident` (keyword rejection), `syn::LitBool` and `syn::Visibility` are primitive
  recognisers.  The sequential `ParseStream` code is modelled on comma-separated segments;
  the places where that code does *not* insist on a comma are reproduced (see `parseTraitAttr`).
-/
namespace Entrait

/-- Errors of attribute / input processing.  `syn`: an error produced by syn itself
    (message not modelled); `diag`: one of entrait's own messages. -/
inductive PErr
  | syn
  | diag (msg : String)
  deriving DecidableEq, Repr, Inhabited

/-- syn's `accept_as_ident` (keywords are not identifiers). -/
def isKeyword (s : String) : Bool :=
  ["_", "abstract", "as", "async", "await", "become", "box", "break", "const", "continue",
   "crate", "do", "dyn", "else", "enum", "extern", "false", "final", "fn", "for", "if", "impl",
   "in", "let", "loop", "macro", "match", "mod", "move", "mut", "override", "priv", "pub",
   "ref", "return", "Self", "self", "static", "struct", "super", "trait", "true", "try", "type",
   "typeof", "unsafe", "unsized", "use", "virtual", "where", "while", "yield"].contains s

inductive Delegate
  | bySelf
  | byRef (borrow : Bool)     -- `ref` (AsRef) / `Borrow`
  | byTrait (ident : String)
  deriving DecidableEq, Repr, Inhabited

inductive Opt
  | noDeps (b : Bool)
  | debug (b : Bool)
  | delegateBy (d : Delegate)
  | export_ (b : Bool)
  | maybeSend           -- `?Send`: FutureSend(false)
  | mockApi (ident : String)
  | unimock (b : Bool)
  | mockall (b : Bool)
  deriving DecidableEq, Repr, Inhabited

structure Opts where
  noDeps : Option Bool := none
  debug : Option Bool := none
  export_ : Option Bool := none
  futureSend : Option Bool := none
  mockApi : Option String := none
  unimock : Option Bool := none
  mockall : Option Bool := none
  deriving DecidableEq, Repr, Inhabited

def Opts.noDepsValue (o : Opts) : Bool := o.noDeps.getD false
def Opts.exportValue (o : Opts) : Bool := o.export_.getD false
def Opts.futureSendValue (o : Opts) : Bool := o.futureSend.getD true
def Opts.unimockValue (o : Opts) : Bool := o.unimock.getD false
def Opts.mockallValue (o : Opts) : Bool := o.mockall.getD false

/-- `Opts::mockable` -/
def Opts.mockable (o : Opts) : Bool :=
  (o.unimockValue && o.mockApi.isSome) || o.mockallValue

/-- Split a token list at top-level commas (a list with n commas gives n+1 segments). -/
def splitCommas : Toks → List Toks
  | [] => [[]]
  | .punct ',' :: rest => [] :: splitCommas rest
  | t :: rest =>
      match splitCommas rest with
      | [] => [[t]]
      | seg :: segs => (t :: seg) :: segs

def unknownOpt (s : String) : PErr := .diag s!"Unkonwn entrait option \"{s}\""

/-- `parse_eq_bool` on the rest of a segment: returns the value and what is left over. -/
def parseEqBool : Toks → Except PErr (Bool × Toks)
  | .punct '=' :: .ident "true" :: rest => .ok (true, rest)
  | .punct '=' :: .ident "false" :: rest => .ok (false, rest)
  | .punct '=' :: _ => .error .syn
  | rest => .ok (true, rest)

def parseEqDelegate : Toks → Except PErr (Delegate × Toks)
  | .punct '=' :: .ident "ref" :: rest => .ok (.byRef false, rest)
  | .punct '=' :: .ident "Self" :: rest => .ok (.bySelf, rest)
  | .punct '=' :: .ident s :: rest =>
      if isKeyword s then .error .syn
      else if s == "Borrow" then .ok (.byRef true, rest)
      else .ok (.byTrait s, rest)
  | .punct '=' :: _ => .error .syn
  | rest => .ok (.bySelf, rest)

/-- `EntraitOpt::parse` at the head of a token list; returns the option and the rest. -/
def parseOpt : Toks → Except PErr (Opt × Toks)
  | .punct '?' :: .ident s :: rest =>
      if isKeyword s then .error .syn
      else if s == "Send" then .ok (.maybeSend, rest)
      else .error (unknownOpt s)
  | .punct '?' :: _ => .error .syn
  | .ident s :: rest =>
      if isKeyword s then .error .syn
      else if s == "no_deps" then (parseEqBool rest).map (fun (b, r) => (.noDeps b, r))
      else if s == "debug" then (parseEqBool rest).map (fun (b, r) => (.debug b, r))
      else if s == "delegate_by" then (parseEqDelegate rest).map (fun (d, r) => (.delegateBy d, r))
      else if s == "export" then (parseEqBool rest).map (fun (b, r) => (.export_ b, r))
      else if s == "mock_api" then
        match rest with
        | .punct '=' :: .ident m :: rest' => if isKeyword m then .error .syn else .ok (.mockApi m, rest')
        | _ => .error .syn
      else if s == "unimock" then (parseEqBool rest).map (fun (b, r) => (.unimock b, r))
      else if s == "mockall" then (parseEqBool rest).map (fun (b, r) => (.mockall b, r))
      else .error (unknownOpt s)
  | _ => .error .syn

def unsupported : PErr := .diag "Unsupported option"

/-- Options accepted on fn / mod targets. -/
def Opts.setFn (o : Opts) : Opt → Option Opts
  | .noDeps b => some { o with noDeps := some b }
  | .debug b => some { o with debug := some b }
  | .export_ b => some { o with export_ := some b }
  | .maybeSend => some { o with futureSend := some false }
  | .mockApi m => some { o with mockApi := some m }
  | .unimock b => some { o with unimock := some b }
  | .mockall b => some { o with mockall := some b }
  | .delegateBy _ => none

/-- Parse a list of option segments, each of which must be consumed completely
    (an unsupported option is reported before left-over tokens are noticed). -/
def parseOptSegs {σ : Type} (set : σ → Opt → Option σ) : σ → List Toks → Except PErr σ
  | st, [] => .ok st
  | st, seg :: segs =>
      match parseOpt seg with
      | .error e => .error e
      | .ok (opt, rest) =>
        match set st opt with
        | none => .error unsupported
        | some st' => if rest.isEmpty then parseOptSegs set st' segs else .error .syn

/-- `syn::Visibility::parse` at the head of a token list: (visibility tokens, rest). -/
def modStylePathRest : Toks → Bool
  | [] => true
  | .punct ':' :: .punct ':' :: .ident _ :: rest => modStylePathRest rest
  | _ => false

def modStylePath : Toks → Bool
  | .punct ':' :: .punct ':' :: .ident _ :: rest => modStylePathRest rest
  | .ident _ :: rest => modStylePathRest rest
  | _ => false

def parseVis : Toks → Except PErr (Toks × Toks)
  | .ident "pub" :: .group .paren c :: rest =>
      match c with
      | [.ident k] =>
          if k == "crate" || k == "self" || k == "super" then
            .ok ([i "pub", .group .paren c], rest)
          else if k == "in" then .error .syn
          else .ok ([i "pub"], .group .paren c :: rest)
      | .ident "in" :: path =>
          if modStylePath path then .ok ([i "pub", .group .paren c], rest) else .error .syn
      | _ => .ok ([i "pub"], .group .paren c :: rest)
  | .ident "pub" :: rest => .ok ([i "pub"], rest)
  | ts => .ok ([], ts)

structure FnAttr where
  traitVis : Toks
  traitIdent : String
  opts : Opts
  deriving DecidableEq, Repr, Inhabited

/-- `EntraitFnAttr::parse`, on the comma-separated segments of the argument list -/
def parseFnSegs : List Toks → Except PErr FnAttr
  | [] => .error .syn
  | seg0 :: segs =>
    match parseVis seg0 with
    | .error e => .error e
    | .ok (vis, rest) =>
      match rest with
      | [.ident name] =>
          if isKeyword name then .error .syn
          else
            match parseOptSegs Opts.setFn {} segs with
            | .error e => .error e
            | .ok opts => .ok { traitVis := vis, traitIdent := name, opts := opts }
      | _ => .error .syn

def parseFnAttr (ts : Toks) : Except PErr FnAttr := parseFnSegs (splitCommas ts)

structure TraitAttr where
  implTrait : Option (Toks × String) := none
  opts : Opts := {}
  delegation : Option Delegate := none
  deriving DecidableEq, Repr, Inhabited

def TraitAttr.set (a : TraitAttr) : Opt → Option TraitAttr
  | .debug b => some { a with opts := { a.opts with debug := some b } }
  | .mockApi m => some { a with opts := { a.opts with mockApi := some m } }
  | .maybeSend => some { a with opts := { a.opts with futureSend := some false } }
  | .unimock b => some { a with opts := { a.opts with unimock := some b } }
  | .mockall b => some { a with opts := { a.opts with mockall := some b } }
  | .delegateBy d => some { a with delegation := some d }
  | .noDeps _ => none
  | .export_ _ => none

/-- `EntraitTraitAttr::parse`, on the comma-separated segments.  The delegation-target trait is
    recognised by the *failure* of option parsing at the start; after it a comma is optional. -/
def parseTraitSegs : List Toks → Except PErr TraitAttr
  | [] => .ok {}
  | seg0 :: segs =>
    match parseOpt seg0 with
    | .ok _ => parseOptSegs TraitAttr.set {} (seg0 :: segs)
    | .error _ =>
      match parseVis seg0 with
      | .error e => .error e
      | .ok (vis, rest) =>
        match rest with
        | .ident name :: rest0 =>
            if isKeyword name then .error .syn
            else
              let st : TraitAttr := { implTrait := some (vis, name) }
              let optSegs :=
                if !rest0.isEmpty then rest0 :: segs
                else if segs == [[]] then [] else segs
              parseOptSegs TraitAttr.set st optSegs
        | _ => .error .syn

def parseTraitAttr (ts : Toks) : Except PErr TraitAttr :=
  if ts.isEmpty then .ok {} else parseTraitSegs (splitCommas ts)

structure ImplAttr where
  dynRef : Bool := false
  opts : Opts := {}
  deriving DecidableEq, Repr, Inhabited

def ImplAttr.set (a : ImplAttr) : Opt → Option ImplAttr
  | .debug b => some { a with opts := { a.opts with debug := some b } }
  | _ => none

/-- an optional leading keyword -/
def stripKw (k : String) : Toks → Bool × Toks
  | .ident s :: rest => if s == k then (true, rest) else (false, .ident s :: rest)
  | ts => (false, ts)

def parseImplOpts (st : ImplAttr) (ts : Toks) : Except PErr ImplAttr :=
  if ts.isEmpty then .ok st else parseOptSegs ImplAttr.set st (splitCommas ts)

/-- `EntraitSimpleImplAttr::parse`: `ref`? `dyn`? then options (comma separated, no trailing comma). -/
def parseImplAttr (ts : Toks) : Except PErr ImplAttr :=
  let r := stripKw "ref" ts
  let d := stripKw "dyn" r.2
  parseImplOpts { dynRef := r.1 || d.1 } d.2

end Entrait
