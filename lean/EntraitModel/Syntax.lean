import EntraitModel.Tok
/-
  The part of syn's AST that entrait inspects, structured exactly where the macro looks and
  opaque (token lists) everywhere else, together with printers that model syn's `ToTokens`
  (including its normalisations: lifetimes printed first, `T:` with no bounds losing the colon,
  empty where clauses vanishing).
-/
namespace Entrait

/-- An outer attribute `#[inner]`. -/
structure Attr where
  inner : Toks
  deriving DecidableEq, Repr, Inhabited

/-- Last path segment of the attribute's meta path (`syn::Attribute::path().segments.last()`),
    computed at token level: optional leading `::`, then identifiers separated by `::`. -/
def pathLastSeg : Toks → Option String → Option String
  | .ident s :: .punct ':' :: .punct ':' :: rest, _ => pathLastSeg rest (some s)
  | .ident s :: _, _ => some s
  | _, acc => acc

def Attr.last (a : Attr) : Option String :=
  match a.inner with
  | .punct ':' :: .punct ':' :: rest => pathLastSeg rest none
  | ts => pathLastSeg ts none

def Attr.print (a : Attr) : Toks := [p '#', brackets a.inner]

def printAttrs (as : List Attr) : Toks := as.flatMap Attr.print

/-- Patterns.  Only `Pat::Ident` is structured; for every other pattern the encoder records the
    tokens and the names of the `PatIdent` nodes syn's visitor reaches (pre-order, not
    descending below a `PatIdent`). -/
inductive Pat
  | ident (byRef mut_ : Bool) (name : String) (sub : Option Toks)
  | other (toks : Toks) (bindings : List String)
  deriving DecidableEq, Repr, Inhabited

def Pat.print : Pat → Toks
  | .ident byRef mut_ name sub =>
      (if byRef then [i "ref"] else []) ++ (if mut_ then [i "mut"] else []) ++ [i name] ++
      (match sub with | some s => p '@' :: s | none => [])
  | .other toks _ => toks

/-- Join bounds with `+`, with an optional trailing `+`. -/
def printBounds (bs : List Toks) (trailing : Bool) : Toks :=
  joinSep [p '+'] bs ++ (if trailing && !bs.isEmpty then [p '+'] else [])

/-- Types, as far as `extract_deps_from_type` and `is_type_eq_ident` look into them. -/
inductive Ty
  | implTrait (bounds : List Toks) (trailing : Bool)
  | path (qself : Bool) (leadingColon : Bool) (nseg : Nat) (first : String) (toks : Toks)
  | ref_ (lifetime : Option String) (mut_ : Bool) (elem : Ty)
  | paren (elem : Ty)
  | other (toks : Toks)
  deriving DecidableEq, Repr, Inhabited

def Ty.print : Ty → Toks
  | .implTrait bs tr => i "impl" :: printBounds bs tr
  | .path _ _ _ _ toks => toks
  | .ref_ lt mut_ elem =>
      p '&' :: ((match lt with | some l => lifetimeToks l | none => []) ++
        (if mut_ then [i "mut"] else []) ++ elem.print)
  | .paren elem => [parens elem.print]
  | .other toks => toks

inductive GParam
  | ty (attrs : List Attr) (name : String) (bounds : List Toks) (btrail : Bool) (default : Option Toks)
  | lt (attrs : List Attr) (name : String) (bounds : List Toks) (btrail : Bool)
  | const_ (attrs : List Attr) (name : String) (ty : Toks) (default : Option Toks)
  deriving DecidableEq, Repr, Inhabited

def GParam.isLifetime : GParam → Bool
  | .lt .. => true
  | _ => false

def GParam.isType : GParam → Bool
  | .ty .. => true
  | _ => false

def GParam.name : GParam → String
  | .ty _ n _ _ _ => n
  | .lt _ n _ _ => n
  | .const_ _ n _ _ => n

/-- the parameter without its default (`T = u8` → `T`): defaults are not allowed in impl generics -/
def GParam.stripDefault : GParam → GParam
  | .ty a n bs bt _ => .ty a n bs bt none
  | .const_ a n t _ => .const_ a n t none
  | q => q

def GParam.print : GParam → Toks
  | .ty attrs name bounds btrail dflt =>
      printAttrs attrs ++ [i name] ++
      (if bounds.isEmpty then [] else p ':' :: printBounds bounds btrail) ++
      (match dflt with | some d => p '=' :: d | none => [])
  | .lt attrs name bounds btrail =>
      printAttrs attrs ++ lifetimeToks name ++
      (if bounds.isEmpty then [] else p ':' :: printBounds bounds btrail)
  | .const_ attrs name cty dflt =>
      printAttrs attrs ++ [i "const", i name, p ':'] ++ cty ++
      (match dflt with | some d => p '=' :: d | none => [])

/-- The generic argument naming a parameter (`ArgumentsGenerator`). -/
def GParam.argToks : GParam → Toks
  | .ty _ n _ _ _ => [i n]
  | .lt _ n _ _ => lifetimeToks n
  | .const_ _ n _ _ => [i n]

inductive WherePred
  | ty (lifetimes : Toks) (bounded : Ty) (bounds : List Toks) (btrail : Bool)
  | other (toks : Toks)
  deriving DecidableEq, Repr, Inhabited

def WherePred.print : WherePred → Toks
  | .ty lts bounded bounds btrail => lts ++ bounded.print ++ [p ':'] ++ printBounds bounds btrail
  | .other toks => toks

/-- `syn::Generics`.  `ptrail`/`wtrail`: the `Punctuated` ends with a comma. -/
structure Generics where
  params : List GParam := []
  ptrail : Bool := false
  preds : List WherePred := []
  wtrail : Bool := false
  deriving DecidableEq, Repr, Inhabited

def commaSep (xs : List Toks) (trailing : Bool) : Toks :=
  joinSep [p ','] xs ++ (if trailing && !xs.isEmpty then [p ','] else [])

/-- `Generics::to_tokens`: nothing when empty, lifetimes first. -/
def withCommaFlags {α : Type} : List α → Bool → List (α × Bool)
  | [], _ => []
  | [x], tr => [(x, tr)]
  | x :: y :: rest, tr => (x, true) :: withCommaFlags (y :: rest) tr

def printPair (q : GParam × Bool) : Toks := q.1.print ++ (if q.2 then [p ','] else [])

/-- second loop of `Generics::to_tokens`: a comma is inserted once if the lifetimes did not end in one -/
def printOthers : Bool → List (GParam × Bool) → Toks
  | _, [] => []
  | toe, q :: rest => (if toe then [] else [p ',']) ++ printPair q ++ printOthers true rest

def Generics.printParams (g : Generics) : Toks :=
  if g.params.isEmpty then []
  else
    let pairs := withCommaFlags g.params g.ptrail
    let lts := pairs.filter (fun q => q.1.isLifetime)
    let others := pairs.filter (fun q => !q.1.isLifetime)
    let toe := match lts.getLast? with | some q => q.2 | none => true
    [p '<'] ++ lts.flatMap printPair ++ printOthers toe others ++ [p '>']

def Generics.printWhere (g : Generics) : Toks :=
  if g.preds.isEmpty then []
  else i "where" :: commaSep (g.preds.map WherePred.print) g.wtrail

inductive FnArg
  | recv (attrs : List Attr) (ref_ : Option (Option String)) (mut_ : Bool) (colonTy : Option Toks)
  | typed (attrs : List Attr) (pat : Pat) (ty : Ty)
  deriving DecidableEq, Repr, Inhabited

def FnArg.isRecv : FnArg → Bool
  | .recv .. => true
  | _ => false

def FnArg.print : FnArg → Toks
  | .recv attrs ref_ mut_ colonTy =>
      printAttrs attrs ++
      (match ref_ with
        | some (some l) => p '&' :: lifetimeToks l
        | some none => [p '&']
        | none => []) ++
      (if mut_ then [i "mut"] else []) ++ [i "self"] ++
      (match colonTy with | some t => p ':' :: t | none => [])
  | .typed attrs pat ty => printAttrs attrs ++ pat.print ++ [p ':'] ++ ty.print

structure Sig where
  const_ : Bool := false
  async_ : Bool := false
  unsafe_ : Bool := false
  abi : Option Toks := none          -- `extern "C"` (all its tokens)
  ident : String
  generics : Generics := {}
  inputs : List FnArg := []
  itrail : Bool := false
  variadic : Option Toks := none
  output : Option Toks := none        -- the type after `->`
  deriving DecidableEq, Repr, Inhabited

def Sig.print (s : Sig) : Toks :=
  (if s.const_ then [i "const"] else []) ++
  (if s.async_ then [i "async"] else []) ++
  (if s.unsafe_ then [i "unsafe"] else []) ++
  (s.abi.getD []) ++
  [i "fn", i s.ident] ++ s.generics.printParams ++
  [parens (commaSep (s.inputs.map FnArg.print) s.itrail ++
    (match s.variadic with
     | some v => (if s.inputs.isEmpty || s.itrail then [] else [p ',']) ++ v
     | none => []))] ++
  (match s.output with | some t => arrow ++ t | none => []) ++
  s.generics.printWhere

/-- An `fn` item as entrait sees it (`InputFn`): the body is whatever tokens follow the signature. -/
structure FnItem where
  attrs : List Attr := []
  vis : Toks := []
  sig : Sig
  body : Toks := []
  deriving DecidableEq, Repr, Inhabited

def FnItem.print (f : FnItem) : Toks :=
  printAttrs f.attrs ++ f.vis ++ f.sig.print ++ f.body

/-- Method of a hand-written trait. -/
structure TraitFnItem where
  attrs : List Attr := []
  sig : Sig
  default : Option Toks := none       -- the `{ .. }` block
  semi : Bool := true
  deriving DecidableEq, Repr, Inhabited

inductive TraitMember
  | fn (f : TraitFnItem)
  | type_ (toks : Toks)
  | other (toks : Toks)
  deriving DecidableEq, Repr, Inhabited

def TraitMember.print : TraitMember → Toks
  | .fn f => printAttrs f.attrs ++ f.sig.print ++ (f.default.getD []) ++ (if f.semi then [p ';'] else [])
  | .type_ t => t
  | .other t => t

structure TraitItem where
  attrs : List Attr := []
  vis : Toks := []
  unsafe_ : Bool := false
  auto_ : Bool := false
  ident : String
  generics : Generics := {}
  colon : Bool := false
  supertraits : List Toks := []
  strail : Bool := false
  members : List TraitMember := []
  deriving DecidableEq, Repr, Inhabited

def TraitMember.fn? : TraitMember → Option TraitFnItem
  | .fn f => some f
  | _ => none

/-- the methods of a trait, in source order -/
def TraitMember.isOther : TraitMember → Bool
  | .other _ => true
  | _ => false

def TraitItem.fns (t : TraitItem) : List TraitFnItem := t.members.filterMap TraitMember.fn?

def TraitItem.print (t : TraitItem) : Toks :=
  printAttrs t.attrs ++ t.vis ++
  (if t.unsafe_ then [i "unsafe"] else []) ++ (if t.auto_ then [i "auto"] else []) ++
  [i "trait", i t.ident] ++ t.generics.printParams ++
  (if t.colon || !t.supertraits.isEmpty then p ':' :: printBounds t.supertraits t.strail else []) ++
  t.generics.printWhere ++ [braces (t.members.flatMap TraitMember.print)]

/-- Result of `syn::Signature` parsing at a position of a module / impl body:
    number of top-level token trees consumed and the parsed signature. -/
structure SigOracleEntry where
  remaining : Nat          -- length of the body suffix that starts at the position
  consumed : Nat
  sig : Sig
  deriving DecidableEq, Repr, Inhabited

abbrev SigOracle := List SigOracleEntry

def SigOracle.at (o : SigOracle) (remaining : Nat) : Option (Nat × Sig) :=
  match o.find? (fun e => e.remaining == remaining) with
  | some e => some (e.consumed, e.sig)
  | none => none

structure ModItemIn where
  attrs : List Attr := []
  vis : Toks := []
  unsafe_ : Bool := false
  ident : String
  body : Toks := []
  oracle : SigOracle := []
  deriving DecidableEq, Repr, Inhabited

def ModItemIn.print (m : ModItemIn) : Toks :=
  printAttrs m.attrs ++ m.vis ++ (if m.unsafe_ then [i "unsafe"] else []) ++ [i "mod", i m.ident, braces m.body]

structure ImplItemIn where
  attrs : List Attr := []
  unsafe_ : Bool := false
  traitPath : Toks
  selfTy : Toks
  body : Toks := []
  oracle : SigOracle := []
  deriving DecidableEq, Repr, Inhabited

def ImplItemIn.print (m : ImplItemIn) : Toks :=
  printAttrs m.attrs ++ (if m.unsafe_ then [i "unsafe"] else []) ++
  [i "impl"] ++ m.traitPath ++ [i "for"] ++ m.selfTy ++ [braces m.body]

inductive Item
  | fn (f : FnItem)
  | mod_ (m : ModItemIn)
  | trait (t : TraitItem)
  | impl (m : ImplItemIn)
  deriving DecidableEq, Repr, Inhabited

def Item.print : Item → Toks
  | .fn f => f.print
  | .mod_ m => m.print
  | .trait t => t.print
  | .impl m => m.print

end Entrait
